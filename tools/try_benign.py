#!/usr/bin/env python3
"""try_benign.py <worktree> <dir-with-Rxx.diff>: applies each behaviour-preserving refactoring to the
scratch worktree, runs every rule once (pseudo-property ALL, quick tier) against it and prints the
obligations that are not discharged (each one is a false alarm to be fixed in the rule)."""
import sys, subprocess, glob, os, re
wt, d = sys.argv[1], sys.argv[2]
def sh(*a, **k): return subprocess.run(a, capture_output=True, text=True, **k)
sh("git", "-C", wt, "checkout", "-q", "--", "."); sh("git", "-C", wt, "clean", "-fdq")
def alarms():
    out = sh("/verif/bin/hpcheck", "-repo", wt, "-verif", "/var/tmp/vtest", "-property", "ALL", "-tier", "quick")
    return [l for l in out.stdout.splitlines() if re.search(r"\[[\w@]+ (violated|undecided)\]", l) or l.startswith("BROKEN")]
norm = lambda l: re.sub(r"^\S*: ", "", l)[:150]
base = set(norm(l) for l in alarms())
print("base alarms on the clean worktree:", len(base))
for diff in sorted(glob.glob(os.path.join(d, "R*.diff"))):
    r = sh("git", "-C", wt, "apply", diff)
    if r.returncode != 0:
        print(os.path.basename(diff), "DOES NOT APPLY:", r.stderr.strip()[:200]); continue
    bad = [l for l in alarms() if norm(l) not in base]
    print(os.path.basename(diff), "silent" if not bad else "ALARMS %d" % len(bad))
    for l in bad: print("    ", l[:400])
    sh("git", "-C", wt, "checkout", "-q", "--", "."); sh("git", "-C", wt, "clean", "-fdq")
