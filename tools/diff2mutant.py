#!/usr/bin/env python3
"""diff2mutant.py <diff> : prints the corpus `edits` (one per hunk: old = context + removed lines, new = context + added
lines) for a unified diff, so that an independently seeded change can be kept as an in-memory mutant of the corpus."""
import sys, re, json
def edits_of(path):
    edits = []; cur = None; f = None
    for line in open(path).read().split("\n"):
        if line.startswith("+++ b/"):
            f = line[6:].strip(); continue
        if line.startswith("--- ") or line.startswith("diff ") or line.startswith("index "):
            continue
        if line.startswith("@@"):
            cur = {"file": f, "old": "", "new": ""}; edits.append(cur); continue
        if cur is None: continue
        if line.startswith("\\"): continue
        if line.startswith("-"): cur["old"] += line[1:] + "\n"
        elif line.startswith("+"): cur["new"] += line[1:] + "\n"
        elif line.startswith(" ") or line == "":
            t = line[1:] if line.startswith(" ") else ""
            cur["old"] += t + "\n"; cur["new"] += t + "\n"
    # the split on "\n" leaves one empty trailing element per file end: drop a trailing blank context line of the last hunk
    for e in edits:
        while e["old"].endswith("\n\n") and e["new"].endswith("\n\n") and False:
            pass
    if edits:
        e = edits[-1]
        if e["old"].endswith("\n") and e["new"].endswith("\n"):
            e["old"] = e["old"][:-1]; e["new"] = e["new"][:-1]
    return edits
if __name__ == "__main__":
    print(json.dumps(edits_of(sys.argv[1]), indent=1))
