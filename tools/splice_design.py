#!/usr/bin/env python3
"""splice_design.py: regenerates the generated tables of DESIGN.md Part I in place (I.3 rule catalogue,
I.4 rules/obligation columns, I.5 findings, I.6 seeds); the prose around the tables is left alone."""
import json, subprocess, glob, re
P = "/verif/DESIGN.md"
lines = open(P).read().split("\n")
def table_span(header_prefix):
    h = next(i for i, l in enumerate(lines) if l.startswith(header_prefix))
    s = next(i for i in range(h + 1, len(lines)) if lines[i].startswith("|"))
    e = s
    while e < len(lines) and lines[e].startswith("|"):
        e += 1
    return s, e
def replace(header_prefix, new_rows):
    s, e = table_span(header_prefix)
    lines[s:e] = new_rows
rules = json.loads(subprocess.run(["/verif/bin/hpcheck", "-rules"], capture_output=True, text=True).stdout)
rows = ["| rule | serves | floor | what the rule decides |", "|------|--------|-------|------------------------|"]
for r in rules:
    rows.append(f"| {r['Rule']} | {' '.join(r['Props'] or [])} | {r['Floor']} | {r['Doc']} |")
replace("## I.3 ", rows)
# I.4: keep the last column, regenerate the others
s, e = table_span("## I.4 ")
serve = {}
for l in subprocess.run(["/verif/bin/hpcheck", "-list"], capture_output=True, text=True).stdout.splitlines():
    m = re.match(r"^(C\d\d)\s*:?\s+(.*)$", l.strip())
    if m: serve[m.group(1)] = m.group(2).strip()
new = lines[s:s + 2]
for l in lines[s + 2:e]:
    cells = [c.strip() for c in l.strip().strip("|").split("|")]
    pid = cells[0]
    try:
        ev = json.load(open(f"/verif/evidence/{pid}.json"))
        n = ev["coverage"].get("obligations", cells[2])
    except Exception:
        n = cells[2]
    new.append(f"| {pid} | {serve.get(pid, cells[1])} | {n} | {cells[3]} |")
lines[s:e] = new
k = json.load(open("/verif/known_findings.json"))["findings"]
rows = ["| status | property | rule | construct (key) | what fails |", "|--------|----------|------|-----------------|-----------|"]
for f in sorted(k, key=lambda f: (f["status"], f["property"], f["rule"])):
    st = f["status"] + (" " + f.get("commit", "") if f["status"] == "fixed" else "")
    rows.append(f"| {st} | {f['property']} | {f['rule']} | `{f['key']}` | {f['what']} |")
replace("## I.5 ", rows)
rows = ["| seed | property | files | needs to manifest | caught by | note |", "|------|----------|-------|-------------------|-----------|------|"]
for d in sorted(glob.glob("/verif/seeded/*/meta.json")):
    m = json.load(open(d))
    hits = sorted(set(re.search(r"\[([\w@]+) ", h).group(1) for h in m["detection"]["reports"] if re.search(r"\[([\w@]+) ", h)))
    rows.append(f"| {m['id']} | {m['property']} | {', '.join(m['files'])} | {m['needs_to_manifest']} | {' '.join(hits) if m['detected'] else 'no new report'} | {m.get('note','')} |")
replace("## I.6 ", rows)
open(P, "w").write("\n".join(lines))
print("rules", len(rules), "findings", len(k), "seeds", len(glob.glob('/verif/seeded/*/meta.json')))
