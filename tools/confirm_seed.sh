#!/bin/sh
# usage: confirm_seed.sh <worktree> <diff> <demo_test.go> <pkgdir> <run-pattern>
# Confirms a seeded change independently: builds, existing tests of the package pass with it,
# the demonstration fails with it and passes without it. Prints one summary line.
wt=$1; diff=$2; demo=$3; pkg=$4; pat=$5
export GOFLAGS=-mod=mod GOPROXY=off GOSUMDB=off GOTOOLCHAIN=local; unset GOWORK
cd $wt || exit 2
git checkout -q -- . && git clean -fdq
git apply $diff || { echo "APPLY FAILED"; exit 2; }
go build ./... || { echo "BUILD FAILED"; git checkout -q -- .; exit 2; }
t1=$(unshare -rn sh -c "ip link set lo up; go test -p 1 -vet=off -count=1 ./$pkg/ 2>&1" | tail -1)
cp $demo $pkg/zz_seed_demo_test.go
t2=$(unshare -rn sh -c "ip link set lo up; go test -vet=off -count=1 -run '$pat' ./$pkg/ 2>&1" | grep -c '^--- FAIL\|^FAIL\|panic:')
git checkout -q -- .
t3=$(unshare -rn sh -c "ip link set lo up; go test -vet=off -count=1 -run '$pat' ./$pkg/ 2>&1" | tail -1)
git clean -fdq
echo "with-change suite: [$t1] | demo failures with change: $t2 | demo on clean tree: [$t3]"
