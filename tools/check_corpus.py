#!/usr/bin/env python3
"""check_corpus.py: every anchor text of every corpus entry (mutants/*.json) must occur exactly once in
the file it edits on the current /repo tree. Run after every change to /repo: an entry whose anchor has
disappeared is silently skipped by the thorough tier (that is what lets the checks survive legitimate
edits), so a repair in /repo that moves an anchor has to be followed by re-anchoring the entry."""
import json, glob, os, sys
repo = sys.argv[1] if len(sys.argv) > 1 else "/repo"
bad = 0; n = 0
for p in sorted(glob.glob("/verif/mutants/*.json")):
    for m in json.load(open(p)):
        n += 1
        eds = ([{"file": m["file"], "old": m["old"]}] if m.get("file") else []) + (m.get("edits") or [])
        if not eds:
            print(os.path.basename(p), m["id"], "has no edit"); bad += 1
        srcs = {}
        for e in eds:
            src = srcs.get(e["file"]) or open(os.path.join(repo, e["file"])).read()
            c = src.count(e["old"])
            if c != 1:
                print(os.path.basename(p), m["id"], e["file"], "anchor occurs", c, "times:", repr(e["old"][:80])); bad += 1
            srcs[e["file"]] = src.replace(e["old"], e.get("new", ""), 1) if "new" in e else src
print(n, "entries,", bad, "bad anchors")
sys.exit(1 if bad else 0)
