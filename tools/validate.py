#!/usr/bin/env python3
import json, sys, glob, jsonschema
jsonschema.validate(json.load(open('/verif/MANIFEST.json')), json.load(open('/root/.vp/MANIFEST.schema.json')))
print('manifest ok')
s = json.load(open('/root/.vp/EVIDENCE.schema.json'))
m = json.load(open('/verif/MANIFEST.json'))
for c in m['checks']:
    try:
        jsonschema.validate(json.load(open(c['evidence_file'])), s)
        print(c['property_id'], 'evidence ok')
    except Exception as e:
        print(c['property_id'], 'EVIDENCE PROBLEM', str(e)[:200])
