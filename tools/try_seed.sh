#!/bin/sh
# usage: try_seed.sh <worktree> <diff> <property>...   (applies the diff in the scratch worktree, runs the checks against it, reverts)
wt=$1; diff=$2; shift 2
git -C $wt checkout -q -- . && git -C $wt clean -fdq
git -C $wt apply $diff || { echo "APPLY FAILED"; exit 2; }
for p in "$@"; do
  /verif/bin/hpcheck -repo $wt -verif /var/tmp/vtest -property $p -tier quick > /var/tmp/vtest/out.$p.txt 2>&1
  echo "== $p exit=$? : $(grep -c '^VIOLATION' /var/tmp/vtest/out.$p.txt) violations"
  grep -v '^VIOLATION\|^      ' /var/tmp/vtest/out.$p.txt | grep 'violated\|undecided' | cut -c1-260
done
git -C $wt checkout -q -- . && git -C $wt clean -fdq
