#!/usr/bin/env python3
"""Regenerates /verif/MANIFEST.json from the table below (kept in one place so that the claimed
properties, their rules and the not_applicable list never drift apart)."""
import json, subprocess, sys
ids = [json.loads(l)["id"] for l in open("/verif/properties.jsonl")]

# property -> (technique, level text, level note)
CLAIMS = {}
def claim(pid, technique, text, note, ref):
    CLAIMS[pid] = dict(technique=technique, text=text, note=note, ref=ref)

exec(open("/verif/tools/claims.py").read())

HP = "/verif/bin/hpcheck"
setup = ("cd /verif/checker && env -u GOWORK GOFLAGS=-mod=mod GOPROXY=off GOSUMDB=off GOTOOLCHAIN=local "
         "go build -o /verif/bin/hpcheck .")
checks = []
for pid in ids:
    if pid not in CLAIMS:
        continue
    c = CLAIMS[pid]
    checks.append({
        "property_id": pid,
        "quick_cmd": f"{HP} -property {pid} -tier quick",
        "thorough_cmd": f"{HP} -property {pid} -tier thorough",
        "evidence_file": f"/verif/evidence/{pid}.json",
        "replay_cmd_template": HP + " -replay {path}",
        "engine": "hpcheck",
        "level_claimed": {"category": "other", "text": c["text"], "design_ref": c["ref"]},
        "level_note": c["note"],
        "technique": c["technique"],
    })
na = []
NA = {}
exec(open("/verif/tools/not_applicable.py").read())
for pid in ids:
    if pid not in CLAIMS:
        na.append({"property_id": pid, "reason": NA.get(pid, "check not built yet (see DESIGN.md for the planned structural clauses)")})
m = {
 "version": 1,
 "setup_cmd": setup,
 "hooks": {"guard": "verif", "enable": "none needed: the checks analyse /repo's source statically and never build it with hooks",
           "baseline_off_cmd": "cd /repo && go test -mod=mod -vet=off -count=1 -timeout 25m ./...",
           "source_commits": [], "add_only": True},
 "engines": [{"name": "hpcheck", "path": "/verif/checker", "serves_properties": sorted(CLAIMS),
              "kind_free_text": "repository-specific static analyser (go/packages + go/types typed AST, structured path interpreter, go/ssa call graph); no code under /repo is executed"}],
 "checks": checks,
 "notes": "Static analysis only. Every check re-parses and type-checks /repo's current working tree. All claims are at level 'other': each decides named structural necessary conditions of its property (DESIGN.md section 4), never the behaviour as a whole. fix: commits in /repo repair genuine defects the checks found (listed as fixed in /verif/known_findings.json). Three genuine defects (30 constructs) are recorded there as status known instead of being repaired (C15-C20 G38: handlers identified by code pointer in Unuse, printed by the check of every plugin property; C10 L13: connect under the pool lock in three transports; C06 T15: wire integers narrowed, sign-changed, accumulated and truncated without a range test at 23 sites, 26 under GOARCH=386 - the existing suite asserts the wrap-around, so no repair can pass it unedited): the checks print KNOWN-FINDING lines for exactly those constructs and exit 0; any other violation of the same rules is a VIOLATION.",
 "not_applicable": na,
}
json.dump(m, open("/verif/MANIFEST.json", "w"), indent=1)
print("claimed:", sorted(CLAIMS), "not applicable:", [x["property_id"] for x in na])
