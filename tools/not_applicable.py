# reasons for properties that are not claimed (kept current)
NA = {}
