# reasons for properties that are not claimed (kept current)
NA = {
 "C04": "the planned value-flow rule W1 (every wire-controlled integer reaching an index, allocation or loop bound passes a two-sided guard) needs the go/ssa taint engine of DESIGN.md section 2 (Engine B), which is not built yet; the clauses that are decided elsewhere (T5 error defaults under C06, R2/R3 containment of decode panics under C11) do not by themselves bound time, memory or panics of the decoder, which quantify over runtime values",
}
