#!/usr/bin/env python3
"""recheck_seeds.py [ids...]: re-runs every stored seed against the CURRENT checker: in a scratch
worktree at the seed's base commit, the property's quick check without and with the patch; a seed
is detected when the patch adds at least one report. Prints the seeds that are no longer detected. With --update the detection result is written back to meta.json."""
import sys, subprocess, glob, os, re, json
def sh(*a, **k): return subprocess.run(a, capture_output=True, text=True, **k)
wt = os.environ.get("RS_WT", "/tmp/seed/RS")
if not os.path.isdir(wt):
    sh("git", "-C", "/repo", "worktree", "add", "-q", "--detach", wt, "HEAD")
update = "--update" in sys.argv
want = set(a for a in sys.argv[1:] if a != "--update")
def alarms(prop):
    out = sh("/verif/bin/hpcheck", "-repo", wt, "-verif", "/var/tmp/vtest", "-property", prop, "-tier", "quick")
    return set(re.sub(r"^\S*: ", "", l)[:160] for l in out.stdout.splitlines() if re.search(r"\[[\w@]+ (violated|undecided)\]", l) or l.startswith("BROKEN"))
missed = []
cache = {}
for mf in sorted(glob.glob("/verif/seeded/*/meta.json")):
    m = json.load(open(mf))
    sid = m["id"]
    if want and sid not in want: continue
    d = os.path.dirname(mf)
    sh("git", "-C", wt, "checkout", "-q", "--", "."); sh("git", "-C", wt, "clean", "-fdq")
    base_commit = m.get("base_commit")
    if not base_commit:
        # early seeds did not record their base: the newest commit on which the patch applies
        for c in sh("git", "-C", "/repo", "log", "--format=%h").stdout.split():
            sh("git", "-C", wt, "checkout", "-q", "--detach", c)
            if sh("git", "-C", wt, "apply", "--check", os.path.join(d, "patch.diff")).returncode == 0:
                base_commit = c; break
        if not base_commit:
            print(sid, "no commit found on which the patch applies"); continue
    r = sh("git", "-C", wt, "checkout", "-q", "--detach", base_commit)
    if r.returncode != 0:
        print(sid, "cannot check out base", base_commit, r.stderr[:100]); continue
    key = (base_commit, m["property"])
    if key not in cache: cache[key] = alarms(m["property"])
    base = cache[key]
    r = sh("git", "-C", wt, "apply", os.path.join(d, "patch.diff"))
    if r.returncode != 0:
        print(sid, "patch does not apply on its base:", r.stderr[:100]); continue
    new = alarms(m["property"]) - base
    rules = sorted(set(re.search(r"\[([\w@]+) ", x).group(1) for x in new if re.search(r"\[([\w@]+) ", x)))
    print(sid, "detected" if new else "MISSED", rules, "(base %d)" % len(base), flush=True)
    if not new: missed.append(sid)
    if update:
        m["detected"] = bool(new)
        m.setdefault("detection", {})["reports"] = sorted(x[:300] for x in new)
        m["detection"]["exit"] = 1 if new else 0
        json.dump(m, open(mf, "w"), indent=1)
sh("git", "-C", wt, "checkout", "-q", "--", "."); sh("git", "-C", wt, "clean", "-fdq")
print("MISSED:", missed)
