#!/usr/bin/env python3
"""Prints the generated tables of DESIGN.md Part I (rule catalogue, findings, seeds)."""
import json, subprocess, glob, os
rules = json.loads(subprocess.run(["/verif/bin/hpcheck", "-rules"], capture_output=True, text=True).stdout)
print("### I.3 Rule catalogue as built (generated from the checker: `hpcheck -rules`)\n")
print("| rule | serves | floor | what the rule decides |")
print("|------|--------|-------|------------------------|")
for r in rules:
    print(f"| {r['Rule']} | {' '.join(r['Props'] or [])} | {r['Floor']} | {r['Doc']} |")
k = json.load(open("/verif/known_findings.json"))["findings"]
print("\n### I.5 Genuine defects found by the checks (generated from known_findings.json)\n")
print("| status | property | rule | construct (key) | what fails |")
print("|--------|----------|------|-----------------|-----------|")
for f in sorted(k, key=lambda f: (f["status"], f["property"], f["rule"])):
    st = f["status"] + (" " + f.get("commit", "") if f["status"] == "fixed" else "")
    print(f"| {st} | {f['property']} | {f['rule']} | `{f['key']}` | {f['what']} |")
print("\n### I.6 Independently seeded changes and the checks that catch them (generated from seeded/*/meta.json)\n")
print("| seed | property | files | needs to manifest | caught by | note |")
print("|------|----------|-------|-------------------|-----------|------|")
import re
for d in sorted(glob.glob("/verif/seeded/*/meta.json")):
    m = json.load(open(d))
    hits = sorted(set(re.search(r"\[([\w@]+) ", h).group(1) for h in m["detection"]["reports"] if re.search(r"\[([\w@]+) ", h)))
    print(f"| {m['id']} | {m['property']} | {', '.join(m['files'])} | {m['needs_to_manifest']} | {' '.join(hits) if m['detected'] else 'no new report'} | {m.get('note','')} |")
