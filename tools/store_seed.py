#!/usr/bin/env python3
"""store_seed.py <id> <property> <worktree> <diff> <demo> <pkgdir> <pattern> <needs...>
Copies a confirmed seeded change into /verif/seeded/<id>/ and records which checks catch it."""
import sys, os, shutil, subprocess, json, re
sid, prop, wt, diff, demo, pkg, pat = sys.argv[1:8]
needs = " ".join(sys.argv[8:])
d = f"/verif/seeded/{sid}"
os.makedirs(d, exist_ok=True)
shutil.copy(diff, f"{d}/patch.diff")
shutil.copy(demo, f"{d}/{os.path.basename(demo)}")
conf = subprocess.run(["/verif/tools/confirm_seed.sh", wt, diff, demo, pkg, pat], capture_output=True, text=True).stdout.strip().splitlines()[-1]
# detection: run the property's check against the worktree without and with the patch applied
subprocess.run(["git", "-C", wt, "checkout", "-q", "--", "."]); subprocess.run(["git", "-C", wt, "clean", "-fdq"])
base = subprocess.run(["/verif/bin/hpcheck", "-repo", wt, "-verif", "/var/tmp/vtest", "-property", prop, "-tier", "quick"], capture_output=True, text=True)
base_hits = set(re.sub(r"^\S+: ", "", l)[:160] for l in base.stdout.splitlines() if re.search(r"\[[\w@]+ (violated|undecided)\]", l))
base_commit = subprocess.run(["git", "-C", wt, "rev-parse", "--short", "HEAD"], capture_output=True, text=True).stdout.strip()
subprocess.run(["git", "-C", wt, "apply", diff], check=True)
out = subprocess.run(["/verif/bin/hpcheck", "-repo", wt, "-verif", "/var/tmp/vtest", "-property", prop, "-tier", "quick"], capture_output=True, text=True)
subprocess.run(["git", "-C", wt, "checkout", "-q", "--", "."]); subprocess.run(["git", "-C", wt, "clean", "-fdq"])
hits = [l for l in out.stdout.splitlines() if re.search(r"\[[\w@]+ (violated|undecided)\]", l) and re.sub(r"^\S+: ", "", l)[:160] not in base_hits]
meta = {
  "id": sid, "property": prop, "base_commit": base_commit,
  "needs_to_manifest": needs,
  "files": sorted(set(re.findall(r"^\+\+\+ b/(\S+)", open(diff).read(), re.M))),
  "confirmation": {"command": f"tools/confirm_seed.sh {wt} patch.diff {os.path.basename(demo)} {pkg} '{pat}'", "result": conf,
                   "meaning": "existing package tests pass with the change; the demonstration fails with it and passes on the clean tree (run in a private network namespace)"},
  "detection": {"command": f"hpcheck -property {prop} -tier quick (tree with patch applied)", "exit": out.returncode,
                "reports": [h[:300] for h in hits]},
  "detected": len(hits) > 0,
  "reports_already_present_on_base": sorted(base_hits),
}
json.dump(meta, open(f"{d}/meta.json", "w"), indent=1)
print(sid, "detected" if meta["detected"] else "MISSED", "(base had %d reports)" % len(base_hits), [re.search(r"\[([\w@]+) ", h).group(1) for h in hits])
