package main

import (
	"fmt"
	"go/ast"
	"go/token"
	"go/types"

	"golang.org/x/tools/go/packages"
)

// T6 body-writer loop shape: the specialised map/slice body writers emit every key, value
// and element exactly once, in order, and frame every nested row.

func init() {
	register("T6", "each specialised map body writer is one range loop emitting the range key then the range value exactly once; each slice body writer is one counted loop 0..n emitting slice[i] exactly once; each 2-D writer frames every row with WriteListHead(len(row)) .. WriteFoot()", 240, ruleT6)
}

func (p *Prog) isEncoderRecv(pkg *packages.Package, fd *ast.FuncDecl) (types.Object, bool) {
	if fd.Recv == nil || len(fd.Recv.List) != 1 {
		return nil, false
	}
	t := pkg.TypesInfo.TypeOf(fd.Recv.List[0].Type)
	if t == nil || !isNamed(t, p.ModPath+"/io", "Encoder") {
		return nil, false
	}
	if len(fd.Recv.List[0].Names) == 0 {
		return nil, true
	}
	return pkg.TypesInfo.Defs[fd.Recv.List[0].Names[0]], true
}

func identObj(info *types.Info, e ast.Expr) types.Object {
	if id, ok := ast.Unparen(e).(*ast.Ident); ok {
		if o := info.Uses[id]; o != nil {
			return o
		}
		return info.Defs[id]
	}
	return nil
}

// recvCall: statement is `recv.M(args...)`; returns method name and args.
func recvCall(info *types.Info, s ast.Stmt, recv types.Object) (string, []ast.Expr, bool) {
	es, ok := s.(*ast.ExprStmt)
	if !ok {
		return "", nil, false
	}
	call, ok := es.X.(*ast.CallExpr)
	if !ok {
		return "", nil, false
	}
	se, ok := call.Fun.(*ast.SelectorExpr)
	if !ok || identObj(info, se.X) != recv {
		return "", nil, false
	}
	return se.Sel.Name, call.Args, true
}

// canonical counted loop `for i := 0; i < n; i++`; returns i and n objects
func countedLoop(info *types.Info, fs *ast.ForStmt) (iv, nv types.Object, ok bool) {
	as, ok1 := fs.Init.(*ast.AssignStmt)
	if !ok1 || as.Tok != token.DEFINE || len(as.Lhs) != 1 || len(as.Rhs) != 1 {
		return nil, nil, false
	}
	if v, ok := intConst(info, as.Rhs[0]); !ok || v != 0 {
		return nil, nil, false
	}
	iv = identObj(info, as.Lhs[0])
	be, ok2 := fs.Cond.(*ast.BinaryExpr)
	if !ok2 || be.Op != token.LSS || identObj(info, be.X) != iv {
		return nil, nil, false
	}
	nv = identObj(info, be.Y)
	inc, ok3 := fs.Post.(*ast.IncDecStmt)
	if !ok3 || inc.Tok != token.INC || identObj(info, inc.X) != iv || nv == nil {
		return nil, nil, false
	}
	return iv, nv, true
}

func isIndexOf(info *types.Info, e ast.Expr, slice, idx types.Object) bool {
	ie, ok := ast.Unparen(e).(*ast.IndexExpr)
	return ok && identObj(info, ie.X) == slice && identObj(info, ie.Index) == idx
}

func ruleT6(r *Run) {
	p := r.P
	pkg := p.Pkg("io")
	if pkg == nil {
		r.Undec("package io", 0, "not found")
		return
	}
	info := pkg.TypesInfo
	nMap, nSlice, n2d := 0, 0, 0
	for _, f := range pkg.Syntax {
		for _, d := range f.Decls {
			fd, ok := d.(*ast.FuncDecl)
			if !ok || fd.Body == nil {
				continue
			}
			recv, ok := p.isEncoderRecv(pkg, fd)
			if !ok {
				continue
			}
			params := paramsOf(info, fd.Type)
			name := p.DeclName(fd)
			// ---- map body writers: exactly one parameter of concrete map type, no results
			if len(params) == 1 && params[0] != nil && fd.Type.Results == nil {
				if _, isMap := params[0].Type().Underlying().(*types.Map); isMap {
					nMap++
					key := "map body " + name
					if len(fd.Body.List) != 1 {
						r.Undec(key, fd.Pos(), "body is not a single range loop")
						continue
					}
					rs, ok := fd.Body.List[0].(*ast.RangeStmt)
					if !ok || identObj(info, rs.X) != params[0] || rs.Key == nil || rs.Value == nil || rs.Tok != token.DEFINE {
						r.Undec(key, fd.Pos(), "body is not `for k, v := range <param>`")
						continue
					}
					kv, vv := identObj(info, rs.Key), identObj(info, rs.Value)
					var seq []string
					bad := ""
					for _, s := range rs.Body.List {
						m, args, ok := recvCall(info, s, recv)
						if !ok || len(args) != 1 {
							bad = "unrecognised statement in loop body"
							break
						}
						switch identObj(info, args[0]) {
						case kv:
							seq = append(seq, "K:"+m)
						case vv:
							seq = append(seq, "V:"+m)
						default:
							bad = "emission of something other than the plain range key/value: " + types.ExprString(args[0])
						}
					}
					if bad != "" {
						r.Undec(key, rs.Pos(), bad)
						continue
					}
					if len(seq) == 2 && seq[0][0] == 'K' && seq[1][0] == 'V' {
						r.Ok(key, rs.Pos(), fmt.Sprint(seq))
					} else {
						r.Viol(key, rs.Pos(), fmt.Sprintf("loop body emits %v; a map entry must be written as exactly key then value (dropped, duplicated or swapped emissions desynchronise the stream or swap data when K and V have the same type)", seq))
					}
					continue
				}
			}
			// ---- slice body writers: (slice []T, n int)
			if len(params) == 2 && params[0] != nil && params[1] != nil && fd.Type.Results == nil {
				st, isSlice := params[0].Type().Underlying().(*types.Slice)
				if !isSlice {
					continue
				}
				if b, ok := params[1].Type().Underlying().(*types.Basic); !ok || b.Kind() != types.Int {
					continue
				}
				inner, is2d := st.Elem().Underlying().(*types.Slice)
				isBytesRows := is2d && types.Identical(inner.Elem(), types.Typ[types.Uint8])
				stmts := fd.Body.List
				if is2d && !isBytesRows {
					n2d++
					key := "2-D slice body " + name
					// optional leading AddReferenceCount(n)
					if len(stmts) == 2 {
						if m, args, ok := recvCall(info, stmts[0], recv); ok && m == "AddReferenceCount" && len(args) == 1 && identObj(info, args[0]) == params[1] {
							stmts = stmts[1:]
						}
					}
					if len(stmts) != 1 {
						r.Undec(key, fd.Pos(), "body is not [AddReferenceCount(n);] for-loop")
						continue
					}
					fs, ok := stmts[0].(*ast.ForStmt)
					if !ok {
						r.Undec(key, fd.Pos(), "no for loop")
						continue
					}
					iv, nv, ok := countedLoop(info, fs)
					if !ok || nv != params[1] {
						r.Viol(key, fs.Pos(), "loop is not the canonical `for i := 0; i < n; i++` over the count parameter: rows are skipped or read out of range")
						continue
					}
					// events
					var ev []string
					var mObj types.Object
					bad := ""
					for _, s := range fs.Body.List {
						if as, ok := s.(*ast.AssignStmt); ok && as.Tok == token.DEFINE && len(as.Lhs) == 1 && len(as.Rhs) == 1 {
							if call, ok := as.Rhs[0].(*ast.CallExpr); ok && IsBuiltin(info, call, "len") && isIndexOf(info, call.Args[0], params[0], iv) {
								mObj = identObj(info, as.Lhs[0])
								continue
							}
							bad = "unrecognised assignment"
							break
						}
						m, args, ok := recvCall(info, s, recv)
						if !ok {
							bad = "unrecognised statement"
							break
						}
						switch {
						case m == "AddReferenceCount":
							ev = append(ev, "REF")
						case m == "WriteListHead" && len(args) == 1 && mObj != nil && identObj(info, args[0]) == mObj:
							ev = append(ev, "HEAD(len(row))")
						case m == "WriteListHead":
							ev = append(ev, "HEAD(?)")
						case m == "WriteFoot":
							ev = append(ev, "FOOT")
						case len(args) == 2 && isIndexOf(info, args[0], params[0], iv) && mObj != nil && identObj(info, args[1]) == mObj:
							ev = append(ev, "BODY(row,len(row))")
						default:
							ev = append(ev, "OTHER:"+m)
						}
					}
					if bad != "" {
						r.Undec(key, fs.Pos(), bad)
						continue
					}
					var core []string
					for _, e := range ev {
						if e != "REF" {
							core = append(core, e)
						}
					}
					if len(core) == 3 && core[0] == "HEAD(len(row))" && core[1] == "BODY(row,len(row))" && core[2] == "FOOT" {
						r.Ok(key, fs.Pos(), fmt.Sprint(ev))
					} else {
						r.Viol(key, fs.Pos(), fmt.Sprintf("row framing is %v, expected HEAD(len(row)) BODY(row,len(row)) FOOT", ev))
					}
					continue
				}
				nSlice++
				key := "slice body " + name
				// optional leading AddReferenceCount(n)
				if len(stmts) == 2 {
					if m, _, ok := recvCall(info, stmts[0], recv); ok && m == "AddReferenceCount" {
						stmts = stmts[1:]
					}
				}
				if len(stmts) != 1 {
					r.Undec(key, fd.Pos(), "body is not a single for loop")
					continue
				}
				fs, ok := stmts[0].(*ast.ForStmt)
				if !ok {
					r.Undec(key, fd.Pos(), "no for loop")
					continue
				}
				iv, nv, ok := countedLoop(info, fs)
				if !ok || nv != params[1] {
					r.Viol(key, fs.Pos(), "loop is not the canonical `for i := 0; i < n; i++` over the count parameter: elements are skipped or read out of range")
					continue
				}
				emits, other := 0, 0
				for _, s := range fs.Body.List {
					if _, args, ok := recvCall(info, s, recv); ok && len(args) == 1 && isIndexOf(info, args[0], params[0], iv) {
						emits++
						continue
					}
					// enc.buf = appendBytes(enc.buf, slice[i])
					if as, ok := s.(*ast.AssignStmt); ok && len(as.Rhs) == 1 {
						if call, ok := as.Rhs[0].(*ast.CallExpr); ok && len(call.Args) == 2 && isIndexOf(info, call.Args[1], params[0], iv) {
							emits++
							continue
						}
					}
					// accounting only: if <cond> { enc.AddReferenceCount(..) }
					if ifs, ok := s.(*ast.IfStmt); ok && ifs.Else == nil && ifs.Init == nil {
						only := len(ifs.Body.List) > 0
						for _, bs := range ifs.Body.List {
							if m, _, ok := recvCall(info, bs, recv); !ok || m != "AddReferenceCount" {
								only = false
							}
						}
						if only {
							continue
						}
					}
					other++
				}
				if other > 0 {
					r.Undec(key, fs.Pos(), "unrecognised statement in loop body")
				} else if emits == 1 {
					r.Ok(key, fs.Pos(), "emits slice[i] once per iteration")
				} else {
					r.Viol(key, fs.Pos(), fmt.Sprintf("loop body emits slice[i] %d times per iteration; the list head announced one value per element", emits))
				}
			}
		}
	}
	r.Extra["t6_map_writers"] = nMap
	r.Extra["t6_slice_writers"] = nSlice
	r.Extra["t6_2d_writers"] = n2d
}

// ---------------------------------------------------------------------------------------
// T9 digit-table lookups of the date writer are in range

func init() {
	register("T9", "the year handed to writeDatePart (which indexes the two-digit table with year/100 and year%100) is dominated by a check that it lies within the four digits the format has; the other date/time parts come from time.Time accessors whose ranges fit the tables (axiom)", 2, ruleT9)
}

func ruleT9(r *Run) {
	p := r.P
	wd := p.LookupFunc("io", "Encoder.writeDatePart")
	if wd == nil {
		r.Undec("writeDatePart", 0, "not found")
		return
	}
	r.Assumption("T9: time.Time.Month/Day/Clock/Nanosecond return values within 1..12, 1..31, 0..23/59/59, 0..999999999 (documented), which fit digit2/digit3")
	w := &w1{p: p, tainted: map[types.Object]bool{}, raw: map[types.Object]bool{}}
	n := 0
	p.EachFunc(func(pkg *packages.Package, fd *ast.FuncDecl) {
		info := pkg.TypesInfo
		parents := parentMap(fd)
		ast.Inspect(fd.Body, func(m ast.Node) bool {
			call, ok := m.(*ast.CallExpr)
			if !ok || Callee(info, call) != wd || len(call.Args) < 1 {
				return true
			}
			n++
			key := fmt.Sprintf("year range before writeDatePart in %s #%d", p.DeclName(fd), n)
			v := identObj(info, call.Args[0])
			if v == nil {
				r.Undec(key, call.Pos(), "year argument is not a variable")
				return true
			}
			lo, up := w.bounds(info, factsWithSwitch(parents, call), v, fd.Body, call.Pos())
			r.Check(lo && up, key, call.Pos(), "year bounded below and above", "the year reaches writeDatePart without a two-sided range check: a time whose year is negative or has more than four digits makes the encoder panic (slice bounds out of range) instead of reporting an error")
			return true
		})
	})
}
