package main

import (
	"fmt"
	"go/ast"
	"go/token"
	"go/types"
	"sort"
	"strings"

	"golang.org/x/tools/go/packages"
)

// B1: encoder reference balance at contract boundaries (DESIGN.md family B).
//
// For every contract function of the encoder the difference
//     (#referable item heads emitted) - (#reference-counter increments)
// must be 0 on every path, in reference mode (IsSimple() folded to false).

func init() {
	register("B1", "every value writer of the encoder (exported Write*/Encode* methods, ValueEncoder implementations, EncodeHandler functions, write*Body writers) advances the reference counter by exactly the number of referable items (s b D/T g a m o) it emits, on every path, with symbolic loop counts", 60, ruleB1)
}

// referable item heads of the Hprose serialization format
var referableTags = map[string]bool{
	"TagString": true, "TagBytes": true, "TagGUID": true, "TagList": true, "TagMap": true, "TagObject": true,
	"TagDate": true, "TagTime": true,
}

type nilness int8

const (
	nUnknown nilness = iota
	nNil
	nNonNil
)

type absVal struct {
	n   nilness
	l   *lin         // integer value, when known symbolically
	tag *types.Const // a Tag* constant
}

func (v absVal) key() string {
	s := fmt.Sprintf("%d", v.n)
	if v.l != nil {
		s += "L" + v.l.String()
	}
	if v.tag != nil {
		s += "T" + v.tag.Name()
	}
	return s
}

type b1State struct {
	delta    lin
	dateOpen bool
	first    string // name of the first byte emitted on this path ("" = nothing yet)
	env      map[types.Object]absVal
	envx     map[string]absVal // nil-ness learnt about pure non-identifier expressions (slice[i]); cleared by any assignment
	trace    []string          // not part of the key
}

func (s *b1State) Key() string {
	var ks []string
	for o, v := range s.env {
		ks = append(ks, fmt.Sprintf("%s@%d=%s", o.Name(), o.Pos(), v.key()))
	}
	for e, v := range s.envx {
		ks = append(ks, "x:"+e+"="+v.key())
	}
	sort.Strings(ks)
	return fmt.Sprintf("%s|%v|%s|%s", s.delta.String(), s.dateOpen, s.first, strings.Join(ks, ","))
}

func (s *b1State) Copy() PState {
	n := &b1State{delta: s.delta, dateOpen: s.dateOpen, first: s.first, env: make(map[types.Object]absVal, len(s.env))}
	for k, v := range s.env {
		n.env[k] = v
	}
	if len(s.envx) > 0 {
		n.envx = make(map[string]absVal, len(s.envx))
		for k, v := range s.envx {
			n.envx[k] = v
		}
	}
	n.trace = append([]string(nil), s.trace...)
	return n
}

type b1Result struct {
	delta    lin
	dateOpen bool
	first    string
	trace    []string
}

type b1 struct {
	p        *Prog
	memo     map[string][]b1Result
	active   map[string]bool
	contract map[*types.Func]bool
	undec    map[*types.Func][]string
	encRefer *types.Named
	depth    int
	isParam  map[*types.Var]bool
	inline   bool // T3 mode: interpret contract callees too (first-emission sets)
}

func symOf(o types.Object) string { return fmt.Sprintf("%s", o.Name()) }

func (b *b1) isEncoderMethod(f *types.Func, name string) bool {
	return f != nil && b.p.InRepo(f) && b.p.FuncName(f) == "io.Encoder."+name
}

// evalExpr computes the abstract value of an expression in state st.
func (b *b1) evalExpr(info *types.Info, st *b1State, e ast.Expr) absVal {
	e = ast.Unparen(e)
	if tv, ok := info.Types[e]; ok && tv.Value != nil {
		v := absVal{}
		if c := constOf(info, e); c != nil && b.p.isTagConst(c) {
			v.tag = c
		}
		if i, ok := intConst(info, e); ok {
			l := linConst(i)
			v.l = &l
		}
		return v
	}
	switch e.(type) {
	case *ast.IndexExpr, *ast.SelectorExpr, *ast.StarExpr:
		if v, ok := st.envx[types.ExprString(e)]; ok {
			return v
		}
	}
	switch x := e.(type) {
	case *ast.Ident:
		if x.Name == "nil" {
			return absVal{n: nNil}
		}
		obj := info.Uses[x]
		if obj == nil {
			obj = info.Defs[x]
		}
		if obj == nil {
			return absVal{}
		}
		if v, ok := st.env[obj]; ok {
			return v
		}
		if bt, ok := obj.Type().Underlying().(*types.Basic); ok && bt.Info()&types.IsInteger != 0 {
			l := linSym(symOf(obj))
			return absVal{l: &l}
		}
		return absVal{}
	case *ast.TypeAssertExpr:
		return b.evalExpr(info, st, x.X)
	case *ast.UnaryExpr:
		if x.Op == token.AND {
			return absVal{n: nNonNil}
		}
		if x.Op == token.SUB {
			v := b.evalExpr(info, st, x.X)
			if v.l != nil {
				l := v.l.neg()
				return absVal{l: &l}
			}
		}
	case *ast.CompositeLit, *ast.FuncLit:
		return absVal{n: nNonNil}
	case *ast.BinaryExpr:
		a, c := b.evalExpr(info, st, x.X), b.evalExpr(info, st, x.Y)
		if a.l != nil && c.l != nil {
			switch x.Op {
			case token.ADD:
				l := a.l.add(*c.l)
				return absVal{l: &l}
			case token.SUB:
				l := a.l.sub(*c.l)
				return absVal{l: &l}
			case token.MUL:
				if a.l.isConst() {
					l := c.l.scale(a.l.c)
					return absVal{l: &l}
				}
				if c.l.isConst() {
					l := a.l.scale(c.l.c)
					return absVal{l: &l}
				}
			}
		}
	case *ast.CallExpr:
		if _, ok := isConversion(info, x); ok {
			return b.evalExpr(info, st, x.Args[0])
		}
		if IsBuiltin(info, x, "len") && len(x.Args) == 1 {
			l := linSym("len(" + types.ExprString(x.Args[0]) + ")")
			return absVal{l: &l}
		}
		if IsBuiltin(info, x, "make") || IsBuiltin(info, x, "new") {
			return absVal{n: nNonNil}
		}
		if f := Callee(info, x); f != nil {
			switch FullName(f) {
			case "reflect.ValueOf":
				return b.evalExpr(info, st, x.Args[0])
			case "reflect.Value.Elem", "reflect.Value.Interface":
				if se, ok := x.Fun.(*ast.SelectorExpr); ok {
					return b.evalExpr(info, st, se.X)
				}
			case b.p.ModPath + "/internal/convert.ToUnsafeBytes":
				// axiom: only reached from appendString with utf16Length(s) < 0, i.e. s non-empty
				return absVal{n: nNonNil}
			case b.p.ModPath + "/io.toSlice", b.p.ModPath + "/io.toPtr":
				return absVal{n: nNonNil}
			case "reflect.Value.Len", "container/list.List.Len":
				l := linSym("len(" + types.ExprString(x.Fun.(*ast.SelectorExpr).X) + ")")
				return absVal{l: &l}
			}
		}
	case *ast.SelectorExpr:
		// (*reflect.SliceHeader)(p).Len
		if x.Sel.Name == "Len" {
			l := linSym("len(" + types.ExprString(x.X) + ")")
			return absVal{l: &l}
		}
	}
	// unknown integer expression: an opaque symbol named after its text
	if t := info.TypeOf(e); t != nil {
		if bt, ok := t.Underlying().(*types.Basic); ok && bt.Info()&types.IsInteger != 0 {
			l := linSym("<" + types.ExprString(e) + ">")
			return absVal{l: &l}
		}
	}
	return absVal{}
}

func (b *b1) note(st *b1State, info *types.Info, n ast.Node, what string) {
	if len(st.trace) < 12 {
		st.trace = append(st.trace, fmt.Sprintf("%s at %s", what, b.p.Rel(n.Pos())))
	}
}

// emit accounts for tag constants appended to a buffer.
func (b *b1) emit(st *b1State, info *types.Info, call *ast.CallExpr) {
	// only appends to the encoder's buffer count: enc.buf, or a []byte PARAMETER of a helper that
	// appends to its caller's buffer (appendBytes, appendString). Locals such as the class
	// metadata under construction are not output of this value (B4 accounts for them).
	switch d := ast.Unparen(call.Args[0]).(type) {
	case *ast.SelectorExpr:
		fv := fieldOf(info, d)
		if fv == nil || fv.Name() != "buf" {
			return
		}
	case *ast.Ident:
		v, ok := info.Uses[d].(*types.Var)
		if !ok || !b.isParam[v] {
			return
		}
	default:
		return
	}
	for i, a := range call.Args[1:] {
		v := b.evalExpr(info, st, a)
		if st.first == "" {
			switch {
			case v.tag != nil:
				st.first = v.tag.Name()
			case call.Ellipsis.IsValid() && i == len(call.Args)-2:
				st.first = "?spread:" + types.ExprString(a)
			default:
				st.first = "?"
				if ie, ok := ast.Unparen(a).(*ast.IndexExpr); ok {
					if c := constOf(info, ie.X); c != nil && c.Name() == "digits" {
						st.first = "DIGIT"
					}
				}
			}
		}
		if v.tag == nil {
			continue
		}
		switch name := v.tag.Name(); {
		case name == "TagDate":
			st.delta = st.delta.add(linConst(1))
			st.dateOpen = true
			b.note(st, info, call, "+1 item head D")
		case name == "TagTime":
			if st.dateOpen {
				st.dateOpen = false // time part of the same date-time item
			} else {
				st.delta = st.delta.add(linConst(1))
				b.note(st, info, call, "+1 item head T")
			}
		case name == "TagSemicolon" || name == "TagUTC":
			st.dateOpen = false
		case referableTags[name]:
			st.delta = st.delta.add(linConst(1))
			b.note(st, info, call, "+1 item head "+string(rune(constByte(v.tag))))
		}
	}
}

func constByte(c *types.Const) byte {
	var v int64
	fmt.Sscan(c.Val().ExactString(), &v)
	return byte(v)
}

// interpret a repo function with abstract arguments; memoised.
func (b *b1) call(f *types.Func, args []absVal, dateOpen bool) []b1Result {
	fd := b.p.Decl(f)
	if fd == nil || fd.Body == nil {
		return []b1Result{{dateOpen: dateOpen}}
	}
	var ks []string
	for _, a := range args {
		ks = append(ks, a.key())
	}
	key := fmt.Sprintf("%s(%s)%v", FullName(f), strings.Join(ks, ";"), dateOpen)
	if r, ok := b.memo[key]; ok {
		return r
	}
	if b.active[key] || b.depth > 40 {
		// recursion: assume the contract value (balanced)
		return []b1Result{{dateOpen: dateOpen}}
	}
	b.active[key] = true
	b.depth++
	defer func() { delete(b.active, key); b.depth-- }()

	pkg := b.p.PkgOfDecl(fd)
	info := pkg.TypesInfo
	init := &b1State{env: map[types.Object]absVal{}, dateOpen: dateOpen}
	params := paramsOf(info, fd.Type)
	for i, pv := range params {
		if pv != nil {
			b.isParam[pv] = true
		}
		if pv != nil && i < len(args) {
			a := args[i]
			if bt, ok := pv.Type().Underlying().(*types.Basic); ok && bt.Info()&types.IsInteger != 0 && a.l == nil {
				l := linSym(symOf(pv))
				a.l = &l
			}
			init.env[pv] = a
		}
	}
	var results []b1Result
	w := b.walker(info, f)
	w.Exit = func(w *Walk, st PState, kind flowKind, at ast.Node) {
		if kind == fPanic {
			return
		}
		s := st.(*b1State)
		results = append(results, b1Result{s.delta, s.dateOpen, s.first, s.trace})
	}
	w.Run(fd.Body, init)
	if len(w.Undecided) > 0 {
		b.undec[f] = append(b.undec[f], w.Undecided...)
	}
	// dedupe results
	seen := map[string]bool{}
	var out []b1Result
	for _, r := range results {
		k := fmt.Sprintf("%s|%v|%s", r.delta.String(), r.dateOpen, r.first)
		if !seen[k] {
			seen[k] = true
			out = append(out, r)
		}
	}
	sort.Slice(out, func(i, j int) bool { return out[i].delta.String() < out[j].delta.String() })
	b.memo[key] = out
	return out
}

func (b *b1) walker(info *types.Info, self *types.Func) *Walk {
	w := &Walk{Info: info}
	w.Branch = func(w *Walk, ps PState, cond ast.Expr, val bool) (PState, bool) {
		st := ps.(*b1State)
		// reference mode: IsSimple() == false
		if call, ok := cond.(*ast.CallExpr); ok {
			if f := Callee(info, call); f != nil {
				if b.isEncoderMethod(f, "IsSimple") {
					return nil, !val
				}
				// isNil(v) / reflect2.IsNil(v)
				if (f.Name() == "isNil" || f.Name() == "IsNil") && len(call.Args) == 1 {
					return b.refineNil(info, st, call.Args[0], val)
				}
			}
		}
		// x < 0 with x a length: infeasible
		if be, ok := cond.(*ast.BinaryExpr); ok && (be.Op == token.LSS || be.Op == token.GEQ) {
			if z, ok := intConst(info, be.Y); ok && z == 0 {
				if v := b.evalExpr(info, st, be.X); v.l != nil && nonNegLen(*v.l) {
					return nil, val == (be.Op == token.GEQ)
				}
			}
		}
		if be, ok := cond.(*ast.BinaryExpr); ok && (be.Op == token.EQL || be.Op == token.NEQ) {
			isNilId := func(e ast.Expr) bool { id, ok := ast.Unparen(e).(*ast.Ident); return ok && id.Name == "nil" }
			eq := val == (be.Op == token.EQL)
			if isNilId(be.Y) {
				return b.refineNil(info, st, be.X, eq)
			}
			if isNilId(be.X) {
				return b.refineNil(info, st, be.Y, eq)
			}
		}
		return nil, true
	}
	w.Event = func(w *Walk, ps PState, n ast.Node) []PState {
		st := ps.(*b1State)
		switch x := n.(type) {
		case *ast.AssignStmt:
			if len(st.envx) > 0 {
				// an assignment may change what a remembered expression denotes, unless it only
				// updates the output buffer
				onlyBuf := true
				for _, l := range x.Lhs {
					if fv := fieldOf(info, l); fv == nil || fv.Name() != "buf" {
						onlyBuf = false
					}
				}
				if !onlyBuf {
					st = st.Copy().(*b1State)
					st.envx = nil
				}
			}
			if len(x.Lhs) == len(x.Rhs) {
				ns := st.Copy().(*b1State)
				for i, l := range x.Lhs {
					if id, ok := l.(*ast.Ident); ok {
						obj := info.Defs[id]
						if obj == nil {
							obj = info.Uses[id]
						}
						if obj != nil {
							if x.Tok == token.ASSIGN || x.Tok == token.DEFINE {
								ns.env[obj] = b.evalExpr(info, st, x.Rhs[i])
							} else {
								delete(ns.env, obj)
								ns.env[obj] = absVal{l: func() *lin { l := linSym("<" + obj.Name() + "'>"); return &l }()}
							}
						}
					}
				}
				return []PState{ns}
			}
			// v, ok := x.(T)
			if len(x.Lhs) == 2 && len(x.Rhs) == 1 {
				if ta, ok := ast.Unparen(x.Rhs[0]).(*ast.TypeAssertExpr); ok {
					if id, ok := x.Lhs[0].(*ast.Ident); ok {
						if obj := info.Defs[id]; obj != nil {
							ns := st.Copy().(*b1State)
							ns.env[obj] = b.evalExpr(info, st, ta.X)
							return []PState{ns}
						}
					}
				}
			}
			return nil
		case *ast.ValueSpec:
			ns := st.Copy().(*b1State)
			for i, id := range x.Names {
				if obj := info.Defs[id]; obj != nil && i < len(x.Values) {
					ns.env[obj] = b.evalExpr(info, st, x.Values[i])
				}
			}
			return []PState{ns}
		case *ast.CaseClause:
			// type switch clause: the implicit variable inherits the operand's abstract value
			if obj := info.Implicits[x]; obj != nil {
				// find the guard operand
				ns := st.Copy().(*b1State)
				if g := b.typeSwitchOperand(info, x); g != nil {
					ns.env[obj] = b.evalExpr(info, st, g)
				}
				return []PState{ns}
			}
			return nil
		case *ast.CallExpr:
			return b.onCall(w, info, st, x, self)
		}
		return nil
	}
	w.Loop = func(w *Walk, ps PState, loop ast.Stmt, body func(PState) []LoopOut) ([]PState, bool) {
		st := ps.(*b1State)
		// trip count
		var trip *lin
		switch l := loop.(type) {
		case *ast.ForStmt:
			if _, nv, ok := countedLoop(info, l); ok {
				v := b.evalExpr(info, st, &ast.Ident{Name: nv.Name()})
				if ev, ok := st.env[nv]; ok && ev.l != nil {
					trip = ev.l
				} else {
					_ = v
					t := linSym(symOf(nv))
					trip = &t
				}
			}
		case *ast.RangeStmt:
			t := linSym("len(" + types.ExprString(l.X) + ")")
			trip = &t
		}
		// run the body once from a zeroed counter
		start := st.Copy().(*b1State)
		base := start.delta
		start.delta = linConst(0)
		// variables assigned in the body are unknown at the head
		ast.Inspect(loop, func(n ast.Node) bool {
			if as, ok := n.(*ast.AssignStmt); ok {
				for _, l := range as.Lhs {
					if id, ok := l.(*ast.Ident); ok {
						if obj := info.Uses[id]; obj != nil {
							delete(start.env, obj)
						}
					}
				}
			}
			return true
		})
		outs := body(start)
		deltas := map[string]lin{}
		escapes := false
		var sample *b1State
		for _, o := range outs {
			s := o.St.(*b1State)
			switch o.Flow {
			case fNormal:
				deltas[s.delta.String()] = s.delta
				if !s.delta.isZero() {
					sample = s
				}
			case fBreak:
				// loop exit through the condition carries no body delta; an explicit break does
				if !s.delta.isZero() {
					escapes = true
				}
			case fReturn:
				if !s.delta.isZero() {
					escapes = true
				}
			}
		}
		after := st.Copy().(*b1State)
		for k := range after.env {
			if _, ok := start.env[k]; !ok {
				delete(after.env, k)
			}
		}
		after.delta = base
		var dl []lin
		for _, d := range deltas {
			dl = append(dl, d)
		}
		switch {
		case len(dl) == 0 || (len(dl) == 1 && dl[0].isZero() && !escapes):
			// balanced body
		case len(dl) == 1 && dl[0].isConst() && trip != nil && !escapes:
			after.delta = base.add(trip.scale(dl[0].c))
			if sample != nil {
				after.trace = append(after.trace, fmt.Sprintf("loop x %s: per iteration %s {%s}", trip.String(), dl[0].String(), strings.Join(sample.trace, "; ")))
			}
		default:
			var ds []string
			for k := range deltas {
				ds = append(ds, k)
			}
			sort.Strings(ds)
			after.delta = base.add(linSym(fmt.Sprintf("LOOP@%s{per-iteration delta differs between paths: %s}", b.p.Rel(loop.Pos()), strings.Join(ds, " | "))))
			if sample != nil {
				after.trace = append(after.trace, sample.trace...)
			}
		}
		return []PState{after}, true
	}
	return w
}

func (b *b1) typeSwitchOperand(info *types.Info, cc *ast.CaseClause) ast.Expr {
	// cheap: search the enclosing files for the TypeSwitchStmt containing cc
	for _, pkg := range b.p.Pkgs {
		if pkg.TypesInfo != info {
			continue
		}
		for _, f := range pkg.Syntax {
			if cc.Pos() < f.Pos() || cc.Pos() > f.End() {
				continue
			}
			var res ast.Expr
			ast.Inspect(f, func(n ast.Node) bool {
				ts, ok := n.(*ast.TypeSwitchStmt)
				if !ok {
					return true
				}
				for _, c := range ts.Body.List {
					if c == cc {
						switch a := ts.Assign.(type) {
						case *ast.AssignStmt:
							res = a.Rhs[0].(*ast.TypeAssertExpr).X
						case *ast.ExprStmt:
							res = a.X.(*ast.TypeAssertExpr).X
						}
						return false
					}
				}
				return true
			})
			return res
		}
	}
	return nil
}

func (b *b1) refineNil(info *types.Info, st *b1State, e ast.Expr, isNil bool) (PState, bool) {
	v := b.evalExpr(info, st, e)
	if v.n == nNil && !isNil || v.n == nNonNil && isNil {
		return nil, false
	}
	if id, ok := ast.Unparen(e).(*ast.Ident); ok {
		if obj := info.Uses[id]; obj != nil {
			ns := st.Copy().(*b1State)
			nv := v
			if isNil {
				nv.n = nNil
			} else {
				nv.n = nNonNil
			}
			ns.env[obj] = nv
			return ns, true
		}
	}
	switch ast.Unparen(e).(type) {
	case *ast.IndexExpr, *ast.SelectorExpr, *ast.StarExpr:
		ns := st.Copy().(*b1State)
		if ns.envx == nil {
			ns.envx = map[string]absVal{}
		}
		nv := v
		if isNil {
			nv.n = nNil
		} else {
			nv.n = nNonNil
		}
		ns.envx[types.ExprString(ast.Unparen(e))] = nv
		return ns, true
	}
	return nil, true
}

func (b *b1) onCall(w *Walk, info *types.Info, st *b1State, call *ast.CallExpr, self *types.Func) []PState {
	if IsBuiltin(info, call, "append") && len(call.Args) >= 2 {
		ns := st.Copy().(*b1State)
		b.emit(ns, info, call)
		return []PState{ns}
	}
	f := Callee(info, call)
	if f == nil || !b.p.InRepo(f) {
		if b.inline && st.first == "" && b.p.isDynamicCoderCall(info, call) {
			ns := st.Copy().(*b1State)
			ns.first = "DYN"
			return []PState{ns}
		}
		return nil // dynamic dispatch / foreign code: balanced by contract
	}
	// reference counter primitives
	if sig := f.Type().(*types.Signature); sig.Recv() != nil && isNamed(sig.Recv().Type(), b.p.ModPath+"/io", "encoderRefer") {
		ns := st.Copy().(*b1State)
		switch f.Name() {
		case "AddCount":
			v := b.evalExpr(info, st, call.Args[0])
			if v.l == nil {
				l := linSym("<" + types.ExprString(call.Args[0]) + ">")
				v.l = &l
			}
			ns.delta = ns.delta.sub(*v.l)
			b.note(ns, info, call, "-"+strings.TrimPrefix(v.l.String(), "+")+" AddCount")
			return []PState{ns}
		case "Set", "SetString":
			ns.delta = ns.delta.sub(linConst(1))
			b.note(ns, info, call, "-1 "+f.Name())
			return []PState{ns}
		}
		return nil
	}
	if b.contract[f] && f != self && !b.inline {
		return nil // a contract function is balanced (that is what B1 proves of it)
	}
	var args []absVal
	for _, a := range call.Args {
		args = append(args, b.evalExpr(info, st, a))
	}
	res := b.call(f, args, st.dateOpen)
	var out []PState
	for _, r := range res {
		ns := st.Copy().(*b1State)
		ns.delta = ns.delta.add(r.delta)
		ns.dateOpen = r.dateOpen
		if ns.first == "" {
			ns.first = r.first
		}
		if !r.delta.isZero() && len(ns.trace) < 12 {
			ns.trace = append(ns.trace, fmt.Sprintf("%s via %s at %s {%s}", r.delta.String(), f.Name(), b.p.Rel(call.Pos()), strings.Join(r.trace, "; ")))
		}
		out = append(out, ns)
	}
	return out
}

// exempt: framing and accounting primitives whose callers own the other half
var b1Exempt = map[string]string{
	"WriteListHead": "framing primitive", "WriteMapHead": "framing primitive", "WriteObjectHead": "framing primitive",
	"WriteTag": "raw tag", "WriteFoot": "framing primitive", "WriteNil": "no item", "SetReference": "accounting primitive",
	"SetStringReference": "accounting primitive", "AddReferenceCount": "accounting primitive", "WriteStructType": "class table primitive (B4)",
	"WriteReference": "emits r (not referable)", "WriteStringReference": "emits r (not referable)", "Reset": "", "ResetBuffer": "", "Simple": "", "IsSimple": "",
	"Flush": "", "Buffer": "", "Bytes": "", "String": "", "UnsafeString": "",
}

func (b *b1) contractFuncs() []*types.Func {
	p := b.p
	pkg := p.Pkg("io")
	var out []*types.Func
	venc, _ := p.LookupObj("io", "ValueEncoder").(*types.TypeName)
	var iface *types.Interface
	if venc != nil {
		iface, _ = venc.Type().Underlying().(*types.Interface)
	}
	for _, f := range pkg.Syntax {
		for _, d := range f.Decls {
			fd, ok := d.(*ast.FuncDecl)
			if !ok || fd.Body == nil {
				continue
			}
			fobj := pkg.TypesInfo.Defs[fd.Name].(*types.Func)
			sig := fobj.Type().(*types.Signature)
			switch {
			case sig.Recv() != nil && isNamed(sig.Recv().Type(), p.ModPath+"/io", "Encoder"):
				name := fobj.Name()
				if _, ex := b1Exempt[name]; ex {
					continue
				}
				if fobj.Exported() && (strings.HasPrefix(name, "Write") || strings.HasPrefix(name, "Encode")) {
					out = append(out, fobj)
				} else if strings.HasPrefix(name, "write") && strings.HasSuffix(name, "Body") {
					out = append(out, fobj)
				} else if name == "encode" || name == "write" || name == "writeValue" || name == "writePtr" || name == "fastWriteValue" || name == "fastWritePtr" {
					out = append(out, fobj)
				}
			case sig.Recv() != nil && iface != nil && (fobj.Name() == "Write" || fobj.Name() == "Encode"):
				rt := sig.Recv().Type()
				if types.Implements(rt, iface) || types.Implements(types.NewPointer(rt), iface) {
					out = append(out, fobj)
				}
			case sig.Recv() == nil && sig.Params().Len() == 2 && sig.Results().Len() == 0:
				// EncodeHandler shaped: func(enc *Encoder, v interface{})
				if isNamed(sig.Params().At(0).Type(), p.ModPath+"/io", "Encoder") {
					if it, ok := sig.Params().At(1).Type().Underlying().(*types.Interface); ok && it.NumMethods() == 0 {
						out = append(out, fobj)
					}
				}
			}
		}
	}
	return out
}

func ruleB1(r *Run) {
	p := r.P
	b := &b1{p: p, memo: map[string][]b1Result{}, active: map[string]bool{}, contract: map[*types.Func]bool{}, undec: map[*types.Func][]string{}, isParam: map[*types.Var]bool{}}
	cfs := b.contractFuncs()
	for _, f := range cfs {
		b.contract[f] = true
	}
	r.Assumption("B1: reference mode (IsSimple() folded to false); a contract function's top-level argument is non-nil (callers write 'n' themselves, checked by B1n); convert.ToUnsafeBytes(s) is non-nil where utf16Length(s) < 0; dynamically dispatched coders (ValueEncoder, EncodeHandler, callbacks) are balanced because each implementation is itself a B1 instance")
	for _, f := range cfs {
		fd := p.Decl(f)
		pkg := p.PkgOfDecl(fd)
		info := pkg.TypesInfo
		params := paramsOf(info, fd.Type)
		var args []absVal
		first := true
		for _, pv := range params {
			a := absVal{}
			if pv != nil {
				switch pv.Type().Underlying().(type) {
				case *types.Interface, *types.Pointer, *types.Slice, *types.Map:
					if !isNamed(pv.Type(), p.ModPath+"/io", "Encoder") && first {
						a.n = nNonNil
						first = false
					}
				}
			}
			args = append(args, a)
		}
		res := b.call(f, args, false)
		key := "balance " + p.FuncName(f)
		if u := b.undec[f]; len(u) > 0 {
			r.Undec(key, fd.Pos(), strings.Join(u, "; "))
			continue
		}
		var bad []b1Result
		for _, x := range res {
			if !x.delta.isZero() {
				bad = append(bad, x)
			}
		}
		if len(bad) == 0 {
			r.Ok(key, fd.Pos(), fmt.Sprintf("%d path class(es), all balanced", len(res)))
			continue
		}
		var msgs, trace []string
		for _, x := range bad {
			msgs = append(msgs, x.delta.String())
			trace = append(trace, "delta "+x.delta.String()+": "+strings.Join(x.trace, "; "))
		}
		r.ViolT(key, fd.Pos(), fmt.Sprintf("items emitted minus reference-counter increments is not 0 on every path: {%s}; the decoder's reference table and the encoder's counter drift apart and a later back-reference resolves to the wrong item or out of range", strings.Join(msgs, ", ")), trace)
	}
	// undecided helper functions reached from contract functions
	for f, u := range b.undec {
		if !b.contract[f] {
			r.Undec("helper "+p.FuncName(f), p.Decl(f).Pos(), strings.Join(u, "; "))
		}
	}
	_ = packages.NeedName
}

// nonNegLen: a linear form that is a non-negative combination of len(...) symbols.
func nonNegLen(l lin) bool {
	if l.c < 0 {
		return false
	}
	for s, k := range l.syms {
		if k < 0 || !strings.HasPrefix(s, "len(") {
			return false
		}
	}
	return true
}
