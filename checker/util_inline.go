package main

import (
	"go/ast"
	"go/token"
	"go/types"

	"golang.org/x/tools/go/packages"
)

// Utilities that make rules robust against the most common behaviour-preserving refactoring,
// the extraction of a block into a helper of the same repository:
//   deepInspect   - ast.Inspect that also descends into the bodies of repository callees
//   boolPaths     - the paths through a boolean helper (conditions on the way, result)
//   expandBoolFact- a fact `helper(args)` / `!helper(args)` replaced by the facts it stands for
//   substParams   - parameter -> argument substitution that keeps the original (typed) leaf nodes
//   deferRecovers - a defer statement whose deferred function (literal or named) calls recover directly

// calleeDecl: the declaration (with body) of a statically resolved repository callee.
func (p *Prog) calleeDecl(info *types.Info, call *ast.CallExpr) (*ast.FuncDecl, *packages.Package) {
	f := Callee(info, call)
	if f == nil || !p.InRepo(f) {
		return nil, nil
	}
	d := p.Decl(f)
	if d == nil || d.Body == nil {
		return nil, nil
	}
	return d, p.PkgOfDecl(d)
}

// deepInspect visits root and, for every call of a repository function with a body, that body too
// (each function once, to the given depth). fn receives the node and the types.Info it belongs to.
// Function literals are visited like any other node (callers that must skip them do so in fn).
func (p *Prog) deepInspect(info *types.Info, root ast.Node, depth int, fn func(info *types.Info, n ast.Node) bool) {
	seen := map[*ast.FuncDecl]bool{}
	var visit func(info *types.Info, root ast.Node, depth int)
	visit = func(info *types.Info, root ast.Node, depth int) {
		ast.Inspect(root, func(n ast.Node) bool {
			if n == nil {
				return true
			}
			if !fn(info, n) {
				return false
			}
			if call, ok := n.(*ast.CallExpr); ok && depth > 0 {
				if d, pkg := p.calleeDecl(info, call); d != nil && !seen[d] {
					seen[d] = true
					visit(pkg.TypesInfo, d.Body, depth-1)
				}
			}
			return true
		})
	}
	visit(info, root, depth)
}

// substParams returns e with every identifier that denotes a key of m replaced by m's expression.
// Only the nodes on the way to a replaced identifier are rebuilt; all other nodes (and all leaves)
// are the original, type-checked ones, so that info lookups keep working on them.
func substParams(info *types.Info, e ast.Expr, m map[types.Object]ast.Expr) ast.Expr {
	if e == nil || len(m) == 0 {
		return e
	}
	switch x := e.(type) {
	case *ast.Ident:
		if o := info.Uses[x]; o != nil {
			if r, ok := m[o]; ok {
				return r
			}
		}
		return x
	case *ast.ParenExpr:
		if n := substParams(info, x.X, m); n != x.X {
			return &ast.ParenExpr{X: n}
		}
	case *ast.UnaryExpr:
		if n := substParams(info, x.X, m); n != x.X {
			return &ast.UnaryExpr{Op: x.Op, X: n, OpPos: x.OpPos}
		}
	case *ast.BinaryExpr:
		a, b := substParams(info, x.X, m), substParams(info, x.Y, m)
		if a != x.X || b != x.Y {
			return &ast.BinaryExpr{X: a, Op: x.Op, Y: b, OpPos: x.OpPos}
		}
	case *ast.SelectorExpr:
		if n := substParams(info, x.X, m); n != x.X {
			return &ast.SelectorExpr{X: n, Sel: x.Sel}
		}
	case *ast.IndexExpr:
		a, b := substParams(info, x.X, m), substParams(info, x.Index, m)
		if a != x.X || b != x.Index {
			return &ast.IndexExpr{X: a, Index: b}
		}
	case *ast.StarExpr:
		if n := substParams(info, x.X, m); n != x.X {
			return &ast.StarExpr{X: n}
		}
	case *ast.CallExpr:
		changed := false
		args := make([]ast.Expr, len(x.Args))
		for i, a := range x.Args {
			args[i] = substParams(info, a, m)
			if args[i] != a {
				changed = true
			}
		}
		fun := substParams(info, x.Fun, m)
		if changed || fun != x.Fun {
			return &ast.CallExpr{Fun: fun, Args: args, Lparen: x.Lparen, Rparen: x.Rparen}
		}
	}
	return e
}

// boolPath: one way through a boolean helper.
type boolPath struct {
	facts  []condFact // conditions that hold on the way (already substituted)
	result ast.Expr   // returned expression; `true`/`false` identifiers for constants
}

// boolPaths enumerates the paths of a function that returns one bool and whose body consists of
// single-assignment local definitions, `if C { ...return B }` statements (else branches allowed)
// and a final return. ok=false for anything else.
func boolPaths(info *types.Info, fd *ast.FuncDecl) (paths []boolPath, ok bool) {
	if fd.Type.Results == nil || len(fd.Type.Results.List) != 1 {
		return nil, false
	}
	alias := map[types.Object]ast.Expr{}
	ok = true
	var walk func(list []ast.Stmt, facts []condFact) (fallsThrough bool)
	walk = func(list []ast.Stmt, facts []condFact) bool {
		for _, s := range list {
			switch x := s.(type) {
			case *ast.AssignStmt:
				if x.Tok == token.DEFINE && len(x.Lhs) == 1 && len(x.Rhs) == 1 {
					if id, isId := x.Lhs[0].(*ast.Ident); isId {
						if o := info.Defs[id]; o != nil {
							alias[o] = substParams(info, x.Rhs[0], alias)
							continue
						}
					}
				}
				ok = false // a side effect on the way: keep it simple, treat as not analysable
				return false
			case *ast.ExprStmt:
				// side effects do not change which conditions hold on the path
				continue
			case *ast.ReturnStmt:
				if len(x.Results) != 1 {
					ok = false
					return false
				}
				paths = append(paths, boolPath{append([]condFact(nil), facts...), substParams(info, x.Results[0], alias)})
				return false
			case *ast.IfStmt:
				if x.Init != nil {
					ok = false
					return false
				}
				c := substParams(info, x.Cond, alias)
				thenFalls := walk(x.Body.List, append(append([]condFact(nil), facts...), condFact{c, false}))
				elseFalls := true
				switch e := x.Else.(type) {
				case nil:
				case *ast.BlockStmt:
					elseFalls = walk(e.List, append(append([]condFact(nil), facts...), condFact{c, true}))
				case *ast.IfStmt:
					elseFalls = walk([]ast.Stmt{e}, append(append([]condFact(nil), facts...), condFact{c, true}))
				}
				if !ok {
					return false
				}
				switch {
				case !thenFalls && !elseFalls:
					return false
				case !thenFalls:
					facts = append(append([]condFact(nil), facts...), condFact{c, true})
				case !elseFalls:
					facts = append(append([]condFact(nil), facts...), condFact{c, false})
				}
			default:
				ok = false
				return false
			}
		}
		return true
	}
	if walk(fd.Body.List, nil) {
		ok = false // falls off the end of a bool function: not possible in valid Go, be safe
	}
	return paths, ok && len(paths) > 0
}

func isBoolConst(e ast.Expr, v bool) bool {
	id, ok := ast.Unparen(e).(*ast.Ident)
	if !ok {
		return false
	}
	if v {
		return id.Name == "true"
	}
	return id.Name == "false"
}

// expandBoolFact: the facts that `call` == val stands for, when the callee is a repository helper
// analysable by boolPaths and exactly one of its paths can produce val (then that path's facts and
// its result hold). Parameters are replaced by the call's arguments. nil when not expandable.
func (p *Prog) expandBoolFact(info *types.Info, call *ast.CallExpr, val bool) []condFact {
	d, pkg := p.calleeDecl(info, call)
	if d == nil {
		return nil
	}
	cinfo := pkg.TypesInfo
	paths, ok := boolPaths(cinfo, d)
	if !ok {
		return nil
	}
	// parameter -> argument
	m := map[types.Object]ast.Expr{}
	params := paramsOf(cinfo, d.Type)
	if len(params) != len(call.Args) {
		return nil
	}
	for i, pv := range params {
		if pv != nil {
			m[pv] = call.Args[i]
		}
	}
	// receiver -> receiver expression of the call
	if d.Recv != nil && len(d.Recv.List) == 1 && len(d.Recv.List[0].Names) == 1 {
		if se, ok := ast.Unparen(call.Fun).(*ast.SelectorExpr); ok {
			if ro := cinfo.Defs[d.Recv.List[0].Names[0]]; ro != nil {
				m[ro] = se.X
			}
		}
	}
	var cand []boolPath
	for _, bp := range paths {
		if isBoolConst(bp.result, !val) {
			continue // this path yields the other value
		}
		cand = append(cand, bp)
	}
	if len(cand) == 0 {
		return nil
	}
	// facts common to all candidate paths: with one candidate, all of its facts plus its result
	if len(cand) == 1 {
		var out []condFact
		for _, f := range cand[0].facts {
			out = append(out, condFact{substParams(cinfo, f.e, m), f.neg})
		}
		if !isBoolConst(cand[0].result, val) {
			out = append(out, condFact{substParams(cinfo, cand[0].result, m), !val})
		}
		return out
	}
	// several candidates: keep the facts (by text and polarity) that occur on every one of them
	count := map[string]int{}
	first := map[string]condFact{}
	for _, bp := range cand {
		seen := map[string]bool{}
		for _, f := range bp.facts {
			k := types.ExprString(f.e)
			if f.neg {
				k = "!" + k
			}
			if !seen[k] {
				seen[k] = true
				count[k]++
				if _, ok := first[k]; !ok {
					first[k] = f
				}
			}
		}
	}
	var out []condFact
	for k, c := range count {
		if c == len(cand) {
			f := first[k]
			out = append(out, condFact{substParams(cinfo, f.e, m), f.neg})
		}
	}
	return out
}

// deferRecovers: the deferred function of d calls recover() directly (a literal, or a named
// repository function with a direct recover in its body).
func (p *Prog) deferRecovers(info *types.Info, d *ast.DeferStmt) bool {
	if fl, ok := ast.Unparen(d.Call.Fun).(*ast.FuncLit); ok {
		return directRecover(info, fl.Body) != nil
	}
	if decl, pkg := p.calleeDecl(info, d.Call); decl != nil {
		return directRecover(pkg.TypesInfo, decl.Body) != nil
	}
	return false
}

// multiDefs: locals defined by a multi-value call `a, b := helper()` (filled by localDefs).
type multiDef struct {
	call *ast.CallExpr
	idx  int
}

var multiDefs = map[types.Object]multiDef{}

// curProg is the program of the current run (set by NewRun) for helpers without a Prog parameter.
var curProg *Prog

// resultRoot: the field that result #idx of a repository helper hands out, when every assignment
// to that (named) result, or every return, gives the same field of the receiver.
func (p *Prog) resultRoot(info *types.Info, call *ast.CallExpr, idx int) types.Object {
	d, pkg := p.calleeDecl(info, call)
	if d == nil || d.Type.Results == nil {
		return nil
	}
	cinfo := pkg.TypesInfo
	// named result object
	var resObj types.Object
	i := 0
	for _, f := range d.Type.Results.List {
		if len(f.Names) == 0 {
			i++
			continue
		}
		for _, nm := range f.Names {
			if i == idx {
				resObj = cinfo.Defs[nm]
			}
			i++
		}
	}
	var root types.Object
	okAll, n := true, 0
	note := func(e ast.Expr) {
		n++
		fv := fieldOf(cinfo, ast.Unparen(e))
		if fv == nil {
			okAll = false
			return
		}
		if root == nil {
			root = fv
		} else if root != types.Object(fv) {
			okAll = false
		}
	}
	ast.Inspect(d.Body, func(m ast.Node) bool {
		switch x := m.(type) {
		case *ast.FuncLit:
			return false
		case *ast.AssignStmt:
			if resObj != nil && len(x.Lhs) == len(x.Rhs) {
				for k, l := range x.Lhs {
					if identObj(cinfo, l) == resObj {
						note(x.Rhs[k])
					}
				}
			}
		case *ast.ReturnStmt:
			if idx < len(x.Results) {
				if !(resObj != nil && identObj(cinfo, x.Results[idx]) == resObj) {
					note(x.Results[idx])
				}
			}
		}
		return true
	})
	if okAll && n > 0 {
		return root
	}
	return nil
}
