package main

import (
	"fmt"
	"go/ast"
	"go/token"
	"go/types"

	"golang.org/x/tools/go/packages"
)

// F1 string length provenance, F2 head count = iterated collection.

func init() {
	register("F1", "the length written for a string item is utf16Length of the very string whose bytes follow (frozen exception: big.Rat.String() is ASCII), the length written for a bytes item is len of the very slice", 7, ruleF1)
	register("F2", "the count given to WriteListHead/WriteMapHead is the length of the collection whose elements the following body iterates, the body emits a fixed number of values per element, and the frame is closed by WriteFoot", 6, ruleF2)
}

// rootOfLen: if e is LEN(X) in one of the repo's spellings, return X's object.
func rootOfLen(info *types.Info, defs map[types.Object]ast.Expr, e ast.Expr, depth int) types.Object {
	if depth > 5 {
		return nil
	}
	e = ast.Unparen(e)
	switch x := e.(type) {
	case *ast.Ident:
		if d, ok := defs[info.Uses[x]]; ok && d != nil {
			return rootOfLen(info, defs, d, depth+1)
		}
	case *ast.CallExpr:
		if IsBuiltin(info, x, "len") {
			return rootObj(info, defs, x.Args[0], 0)
		}
		if se, ok := x.Fun.(*ast.SelectorExpr); ok && se.Sel.Name == "Len" && len(x.Args) == 0 {
			return rootObj(info, defs, se.X, 0)
		}
	case *ast.SelectorExpr:
		if x.Sel.Name == "Len" { // (*reflect.SliceHeader)(reflect2.PtrOf(v)).Len
			return rootObj(info, defs, x.X, 0)
		}
	}
	return nil
}

// rootObj strips conversions, reflect.ValueOf, reflect2.PtrOf and single-assignment locals
// that merely rename a field (fields := valenc.fields) down to the underlying variable/field.
func rootObj(info *types.Info, defs map[types.Object]ast.Expr, e ast.Expr, depth int) types.Object {
	if depth > 6 {
		return nil
	}
	e = ast.Unparen(e)
	switch x := e.(type) {
	case *ast.Ident:
		o := info.Uses[x]
		if d, ok := defs[o]; ok && d != nil {
			if r := rootObj(info, defs, d, depth+1); r != nil {
				return r
			}
		}
		if md, ok := multiDefs[o]; ok && curProg != nil {
			if r := curProg.resultRoot(info, md.call, md.idx); r != nil {
				return r
			}
		}
		return o
	case *ast.SelectorExpr:
		if fv := fieldOf(info, x); fv != nil {
			return fv
		}
	case *ast.CallExpr:
		if _, ok := isConversion(info, x); ok {
			return rootObj(info, defs, x.Args[0], depth+1)
		}
		if f := Callee(info, x); f != nil && len(x.Args) == 1 {
			switch FullName(f) {
			case "reflect.ValueOf", "github.com/modern-go/reflect2.PtrOf":
				return rootObj(info, defs, x.Args[0], depth+1)
			}
		}
	case *ast.StarExpr:
		return rootObj(info, defs, x.X, depth+1)
	}
	return nil
}

func ruleF1(r *Run) {
	p := r.P
	appendString := p.LookupFunc("io", "appendString")
	appendBinary := p.LookupFunc("io", "appendBinary")
	utf16 := p.LookupFunc("io", "utf16Length")
	if appendString == nil || appendBinary == nil || utf16 == nil {
		r.Undec("anchors", 0, "appendString/appendBinary/utf16Length not found")
		return
	}
	p.EachFunc(func(pkg *packages.Package, fd *ast.FuncDecl) {
		info := pkg.TypesInfo
		defs := localDefs(info, fd.Body)
		params := paramsOf(info, fd.Type)
		fname := p.DeclName(fd)
		isUTF16Of := func(e ast.Expr, s types.Object) bool {
			e = ast.Unparen(e)
			if id, ok := e.(*ast.Ident); ok {
				if d, ok := defs[info.Uses[id]]; ok && d != nil {
					e = ast.Unparen(d)
				}
			}
			call, ok := e.(*ast.CallExpr)
			return ok && Callee(info, call) == utf16 && len(call.Args) == 1 && identObj(info, call.Args[0]) == s && s != nil
		}
		n := 0
		ast.Inspect(fd.Body, func(m ast.Node) bool {
			call, ok := m.(*ast.CallExpr)
			if !ok {
				return true
			}
			switch Callee(info, call) {
			case appendString:
				n++
				key := fmt.Sprintf("appendString in %s #%d", fname, n)
				s := identObj(info, call.Args[1])
				switch {
				case isUTF16Of(call.Args[2], s):
					r.Ok(key, call.Pos(), "length = utf16Length(same string)")
				case fname == "io.Encoder.WriteBigRat" && func() bool {
					// frozen exception: s := r.String() of a *big.Rat (ASCII digits and '/'), len(s)
					lc, ok := ast.Unparen(call.Args[2]).(*ast.CallExpr)
					if !ok || !IsBuiltin(info, lc, "len") || identObj(info, lc.Args[0]) != s {
						return false
					}
					d, ok := defs[s]
					if !ok {
						return false
					}
					dc, ok := ast.Unparen(d).(*ast.CallExpr)
					if !ok {
						return false
					}
					f := Callee(info, dc)
					return f != nil && FullName(f) == "math/big.Rat.String"
				}():
					r.Ok(key, call.Pos(), "frozen exception: big.Rat.String() is ASCII, len == UTF-16 length")
				default:
					r.Viol(key, call.Pos(), fmt.Sprintf("string item written with length %s which is not utf16Length of the string written (%s): the declared length must count UTF-16 code units of exactly these bytes", types.ExprString(call.Args[2]), types.ExprString(call.Args[1])))
				}
			case appendBinary:
				n++
				key := fmt.Sprintf("appendBinary in %s #%d", fname, n)
				b := ast.Unparen(call.Args[1])
				if id, ok := b.(*ast.Ident); ok { // a named local for the converted bytes
					if d, ok := defs[info.Uses[id]]; ok && d != nil {
						if _, isCall := ast.Unparen(d).(*ast.CallExpr); isCall {
							b = ast.Unparen(d)
						}
					}
				}
				if bc, ok := b.(*ast.CallExpr); ok {
					if f := Callee(info, bc); f != nil && f.Name() == "ToUnsafeBytes" && len(bc.Args) == 1 {
						s := identObj(info, bc.Args[0])
						// length is utf16Length(s), or this function's own length parameter when
						// the function is appendString (checked at its call sites)
						lp := identObj(info, call.Args[2])
						isParam := false
						for _, pv := range params {
							if pv != nil && lp == pv {
								isParam = true
							}
						}
						if isUTF16Of(call.Args[2], s) || (isParam && fd.Name.Name == "appendString" && s == types.Object(params[1])) {
							r.Ok(key, call.Pos(), "UTF-16 length of the same string")
						} else {
							r.Viol(key, call.Pos(), "quoted string bytes written with a length that is not the UTF-16 length of the same string")
						}
						return true
					}
				}
				// plain bytes: length must be len(bytes) of the same slice
				lc, ok := ast.Unparen(call.Args[2]).(*ast.CallExpr)
				if ok && IsBuiltin(info, lc, "len") && identObj(info, lc.Args[0]) != nil && identObj(info, lc.Args[0]) == identObj(info, b) {
					r.Ok(key, call.Pos(), "len(same slice)")
				} else {
					r.Viol(key, call.Pos(), "bytes item written with a length that is not len of the slice written")
				}
			}
			return true
		})
	})
}

func ruleF2(r *Run) {
	p := r.P
	pkg := p.Pkg("io")
	info := pkg.TypesInfo
	isEncCall := func(s ast.Stmt, name string) (*ast.CallExpr, bool) {
		es, ok := s.(*ast.ExprStmt)
		if !ok {
			return nil, false
		}
		call, ok := es.X.(*ast.CallExpr)
		if !ok {
			return nil, false
		}
		f := Callee(info, call)
		if f == nil || !p.InRepo(f) || p.FuncName(f) != "io.Encoder."+name {
			return nil, false
		}
		return call, true
	}
	// value emissions inside a statement list: calls of encoder value writers / dynamic coder calls
	emissions := func(stmts []ast.Stmt) (n int, args [][]ast.Expr) {
		for _, s := range stmts {
			ast.Inspect(s, func(m ast.Node) bool {
				call, ok := m.(*ast.CallExpr)
				if !ok {
					return true
				}
				if p.isDynamicCoderCall(info, call) {
					n++
					args = append(args, call.Args)
					return false
				}
				if f := Callee(info, call); f != nil && p.InRepo(f) && p.namedIO(recvType(f), "Encoder") {
					switch name := f.Name(); {
					case name == "encode" || name == "write" || name == "EncodeString" || name == "writeFloat" ||
						(len(name) > 5 && name[:5] == "Write" && name != "WriteFoot" && name != "WriteListHead" && name != "WriteMapHead" && name != "WriteObjectHead" && name != "WriteTag"):
						n++
						args = append(args, call.Args)
						return false
					}
				}
				return true
			})
		}
		return
	}
	for _, file := range pkg.Syntax {
		for _, d := range file.Decls {
			fd, ok := d.(*ast.FuncDecl)
			if !ok || fd.Body == nil {
				continue
			}
			fname := p.DeclName(fd)
			defs := localDefs(info, fd.Body)
			ast.Inspect(fd.Body, func(m ast.Node) bool {
				blk, ok := m.(*ast.BlockStmt)
				if !ok {
					return true
				}
				for i, s := range blk.List {
					var head *ast.CallExpr
					kind := ""
					for _, k := range []string{"WriteListHead", "WriteMapHead", "WriteObjectHead"} {
						if c, ok := isEncCall(s, k); ok {
							head, kind = c, k
						}
					}
					if head == nil {
						continue
					}
					// 2-D row frames are T6's instances
					if _, isFor := parentOf(fd.Body, blk).(*ast.ForStmt); isFor && kind == "WriteListHead" {
						continue
					}
					key := fmt.Sprintf("frame %s %s", fname, kind)
					// find the matching WriteFoot in the same block
					foot := -1
					for j := i + 1; j < len(blk.List); j++ {
						if _, ok := isEncCall(blk.List[j], "WriteFoot"); ok {
							foot = j
							break
						}
					}
					if foot < 0 {
						r.Viol(key, head.Pos(), "container head is not followed by WriteFoot in the same block: the frame is left open")
						continue
					}
					body := blk.List[i+1 : foot]
					perElem := 1
					if kind == "WriteMapHead" {
						perElem = 2
					}
					// (a) constant count
					if c, ok := intConst(info, head.Args[0]); ok && kind != "WriteObjectHead" {
						n, _ := emissions(body)
						r.Check(int64(n) == c*int64(perElem), key, head.Pos(), fmt.Sprintf("constant count %d, %d emissions", c, n), fmt.Sprintf("head announces %d elements but the body writes %d values", c, n))
						continue
					}
					var coll types.Object
					if kind == "WriteObjectHead" {
						// the class definition declared len(fields) names (B4); the body must iterate fields
						coll = p.LookupField("io", "structEncoder", "fields")
					} else {
						coll = rootOfLen(info, defs, head.Args[0], 0)
					}
					if coll == nil {
						r.Undec(key, head.Pos(), "count "+types.ExprString(head.Args[0])+" is not LEN(collection) in a recognised spelling")
						continue
					}
					// (b') body is `if !fastWriter(coll) { otherWriter(coll) }`: exactly one of two body
					// writers handles the collection (the first reports whether it did)
					if len(body) == 1 {
						if ifs, ok := body[0].(*ast.IfStmt); ok && ifs.Init == nil && ifs.Else == nil && len(ifs.Body.List) == 1 {
							if u, ok := ast.Unparen(ifs.Cond).(*ast.UnaryExpr); ok && u.Op == token.NOT {
								c1, ok1 := ast.Unparen(u.X).(*ast.CallExpr)
								es, ok2 := ifs.Body.List[0].(*ast.ExprStmt)
								if ok1 && ok2 && len(c1.Args) >= 1 && rootObj(info, defs, c1.Args[0], 0) == coll {
									if c2, ok := es.X.(*ast.CallExpr); ok && len(c2.Args) >= 1 && rootObj(info, defs, c2.Args[0], 0) == coll {
										r.Ok(key, head.Pos(), "one of two body writers handles the same collection")
										continue
									}
								}
							}
						}
					}
					// (b) body is one call handing the collection to a body writer
					if len(body) == 1 {
						if es, ok := body[0].(*ast.ExprStmt); ok {
							if call, ok := es.X.(*ast.CallExpr); ok && len(call.Args) >= 1 {
								if rootObj(info, defs, call.Args[0], 0) == coll {
									okN := len(call.Args) == 1 || rootOfLen(info, defs, call.Args[1], 0) == coll
									r.Check(okN, key, head.Pos(), "count and body writer use the same collection", "the count passed to the body writer is not the length announced in the head")
									continue
								}
							}
						}
					}
					// (c') e := lst.Front(); for e != nil { ...; e = e.Next() }: the same list walk with the cursor outside the loop header
					if len(body) == 2 {
						if as, ok := body[0].(*ast.AssignStmt); ok && len(as.Rhs) == 1 && len(as.Lhs) == 1 {
							if c, ok := as.Rhs[0].(*ast.CallExpr); ok {
								if se, ok := c.Fun.(*ast.SelectorExpr); ok && se.Sel.Name == "Front" && rootObj(info, defs, se.X, 0) == coll {
									if fl, ok := body[1].(*ast.ForStmt); ok && fl.Init == nil && fl.Post == nil && fl.Cond != nil {
										cur := identObj(info, as.Lhs[0])
										steps := false
										if nb := len(fl.Body.List); nb > 0 {
											if st, ok := fl.Body.List[nb-1].(*ast.AssignStmt); ok && len(st.Lhs) == 1 && len(st.Rhs) == 1 && identObj(info, st.Lhs[0]) == cur {
												if nc, ok := st.Rhs[0].(*ast.CallExpr); ok && methodName(nc) == "Next" {
													steps = true
												}
											}
										}
										if be, ok := fl.Cond.(*ast.BinaryExpr); ok && be.Op == token.NEQ && identObj(info, be.X) == cur && steps {
											n, _ := emissions(fl.Body.List)
											if n != perElem {
												r.Viol(key, head.Pos(), fmt.Sprintf("loop body writes %d values per element, the frame needs %d", n, perElem))
											} else {
												r.Ok(key, head.Pos(), fmt.Sprintf("walk over the counted list, %d value(s) per element", n))
											}
											continue
										}
									}
								}
							}
						}
					}
					// (c) body is one loop over the collection with perElem emissions per iteration
					if len(body) == 1 {
						var lb *ast.BlockStmt
						iter := false
						switch l := body[0].(type) {
						case *ast.ForStmt:
							lb = l.Body
							if _, nv, ok := countedLoop(info, l); ok {
								iter = rootOfLen(info, defs, &ast.Ident{Name: nv.Name(), NamePos: l.Pos()}, 0) == coll || func() bool {
									d, ok := defs[nv]
									return ok && rootOfLen(info, defs, d, 0) == coll
								}()
							} else if as, ok := l.Init.(*ast.AssignStmt); ok && len(as.Rhs) == 1 {
								// for e := lst.Front(); e != nil; e = e.Next()
								if c, ok := as.Rhs[0].(*ast.CallExpr); ok {
									if se, ok := c.Fun.(*ast.SelectorExpr); ok && se.Sel.Name == "Front" {
										iter = rootObj(info, defs, se.X, 0) == coll
									}
								}
							}
						case *ast.RangeStmt:
							lb = l.Body
							iter = rootObj(info, defs, l.X, 0) == coll
						}
						if lb != nil {
							n, _ := emissions(lb.List)
							switch {
							case !iter:
								r.Viol(key, head.Pos(), "the loop between head and foot does not iterate the collection whose length the head announces")
							case n != perElem:
								r.Viol(key, head.Pos(), fmt.Sprintf("loop body writes %d values per element, the frame needs %d", n, perElem))
							default:
								r.Ok(key, head.Pos(), fmt.Sprintf("loop over the counted collection, %d value(s) per element", n))
							}
							continue
						}
					}
					r.Undec(key, head.Pos(), "unrecognised body between head and foot")
				}
				return true
			})
		}
	}
}

func parentOf(root ast.Node, n ast.Node) ast.Node {
	var res ast.Node
	var stack []ast.Node
	ast.Inspect(root, func(m ast.Node) bool {
		if m == nil {
			stack = stack[:len(stack)-1]
			return true
		}
		if m == n && len(stack) > 0 {
			res = stack[len(stack)-1]
		}
		stack = append(stack, m)
		return res == nil
	})
	return res
}
