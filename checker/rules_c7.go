package main

import (
	"fmt"
	"go/ast"
	"go/token"
	"go/types"
	"sort"
	"strings"
)

// B6 RPC segment scoping, B6m mode-flag negotiation, G5 option exhaustiveness (C07).

func init() {
	register("B6", "in the RPC codecs every top-level value of a message (headers, method name, argument list / result) is written and read in its own reference scope: on every path there is a Reset between two consecutive top-level values, on the encoding and on the decoding side, in both directions", 4, ruleB6)
	register("B6m", "simple-mode negotiation: the client announces its mode in the REQUEST headers and the service reads it there; the service announces its mode in the RESPONSE headers and the client reads it there; the key is the same literal in all four functions and the decoder is switched before the first value of the body is decoded", 4, ruleB6m)
	register("G5", "every decoder option embedded in the codec structs (LongType, RealType, MapType, StructType, ListType: computed from the struct types) is copied to the decoder in both Decode functions, and every With* option sets its field on both codec types", 15, ruleG5)
}

type b6State struct {
	pending bool // a top-level value was transferred since the last Reset
	simple  int  // 0 untouched, 1 decoder.Simple(..) called
}

func (s *b6State) Key() string  { return fmt.Sprintf("%v|%d", s.pending, s.simple) }
func (s *b6State) Copy() PState { n := *s; return &n }

func (p *Prog) ioMethod(info *types.Info, call *ast.CallExpr) (string, string) {
	f := Callee(info, call)
	if f == nil || !p.InRepo(f) {
		return "", ""
	}
	rt := recvType(f)
	switch {
	case p.namedIO(rt, "Encoder"):
		return "Encoder", f.Name()
	case p.namedIO(rt, "Decoder"):
		return "Decoder", f.Name()
	}
	return "", ""
}

var b6Funcs = []struct{ fn, side string }{
	{"clientCodec.Encode", "Encoder"}, {"serviceCodec.Decode", "Decoder"},
	{"serviceCodec.Encode", "Encoder"}, {"clientCodec.Decode", "Decoder"},
}

func ruleB6(r *Run) {
	p := r.P
	for _, c := range b6Funcs {
		key := "segment scoping rpc/core." + c.fn
		fd, pkg := p.DeclOf("rpc/core", c.fn)
		if fd == nil {
			r.Undec(key, 0, "codec function not found")
			continue
		}
		info := pkg.TypesInfo
		bad := ""
		var badPos token.Pos
		nValues := 0
		var walkBody func(body *ast.BlockStmt, init *b6State, depth int) []*b6State
		walkBody = func(body *ast.BlockStmt, init *b6State, depth int) []*b6State {
			var exits []*b6State
			loopDepth := 0
			w := &Walk{Info: info}
			w.Event = func(w *Walk, ps PState, n ast.Node) []PState {
				st := ps.(*b6State)
				call, ok := n.(*ast.CallExpr)
				if !ok {
					return nil
				}
				typ, m := p.ioMethod(info, call)
				if typ != "" {
					switch {
					case m == "Reset" || m == "Simple":
						ns := &b6State{pending: false, simple: st.simple}
						if m == "Simple" {
							ns.simple = 1
						}
						return []PState{ns}
					case (typ == "Encoder" && (m == "Write" || m == "Encode" || m == "WriteString" || m == "EncodeString")) ||
						(typ == "Decoder" && (m == "Decode" || m == "Read")):
						if loopDepth > 0 {
							return nil // elements of the argument/result list live in the list's scope
						}
						nValues++
						if st.pending && bad == "" {
							bad = fmt.Sprintf("two top-level values are transferred by %s without a Reset between them (the second at %s): their reference indices are numbered in one scope on this side and in separate scopes on the other, so every back-reference in the later segment is shifted", c.fn, p.Rel(call.Pos()))
							badPos = call.Pos()
						}
						return []PState{&b6State{pending: true, simple: st.simple}}
					}
					return nil
				}
				// codec helper on the same receiver (decodeArguments, decodeMethod): inline
				if f := Callee(info, call); f != nil && p.InRepo(f) && depth < 3 {
					takesCoder := false
					for _, a := range call.Args {
						if t := info.TypeOf(a); t != nil {
							if dt, _ := deref(t); dt != nil && (p.namedIO(dt, "Decoder") || p.namedIO(dt, "Encoder")) {
								takesCoder = true // a helper that reads/writes part of the message with the same coder
							}
						}
					}
					if d := p.Decl(f); d != nil && d.Body != nil && p.PkgOfDecl(d) == pkg && (takesCoder || strings.HasSuffix(p.FuncName(f), "Codec.decodeArguments")) {
						outs := walkBody(d.Body, st.Copy().(*b6State), depth+1)
						var res []PState
						seen := map[string]bool{}
						for _, o := range outs {
							if !seen[o.Key()] {
								seen[o.Key()] = true
								res = append(res, o)
							}
						}
						if len(res) > 0 {
							return res
						}
					}
				}
				return nil
			}
			w.Loop = func(w *Walk, ps PState, loop ast.Stmt, bodyFn func(PState) []LoopOut) ([]PState, bool) {
				loopDepth++
				outs := bodyFn(ps)
				loopDepth--
				res := []PState{ps}
				for _, o := range outs {
					if o.Flow == fNormal || o.Flow == fBreak {
						res = append(res, o.St)
					}
				}
				return res, true
			}
			w.Exit = func(w *Walk, ps PState, kind flowKind, at ast.Node) {
				if kind != fPanic {
					exits = append(exits, ps.(*b6State))
				}
			}
			w.Run(body, init)
			if len(w.Undecided) > 0 && bad == "" {
				bad = "undecided: " + strings.Join(w.Undecided, "; ")
			}
			return exits
		}
		walkBody(fd.Body, &b6State{}, 0)
		switch {
		case strings.HasPrefix(bad, "undecided"):
			r.Undec(key, fd.Pos(), bad)
		case bad != "":
			r.Viol(key, badPos, bad)
		case nValues < 2:
			r.Undec(key, fd.Pos(), fmt.Sprintf("only %d top-level value transfers recognised", nValues))
		default:
			r.Ok(key, fd.Pos(), fmt.Sprintf("%d top-level value transfers, each in its own scope", nValues))
		}
	}
}

func ruleB6m(r *Run) {
	p := r.P
	// function -> (operation, expected header accessor)
	exp := []struct{ fn, op, accessor string }{
		{"clientCodec.Encode", "Set", "RequestHeaders"},
		{"serviceCodec.Decode", "GetBool", "RequestHeaders"},
		{"serviceCodec.Encode", "Set", "ResponseHeaders"},
		{"clientCodec.Decode", "GetBool", "ResponseHeaders"},
	}
	keys := map[string]bool{}
	for _, e := range exp {
		key := "mode flag in rpc/core." + e.fn
		fd, pkg := p.DeclOf("rpc/core", e.fn)
		if fd == nil {
			r.Undec(key, 0, "codec function not found")
			continue
		}
		info := pkg.TypesInfo
		found, okSide := false, true
		var pos token.Pos
		var simplePos, firstBodyDecode token.Pos
		ast.Inspect(fd.Body, func(n ast.Node) bool {
			call, ok := n.(*ast.CallExpr)
			if !ok {
				return true
			}
			if typ, m := p.ioMethod(info, call); typ == "Decoder" && m == "Simple" {
				simplePos = call.Pos()
			}
			if methodName(call) != e.op || len(call.Args) < 1 {
				return true
			}
			lit, ok := ast.Unparen(call.Args[0]).(*ast.BasicLit)
			if !ok || lit.Kind != token.STRING {
				return true
			}
			// the receiver must be <ctx>.<accessor>()
			se := call.Fun.(*ast.SelectorExpr)
			rc, ok := ast.Unparen(se.X).(*ast.CallExpr)
			if !ok {
				return true
			}
			acc := methodName(rc)
			if acc != "RequestHeaders" && acc != "ResponseHeaders" {
				return true
			}
			found = true
			pos = call.Pos()
			keys[lit.Value] = true
			if acc != e.accessor {
				okSide = false
			}
			return true
		})
		_ = firstBodyDecode
		switch {
		case !found:
			r.Viol(key, fd.Pos(), fmt.Sprintf("%s no longer %ss the mode flag on the %s: the two sides cannot agree on simple/reference mode", e.fn, strings.ToLower(e.op), e.accessor))
		case !okSide:
			r.Viol(key, pos, fmt.Sprintf("%s uses the wrong header set for the mode flag (expected %s): the peer's mode is taken from this side's own headers, so a simple client talking to a reference-mode service (or vice versa) decodes references against an empty table", e.fn, e.accessor))
		default:
			r.Ok(key, pos, e.op+" on "+e.accessor)
		}
		if e.op == "GetBool" {
			k2 := "decoder switched to the announced mode in rpc/core." + e.fn
			r.Check(simplePos.IsValid() && simplePos > pos, k2, fd.Pos(), "decoder.Simple(true) follows the flag test", "the decoder is not switched to simple mode after the flag test")
		}
	}
	var ks []string
	for k := range keys {
		ks = append(ks, k)
	}
	sort.Strings(ks)
	r.Check(len(ks) == 1, "one header key for the mode flag", 0, "key "+strings.Join(ks, ","), "the four codec functions use different header keys for the mode flag: "+strings.Join(ks, ","))
}

func ruleG5(r *Run) {
	p := r.P
	dec, _ := p.LookupObj("io", "Decoder").(*types.TypeName)
	if dec == nil {
		r.Undec("io.Decoder", 0, "not found")
		return
	}
	// option fields = embedded fields of io.Decoder whose types are named option types (int8 enums)
	var opts []string
	dst := dec.Type().Underlying().(*types.Struct)
	for i := 0; i < dst.NumFields(); i++ {
		f := dst.Field(i)
		if f.Embedded() && f.Exported() {
			opts = append(opts, f.Name())
		}
	}
	for _, codec := range []string{"clientCodec", "serviceCodec"} {
		tn, _ := p.LookupObj("rpc/core", codec).(*types.TypeName)
		fd, pkg := p.DeclOf("rpc/core", codec+".Decode")
		if tn == nil || fd == nil {
			r.Undec("codec "+codec, 0, "not found")
			continue
		}
		info := pkg.TypesInfo
		cst := tn.Type().Underlying().(*types.Struct)
		has := map[string]bool{}
		for i := 0; i < cst.NumFields(); i++ {
			has[cst.Field(i).Name()] = true
		}
		copied := map[string]bool{}
		ast.Inspect(fd.Body, func(n ast.Node) bool {
			as, ok := n.(*ast.AssignStmt)
			if !ok || len(as.Lhs) != 1 || len(as.Rhs) != 1 {
				return true
			}
			l, r2 := fieldOf(info, as.Lhs[0]), fieldOf(info, as.Rhs[0])
			if l != nil && r2 != nil && l.Name() == r2.Name() {
				// decoder.X = c.X
				if lt := info.TypeOf(as.Lhs[0].(*ast.SelectorExpr).X); lt != nil && p.namedIO(lt, "Decoder") {
					copied[l.Name()] = true
				}
			}
			return true
		})
		for _, o := range opts {
			key := fmt.Sprintf("option %s reaches the decoder in %s.Decode", o, codec)
			switch {
			case !has[o]:
				r.Viol(key, tn.Pos(), fmt.Sprintf("%s has no field for decoder option %s: the option cannot be configured on this side", codec, o))
			case !copied[o]:
				r.Viol(key, fd.Pos(), fmt.Sprintf("%s.Decode does not copy option %s to the decoder: the configured %s is ignored and values are decoded into the default types on this side only", codec, o, o))
			default:
				r.Ok(key, fd.Pos(), "decoder."+o+" = c."+o)
			}
		}
	}
	// With* options: every option function whose type switch mentions one codec type mentions both,
	// assigning the same field
	pkg := p.Pkg("rpc/core")
	for _, file := range pkg.Syntax {
		for _, d := range file.Decls {
			fd, ok := d.(*ast.FuncDecl)
			if !ok || fd.Body == nil || !strings.HasPrefix(fd.Name.Name, "With") {
				continue
			}
			info := pkg.TypesInfo
			fields := map[string]map[string]bool{} // codec type -> fields assigned
			ast.Inspect(fd.Body, func(n ast.Node) bool {
				cc, ok := n.(*ast.CaseClause)
				if !ok || len(cc.List) != 1 {
					return true
				}
				t := info.TypeOf(cc.List[0])
				if t == nil {
					return true
				}
				name := typeKey(t)
				if !strings.HasSuffix(name, "Codec") {
					return true
				}
				if fields[name] == nil {
					fields[name] = map[string]bool{}
				}
				for _, s := range cc.Body {
					if as, ok := s.(*ast.AssignStmt); ok {
						for _, l := range as.Lhs {
							if fv := fieldOf(info, l); fv != nil {
								fields[name][fv.Name()] = true
							}
						}
					}
				}
				return true
			})
			if len(fields) == 0 {
				continue // WithDebug style (if-form, service only)
			}
			key := "option " + fd.Name.Name + " covers both codecs"
			cf, sf := fields["*core.clientCodec"], fields["*core.serviceCodec"]
			same := len(cf) > 0 && len(cf) == len(sf)
			for f := range cf {
				if !sf[f] {
					same = false
				}
			}
			r.Check(same, key, fd.Pos(), "same field set on clientCodec and serviceCodec", fmt.Sprintf("%s does not set the same field on both codec types (client %v, service %v): the option silently applies to one side only", fd.Name.Name, keysOf(cf), keysOf(sf)))
		}
	}
}

func keysOf(m map[string]bool) []string {
	var k []string
	for s := range m {
		k = append(k, s)
	}
	sort.Strings(k)
	return k
}
