package main

import (
	"fmt"
	"go/ast"
	"go/token"
	"go/types"
	"strings"

	"golang.org/x/tools/go/packages"
)

// R1 effective recover, R2 goroutine containment, R4 failure accounting survives panics.

func init() {
	register("R3", "goroutines that serve ALL peers of a server (the UDP handler's receive and send loops) contain faults per item: inside their loops no byte buffer is sliced or indexed with a bound that is not checked against the buffer, because a panic there, although recovered, ends the loop and closes the server socket for everybody", 2, ruleR3)
	register("R1", "every recover() the code relies on is effective under the Go specification: it is called directly by a deferred function (a deferred literal, or a named function that is only ever used as the operand of defer)", 20, ruleR1)
	register("R2", "from every goroutine entry (go statements, WorkerPool.Submit closures, handlers run by foreign goroutines) request-path callbacks, codec and io coding, explicit panics and unchecked byte-buffer slicing are reached only under an effective deferred recover", 30, ruleR2)
	register("R4", "in Service.Process, Cluster.Handler, CircuitBreaker.IOHandler and the failure-aware load balancers the downstream call is dominated by a defer whose literal contains an effective recover that turns the panic into the error result, with the failure accounting in that literal", 5, ruleR4)
}

// directRecover: does body contain recover() not nested in a function literal?
func directRecover(info *types.Info, body ast.Node) *ast.CallExpr {
	var found *ast.CallExpr
	ast.Inspect(body, func(n ast.Node) bool {
		if found != nil {
			return false
		}
		if _, ok := n.(*ast.FuncLit); ok && n != body {
			return false
		}
		if call, ok := n.(*ast.CallExpr); ok && IsBuiltin(info, call, "recover") {
			found = call
		}
		return true
	})
	return found
}

// deferOnlyFuncs: named repo functions containing a direct recover whose every reference is the
// operand of a defer statement.
func (p *Prog) recoverFuncs() (effective map[*types.Func]bool, ineffective map[*types.Func][]token.Pos) {
	effective = map[*types.Func]bool{}
	ineffective = map[*types.Func][]token.Pos{}
	cands := map[*types.Func]bool{}
	p.EachFunc(func(pkg *packages.Package, fd *ast.FuncDecl) {
		if directRecover(pkg.TypesInfo, fd.Body) != nil {
			if f, ok := pkg.TypesInfo.Defs[fd.Name].(*types.Func); ok {
				cands[f] = true
			}
		}
	})
	bad := map[*types.Func][]token.Pos{}
	for _, pkg := range p.Pkgs {
		info := pkg.TypesInfo
		for _, file := range pkg.Syntax {
			deferCallee := map[*ast.Ident]bool{}
			ast.Inspect(file, func(n ast.Node) bool {
				if d, ok := n.(*ast.DeferStmt); ok {
					switch f := ast.Unparen(d.Call.Fun).(type) {
					case *ast.Ident:
						deferCallee[f] = true
					case *ast.SelectorExpr:
						deferCallee[f.Sel] = true
					}
				}
				return true
			})
			ast.Inspect(file, func(n ast.Node) bool {
				id, ok := n.(*ast.Ident)
				if !ok {
					return true
				}
				if f, ok := info.Uses[id].(*types.Func); ok && cands[f] && !deferCallee[id] {
					bad[f] = append(bad[f], id.Pos())
				}
				return true
			})
		}
	}
	for f := range cands {
		if len(bad[f]) == 0 {
			effective[f] = true
		} else {
			ineffective[f] = bad[f]
		}
	}
	return
}

func ruleR1(r *Run) {
	p := r.P
	eff, ineff := p.recoverFuncs()
	count := map[string]int{}
	for _, pkg := range p.Pkgs {
		info := pkg.TypesInfo
		for _, file := range pkg.Syntax {
			parents := parentMap(file)
			ast.Inspect(file, func(n ast.Node) bool {
				call, ok := n.(*ast.CallExpr)
				if !ok || !IsBuiltin(info, call, "recover") {
					return true
				}
				// enclosing function
				var encl ast.Node
				for x := parents[call]; x != nil; x = parents[x] {
					if _, ok := x.(*ast.FuncLit); ok {
						encl = x
						break
					}
					if _, ok := x.(*ast.FuncDecl); ok {
						encl = x
						break
					}
				}
				switch e := encl.(type) {
				case *ast.FuncLit:
					name := "literal"
					for x := parents[e]; x != nil; x = parents[x] {
						if fd, ok := x.(*ast.FuncDecl); ok {
							name = p.DeclName(fd)
							break
						}
					}
					count[name]++
					key := fmt.Sprintf("recover in deferred literal of %s #%d", name, count[name])
					okDefer := false
					if pc, ok := parents[e].(*ast.CallExpr); ok && ast.Unparen(pc.Fun) == ast.Expr(e) {
						if d, ok := parents[pc].(*ast.DeferStmt); ok && d.Call == pc {
							okDefer = true
						}
					}
					if okDefer {
						r.Ok(key, call.Pos(), "called directly by a deferred literal")
					} else {
						r.Viol(key, call.Pos(), "recover() is inside a function literal that is not itself the operand of defer: by the Go specification it returns nil and the panic continues to unwind")
					}
				case *ast.FuncDecl:
					f, _ := info.Defs[e.Name].(*types.Func)
					key := "recover in " + p.DeclName(e)
					if eff[f] {
						r.Ok(key, call.Pos(), "named function used only as the operand of defer")
					} else {
						var where []string
						for _, ps := range ineff[f] {
							where = append(where, p.Rel(ps))
						}
						r.Viol(key, call.Pos(), fmt.Sprintf("%s contains recover() but is called as an ordinary function (at %s), not deferred directly: the recover never fires and a panic in the goroutine that relies on it kills the process", p.DeclName(e), strings.Join(where, ", ")))
					}
				}
				return true
			})
		}
	}
}

// ---------------------------------------------------------------------------------------
// R2

type r2 struct {
	p       *Prog
	eff     map[*types.Func]bool
	visited map[ast.Node]bool
	defs    map[types.Object]ast.Expr // single-assignment locals of the function being scanned
	parents map[ast.Node]ast.Node
}

// boundChecked: the slicing bound is the count returned by a call that was handed the same
// buffer (n := runtime.Stack(buf, false); buf[:n]) or is compared with len(buffer) by an
// enclosing if.
func (x *r2) boundChecked(info *types.Info, buf ast.Expr, bound ast.Expr, at ast.Node) bool {
	bo := identObj(info, bound)
	if bo == nil {
		return false
	}
	broot := identObj(info, buf)
	if d, ok := x.defs[bo]; ok && d != nil {
		// n := c + copy(buf[k:], src): bounded by the buffer by construction
		de := ast.Unparen(d)
		if be, ok := de.(*ast.BinaryExpr); ok && be.Op == token.ADD {
			if _, isC := intConst(info, be.X); isC {
				de = ast.Unparen(be.Y)
			}
		}
		if call, ok := de.(*ast.CallExpr); ok && IsBuiltin(info, call, "copy") && len(call.Args) == 2 {
			ar := ast.Unparen(call.Args[0])
			if se, ok := ar.(*ast.SliceExpr); ok {
				ar = se.X
			}
			if broot != nil && identObj(info, ar) == broot {
				return true
			}
		}
		if call, ok := ast.Unparen(d).(*ast.CallExpr); ok {
			for _, a := range call.Args {
				ar := ast.Unparen(a)
				if se, ok := ar.(*ast.SliceExpr); ok {
					ar = se.X
				}
				if broot != nil && identObj(info, ar) == broot {
					return true
				}
			}
		}
	}
	// multi-value form: n, addr, err := conn.ReadFromUDP(buf[:])
	var root ast.Node = at
	for y := x.parents[at]; y != nil; y = x.parents[y] {
		root = y
	}
	multi := false
	ast.Inspect(root, func(m ast.Node) bool {
		as, ok := m.(*ast.AssignStmt)
		if !ok || len(as.Rhs) != 1 || len(as.Lhs) < 2 {
			return true
		}
		if identObj(info, as.Lhs[0]) != bo {
			return true
		}
		if call, ok := ast.Unparen(as.Rhs[0]).(*ast.CallExpr); ok {
			for _, a := range call.Args {
				ar := ast.Unparen(a)
				if se, ok := ar.(*ast.SliceExpr); ok {
					ar = se.X
				}
				if broot != nil && identObj(info, ar) == broot {
					multi = true
				}
			}
		}
		return true
	})
	if multi {
		return true
	}
	for y := x.parents[at]; y != nil; y = x.parents[y] {
		ifs, ok := y.(*ast.IfStmt)
		if !ok {
			continue
		}
		mentionsBound, mentionsLen := false, false
		ast.Inspect(ifs.Cond, func(m ast.Node) bool {
			if id, ok := m.(*ast.Ident); ok && info.Uses[id] == bo {
				mentionsBound = true
			}
			if c, ok := m.(*ast.CallExpr); ok && IsBuiltin(info, c, "len") {
				mentionsLen = true
			}
			return true
		})
		if mentionsBound && mentionsLen {
			return true
		}
	}
	return false
}

// protectingDefer: a defer statement whose deferred function contains an effective recover.
func (x *r2) protectingDefer(info *types.Info, d *ast.DeferStmt) bool {
	if fl, ok := ast.Unparen(d.Call.Fun).(*ast.FuncLit); ok {
		return directRecover(info, fl.Body) != nil
	}
	if f := Callee(info, d.Call); f != nil && x.eff[f] {
		return true
	}
	return false
}

var r2CallbackTypes = map[string]bool{"NextIOHandler": true, "NextInvokeHandler": true, "IOHandler": true, "InvokeHandler": true}

func (x *r2) hazardCall(info *types.Info, call *ast.CallExpr) string {
	p := x.p
	if IsBuiltin(info, call, "panic") {
		return "explicit panic"
	}
	if f := Callee(info, call); f != nil {
		full := FullName(f)
		if full == "reflect.Value.Call" {
			return "reflect.Value.Call (published function)"
		}
		if f.Pkg() != nil && f.Pkg().Path() == p.ModPath+"/io" && f.Exported() {
			switch f.Name() {
			case "Marshal", "Unmarshal", "Convert", "Decode", "Read", "Encode", "Write":
				return "io coding entry point " + p.FuncName(f)
			}
		}
		return ""
	}
	if m := IfaceCallee(info, call); m != nil {
		if recv := m.Type().(*types.Signature).Recv(); recv != nil {
			if isNamed(recv.Type(), p.ModPath+"/rpc/core", "ServiceCodec") || isNamed(recv.Type(), p.ModPath+"/rpc/core", "ClientCodec") {
				return "codec " + m.Name()
			}
		}
		return ""
	}
	// dynamic call of a function value
	ft := info.TypeOf(call.Fun)
	if ft == nil {
		return ""
	}
	// the handler types of rpc/core are ALIASES of func types: compare signatures
	for name := range r2CallbackTypes {
		if tn, ok := p.LookupObj("rpc/core", name).(*types.TypeName); ok {
			if types.Identical(types.Unalias(ft), types.Unalias(tn.Type())) {
				return "request-path callback " + name
			}
		}
	}
	// remote call through a client proxy struct (all fields func-typed, filled by UseService):
	// runs the client plugin chain and decodes the peer's response
	if fv := fieldOf(info, call.Fun); fv != nil && p.InRepo(fv) {
		if se, ok := ast.Unparen(call.Fun).(*ast.SelectorExpr); ok {
			if t := info.TypeOf(se.X); t != nil {
				if pt, ok := t.Underlying().(*types.Pointer); ok {
					t = pt.Elem()
				}
				if st, ok := t.Underlying().(*types.Struct); ok && st.NumFields() >= 2 {
					all := true
					for i := 0; i < st.NumFields(); i++ {
						if _, ok := st.Field(i).Type().Underlying().(*types.Signature); !ok {
							all = false
						}
					}
					if all {
						return "remote call through client proxy " + fv.Name() + " (client plugins, response decoding)"
					}
				}
			}
		}
	}
	// user callbacks of the push/reverse plugins: func values with a non-lifecycle name
	if id, ok := ast.Unparen(call.Fun).(*ast.Ident); ok {
		if v, ok := info.Uses[id].(*types.Var); ok {
			if _, isSig := v.Type().Underlying().(*types.Signature); isSig {
				switch v.Name() {
				case "callback", "next", "handler":
					return "callback " + v.Name()
				}
			}
		}
	}
	return ""
}

// hazardIndex: slicing / indexing of a byte buffer that is not provably in range
func (x *r2) hazardIndex(info *types.Info, n ast.Node) string {
	isBytes := func(t types.Type) (slice bool, arrLen int64, ok bool) {
		switch u := t.Underlying().(type) {
		case *types.Slice:
			if b, okb := u.Elem().Underlying().(*types.Basic); okb && b.Kind() == types.Uint8 {
				return true, 0, true
			}
		case *types.Array:
			if b, okb := u.Elem().Underlying().(*types.Basic); okb && b.Kind() == types.Uint8 {
				return false, u.Len(), true
			}
		case *types.Pointer:
			if a, oka := u.Elem().Underlying().(*types.Array); oka {
				if b, okb := a.Elem().Underlying().(*types.Basic); okb && b.Kind() == types.Uint8 {
					return false, a.Len(), true
				}
			}
		}
		return false, 0, false
	}
	switch e := n.(type) {
	case *ast.SliceExpr:
		t := info.TypeOf(e.X)
		if t == nil {
			return ""
		}
		slice, alen, ok := isBytes(t)
		if !ok {
			return ""
		}
		for _, b := range []ast.Expr{e.Low, e.High, e.Max} {
			if b == nil {
				continue
			}
			if c, isC := intConst(info, b); isC {
				if slice || c > alen {
					if slice && c == 0 {
						continue
					}
					return fmt.Sprintf("slice bound %d on a byte slice of unchecked length", c)
				}
				continue
			}
			if x.boundChecked(info, e.X, b, e) {
				continue
			}
			return "byte buffer sliced with a computed bound " + types.ExprString(b)
		}
	case *ast.IndexExpr:
		t := info.TypeOf(e.X)
		if t == nil {
			return ""
		}
		slice, alen, ok := isBytes(t)
		if !ok {
			return ""
		}
		if c, isC := intConst(info, e.Index); isC {
			if slice || c >= alen {
				return fmt.Sprintf("index %d on a byte slice of unchecked length", c)
			}
			return ""
		}
		if slice {
			return "byte slice indexed with a computed index"
		}
	}
	return ""
}

type r2Finding struct {
	what  string
	pos   token.Pos
	chain []string
}

// scan walks statements in order in an unprotected context.
func (x *r2) scan(pkg *packages.Package, name string, body *ast.BlockStmt, chain []string, depth int) *r2Finding {
	if body == nil || depth > 10 || x.visited[body] {
		return nil
	}
	x.visited[body] = true
	info := pkg.TypesInfo
	savedDefs, savedParents := x.defs, x.parents
	x.defs, x.parents = localDefs(info, body), parentMap(body)
	defer func() { x.defs, x.parents = savedDefs, savedParents }()
	for _, st := range body.List {
		if d, ok := st.(*ast.DeferStmt); ok && x.protectingDefer(info, d) {
			return nil // everything after this statement runs under an effective recover
		}
		var res *r2Finding
		ast.Inspect(st, func(n ast.Node) bool {
			if res != nil {
				return false
			}
			switch y := n.(type) {
			case *ast.GoStmt:
				return false // its own entry
			case *ast.FuncLit:
				// literals run in this goroutine when deferred, invoked or used as callbacks: scan
				// their bodies as part of this context
				return true
			case *ast.CallExpr:
				if h := x.hazardCall(info, y); h != "" {
					res = &r2Finding{h, y.Pos(), append(append([]string{}, chain...), fmt.Sprintf("%s: %s at %s", name, h, x.p.Rel(y.Pos())))}
					return false
				}
				if f := Callee(info, y); f != nil && x.p.InRepo(f) {
					if fd := x.p.Decl(f); fd != nil && fd.Body != nil {
						c2 := append(append([]string{}, chain...), fmt.Sprintf("%s calls %s at %s", name, x.p.FuncName(f), x.p.Rel(y.Pos())))
						if sub := x.scan(x.p.PkgOfDecl(fd), x.p.FuncName(f), fd.Body, c2, depth+1); sub != nil {
							res = sub
							return false
						}
					}
				}
			case *ast.SliceExpr, *ast.IndexExpr:
				if h := x.hazardIndex(info, y); h != "" {
					res = &r2Finding{h, y.Pos(), append(append([]string{}, chain...), fmt.Sprintf("%s: %s at %s", name, h, x.p.Rel(y.Pos())))}
					return false
				}
			}
			return true
		})
		if res != nil {
			return res
		}
	}
	return nil
}

func ruleR2(r *Run) {
	p := r.P
	eff, _ := p.recoverFuncs()
	r.Assumption("R2: net/http recovers panics of ServeHTTP per connection (documented); fasthttp v1.37.0 workerFunc has no recover (read in the module cache); lifecycle notifications (On*/onExit/cancel) are not request-path callbacks; make() failures are fatal, not containable")
	type entry struct {
		pkg  *packages.Package
		key  string
		name string
		body *ast.BlockStmt
		pos  token.Pos
	}
	var entries []entry
	p.EachFunc(func(pkg *packages.Package, fd *ast.FuncDecl) {
		info := pkg.TypesInfo
		fname := p.DeclName(fd)
		k := 0
		ast.Inspect(fd.Body, func(n ast.Node) bool {
			switch y := n.(type) {
			case *ast.GoStmt:
				k++
				if fl, ok := ast.Unparen(y.Call.Fun).(*ast.FuncLit); ok {
					entries = append(entries, entry{pkg, fmt.Sprintf("go literal #%d in %s", k, fname), fname + "$go", fl.Body, y.Pos()})
				} else if f := Callee(info, y.Call); f != nil && p.InRepo(f) {
					if d := p.Decl(f); d != nil {
						entries = append(entries, entry{p.PkgOfDecl(d), fmt.Sprintf("go %s #%d in %s", p.FuncName(f), k, fname), p.FuncName(f), d.Body, y.Pos()})
					}
				} else {
					entries = append(entries, entry{pkg, fmt.Sprintf("go <dynamic> #%d in %s", k, fname), "", nil, y.Pos()})
				}
			case *ast.CallExpr:
				// WorkerPool.Submit(closure)
				if m := IfaceCallee(info, y); m != nil && m.Name() == "Submit" && len(y.Args) == 1 {
					arg := ast.Unparen(y.Args[0])
					if fl, ok := arg.(*ast.FuncLit); ok {
						entries = append(entries, entry{pkg, "Submit literal in " + fname, fname + "$submit", fl.Body, y.Pos()})
					} else if c, ok := arg.(*ast.CallExpr); ok {
						if f := Callee(info, c); f != nil && p.InRepo(f) {
							if d := p.Decl(f); d != nil {
								ast.Inspect(d.Body, func(m ast.Node) bool {
									if ret, ok := m.(*ast.ReturnStmt); ok {
										for _, res := range ret.Results {
											if fl, ok := ast.Unparen(res).(*ast.FuncLit); ok {
												entries = append(entries, entry{p.PkgOfDecl(d), "Submit closure from " + p.FuncName(f) + " in " + fname, p.FuncName(f) + "$closure", fl.Body, y.Pos()})
											}
										}
									}
									return true
								})
							}
						}
					}
				}
			}
			return true
		})
		// foreign entries: fasthttp request handlers run on fasthttp's worker goroutines
		if fd.Name.Name == "ServeFastHTTP" {
			entries = append(entries, entry{pkg, "foreign entry " + fname, fname, fd.Body, fd.Pos()})
		}
	})
	for _, e := range entries {
		if e.body == nil {
			r.Undec(e.key, e.pos, "goroutine started on a dynamic function value: cannot be classified")
			continue
		}
		x := &r2{p: p, eff: eff, visited: map[ast.Node]bool{}}
		if f := x.scan(e.pkg, e.name, e.body, nil, 0); f != nil {
			r.ViolT(e.key, f.pos, fmt.Sprintf("reaches %s with no effective recover on the way: a panic there unwinds the goroutine and terminates the whole process instead of failing one call", f.what), f.chain)
		} else {
			r.Ok(e.key, e.pos, "no hazard reachable outside an effective recover")
		}
	}
}

// ---------------------------------------------------------------------------------------
// R4

var r4Sites = []struct{ pkg, fn string }{
	{"rpc/core", "Service.Process"},
	{"rpc/plugins/cluster", "Cluster.Handler"},
	{"rpc/plugins/circuitbreaker", "CircuitBreaker.IOHandler"},
	{"rpc/plugins/loadbalance", "WeightedLeastActiveLoadBalance.Handler"},
	{"rpc/plugins/loadbalance", "WeightedRandomLoadBalance.Handler"},
	{"rpc/plugins/loadbalance", "NginxRoundRobinLoadBalance.Handler"},
}

func ruleR4(r *Run) {
	p := r.P
	for _, s := range r4Sites {
		key := "panic accounting " + s.pkg + "." + s.fn
		fd, pkg := p.DeclOf(s.pkg, s.fn)
		if fd == nil {
			r.Undec(key, 0, "function not found")
			continue
		}
		info := pkg.TypesInfo
		x := &r2{p: p}
		// find the downstream call(s): request-path callback hazards
		var downstream []*ast.CallExpr
		ast.Inspect(fd.Body, func(n ast.Node) bool {
			if call, ok := n.(*ast.CallExpr); ok {
				if h := x.hazardCall(info, call); strings.HasPrefix(h, "request-path callback") || strings.HasPrefix(h, "callback") {
					downstream = append(downstream, call)
				}
			}
			return true
		})
		if len(downstream) == 0 {
			// the guarded call may have been split off into a helper of the same package
			// (Process -> invoke): analyse the helper that contains it instead
			var helper *ast.FuncDecl
			ast.Inspect(fd.Body, func(n ast.Node) bool {
				call, ok := n.(*ast.CallExpr)
				if !ok || helper != nil {
					return true
				}
				if d, cpkg := p.calleeDecl(info, call); d != nil && cpkg == pkg {
					ast.Inspect(d.Body, func(m ast.Node) bool {
						if c2, ok := m.(*ast.CallExpr); ok {
							if h := x.hazardCall(info, c2); strings.HasPrefix(h, "request-path callback") || strings.HasPrefix(h, "callback") {
								helper = d
							}
						}
						return true
					})
				}
				return true
			})
			if helper != nil {
				fd = helper
				ast.Inspect(fd.Body, func(n ast.Node) bool {
					if call, ok := n.(*ast.CallExpr); ok {
						if h := x.hazardCall(info, call); strings.HasPrefix(h, "request-path callback") || strings.HasPrefix(h, "callback") {
							downstream = append(downstream, call)
						}
					}
					return true
				})
			}
		}
		if len(downstream) == 0 {
			r.Undec(key, fd.Pos(), "no downstream handler call found")
			continue
		}
		// a deferred literal with a direct recover that assigns an error-typed variable,
		// positioned before the first downstream call in the same function (literal) scope
		parents := parentMap(fd)
		okAll := true
		why := ""
		for _, call := range downstream {
			// enclosing function body of the call
			var scope *ast.BlockStmt
			for y := parents[call]; y != nil; y = parents[y] {
				if fl, ok := y.(*ast.FuncLit); ok {
					// skip deferred literals (retries inside the deferred section re-enter the handler, which has its own defer)
					scope = fl.Body
					break
				}
				if d, ok := y.(*ast.FuncDecl); ok {
					scope = d.Body
					break
				}
			}
			if scope == nil {
				continue
			}
			// calls inside a deferred literal are re-invocations (cluster retry): guarded by the callee's own defer
			inDeferred := false
			for y := parents[call]; y != nil; y = parents[y] {
				if fl, ok := y.(*ast.FuncLit); ok {
					if pc, ok := parents[fl].(*ast.CallExpr); ok {
						if _, ok := parents[pc].(*ast.DeferStmt); ok {
							inDeferred = true
						}
					}
				}
			}
			if inDeferred {
				continue
			}
			found := false
			for _, st := range scope.List {
				if st.Pos() > call.Pos() {
					break
				}
				d, ok := st.(*ast.DeferStmt)
				if !ok {
					continue
				}
				fl, ok := ast.Unparen(d.Call.Fun).(*ast.FuncLit)
				if !ok || directRecover(info, fl.Body) == nil {
					continue
				}
				// assigns an error variable from the recovered value
				assignsErr := false
				ast.Inspect(fl.Body, func(m ast.Node) bool {
					if as, ok := m.(*ast.AssignStmt); ok {
						for _, l := range as.Lhs {
							if t := info.TypeOf(l); t != nil && types.Identical(t, types.Universe.Lookup("error").Type()) {
								assignsErr = true
							}
						}
					}
					return true
				})
				if assignsErr {
					found = true
					// the recover must run before the literal looks at the error result: accounting
					// placed above it sees err == nil for a panicking call
					rc := directRecover(info, fl.Body)
					ast.Inspect(fl.Body, func(m ast.Node) bool {
						be, ok := m.(*ast.BinaryExpr)
						if !ok || (be.Op != token.NEQ && be.Op != token.EQL) || be.Pos() > rc.Pos() {
							return true
						}
						if t := info.TypeOf(be.X); t != nil && types.Identical(t, types.Universe.Lookup("error").Type()) {
							if id, ok := ast.Unparen(be.Y).(*ast.Ident); ok && id.Name == "nil" {
								okAll = false
								why = fmt.Sprintf("the deferred section tests the error result at %s BEFORE it calls recover(): for a panicking downstream call the error is still nil there, so the failure accounting is skipped although the caller receives an error", p.Rel(be.Pos()))
							}
						}
						return true
					})
				}
			}
			if !found {
				okAll = false
				why = fmt.Sprintf("the downstream call at %s is not preceded by a defer whose literal recovers and assigns the error result", p.Rel(call.Pos()))
			}
		}
		if okAll {
			r.Ok(key, fd.Pos(), "downstream call dominated by a recovering defer that sets the error")
		} else {
			r.Viol(key, fd.Pos(), why+": a panicking downstream handler bypasses the failure accounting (or escapes as a panic instead of an error result)")
		}
	}
}

// ---------------------------------------------------------------------------------------
// R3

func ruleR3(r *Run) {
	p := r.P
	for _, fn := range []string{"Handler.receive", "Handler.send"} {
		key := "shared loop rpc/udp." + fn
		fd, pkg := p.DeclOf("rpc/udp", fn)
		if fd == nil {
			r.Undec(key, 0, "function not found")
			continue
		}
		info := pkg.TypesInfo
		x := &r2{p: p, defs: localDefs(info, fd.Body), parents: parentMap(fd.Body)}
		bad := ""
		var badPos token.Pos
		ast.Inspect(fd.Body, func(n ast.Node) bool {
			if bad != "" {
				return false
			}
			fs, ok := n.(*ast.ForStmt)
			if !ok {
				return true
			}
			ast.Inspect(fs.Body, func(m ast.Node) bool {
				if bad != "" {
					return false
				}
				switch m.(type) {
				case *ast.SliceExpr, *ast.IndexExpr:
					if h := x.hazardIndex(info, m); h != "" {
						bad, badPos = h, m.Pos()
					}
				}
				return true
			})
			return false
		})
		if bad != "" {
			r.Viol(key, badPos, bad+" inside the loop that serves every peer: one crafted or oversized message panics the loop, the recover ends it and the server socket is closed for all clients")
		} else {
			r.Ok(key, fd.Pos(), "no unchecked buffer slicing inside the shared loop")
		}
	}
}
