package main

import (
	"fmt"
	"go/ast"
	"go/token"
	"go/types"
	"regexp"
	"sort"
	"strings"

	"golang.org/x/tools/go/packages"
)

// V1 no escape of views into decoded values, V2 no view used after a possible refill.
//
// A "view" is a slice (or unsafe string) that points into the decoder's refillable window
// dec.buf[head:tail]. The repository's own contract names the functions that may hand one out:
// methods whose name contains "unsafe", and functions with a second result `safe bool`
// (the view case is safe == false). Everything else promises stable values.

func init() {
	register("V1", "a view into the decoder's input window never becomes (part of) a decoded value: in every function that is not view-returning by the repository's own contract, a view is neither returned, stored through a pointer or field, nor registered in the reference table unless it was copied first (or the `safe` flag proves it is not a view)", 4, ruleV1)
	register("V2", "no view into the decoder's window is used after a later call that can refill the window (anything reaching loadMore): in reader mode the refill overwrites the bytes the view points at, so the value read differs from in-memory decoding", 50, ruleV2)
}

var unsafeName = regexp.MustCompile(`(?i)unsafe`)

type viewInfo struct {
	p         *Prog
	viewFuncs map[*types.Func]bool
	refill    map[*types.Func]int
}

func (p *Prog) newViewInfo() *viewInfo {
	vi := &viewInfo{p: p, viewFuncs: map[*types.Func]bool{}, refill: map[*types.Func]int{}}
	pkg := p.Pkg("io")
	if pkg == nil {
		return vi
	}
	for _, file := range pkg.Syntax {
		for _, d := range file.Decls {
			fd, ok := d.(*ast.FuncDecl)
			if !ok || fd.Body == nil {
				continue
			}
			f, _ := pkg.TypesInfo.Defs[fd.Name].(*types.Func)
			if f == nil || !p.namedIO(recvType(f), "Decoder") {
				continue
			}
			sig := f.Type().(*types.Signature)
			if unsafeName.MatchString(f.Name()) {
				vi.viewFuncs[f] = true
			}
			if sig.Results().Len() == 2 && sig.Results().At(1).Name() == "safe" {
				vi.viewFuncs[f] = true
			}
			// directly returns a slice of dec.buf (or of a local alias of it)
			info := pkg.TypesInfo
			alias := map[types.Object]bool{}
			ast.Inspect(fd.Body, func(n ast.Node) bool {
				if as, ok := n.(*ast.AssignStmt); ok && len(as.Lhs) == len(as.Rhs) {
					for i, rhs := range as.Rhs {
						if se, ok := ast.Unparen(rhs).(*ast.SliceExpr); ok {
							if fv := fieldOf(info, se.X); fv != nil && fv.Name() == "buf" {
								if o := identObj(info, as.Lhs[i]); o != nil {
									alias[o] = true
								}
							}
						}
					}
				}
				return true
			})
			ast.Inspect(fd.Body, func(n ast.Node) bool {
				if ret, ok := n.(*ast.ReturnStmt); ok {
					for _, res := range ret.Results {
						if se, ok := ast.Unparen(res).(*ast.SliceExpr); ok {
							if fv := fieldOf(info, se.X); fv != nil && fv.Name() == "buf" {
								vi.viewFuncs[f] = true
							}
							if o := identObj(info, se.X); o != nil && alias[o] {
								vi.viewFuncs[f] = true
							}
						}
					}
				}
				return true
			})
		}
	}
	// forwarders: an UNEXPORTED decoder method that returns what a view function returned is a view function itself
	// (its callers are then held to the view discipline instead of the helper)
	for changed := true; changed; {
		changed = false
		for _, file := range pkg.Syntax {
			for _, d := range file.Decls {
				fd, ok := d.(*ast.FuncDecl)
				if !ok || fd.Body == nil || fd.Name.IsExported() {
					continue
				}
				f, _ := pkg.TypesInfo.Defs[fd.Name].(*types.Func)
				if f == nil || vi.viewFuncs[f] || !p.namedIO(recvType(f), "Decoder") {
					continue
				}
				ast.Inspect(fd.Body, func(n ast.Node) bool {
					if _, isLit := n.(*ast.FuncLit); isLit {
						return false
					}
					if ret, ok := n.(*ast.ReturnStmt); ok {
						for _, res := range ret.Results {
							if c, ok := ast.Unparen(res).(*ast.CallExpr); ok {
								if cf := Callee(pkg.TypesInfo, c); cf != nil && vi.viewFuncs[cf] {
									vi.viewFuncs[f] = true
									changed = true
								}
							}
						}
					}
					return true
				})
			}
		}
	}
	return vi
}

// mayRefill: f transitively reaches Decoder.loadMore through static repo calls
func (vi *viewInfo) mayRefill(f *types.Func, depth int) bool {
	if v, ok := vi.refill[f]; ok {
		return v == 1
	}
	vi.refill[f] = 0
	if vi.p.FuncName(f) == "io.Decoder.loadMore" {
		vi.refill[f] = 1
		return true
	}
	fd := vi.p.Decl(f)
	if fd == nil || fd.Body == nil || depth > 20 {
		return false
	}
	info := vi.p.PkgOfDecl(fd).TypesInfo
	res := false
	ast.Inspect(fd.Body, func(n ast.Node) bool {
		if res {
			return false
		}
		if call, ok := n.(*ast.CallExpr); ok {
			if g := Callee(info, call); g != nil && vi.p.InRepo(g) && vi.mayRefill(g, depth+1) {
				res = true
			}
		}
		return true
	})
	if res {
		vi.refill[f] = 1
	}
	return res
}

type viewVar struct {
	obj  types.Object
	def  token.Pos // end of the defining call
	src  string
	safe types.Object // the accompanying `safe` flag variable, if any
}

// viewVars finds the local variables of fd that hold a view.
func (vi *viewInfo) viewVars(info *types.Info, fd *ast.FuncDecl) []viewVar {
	var out []viewVar
	isViewCall := func(e ast.Expr) (string, bool) {
		e = ast.Unparen(e)
		call, ok := e.(*ast.CallExpr)
		if !ok {
			return "", false
		}
		if f := Callee(info, call); f != nil {
			if vi.viewFuncs[f] {
				return f.Name(), true
			}
			// conversion helpers keep view-ness
			if (f.Name() == "ToUnsafeString" || f.Name() == "ToUnsafeBytes") && len(call.Args) == 1 {
				if s, ok := isViewCallExpr(vi, info, call.Args[0]); ok {
					return s, true
				}
			}
		}
		return "", false
	}
	ast.Inspect(fd.Body, func(n ast.Node) bool {
		as, ok := n.(*ast.AssignStmt)
		if !ok {
			return true
		}
		if len(as.Rhs) == 1 {
			if src, ok := isViewCall(as.Rhs[0]); ok {
				if o := identObj(info, as.Lhs[0]); o != nil && as.Lhs[0].(*ast.Ident).Name != "_" {
					vv := viewVar{obj: o, def: as.Rhs[0].End(), src: src}
					if len(as.Lhs) == 2 {
						if so := identObj(info, as.Lhs[1]); so != nil && as.Lhs[1].(*ast.Ident).Name != "_" {
							vv.safe = so
						}
					}
					out = append(out, vv)
				}
			}
		}
		return true
	})
	// one level of derivation: x := ToUnsafeString(v) / v[a:b] / x := v
	for changed := true; changed; {
		changed = false
		ast.Inspect(fd.Body, func(n ast.Node) bool {
			as, ok := n.(*ast.AssignStmt)
			if !ok || len(as.Lhs) != len(as.Rhs) {
				return true
			}
			for i, rhs := range as.Rhs {
				base := ast.Unparen(rhs)
				if call, ok := base.(*ast.CallExpr); ok {
					if f := Callee(info, call); f != nil && (f.Name() == "ToUnsafeString" || f.Name() == "ToUnsafeBytes") && len(call.Args) == 1 {
						base = ast.Unparen(call.Args[0])
					}
				}
				if se, ok := base.(*ast.SliceExpr); ok {
					base = ast.Unparen(se.X)
				}
				o := identObj(info, base)
				if o == nil {
					continue
				}
				for _, v := range out {
					if v.obj == o {
						l := identObj(info, as.Lhs[i])
						if l == nil || l == o {
							continue
						}
						dup := false
						for _, w := range out {
							if w.obj == l {
								dup = true
							}
						}
						if !dup {
							out = append(out, viewVar{obj: l, def: rhs.End(), src: v.src, safe: v.safe})
							changed = true
						}
					}
				}
			}
			return true
		})
	}
	return out
}

func isViewCallExpr(vi *viewInfo, info *types.Info, e ast.Expr) (string, bool) {
	if call, ok := ast.Unparen(e).(*ast.CallExpr); ok {
		if f := Callee(info, call); f != nil && vi.viewFuncs[f] {
			return f.Name(), true
		}
	}
	return "", false
}

func ruleV2(r *Run) {
	p := r.P
	vi := p.newViewInfo()
	if len(vi.viewFuncs) < 6 {
		r.Undec("view-returning functions", 0, fmt.Sprintf("only %d view-returning decoder functions recognised (expected next/until/readStringAsBytes/fastReadStringAsBytes and the *Unsafe* family)", len(vi.viewFuncs)))
		return
	}
	var names []string
	for f := range vi.viewFuncs {
		names = append(names, f.Name())
	}
	sort.Strings(names)
	r.Extra["view_functions"] = names
	r.Assumption("V: functions named *Unsafe* or returning (data, safe bool) are the only ones allowed to hand out views of the decoder window; string(b), []byte(s), append(dst, v...) and make+copy produce stable copies; strconv/time/uuid/big parsers do not retain their argument (checked against GOROOT go1.23)")
	p.EachFunc(func(pkg *packages.Package, fd *ast.FuncDecl) {
		info := pkg.TypesInfo
		fname := p.DeclName(fd)
		// immediate uses: a view call used as an argument is consumed before anything else runs
		nImm := 0
		ast.Inspect(fd.Body, func(n ast.Node) bool {
			if call, ok := n.(*ast.CallExpr); ok {
				for _, a := range call.Args {
					if _, ok := isViewCallExpr(vi, info, a); ok {
						nImm++
					}
				}
			}
			return true
		})
		for i := 0; i < nImm; i++ {
			r.Ok(fmt.Sprintf("view consumed immediately in %s #%d", fname, i+1), fd.Pos(), "view passed straight to its consumer")
		}
		vars := vi.viewVars(info, fd)
		if len(vars) == 0 {
			return
		}
		// named results (bare return uses them at the end)
		namedRes := map[types.Object]bool{}
		if fd.Type.Results != nil {
			for _, f := range fd.Type.Results.List {
				for _, n := range f.Names {
					namedRes[info.Defs[n]] = true
				}
			}
		}
		parents := parentMap(fd.Body)
		for _, v := range vars {
			key := fmt.Sprintf("view %s from %s in %s", v.obj.Name(), v.src, fname)
			// first possibly refilling call after the definition
			var refillPos token.Pos
			var refillName string
			ast.Inspect(fd.Body, func(n ast.Node) bool {
				call, ok := n.(*ast.CallExpr)
				if !ok || call.Pos() < v.def {
					return true
				}
				if g := Callee(info, call); g != nil && p.InRepo(g) && vi.mayRefill(g, 0) {
					if !refillPos.IsValid() || call.Pos() < refillPos {
						refillPos, refillName = call.Pos(), g.Name()
					}
				}
				return true
			})
			if !refillPos.IsValid() {
				r.Ok(key, v.def, "no refill can happen while the view is live")
				continue
			}
			// repaired idiom: the view is replaced by a copy when the window is exhausted
			// (if ... dec.head == dec.tail ... { v = copy }) before the refilling call
			copied := false
			ast.Inspect(fd.Body, func(n ast.Node) bool {
				ifs, ok := n.(*ast.IfStmt)
				if !ok || ifs.Pos() < v.def || ifs.Pos() > refillPos {
					return true
				}
				mHead, mTail := false, false
				ast.Inspect(ifs.Cond, func(m ast.Node) bool {
					if e, ok := m.(ast.Expr); ok {
						if fv := fieldOf(info, e); fv != nil {
							if fv.Name() == "head" {
								mHead = true
							}
							if fv.Name() == "tail" {
								mTail = true
							}
						}
					}
					return true
				})
				if mHead && mTail {
					for _, s := range ifs.Body.List {
						if as, ok := s.(*ast.AssignStmt); ok {
							for _, l := range as.Lhs {
								if identObj(info, l) == v.obj {
									copied = true
								}
							}
						}
					}
				}
				return true
			})
			if copied {
				r.Ok(key, v.def, "view replaced by a copy when the window is exhausted, before "+refillName)
				continue
			}
			// uses after the refill
			var usePos token.Pos
			ast.Inspect(fd.Body, func(n ast.Node) bool {
				id, ok := n.(*ast.Ident)
				if !ok || info.Uses[id] != v.obj || id.Pos() <= refillPos {
					return true
				}
				// an assignment target is not a use
				if as, ok := parents[id].(*ast.AssignStmt); ok {
					for _, l := range as.Lhs {
						if l == ast.Expr(id) {
							return true
						}
					}
				}
				if !usePos.IsValid() {
					usePos = id.Pos()
				}
				return true
			})
			if !usePos.IsValid() && namedRes[v.obj] {
				usePos = fd.Body.End() // returned to the caller after the refill
			}
			if usePos.IsValid() {
				r.Viol(key, refillPos, fmt.Sprintf("the view %s (from %s) is used at %s after %s, which can refill the decoder window in reader mode: when the value ends exactly at the chunk boundary the bytes read are those of the next chunk, so streaming and in-memory decoding differ", v.obj.Name(), v.src, p.Rel(usePos), refillName))
			} else {
				r.Ok(key, v.def, "not used after the first possibly refilling call")
			}
		}
	})
}

func ruleV1(r *Run) {
	p := r.P
	vi := p.newViewInfo()
	if len(vi.viewFuncs) < 6 {
		r.Undec("view-returning functions", 0, "view-returning decoder functions not recognised")
		return
	}
	p.EachFunc(func(pkg *packages.Package, fd *ast.FuncDecl) {
		if pkg != p.Pkg("io") {
			return
		}
		info := pkg.TypesInfo
		f, _ := info.Defs[fd.Name].(*types.Func)
		if f == nil || vi.viewFuncs[f] {
			return // allowed to hand out views by contract
		}
		fname := p.DeclName(fd)
		vars := vi.viewVars(info, fd)
		parents := parentMap(fd.Body)
		isView := func(e ast.Expr) (string, types.Object, bool) {
			e = ast.Unparen(e)
			if s, ok := isViewCallExpr(vi, info, e); ok {
				return s, nil, true
			}
			if call, ok := e.(*ast.CallExpr); ok {
				if g := Callee(info, call); g != nil && (g.Name() == "ToUnsafeString" || g.Name() == "ToUnsafeBytes") && len(call.Args) == 1 {
					e = ast.Unparen(call.Args[0])
					if s, ok := isViewCallExpr(vi, info, e); ok {
						return s, nil, true
					}
				}
			}
			if se, ok := e.(*ast.SliceExpr); ok {
				e = ast.Unparen(se.X)
			}
			if o := identObj(info, e); o != nil {
				for _, v := range vars {
					if v.obj == o {
						return v.src, v.safe, true
					}
				}
			}
			return "", nil, false
		}
		provenSafe := func(at ast.Node, safe types.Object) bool {
			if safe == nil {
				return false
			}
			for _, fc := range collectFacts(parents, at) {
				if !fc.neg && identObj(info, fc.e) == safe {
					return true
				}
			}
			return false
		}
		n := 0
		report := func(pos token.Pos, at ast.Node, what string, e ast.Expr) {
			src, safe, ok := isView(e)
			if !ok {
				return
			}
			n++
			key := fmt.Sprintf("view %s in %s #%d", what, fname, n)
			if provenSafe(at, safe) {
				r.Ok(key, pos, "under `safe`: the data was assembled in a private buffer")
				return
			}
			r.Viol(key, pos, fmt.Sprintf("a view of the decoder's input window (from %s) is %s without being copied: the decoded value aliases the input buffer and changes when the caller overwrites the input or the decoder refills (the function is not view-returning by contract: no \"unsafe\" in its name, no safe flag)", src, what))
		}
		ast.Inspect(fd.Body, func(m ast.Node) bool {
			switch x := m.(type) {
			case *ast.ReturnStmt:
				for _, res := range x.Results {
					report(res.Pos(), x, "returned", res)
				}
			case *ast.AssignStmt:
				for i, l := range x.Lhs {
					if i >= len(x.Rhs) {
						break
					}
					switch ast.Unparen(l).(type) {
					case *ast.StarExpr, *ast.SelectorExpr, *ast.IndexExpr:
						report(x.Pos(), x, "stored into "+types.ExprString(l), x.Rhs[i])
					}
				}
			case *ast.CallExpr:
				if g := Callee(info, x); g != nil && p.InRepo(g) {
					switch p.FuncName(g) {
					case "io.decoderRefer.Add", "io.Decoder.AddReference", "io.Decoder.SetReference":
						for _, a := range x.Args {
							report(a.Pos(), x, "registered in the reference table", a)
						}
					}
				}
			}
			return true
		})
		// every view variable of a non-view function is an instance even when it has no sink
		for _, v := range vars {
			r.Ok(fmt.Sprintf("view variable %s in %s", v.obj.Name(), fname), v.def, "flows only into transient consumers / copies")
		}
		// bare returns of named results holding a view
		if fd.Type.Results != nil {
			for _, fl := range fd.Type.Results.List {
				for _, nm := range fl.Names {
					for _, v := range vars {
						if v.obj == info.Defs[nm] {
							r.Viol(fmt.Sprintf("view returned through named result %s in %s", nm.Name, fname), fd.Pos(), fmt.Sprintf("the named result %s holds a view of the decoder window (from %s) and is returned by a function that is not view-returning by contract", nm.Name, v.src))
						}
					}
				}
			}
		}
	})
	_ = strings.TrimSpace
}

// ---------------------------------------------------------------------------------------
// V4 found-tests of index searches (C05: a delimiter that is the FIRST byte after a refill)

func init() {
	register("V4", "the result of bytes.IndexByte / strings.Index* is tested for 'found' with >= 0 (or != -1): a test that excludes position 0 misses a delimiter that arrives as the first byte of a refilled window, so a token runs on in streaming mode only", 2, ruleV4)
}

func ruleV4(r *Run) {
	p := r.P
	p.EachFunc(func(pkg *packages.Package, fd *ast.FuncDecl) {
		info := pkg.TypesInfo
		idx := map[types.Object]string{}
		ast.Inspect(fd.Body, func(n ast.Node) bool {
			as, ok := n.(*ast.AssignStmt)
			if !ok || len(as.Lhs) != 1 || len(as.Rhs) != 1 {
				return true
			}
			call, ok := ast.Unparen(as.Rhs[0]).(*ast.CallExpr)
			if !ok {
				return true
			}
			if f := Callee(info, call); f != nil && f.Pkg() != nil && (f.Pkg().Path() == "bytes" || f.Pkg().Path() == "strings") && strings.HasPrefix(f.Name(), "Index") {
				if o := identObj(info, as.Lhs[0]); o != nil {
					idx[o] = f.Pkg().Name() + "." + f.Name()
				}
			}
			return true
		})
		if len(idx) == 0 {
			return
		}
		n := 0
		ast.Inspect(fd.Body, func(m ast.Node) bool {
			be, ok := m.(*ast.BinaryExpr)
			if !ok {
				return true
			}
			o := identObj(info, be.X)
			src, isIdx := idx[o]
			if !isIdx {
				return true
			}
			c, isC := intConst(info, be.Y)
			if !isC {
				return true
			}
			switch be.Op {
			case token.LSS, token.LEQ, token.GTR, token.GEQ, token.EQL, token.NEQ:
			default:
				return true
			}
			n++
			key := fmt.Sprintf("found-test of %s in %s #%d", src, p.DeclName(fd), n)
			okTest := (be.Op == token.GEQ && c == 0) || (be.Op == token.LSS && c == 0) || (be.Op == token.GTR && c == -1) ||
				(be.Op == token.LEQ && c == -1) || ((be.Op == token.EQL || be.Op == token.NEQ) && c == -1)
			if okTest {
				r.Ok(key, be.Pos(), types.ExprString(be))
			} else {
				r.Viol(key, be.Pos(), fmt.Sprintf("the result of %s is tested with `%s`, which treats a match at position 0 as 'not found': a delimiter that is the first byte of a (refilled) window is missed", src, types.ExprString(be)))
			}
			return true
		})
	})
}

// ---------------------------------------------------------------------------------------
// V3 reused receive buffers and pooled bodies are copied out (C12)

func init() {
	register("V3", "bytes taken from a buffer that is reused (a local byte array read into by a loop, the pooled body of a fasthttp request/response) are copied before they are returned, dispatched to a goroutine / worker, sent on a channel or stored: otherwise a later datagram or request overwrites what an earlier one delivered", 4, ruleV3)
}

func ruleV3(r *Run) {
	p := r.P
	p.EachFunc(func(pkg *packages.Package, fd *ast.FuncDecl) {
		rel := p.RelPkg(pkg.Types)
		if !strings.HasPrefix(rel, "rpc/") {
			return
		}
		info := pkg.TypesInfo
		fname := p.DeclName(fd)
		// volatile sources
		isArrayLocal := func(e ast.Expr) bool {
			o := identObj(info, e)
			if o == nil {
				return false
			}
			if a, ok := o.Type().Underlying().(*types.Array); ok {
				if b, ok := a.Elem().Underlying().(*types.Basic); ok && b.Kind() == types.Uint8 && a.Len() > 64 {
					return true
				}
			}
			return false
		}
		volatile := func(e ast.Expr) string {
			e = ast.Unparen(e)
			if se, ok := e.(*ast.SliceExpr); ok && isArrayLocal(se.X) {
				return "slice of the reused buffer " + types.ExprString(se.X)
			}
			if call, ok := e.(*ast.CallExpr); ok {
				if f := Callee(info, call); f != nil && f.Pkg() != nil && f.Pkg().Path() == "github.com/valyala/fasthttp" {
					switch f.Name() {
					case "Body", "Peek", "Method", "Path", "RequestURI", "Host", "PostBody":
						return "pooled fasthttp " + f.Name() + "()"
					}
				}
			}
			return ""
		}
		tainted := map[types.Object]string{}
		for changed := true; changed; {
			changed = false
			ast.Inspect(fd.Body, func(n ast.Node) bool {
				as, ok := n.(*ast.AssignStmt)
				if !ok || len(as.Lhs) != len(as.Rhs) {
					return true
				}
				for i, rhs := range as.Rhs {
					src := volatile(rhs)
					if src == "" {
						base := ast.Unparen(rhs)
						if se, ok := base.(*ast.SliceExpr); ok {
							base = ast.Unparen(se.X)
						}
						if o := identObj(info, base); o != nil {
							src = tainted[o]
						}
					}
					if src != "" {
						if l := identObj(info, as.Lhs[i]); l != nil && tainted[l] == "" {
							if _, isSlice := l.Type().Underlying().(*types.Slice); isSlice {
								tainted[l] = src
								changed = true
							}
						}
					}
				}
				return true
			})
		}
		srcOf := func(e ast.Expr) string {
			if s := volatile(e); s != "" {
				return s
			}
			base := ast.Unparen(e)
			if se, ok := base.(*ast.SliceExpr); ok {
				base = ast.Unparen(se.X)
			}
			if o := identObj(info, base); o != nil {
				return tainted[o]
			}
			return ""
		}
		n := 0
		flag := func(pos token.Pos, what string, e ast.Expr) {
			src := srcOf(e)
			if src == "" {
				return
			}
			n++
			r.Viol(fmt.Sprintf("volatile bytes %s in %s #%d", what, fname, n), pos, fmt.Sprintf("%s (%s) is %s without being copied: the buffer is reused for the next datagram/request, so the bytes delivered change under the receiver (truncation, or bytes of another message or client)", types.ExprString(e), src, what))
		}
		hasSource := len(tainted) > 0
		ast.Inspect(fd.Body, func(m ast.Node) bool {
			if vs, ok := m.(*ast.ValueSpec); ok {
				for _, id := range vs.Names {
					if isArrayLocal(id) {
						hasSource = true
					}
				}
			}
			return true
		})
		ast.Inspect(fd.Body, func(m ast.Node) bool {
			switch x := m.(type) {
			case *ast.ReturnStmt:
				for _, res := range x.Results {
					flag(res.Pos(), "returned", res)
				}
			case *ast.SendStmt:
				flag(x.Pos(), "sent on a channel", x.Value)
				if cl, ok := ast.Unparen(x.Value).(*ast.CompositeLit); ok {
					for _, el := range cl.Elts {
						if kv, ok := el.(*ast.KeyValueExpr); ok {
							flag(kv.Pos(), "sent on a channel", kv.Value)
						}
					}
				}
			case *ast.GoStmt:
				for _, a := range x.Call.Args {
					flag(a.Pos(), "handed to a goroutine", a)
				}
			case *ast.CallExpr:
				if f := Callee(info, x); f != nil && p.InRepo(f) {
					name := p.FuncName(f)
					if name == "rpc/core.Service.Handle" || strings.HasSuffix(name, ".Handler.task") || strings.HasSuffix(name, ".Handler.run") {
						for _, a := range x.Args {
							flag(a.Pos(), "dispatched", a)
						}
					}
				}
			}
			return true
		})
		if hasSource && n == 0 {
			r.Ok("volatile bytes copied out in "+fname, fd.Pos(), fmt.Sprintf("%d view(s) of reused storage, none escapes", len(tainted)))
		}
	})
}
