package main

import (
	"fmt"
	"go/ast"
	"go/constant"
	"go/token"
	"go/types"
	"strings"

	"golang.org/x/tools/go/packages"
)

// Rules added after the fourth round of independent seeding.
//   R5  what a deferred recover assigns is a named result (C11)
//   S10 a stream receiver drains the body of every frame it keeps the connection after (C12)
//   S11 the UDP server's loops do not end on a per-datagram error (C13)
//   G29 gcd is folded over all weights (C18)            G30 ClientContext.Init rebinds the client unconditionally (C18)
//   G31 the head of a chain is fetched per call (C15)   G32 plugin constructors return a fresh instance (C20)
//   G33 the error result of a published function is recognised by Implements (C08)
//   G34 per-call reply objects are allocated per call (C08)   G35 connection pools are keyed by the full URL (C16)
//   L12 methods of types with atomic or lock state have pointer receivers (C17)
//   F4  the decimal lookup tables are what they say (C03)     T14 a long item is not read with a 64-bit integer reader into a float (C06)

func init() {
	register("R5", "a variable that a deferred function assigns after recover() in order to report the failure is a NAMED RESULT of the function the defer belongs to (or a field / dereference / variable of an outer function): after a recovered panic the function returns its named results, an assignment to a plain local is lost and the caller receives zero values instead of the error", 4, ruleR5)
	register("S10", "the client's stream receiver (rpc/socket conn.receive) reads the body of every frame whose header it has accepted before it returns without an error: a path that returns nil between the header and the body leaves the body in the stream, where it is parsed as the next frame header (a late response can then forge a response for another pending call)", 1, ruleS10)
	register("S11", "the UDP server's send loop never ends because of the error carried by ONE response (the refusal of one oversized datagram): the per-response error does not control a return or a reportError - for UDP the 'connection' is the whole server socket, closing it refuses every later request of every client", 1, ruleS11)
	register("G29", "the step of the weighted round robin is the gcd of ALL weights: every application of gcd in rpc/plugins/loadbalance happens inside a loop over the weights, as the function value handed to the folding helper, or inside gcd itself (gcd(max, min) is not the gcd of the list: 2,3,4 would be served 2/2/5)", 1, ruleG29)
	register("G30", "ClientContext.Init binds the context to the client of the current call unconditionally (no condition on the field it assigns): a context reused for a call through another client must not keep the first client, whose server list the load balancers would pick from", 1, ruleG30)
	register("G31", "the head of a plugin chain (PluginManager.Handler()) is fetched for each call and invoked at once - the result of Handler() is not kept in a variable, field or argument that outlives the call: a chain resolved once (at Listen, in a constructor) never sees a later Use or Unuse", 4, ruleG31)
	register("G32", "a plugin constructor returns a fresh instance: no function of rpc/plugins returns (or configures through options) the address of a package-level variable of the plugin's own struct type - all breakers, limiters or balancers of a process would share one state", 1, ruleG32)
	register("G33", "where rpc/core decides whether the last result of a published function is its error, it asks Implements(errorType) (or AssignableTo), never type identity with the interface type error: a function whose last result is a concrete error type (*NotFoundError) would otherwise return its nil error as a value, and the caller gets a nil-dereference message for a successful call", 1, ruleG33)
	register("G34", "the reply object of a net/rpc-style method is allocated inside the per-call function (reflect.New within the literal handed to reflect.MakeFunc), not once in the function that builds it: a shared reply makes one call's result visible in the next and lets concurrent calls overwrite each other", 1, ruleG34)
	register("G35", "the connection pool of every transport is keyed by the complete URL of the server (u.String()): a key built from fewer components merges distinct servers - unix sockets differ only in their path, so a cluster of unix-socket servers would share one connection", 3, ruleG35)
	register("L12", "every method of a struct type that holds synchronisation state (a field accessed through sync/atomic, a sync.Mutex/RWMutex/WaitGroup/Once/Pool/Map, a channel used as a semaphore is not counted) has a pointer receiver: with a value receiver the method works on a copy, so a compare-and-swap, a lock or a counter update has no effect on the shared instance (a rate limiter whose IOHandler has a value receiver limits nothing)", 20, ruleL12)
	register("F4", "the decimal lookup tables of the encoder are what their use assumes: digits is \"0123456789\", digit2 the 100 two-digit and digit3 the 1000 three-digit zero-padded decimals in order (one transposed entry - 578 written as 587 - corrupts every length, count, reference index and integer that contains that group, and a test that formats and re-parses 0..999 does not see it)", 3, ruleF4)
	register("T14", "in the decode routines for float destinations the arbitrary-precision integer item (TagLong) is read with the float reader, never with ReadInt64/ReadUint64: a long beyond the 64-bit range would wrap silently (MaxUint64 decodes to -1) where the float reader yields the nearest float", 2, ruleT14)
}

// ---------------------------------------------------------------------------------------------------

func ruleR5(r *Run) {
	p := r.P
	n := 0
	p.EachFunc(func(pkg *packages.Package, fd *ast.FuncDecl) {
		info := pkg.TypesInfo
		perFn := 0
		// every function body (declaration or literal) with its result parameters
		var visit func(body *ast.BlockStmt, ftype *ast.FuncType, name string)
		visit = func(body *ast.BlockStmt, ftype *ast.FuncType, name string) {
			results := map[types.Object]bool{}
			params := map[types.Object]bool{}
			if ftype.Results != nil {
				for _, f := range ftype.Results.List {
					for _, id := range f.Names {
						results[info.Defs[id]] = true
					}
				}
			}
			for _, pv := range paramsOf(info, ftype) {
				params[pv] = true
			}
			for _, s := range body.List {
				ds, ok := s.(*ast.DeferStmt)
				if !ok {
					continue
				}
				dl, ok := ds.Call.Fun.(*ast.FuncLit)
				if !ok {
					continue
				}
				hasRecover := false
				ast.Inspect(dl.Body, func(m ast.Node) bool {
					if c, ok := m.(*ast.CallExpr); ok && IsBuiltin(info, c, "recover") {
						hasRecover = true
					}
					return true
				})
				if !hasRecover {
					continue
				}
				ast.Inspect(dl.Body, func(m ast.Node) bool {
					as, ok := m.(*ast.AssignStmt)
					if !ok || as.Tok != token.ASSIGN {
						return true
					}
					for _, l := range as.Lhs {
						id, ok := ast.Unparen(l).(*ast.Ident)
						if !ok || id.Name == "_" {
							continue
						}
						o := info.Uses[id]
						v, ok := o.(*types.Var)
						if !ok || v.IsField() {
							continue
						}
						// declared in THIS function body (not in the deferred literal, not a result, not outer)
						if v.Pos() < body.Pos() || v.Pos() > body.End() || (v.Pos() >= dl.Pos() && v.Pos() <= dl.End()) {
							continue
						}
						// only assignments that report the failure: under a test of the recovered value
						reports := false
						for _, fc := range collectFacts(parentMap(dl.Body), as) {
							if be, ok := fc.e.(*ast.BinaryExpr); ok && be.Op == token.NEQ && !fc.neg {
								if nid, ok := ast.Unparen(be.Y).(*ast.Ident); ok && nid.Name == "nil" {
									reports = true
								}
							}
						}
						if !reports {
							continue
						}
						n++
						perFn++
						key := fmt.Sprintf("variable %s assigned after recover in %s #%d", v.Name(), name, perFn)
						okVar := results[v] || params[v]
						if !okVar {
							// used later inside the deferred literal (sent, passed on): the assignment is observable there
							ast.Inspect(dl.Body, func(k ast.Node) bool {
								if kid, ok := k.(*ast.Ident); ok && info.Uses[kid] == v && kid.Pos() > as.End() {
									okVar = true
								}
								return true
							})
						}
						r.Check(okVar, key, as.Pos(), "a named result (or used by the deferred function itself)", fmt.Sprintf("the deferred function assigns the local variable %s after recover(), but %s is not a named result of %s: when the panic has been recovered the function returns its result parameters, the assignment is lost and the caller gets zero values - no error reply for the call that panicked", v.Name(), v.Name(), name))
					}
					return true
				})
			}
			// nested literals
			ast.Inspect(body, func(m ast.Node) bool {
				if fl, ok := m.(*ast.FuncLit); ok && fl.Body != body {
					visit(fl.Body, fl.Type, name+" (literal)")
					return false
				}
				return true
			})
		}
		visit(fd.Body, fd.Type, p.DeclName(fd))
	})
	if n == 0 {
		r.Undec("assignments after recover", 0, "none found")
	}
}

// ---------------------------------------------------------------------------------------------------

type s10State struct {
	parsed, body bool
	err          int // 0 unknown, 1 nil, 2 non-nil
}

func (s *s10State) Key() string  { return fmt.Sprint(s.parsed, s.body, s.err) }
func (s *s10State) Copy() PState { n := *s; return &n }

func ruleS10(r *Run) {
	p := r.P
	fd, pkg := p.DeclOf("rpc/socket", "conn.receive")
	key := "rpc/socket.conn.receive drains every accepted frame"
	if fd == nil {
		r.Undec(key, 0, "not found")
		return
	}
	info := pkg.TypesInfo
	var errObj types.Object
	if fd.Type.Results != nil {
		for _, f := range fd.Type.Results.List {
			for _, id := range f.Names {
				if isErrorType(info.TypeOf(f.Type)) {
					errObj = info.Defs[id]
				}
			}
		}
	}
	if errObj == nil {
		r.Undec(key, fd.Pos(), "the error result is not named (the rule follows it by name)")
		return
	}
	var bad []string
	isRead := func(c *ast.CallExpr) bool {
		switch FullNameOf(info, c) {
		case "io.ReadAtLeast", "io.ReadFull":
			return true
		}
		return false
	}
	nReads := 0
	w := &Walk{Info: info}
	w.Event = func(w *Walk, ps PState, n ast.Node) []PState {
		st := ps.(*s10State).Copy().(*s10State)
		switch x := n.(type) {
		case *ast.AssignStmt:
			for i, l := range x.Lhs {
				if identObj(info, l) != errObj {
					continue
				}
				st.err = 0
				if len(x.Rhs) == len(x.Lhs) {
					rhs := ast.Unparen(x.Rhs[i])
					if id, ok := rhs.(*ast.Ident); ok && id.Name == "nil" {
						st.err = 1
					} else if _, isCall := rhs.(*ast.CallExpr); !isCall {
						st.err = 2 // a composite literal / package-level error value
					}
				}
			}
			if len(x.Rhs) == 1 {
				if c, ok := ast.Unparen(x.Rhs[0]).(*ast.CallExpr); ok {
					if f := Callee(info, c); f != nil && refName(f.Name()) == "parseHeader" {
						st.parsed = true
					}
					if isRead(c) && st.parsed {
						st.body = true
						nReads++
					}
				}
			}
			return []PState{st}
		}
		return nil
	}
	w.Branch = func(w *Walk, ps PState, cond ast.Expr, val bool) (PState, bool) {
		st := ps.(*s10State)
		if b, ok := testsErrSimple(info, cond, errObj); ok {
			ns := st.Copy().(*s10State)
			if b == val {
				ns.err = 2
			} else {
				ns.err = 1
			}
			if st.err != 0 && st.err != ns.err {
				return ps, false // the error is known on this path: the other branch is not taken
			}
			return ns, true
		}
		return ps, true
	}
	w.Exit = func(w *Walk, ps PState, kind flowKind, at ast.Node) {
		st := ps.(*s10State)
		if kind == fPanic || !st.parsed || st.body || st.err == 2 {
			return
		}
		where := "the end of the function"
		if at != nil {
			where = p.Rel(at.Pos())
		}
		bad = append(bad, where)
	}
	w.Run(fd.Body, &s10State{err: 1})
	if len(w.Undecided) > 0 {
		r.Undec(key, fd.Pos(), strings.Join(w.Undecided, "; "))
		return
	}
	if nReads == 0 {
		r.Undec(key, fd.Pos(), "no body read (io.ReadAtLeast / io.ReadFull after parseHeader) found")
		return
	}
	r.Check(len(bad) == 0, key, fd.Pos(), "every nil-error exit after the header has read the body", fmt.Sprintf("conn.receive can return without an error after it has accepted a frame header and before it has read that frame's body (exit at %s): the receive loop goes on and parses the unread body as the next header - ordinary content kills the connection, a crafted late response is delivered to another pending call as its result", strings.Join(bad, ", ")))
}

// FullNameOf: "pkg.Func" of a statically resolved call, "" otherwise.
func FullNameOf(info *types.Info, c *ast.CallExpr) string {
	f := Callee(info, c)
	if f == nil {
		return ""
	}
	return FullName(f)
}

// ---------------------------------------------------------------------------------------------------

func ruleS11(r *Run) {
	p := r.P
	fd, pkg := p.DeclOf("rpc/udp", "Handler.send")
	key := "rpc/udp.Handler.send keeps serving after a per-response error"
	if fd == nil {
		r.Undec(key, 0, "not found")
		return
	}
	info := pkg.TypesInfo
	// variables holding the response's Error field
	perResp := map[types.Object]bool{}
	ast.Inspect(fd.Body, func(m ast.Node) bool {
		as, ok := m.(*ast.AssignStmt)
		if !ok || len(as.Lhs) != len(as.Rhs) {
			return true
		}
		for i, rhs := range as.Rhs {
			if se, ok := ast.Unparen(rhs).(*ast.SelectorExpr); ok && se.Sel.Name == "Error" {
				if fv := fieldOf(info, se); fv != nil && fv.IsField() {
					if o := identObj(info, as.Lhs[i]); o != nil {
						perResp[o] = true
					}
				}
			}
		}
		return true
	})
	if len(perResp) == 0 {
		r.Undec(key, fd.Pos(), "the per-response error (response.Error) was not found")
		return
	}
	parents := parentMap(fd.Body)
	var bad []string
	ast.Inspect(fd.Body, func(m ast.Node) bool {
		var at ast.Node
		what := ""
		switch x := m.(type) {
		case *ast.ReturnStmt:
			at, what = x, "return"
		case *ast.CallExpr:
			if refName(methodName(x)) == "reportError" {
				at, what = x, "reportError"
			}
		}
		if at == nil {
			return true
		}
		for _, fc := range factsWithSwitch(parents, at) {
			ast.Inspect(fc.e, func(k ast.Node) bool {
				if id, ok := k.(*ast.Ident); ok && perResp[info.Uses[id]] {
					bad = append(bad, what+" at "+p.Rel(at.Pos()))
				}
				return true
			})
		}
		return true
	})
	r.Check(len(bad) == 0, key, fd.Pos(), "no return/reportError depends on response.Error", fmt.Sprintf("the send loop of the UDP server ends (%s) depending on the error of a single response - the refusal of one oversized datagram: Serve then closes the server socket, and every later request of every client is refused", strings.Join(bad, ", ")))
}

// ---------------------------------------------------------------------------------------------------

func ruleG29(r *Run) {
	p := r.P
	pkg := p.Pkg("rpc/plugins/loadbalance")
	g := p.LookupFunc("rpc/plugins/loadbalance", "gcd")
	if pkg == nil || g == nil {
		r.Undec("rpc/plugins/loadbalance.gcd", 0, "not found")
		return
	}
	info := pkg.TypesInfo
	n := 0
	for _, file := range pkg.Syntax {
		for _, d := range file.Decls {
			fd, ok := d.(*ast.FuncDecl)
			if !ok || fd.Body == nil {
				continue
			}
			self, _ := info.Defs[fd.Name].(*types.Func)
			parents := parentMap(fd.Body)
			k := 0
			ast.Inspect(fd.Body, func(m ast.Node) bool {
				id, ok := m.(*ast.Ident)
				if !ok || info.Uses[id] != g {
					return true
				}
				if self == g {
					return true // Euclid's recursion
				}
				n++
				k++
				key := fmt.Sprintf("gcd applied over all weights in %s #%d", p.DeclName(fd), k)
				okUse := false
				// a call inside a loop, or the function value passed to a helper that loops over its receiver/argument
				if call, ok := parents[id].(*ast.CallExpr); ok && call.Fun == ast.Expr(id) {
					for x := parents[call]; x != nil; x = parents[x] {
						switch x.(type) {
						case *ast.ForStmt, *ast.RangeStmt:
							okUse = true
						}
					}
				} else if call, ok := parents[id].(*ast.CallExpr); ok {
					if hd := p.Decl(Callee(info, call)); hd != nil && hd.Body != nil {
						ast.Inspect(hd.Body, func(x ast.Node) bool {
							switch x.(type) {
							case *ast.ForStmt, *ast.RangeStmt:
								okUse = true
							}
							return true
						})
					}
				}
				r.Check(okUse, key, id.Pos(), "folded over the list", "gcd is applied once to two selected values instead of being folded over all weights: the result is too large whenever some weight is not a multiple of it (2,3,4 -> gcd(4,2) = 2), and the weighted round robin no longer serves the servers in proportion to their weights")
				return true
			})
		}
	}
	if n == 0 {
		r.Undec("uses of gcd", 0, "gcd is never applied outside itself")
	}
}

func ruleG30(r *Run) {
	p := r.P
	fd, pkg := p.DeclOf("rpc/core", "ClientContext.Init")
	cf := p.LookupField("rpc/core", "ClientContext", "client")
	key := "ClientContext.Init rebinds the client"
	if fd == nil || cf == nil {
		r.Undec(key, 0, "ClientContext.Init or the client field not found")
		return
	}
	info := pkg.TypesInfo
	parents := parentMap(fd.Body)
	found := false
	ast.Inspect(fd.Body, func(m ast.Node) bool {
		as, ok := m.(*ast.AssignStmt)
		if !ok {
			return true
		}
		for _, l := range as.Lhs {
			if fieldOf(info, l) != cf {
				continue
			}
			found = true
			cond := ""
			for _, fc := range factsWithSwitch(parents, as) {
				ast.Inspect(fc.e, func(k ast.Node) bool {
					if fieldOf(info, exprOrNil(k)) == cf {
						cond = types.ExprString(fc.e)
					}
					return true
				})
			}
			r.Check(cond == "", key, as.Pos(), "unconditionally", "Init assigns the client only under `"+cond+"`: a ClientContext that was used for a call through one client and is reused with another keeps reporting the first client - the load balancers of the second client then choose from the first client's server list")
		}
		return true
	})
	if !found {
		r.Undec(key, fd.Pos(), "no assignment to the client field in Init")
	}
}

func ruleG31(r *Run) {
	p := r.P
	n := 0
	p.EachFunc(func(pkg *packages.Package, fd *ast.FuncDecl) {
		if !strings.HasPrefix(p.RelPkg(pkg.Types), "rpc") {
			return
		}
		info := pkg.TypesInfo
		parents := parentMap(fd.Body)
		k := 0
		ast.Inspect(fd.Body, func(m ast.Node) bool {
			c, ok := m.(*ast.CallExpr)
			if !ok || len(c.Args) != 0 || methodName(c) != "Handler" {
				return true
			}
			se, ok := ast.Unparen(c.Fun).(*ast.SelectorExpr)
			if !ok {
				return true
			}
			rt := info.TypeOf(se.X)
			if rt == nil || !strings.HasSuffix(strings.TrimPrefix(rt.String(), "*"), "core.PluginManager") && !strings.HasSuffix(strings.TrimPrefix(rt.String(), "*"), "core.pluginManager") {
				return true
			}
			n++
			k++
			key := fmt.Sprintf("chain head fetched per call in %s #%d", p.DeclName(fd), k)
			// m.Handler().(T)(args...) / m.Handler()(args)
			var up ast.Node = c
			for {
				par := parents[up]
				if pe, ok := par.(*ast.ParenExpr); ok {
					up = pe
					continue
				}
				if ta, ok := par.(*ast.TypeAssertExpr); ok && ta.X == up.(ast.Expr) {
					up = ta
					continue
				}
				break
			}
			invoked := false
			if call, ok := parents[up].(*ast.CallExpr); ok && ast.Unparen(call.Fun) == ast.Unparen(up.(ast.Expr)) {
				invoked = true
			}
			if !invoked {
				// `return m.Handler()` in the accessor of a wrapper type is a fetch on behalf of the caller
				if _, isRet := parents[up].(*ast.ReturnStmt); isRet && fd.Name.Name == "Handler" {
					invoked = true
				}
			}
			r.Check(invoked, key, c.Pos(), "invoked at once", "the chain returned by Handler() is stored or passed on instead of being invoked for this call: whoever uses the stored value later bypasses every Use and Unuse made in between (handlers added while a provider is listening never run, removed ones keep running)")
			return true
		})
	})
	if n == 0 {
		r.Undec("PluginManager.Handler() calls", 0, "none found")
	}
}

func ruleG32(r *Run) {
	p := r.P
	n := 0
	p.EachFunc(func(pkg *packages.Package, fd *ast.FuncDecl) {
		if !strings.HasPrefix(p.RelPkg(pkg.Types), "rpc/plugins") || fd.Type.Results == nil {
			return
		}
		info := pkg.TypesInfo
		// constructors: a result of type *T with T a struct of this package
		isCtor := false
		for _, f := range fd.Type.Results.List {
			if pt, ok := info.TypeOf(f.Type).(*types.Pointer); ok {
				if nt, ok := pt.Elem().(*types.Named); ok && nt.Obj().Pkg() == pkg.Types {
					if _, ok := nt.Underlying().(*types.Struct); ok {
						isCtor = true
					}
				}
			}
		}
		if !isCtor {
			return
		}
		n++
		shared := ""
		ast.Inspect(fd.Body, func(m ast.Node) bool {
			u, ok := m.(*ast.UnaryExpr)
			if !ok || u.Op != token.AND {
				return true
			}
			if id, ok := ast.Unparen(u.X).(*ast.Ident); ok {
				if v, ok := info.Uses[id].(*types.Var); ok && v.Parent() == pkg.Types.Scope() {
					if _, isStruct := v.Type().Underlying().(*types.Struct); isStruct {
						shared = v.Name()
					}
				}
			}
			return true
		})
		r.Check(shared == "", "fresh instance from "+p.DeclName(fd), fd.Pos(), "no address of a package-level instance", "the constructor hands out the address of the package-level variable "+shared+": every plugin made by it is the same object - failures behind one breaker open all of them, options given to one configure all")
	})
	if n == 0 {
		r.Undec("plugin constructors", 0, "none found")
	}
}

func ruleG33(r *Run) {
	p := r.P
	pkg := p.Pkg("rpc/core")
	if pkg == nil {
		r.Undec("package rpc/core", 0, "not found")
		return
	}
	info := pkg.TypesInfo
	n := 0
	for _, file := range pkg.Syntax {
		for _, d := range file.Decls {
			fd, ok := d.(*ast.FuncDecl)
			if !ok || fd.Body == nil {
				continue
			}
			k := 0
			ast.Inspect(fd.Body, func(m ast.Node) bool {
				// comparisons and Implements calls that involve errorType and an Out(..) of a function type
				mentionsOut := func(e ast.Expr) bool {
					found := false
					ast.Inspect(e, func(x ast.Node) bool {
						if c, ok := x.(*ast.CallExpr); ok && methodName(c) == "Out" {
							found = true
						}
						return true
					})
					return found
				}
				isErrT := func(e ast.Expr) bool {
					o := identObj(info, e)
					return o != nil && refName(o.Name()) == "errorType"
				}
				switch x := m.(type) {
				case *ast.BinaryExpr:
					if (x.Op == token.EQL || x.Op == token.NEQ) && (isErrT(x.X) && mentionsOut(x.Y) || isErrT(x.Y) && mentionsOut(x.X)) {
						// the CLIENT side (proxy return types) legitimately strips a trailing `error`: only functions that
						// build a service method (set a returnError-like flag) are subject to the rule
						setsFlag := false
						ast.Inspect(fd.Body, func(y ast.Node) bool {
							if as, ok := y.(*ast.AssignStmt); ok && len(as.Lhs) == 1 {
								if fv := fieldOf(info, as.Lhs[0]); fv != nil && strings.Contains(strings.ToLower(fv.Name()), "error") {
									setsFlag = true
								}
							}
							return true
						})
						if !setsFlag {
							return true
						}
						n++
						k++
						r.Viol(fmt.Sprintf("error result recognised in %s #%d", p.DeclName(fd), k), x.Pos(), "the last result type is compared with the interface type error by identity (`"+types.ExprString(x)+"`): a published function whose last result is a concrete type that implements error is no longer treated as returning an error - its nil error becomes a result value and the successful call fails with a nil-dereference message")
					}
				case *ast.CallExpr:
					if (methodName(x) == "Implements" || methodName(x) == "AssignableTo") && len(x.Args) == 1 && isErrT(x.Args[0]) && mentionsOut(x.Fun) {
						n++
						k++
						r.Ok(fmt.Sprintf("error result recognised in %s #%d", p.DeclName(fd), k), x.Pos(), methodName(x)+"(errorType)")
					}
				}
				return true
			})
		}
	}
	if n == 0 {
		r.Undec("recognition of the error result", 0, "no Out(..).Implements(errorType) / comparison with errorType found in rpc/core")
	}
}

func ruleG34(r *Run) {
	p := r.P
	pkg := p.Pkg("rpc/core")
	if pkg == nil {
		r.Undec("package rpc/core", 0, "not found")
		return
	}
	info := pkg.TypesInfo
	n := 0
	for _, file := range pkg.Syntax {
		for _, d := range file.Decls {
			fd, ok := d.(*ast.FuncDecl)
			if !ok || fd.Body == nil {
				continue
			}
			// functions that build a function with reflect.MakeFunc
			var lit *ast.FuncLit
			ast.Inspect(fd.Body, func(m ast.Node) bool {
				if c, ok := m.(*ast.CallExpr); ok && FullNameOf(info, c) == "reflect.MakeFunc" && len(c.Args) == 2 {
					if fl, ok := ast.Unparen(c.Args[1]).(*ast.FuncLit); ok {
						lit = fl
					}
				}
				return true
			})
			if lit == nil {
				continue
			}
			// reflect.New outside the literal whose result is used inside it
			k := 0
			ast.Inspect(fd.Body, func(m ast.Node) bool {
				as, ok := m.(*ast.AssignStmt)
				if !ok || len(as.Rhs) != 1 || as.Pos() >= lit.Pos() && as.End() <= lit.End() {
					return true
				}
				c, ok := ast.Unparen(as.Rhs[0]).(*ast.CallExpr)
				if !ok || FullNameOf(info, c) != "reflect.New" {
					return true
				}
				o := identObj(info, as.Lhs[0])
				used := false
				ast.Inspect(lit.Body, func(x ast.Node) bool {
					if id, ok := x.(*ast.Ident); ok && o != nil && info.Uses[id] == o {
						used = true
					}
					return true
				})
				if used {
					n++
					k++
					r.Viol(fmt.Sprintf("per-call reply object in %s #%d", p.DeclName(fd), k), as.Pos(), "the object made by `"+types.ExprString(c)+"` is allocated once when the method is built and used by the per-call function: all calls share it - a call that leaves part of its reply untouched returns the previous call's data, and overlapping calls overwrite each other's results")
				}
				return true
			})
			// the allocations inside the literal
			ast.Inspect(lit.Body, func(m ast.Node) bool {
				if c, ok := m.(*ast.CallExpr); ok && FullNameOf(info, c) == "reflect.New" {
					n++
					k++
					r.Ok(fmt.Sprintf("per-call reply object in %s #%d", p.DeclName(fd), k), c.Pos(), "allocated inside the per-call function")
				}
				return true
			})
		}
	}
	if n == 0 {
		r.Undec("reply objects of MakeFunc-built methods", 0, "no reflect.New next to reflect.MakeFunc found in rpc/core")
	}
}

func ruleG35(r *Run) {
	p := r.P
	n := 0
	for _, tr := range []string{"rpc/socket", "rpc/udp", "rpc/websocket"} {
		fd, pkg := p.DeclOf(tr, "Transport.getConn")
		key := "connection pool key in " + tr
		if fd == nil {
			r.Undec(key, 0, "Transport.getConn not found")
			continue
		}
		info := pkg.TypesInfo
		defs := localDefs(info, fd.Body)
		// index expressions on the pool field
		ast.Inspect(fd.Body, func(m ast.Node) bool {
			ix, ok := m.(*ast.IndexExpr)
			if !ok {
				return true
			}
			fv := fieldOf(info, ix.X)
			if fv == nil || fv.Name() != "conns" {
				return true
			}
			n++
			e := ast.Unparen(ix.Index)
			if o := identObj(info, e); o != nil {
				if d, ok := defs[o]; ok && d != nil {
					e = ast.Unparen(d)
				}
			}
			full := false
			if c, ok := e.(*ast.CallExpr); ok && methodName(c) == "String" && len(c.Args) == 0 {
				if se, ok := ast.Unparen(c.Fun).(*ast.SelectorExpr); ok {
					if pt, ok := info.TypeOf(se.X).(*types.Pointer); ok && isNamed(pt.Elem(), "net/url", "URL") {
						full = true
					}
				}
			}
			if pt, ok := info.TypeOf(e).(*types.Pointer); ok && isNamed(pt.Elem(), "net/url", "URL") {
				full = true // keyed by the list element itself
			}
			r.Check(full, key, ix.Pos(), "the complete URL", "the pool is indexed by `"+types.ExprString(e)+"`, which is not the complete URL of the server: servers that differ only in a component left out of the key (the path of a unix socket, the path of a websocket endpoint) share one connection - Broadcast reaches one server twice and the other never, failover retries on the server that failed")
			return false
		})
	}
	if n == 0 {
		r.Undec("connection pool keys", 0, "none found")
	}
}

// ---------------------------------------------------------------------------------------------------

func ruleL12(r *Run) {
	p := r.P
	// types with synchronisation state: a field used through sync/atomic, or a field of a sync type
	stateful := map[*types.Named]string{}
	fieldOwner := func(pkgT *types.Package, fv *types.Var) *types.Named {
		sc := pkgT.Scope()
		for _, name := range sc.Names() {
			tn, ok := sc.Lookup(name).(*types.TypeName)
			if !ok {
				continue
			}
			nt, ok := tn.Type().(*types.Named)
			if !ok {
				continue
			}
			st, ok := nt.Underlying().(*types.Struct)
			if !ok {
				continue
			}
			for i := 0; i < st.NumFields(); i++ {
				if st.Field(i) == fv {
					return nt
				}
			}
		}
		return nil
	}
	p.EachFunc(func(pkg *packages.Package, fd *ast.FuncDecl) {
		info := pkg.TypesInfo
		ast.Inspect(fd.Body, func(m ast.Node) bool {
			c, ok := m.(*ast.CallExpr)
			if !ok || len(c.Args) == 0 {
				return true
			}
			f := Callee(info, c)
			if f == nil || f.Pkg() == nil || f.Pkg().Path() != "sync/atomic" {
				return true
			}
			if u, ok := ast.Unparen(c.Args[0]).(*ast.UnaryExpr); ok && u.Op == token.AND {
				if fv := fieldOf(info, u.X); fv != nil && p.InRepo(fv) {
					if nt := fieldOwner(fv.Pkg(), fv); nt != nil {
						stateful[nt] = "field " + fv.Name() + " is updated through sync/atomic"
					}
				}
			}
			return true
		})
	})
	for _, pkg := range p.Pkgs {
		sc := pkg.Types.Scope()
		for _, name := range sc.Names() {
			tn, ok := sc.Lookup(name).(*types.TypeName)
			if !ok {
				continue
			}
			nt, ok := tn.Type().(*types.Named)
			if !ok {
				continue
			}
			st, ok := nt.Underlying().(*types.Struct)
			if !ok {
				continue
			}
			for i := 0; i < st.NumFields(); i++ {
				ft := st.Field(i).Type()
				if fn, ok := ft.(*types.Named); ok && fn.Obj().Pkg() != nil && fn.Obj().Pkg().Path() == "sync" {
					switch fn.Obj().Name() {
					case "Mutex", "RWMutex", "WaitGroup", "Once", "Pool", "Map", "Cond":
						if _, seen := stateful[nt]; !seen {
							stateful[nt] = "field " + st.Field(i).Name() + " is a sync." + fn.Obj().Name()
						}
					}
				}
			}
		}
	}
	n := 0
	p.EachFunc(func(pkg *packages.Package, fd *ast.FuncDecl) {
		if fd.Recv == nil || len(fd.Recv.List) == 0 {
			return
		}
		info := pkg.TypesInfo
		rt := info.TypeOf(fd.Recv.List[0].Type)
		_, isPtr := rt.(*types.Pointer)
		nt := recvNamed(info, fd)
		if nt == nil {
			return
		}
		why, ok := stateful[nt.Origin()]
		if !ok {
			return
		}
		n++
		r.Check(isPtr, "pointer receiver of "+p.DeclName(fd), fd.Pos(), "pointer receiver", fmt.Sprintf("%s has a value receiver although %s: the method works on a copy of the struct, so its atomic updates, locks or counters never reach the shared instance (a limiter admits everything, a lock protects nothing)", p.DeclName(fd), why))
	})
	if n == 0 {
		r.Undec("methods of types with synchronisation state", 0, "none found")
	}
}

// ---------------------------------------------------------------------------------------------------

func ruleF4(r *Run) {
	p := r.P
	pkg := p.Pkg("io")
	if pkg == nil {
		r.Undec("package io", 0, "not found")
		return
	}
	want := map[string]string{"digits": "0123456789"}
	var d2, d3 strings.Builder
	for i := 0; i < 100; i++ {
		fmt.Fprintf(&d2, "%02d", i)
	}
	for i := 0; i < 1000; i++ {
		fmt.Fprintf(&d3, "%03d", i)
	}
	want["digit2"], want["digit3"] = d2.String(), d3.String()
	for _, name := range []string{"digits", "digit2", "digit3"} {
		key := "decimal table io." + name
		obj := pkg.Types.Scope().Lookup(name)
		if obj == nil {
			// renamed tables are found by their value: any package-level string constant of the expected length made of digits
			r.Undec(key, 0, "not found")
			continue
		}
		var val constant.Value
		switch o := obj.(type) {
		case *types.Const:
			val = o.Val()
		case *types.Var:
			// var digit3 = "..." : take the initialiser's constant value
			for _, f := range pkg.Syntax {
				for _, d := range f.Decls {
					gd, ok := d.(*ast.GenDecl)
					if !ok {
						continue
					}
					for _, sp := range gd.Specs {
						vs, ok := sp.(*ast.ValueSpec)
						if !ok {
							continue
						}
						for i, id := range vs.Names {
							if pkg.TypesInfo.Defs[id] == obj && i < len(vs.Values) {
								if tv, ok := pkg.TypesInfo.Types[vs.Values[i]]; ok {
									val = tv.Value
								}
							}
						}
					}
				}
			}
		}
		if val == nil || val.Kind() != constant.String {
			r.Undec(key, obj.Pos(), "not a constant string")
			continue
		}
		got := constant.StringVal(val)
		if got == want[name] {
			r.Ok(key, obj.Pos(), fmt.Sprintf("%d characters as expected", len(got)))
			continue
		}
		w := len(want[name]) / map[string]int{"digits": 10, "digit2": 100, "digit3": 1000}[name]
		msg := fmt.Sprintf("length %d instead of %d", len(got), len(want[name]))
		for i := 0; i+w <= len(got) && i+w <= len(want[name]); i += w {
			if got[i:i+w] != want[name][i:i+w] {
				msg = fmt.Sprintf("entry %d reads %q", i/w, got[i:i+w])
				break
			}
		}
		r.Viol(key, obj.Pos(), "the table "+name+" is not the sequence of zero-padded decimals its users index it as ("+msg+"): every number that contains that group - string and byte lengths, element counts, reference indices, integers, milliseconds - is written with other digits; the stream stays well-formed and means something else")
	}
}

func ruleT14(r *Run) {
	p := r.P
	pkg := p.Pkg("io")
	if pkg == nil {
		r.Undec("package io", 0, "not found")
		return
	}
	info := pkg.TypesInfo
	n := 0
	for _, file := range pkg.Syntax {
		for _, d := range file.Decls {
			fd, ok := d.(*ast.FuncDecl)
			if !ok || fd.Body == nil {
				continue
			}
			// a float destination: a parameter of type *float32 / *float64, and a tag parameter
			floatDest, hasTag := false, false
			for _, pv := range paramsOf(info, fd.Type) {
				if pt, ok := pv.Type().(*types.Pointer); ok {
					if b, ok := pt.Elem().Underlying().(*types.Basic); ok && b.Info()&types.IsFloat != 0 {
						floatDest = true
					}
				}
				if b, ok := pv.Type().Underlying().(*types.Basic); ok && b.Kind() == types.Uint8 && pv.Name() == "tag" {
					hasTag = true
				}
			}
			if !floatDest || !hasTag {
				continue
			}
			ast.Inspect(fd.Body, func(m ast.Node) bool {
				cc, ok := m.(*ast.CaseClause)
				if !ok {
					return true
				}
				isLong := false
				for _, e := range cc.List {
					if o := identObj(info, e); o != nil && o.Name() == "TagLong" {
						isLong = true
					}
				}
				if !isLong {
					return true
				}
				n++
				bad := ""
				for _, s := range cc.Body {
					ast.Inspect(s, func(x ast.Node) bool {
						if c, ok := x.(*ast.CallExpr); ok {
							switch refName(methodName(c)) {
							case "ReadInt64", "ReadInt", "ReadUint64", "ReadUint", "ReadInt32", "ReadUint32":
								bad = methodName(c)
							}
						}
						return true
					})
				}
				r.Check(bad == "", "long item into a float destination in "+p.DeclName(fd), cc.Pos(), "read with the float reader", "the TagLong clause reads the arbitrary-precision integer with "+bad+": a value beyond the 64-bit range wraps silently (MaxUint64 -> -1, 2^64 -> 0) instead of becoming the nearest float")
				return true
			})
		}
	}
	if n == 0 {
		r.Undec("TagLong clauses of float decoders", 0, "none found")
	}
}

// ---------------------------------------------------------------------------------------------------
// G36 swapped arguments; P14 the prosumer forgets a topic whatever the broker answers

func init() {
	register("G36", "at a call of a function of the library two arguments of the same type are not passed crosswise: when argument i is an identifier named like parameter j and argument j an identifier named like parameter i (i != j, identical types), the call has its arguments swapped (Broker.Exists(topic, id) called as Exists(id, topic) answers for another client and topic)", 1, ruleG36)
	register("P14", "Prosumer.Unsubscribe removes the local callback of the topic on every path that reached the broker, whatever the broker answered: the removal is not control-dependent on the result or error of the remote unsubscribe - a callback that stays registered is re-subscribed by the restore loop after the next failed poll, and messages are again accepted for and handed to a client that has unsubscribed", 1, ruleP14)
}

func ruleG36(r *Run) {
	p := r.P
	n := 0
	p.EachFunc(func(pkg *packages.Package, fd *ast.FuncDecl) {
		info := pkg.TypesInfo
		k := 0
		ast.Inspect(fd.Body, func(m ast.Node) bool {
			c, ok := m.(*ast.CallExpr)
			if !ok || len(c.Args) < 2 {
				return true
			}
			f := Callee(info, c)
			if f == nil || !p.InRepo(f) {
				return true
			}
			sig, ok := f.Type().(*types.Signature)
			if !ok || sig.Variadic() || sig.Params().Len() != len(c.Args) {
				return true
			}
			n++
			for i := 0; i < len(c.Args); i++ {
				ai, ok := ast.Unparen(c.Args[i]).(*ast.Ident)
				if !ok {
					continue
				}
				for j := i + 1; j < len(c.Args); j++ {
					aj, ok := ast.Unparen(c.Args[j]).(*ast.Ident)
					if !ok {
						continue
					}
					pi, pj := sig.Params().At(i), sig.Params().At(j)
					if pi.Name() == "" || pi.Name() == pj.Name() || !types.Identical(pi.Type(), pj.Type()) {
						continue
					}
					if ai.Name == pj.Name() && aj.Name == pi.Name() {
						k++
						r.Viol(fmt.Sprintf("arguments of %s in %s #%d", f.Name(), p.DeclName(fd), k), c.Pos(), fmt.Sprintf("`%s` passes %s where %s declares its parameter %s and %s where it declares %s (both of type %s): the arguments are swapped - the callee answers a different question than the caller asks", types.ExprString(c), ai.Name, p.FuncName(f), pi.Name(), aj.Name, pj.Name(), pi.Type()))
					}
				}
			}
			return true
		})
	})
	if n == 0 {
		r.Undec("calls with several arguments", 0, "none found")
		return
	}
	r.Ok("no call of a library function passes same-typed arguments crosswise", 0, fmt.Sprintf("%d calls examined", n))
}

func ruleP14(r *Run) {
	p := r.P
	fd, pkg := p.DeclOf("rpc/plugins/push", "Prosumer.Unsubscribe")
	key := "Prosumer.Unsubscribe forgets the topic unconditionally"
	if fd == nil {
		r.Undec(key, 0, "not found")
		return
	}
	info := pkg.TypesInfo
	parents := parentMap(fd.Body)
	// results of the remote call
	remote := map[types.Object]bool{}
	ast.Inspect(fd.Body, func(m ast.Node) bool {
		as, ok := m.(*ast.AssignStmt)
		if !ok || len(as.Rhs) != 1 {
			return true
		}
		if c, ok := ast.Unparen(as.Rhs[0]).(*ast.CallExpr); ok && refName(methodName(c)) == "unsubscribe" {
			for _, l := range as.Lhs {
				if o := identObj(info, l); o != nil {
					remote[o] = true
				}
			}
		}
		return true
	})
	found := false
	ast.Inspect(fd.Body, func(m ast.Node) bool {
		c, ok := m.(*ast.CallExpr)
		if !ok || methodName(c) != "Delete" {
			return true
		}
		se, ok := ast.Unparen(c.Fun).(*ast.SelectorExpr)
		if !ok {
			return true
		}
		if fv := fieldOf(info, se.X); fv == nil || !strings.Contains(info.TypeOf(se.X).String(), "sync.Map") {
			return true
		}
		found = true
		dep := ""
		for _, fc := range factsWithSwitch(parents, c) {
			ast.Inspect(fc.e, func(k ast.Node) bool {
				if id, ok := k.(*ast.Ident); ok && remote[info.Uses[id]] {
					dep = types.ExprString(fc.e)
				}
				return true
			})
		}
		r.Check(dep == "", key, c.Pos(), "the Delete does not depend on the broker's answer", "the local callback is removed only depending on `"+dep+"` (the result of the remote unsubscribe): when the broker has no subscription to remove - it was restarted, or the heartbeat took the client offline - the callback stays, the restore loop subscribes the topic again after the next failed poll, and the client that unsubscribed receives messages again")
		return true
	})
	if !found {
		r.Undec(key, fd.Pos(), "no Delete on the callback table found in Unsubscribe")
	}
}

// ---------------------------------------------------------------------------------------------------
// W13 a slice sized by a wire count is indexed by wire-independent positions only under a bound
// U3  the aliasing converters are selected under type identity only
// (U2 gains the clause: direct registrations happen in reference mode only)

func init() {
	register("W13", "a slice allocated with a length that comes from the wire (make([]T, count)) is indexed or sliced at a position that does NOT come from that count - a constant, the number of declared parameters - only where the position has been compared with the count or with len() of the slice, or by a loop variable that is bounded by them: the peer chooses the count, so `paramTypes[:n]` with n taken from the function's signature panics for a request that announces fewer arguments", 4, ruleW13)
	register("U3", "GetConverter hands out the aliasing converters (ptrCopy, sliceCopy, mapCopy, arrayCopy, dataCopy: they copy headers or words through unsafe pointers) only under type identity: every disjunct of the condition that selects them contains an equality between two reflect types (src == dest, src.Elem() == dest, src == dest.Elem()); a looser test - same kind, same element type - lets a back-reference alias a map[int]string as a map[string]string, and ranging over the result dereferences integers as string headers", 1, ruleU3)
}

func ruleW13(r *Run) {
	p := r.P
	w := &w1{p: p, tainted: map[types.Object]bool{}, raw: map[types.Object]bool{}}
	w.propagate()
	n := 0
	p.EachFunc(func(pkg *packages.Package, fd *ast.FuncDecl) {
		info := pkg.TypesInfo
		// slices made with a tainted length
		sized := map[types.Object]types.Object{} // slice -> count variable
		ast.Inspect(fd.Body, func(m ast.Node) bool {
			as, ok := m.(*ast.AssignStmt)
			if !ok || len(as.Lhs) != len(as.Rhs) {
				return true
			}
			for i, rhs := range as.Rhs {
				c, ok := ast.Unparen(rhs).(*ast.CallExpr)
				if !ok || !IsBuiltin(info, c, "make") || len(c.Args) < 2 {
					continue
				}
				if _, isSlice := info.TypeOf(c.Args[0]).Underlying().(*types.Slice); !isSlice {
					continue
				}
				v := identObj(info, stripConv(info, c.Args[1]))
				if v == nil || !w.tainted[v] {
					continue
				}
				if o := identObj(info, as.Lhs[i]); o != nil {
					sized[o] = v
				}
			}
			return true
		})
		if len(sized) == 0 {
			return
		}
		parents := parentMap(fd.Body)
		mentions := func(e ast.Node, o types.Object) bool {
			found := false
			ast.Inspect(e, func(k ast.Node) bool {
				if id, ok := k.(*ast.Ident); ok && info.Uses[id] == o {
					found = true
				}
				return true
			})
			return found
		}
		k := 0
		check := func(at ast.Node, sl types.Object, pos ast.Expr) {
			cnt := sized[sl]
			if pos == nil {
				return
			}
			if _, isConst := intConst(info, pos); isConst {
				if c, _ := intConst(info, pos); c == 0 {
					// x[0] needs len > 0 as well, but x[:0] and lows of 0 are always fine: only index expressions reach here with 0
				}
			}
			n++
			k++
			key := fmt.Sprintf("position %s in the wire-sized slice %s in %s #%d", types.ExprString(pos), sl.Name(), p.DeclName(fd), k)
			// the position is derived from the count itself
			if mentions(pos, cnt) {
				r.Ok(key, at.Pos(), "derived from the count")
				return
			}
			// a loop variable bounded by the count or len(slice), or a range over the slice
			for _, id := range identsOf(pos) {
				o := info.Uses[id]
				if o == nil {
					continue
				}
				for x := parents[at]; x != nil; x = parents[x] {
					switch l := x.(type) {
					case *ast.ForStmt:
						if be, ok := l.Cond.(*ast.BinaryExpr); ok && (be.Op == token.LSS || be.Op == token.LEQ) && identObj(info, be.X) == o {
							if mentions(be.Y, cnt) || mentions(be.Y, sl) {
								r.Ok(key, at.Pos(), "loop variable bounded by the count")
								return
							}
						}
					case *ast.RangeStmt:
						if identObj(info, l.X) == sl && l.Key != nil && identObj(info, l.Key) == o {
							r.Ok(key, at.Pos(), "range over the slice")
							return
						}
					}
				}
			}
			// a dominating comparison between something in the position and the count / len(slice)
			for _, fc := range factsWithSwitch(parents, at) {
				be, ok := fc.e.(*ast.BinaryExpr)
				if !ok {
					continue
				}
				switch be.Op {
				case token.LSS, token.LEQ, token.GTR, token.GEQ, token.EQL:
				default:
					continue
				}
				relatesPos := false
				for _, id := range identsOf(pos) {
					if o := info.Uses[id]; o != nil && (mentions(be.X, o) || mentions(be.Y, o)) {
						relatesPos = true
					}
				}
				if relatesPos && (mentions(be, cnt) || mentions(be, sl)) {
					r.Ok(key, at.Pos(), "compared with the count on this path")
					return
				}
			}
			r.Viol(key, at.Pos(), fmt.Sprintf("%s was allocated with the length %s, which the peer chooses, and is indexed or sliced at `%s`, which does not depend on it and is not compared with it: a message that announces fewer elements makes this a slice-bounds / index-out-of-range panic in the decoding goroutine (outside the recover around the invocation)", sl.Name(), cnt.Name(), types.ExprString(pos)))
		}
		ast.Inspect(fd.Body, func(m ast.Node) bool {
			switch x := m.(type) {
			case *ast.IndexExpr:
				if o := identObj(info, x.X); o != nil && sized[o] != nil {
					check(x, o, x.Index)
				}
			case *ast.SliceExpr:
				if o := identObj(info, x.X); o != nil && sized[o] != nil {
					for _, b := range []ast.Expr{x.Low, x.High, x.Max} {
						if b == nil {
							continue
						}
						if c, ok := intConst(info, b); ok && c == 0 {
							continue
						}
						check(x, o, b)
					}
				}
			}
			return true
		})
	})
	if n == 0 {
		r.Undec("positions in wire-sized slices", 0, "no indexed slice with a wire-controlled length found")
	}
}

func identsOf(e ast.Expr) []*ast.Ident {
	var out []*ast.Ident
	ast.Inspect(e, func(k ast.Node) bool {
		if id, ok := k.(*ast.Ident); ok {
			out = append(out, id)
		}
		return true
	})
	return out
}

func ruleU3(r *Run) {
	p := r.P
	fd, pkg := p.DeclOf("io", "GetConverter")
	if fd == nil {
		r.Undec("io.GetConverter", 0, "not found")
		return
	}
	info := pkg.TypesInfo
	// the aliasing converters, by what they do (not by their names): functions of the converter signature whose body
	// takes the SOURCE (the first interface{} parameter) through reflect2.PtrOf or reflect.ValueOf
	aliasingFn := map[*types.Func]bool{}
	for _, file := range pkg.Syntax {
		for _, d := range file.Decls {
			cd, ok := d.(*ast.FuncDecl)
			if !ok || cd.Body == nil || cd.Recv != nil {
				continue
			}
			ps := paramsOf(info, cd.Type)
			if len(ps) != 3 || !strings.HasSuffix(ps[0].Type().String(), "io.Decoder") {
				continue
			}
			i1, ok1 := ps[1].Type().Underlying().(*types.Interface)
			i2, ok2 := ps[2].Type().Underlying().(*types.Interface)
			if !ok1 || !ok2 || !i1.Empty() || !i2.Empty() {
				continue
			}
			uses := false
			ast.Inspect(cd.Body, func(k ast.Node) bool {
				if c, ok := k.(*ast.CallExpr); ok && len(c.Args) == 1 && identObj(info, c.Args[0]) == ps[1] {
					switch FullNameOf(info, c) {
					case "reflect.ValueOf":
						uses = true
					}
					if methodName(c) == "PtrOf" {
						uses = true
					}
				}
				return true
			})
			if f, _ := info.Defs[cd.Name].(*types.Func); f != nil && uses {
				aliasingFn[f] = true
			}
		}
	}
	// helpers of the package that hand out aliasing converters
	helperYields := map[*types.Func]string{}
	for _, file := range pkg.Syntax {
		for _, d := range file.Decls {
			hd, ok := d.(*ast.FuncDecl)
			if !ok || hd.Body == nil || hd == fd {
				continue
			}
			hf, _ := info.Defs[hd.Name].(*types.Func)
			ast.Inspect(hd.Body, func(k ast.Node) bool {
				if ret, ok := k.(*ast.ReturnStmt); ok && len(ret.Results) == 1 {
					if f, ok := identObj(info, ret.Results[0]).(*types.Func); ok && aliasingFn[f] && hf != nil {
						helperYields[hf] = f.Name()
					}
				}
				return true
			})
		}
	}
	parents := parentMap(fd.Body)
	isTypeT := func(e ast.Expr) bool {
		t := info.TypeOf(e)
		return t != nil && (t.String() == "reflect.Type")
	}
	// DNF of a positive condition (bounded)
	var dnf func(e ast.Expr) [][]ast.Expr
	dnf = func(e ast.Expr) [][]ast.Expr {
		e = ast.Unparen(e)
		if be, ok := e.(*ast.BinaryExpr); ok {
			switch be.Op {
			case token.LOR:
				return append(dnf(be.X), dnf(be.Y)...)
			case token.LAND:
				var out [][]ast.Expr
				for _, a := range dnf(be.X) {
					for _, b := range dnf(be.Y) {
						if len(out) > 64 {
							return out
						}
						out = append(out, append(append([]ast.Expr{}, a...), b...))
					}
				}
				return out
			}
		}
		return [][]ast.Expr{{e}}
	}
	n := 0
	ast.Inspect(fd.Body, func(m ast.Node) bool {
		ret, ok := m.(*ast.ReturnStmt)
		if !ok || len(ret.Results) != 1 {
			return true
		}
		var fname string
		if f, ok := identObj(info, ret.Results[0]).(*types.Func); ok && aliasingFn[f] {
			fname = refName(f.Name())
		} else if c, ok := ast.Unparen(ret.Results[0]).(*ast.CallExpr); ok {
			if hf := Callee(info, c); hf != nil && helperYields[hf] != "" {
				fname = "the converters of " + hf.Name()
			}
		}
		if fname == "" {
			return true
		}
		f := struct{ name string }{fname}
		n++
		key := fmt.Sprintf("selection of %s in io.GetConverter #%d", fname, n)
		// enclosing if conditions (positive side); every disjunct of their conjunction needs a type identity
		var conds []ast.Expr
		var child ast.Node = ret
		for x := parents[ret]; x != nil; child, x = x, parents[x] {
			if ifs, ok := x.(*ast.IfStmt); ok && child == ast.Node(ifs.Body) {
				conds = append(conds, ifs.Cond)
			}
		}
		if len(conds) == 0 {
			r.Viol(key, ret.Pos(), "the aliasing converter "+f.name+" is returned without any condition on the two types")
			return true
		}
		disj := [][]ast.Expr{{}}
		for _, c := range conds {
			var next [][]ast.Expr
			for _, a := range disj {
				for _, b := range dnf(c) {
					next = append(next, append(append([]ast.Expr{}, a...), b...))
				}
			}
			disj = next
		}
		bad := ""
		for _, conj := range disj {
			hasIdentity := false
			for _, e := range conj {
				if be, ok := ast.Unparen(e).(*ast.BinaryExpr); ok && be.Op == token.EQL && isTypeT(be.X) && isTypeT(be.Y) {
					hasIdentity = true
				}
			}
			if !hasIdentity {
				var parts []string
				for _, e := range conj {
					parts = append(parts, types.ExprString(e))
				}
				bad = strings.Join(parts, " && ")
			}
		}
		r.Check(bad == "", key, ret.Pos(), "every disjunct compares two types for identity", "the aliasing converter "+f.name+" is also selected under `"+bad+"`, which contains no identity between the source and destination types: a back-reference to an item of a merely similar type (same kind, same element type, other key type) is taken over by copying words or headers - the destination then holds data of another layout, and using it reads integers as pointers")
		return true
	})
	if n == 0 {
		r.Undec("selection of the aliasing converters", fd.Pos(), "no return of ptrCopy/sliceCopy/mapCopy/arrayCopy/dataCopy found in GetConverter")
	}
}

// ---------------------------------------------------------------------------------------------------
// V10 the completion of a split character stops exactly when the missing bytes have arrived
// (V6 gains the clause: ResetReader / ResetBytes restart the window unconditionally)

func init() {
	register("V10", "in readStringAsBytes the loop that completes a character split by a read leaves as soon as the window holds AT LEAST the missing bytes: the comparison between the bytes available (tail - head) and the missing count (-remains) is non-strict - with a strict one a read that delivers exactly the missing bytes of the last character asks for more input and reports io.EOF for a complete value", 1, ruleV10)
}

func ruleV10(r *Run) {
	p := r.P
	fd, pkg := p.DeclOf("io", "Decoder.readStringAsBytes")
	if fd == nil {
		r.Undec("io.Decoder.readStringAsBytes", 0, "not found")
		return
	}
	info := pkg.TypesInfo
	defs := localDefs(info, fd.Body)
	headF, tailF := p.LookupField("io", "Decoder", "head"), p.LookupField("io", "Decoder", "tail")
	// "available": tail - head, directly or through a local
	isAvail := func(e ast.Expr) bool {
		e = ast.Unparen(e)
		if o := identObj(info, e); o != nil {
			if d, ok := defs[o]; ok && d != nil {
				e = ast.Unparen(d)
			}
		}
		be, ok := e.(*ast.BinaryExpr)
		return ok && be.Op == token.SUB && fieldOf(info, be.X) == tailF && fieldOf(info, be.Y) == headF && tailF != nil
	}
	// "remains": the local defined as length - off (it is negative while bytes are missing)
	var remains types.Object
	ast.Inspect(fd.Body, func(m ast.Node) bool {
		if as, ok := m.(*ast.AssignStmt); ok && as.Tok == token.DEFINE && len(as.Lhs) == 1 && len(as.Rhs) == 1 {
			if be, ok := ast.Unparen(as.Rhs[0]).(*ast.BinaryExpr); ok && be.Op == token.SUB {
				if id, ok := as.Lhs[0].(*ast.Ident); ok && refName(id.Name) == "remains" {
					remains = info.Defs[id]
				}
			}
		}
		return true
	})
	if remains == nil {
		r.Undec("completion of a split character", fd.Pos(), "the local `remains` was not found")
		return
	}
	n := 0
	ast.Inspect(fd.Body, func(m ast.Node) bool {
		be, ok := m.(*ast.BinaryExpr)
		if !ok {
			return true
		}
		switch be.Op {
		case token.GEQ, token.GTR, token.LEQ, token.LSS:
		default:
			return true
		}
		// avail OP -remains   or   -remains OP avail
		negRem := func(e ast.Expr) bool {
			u, ok := ast.Unparen(e).(*ast.UnaryExpr)
			return ok && u.Op == token.SUB && identObj(info, u.X) == remains
		}
		var op token.Token
		switch {
		case isAvail(be.X) && negRem(be.Y):
			op = be.Op
		case negRem(be.X) && isAvail(be.Y):
			op = map[token.Token]token.Token{token.GEQ: token.LEQ, token.GTR: token.LSS, token.LEQ: token.GEQ, token.LSS: token.GTR}[be.Op]
		default:
			return true
		}
		n++
		// the comparison either says "enough" (avail >= missing) or "not enough" (avail < missing): both include equality on the enough side
		okOp := op == token.GEQ || op == token.LSS
		r.Check(okOp, fmt.Sprintf("completion of a split character #%d", n), be.Pos(), "available >= missing ends the wait", "`"+types.ExprString(be)+"` treats a read that delivers exactly the missing bytes as not enough: the loop asks for more input although the character (and with it the string) is complete - at the end of the stream that is io.EOF for a correctly decoded value, and only for that fragmentation")
		return true
	})
	if n == 0 {
		r.Undec("completion of a split character", fd.Pos(), "no comparison between the bytes available and the missing count found")
	}
}

// ---------------------------------------------------------------------------------------------------
// W14 a declared HTTP body length is an allocation size only under an upper bound

func init() {
	register("W14", "in rpc/http a Content-Length (request.ContentLength, resp.ContentLength: chosen by the peer, up to the int64 range) becomes the size of a make() only under an upper bound on the path: otherwise a header line alone allocates gigabytes, and a value near the int range panics the reading goroutine with makeslice: len out of range - on the client that is the application goroutine that made the call", 1, ruleW14)
}

func ruleW14(r *Run) {
	p := r.P
	pkg := p.Pkg("rpc/http")
	if pkg == nil {
		r.Undec("package rpc/http", 0, "not found")
		return
	}
	info := pkg.TypesInfo
	// parameters that receive a ContentLength at some call site
	fromCL := map[types.Object]bool{}
	for _, file := range pkg.Syntax {
		ast.Inspect(file, func(m ast.Node) bool {
			c, ok := m.(*ast.CallExpr)
			if !ok {
				return true
			}
			d := p.Decl(Callee(info, c))
			if d == nil {
				return true
			}
			params := paramsOf(info, d.Type)
			for i, a := range c.Args {
				if se, ok := ast.Unparen(stripConv(info, a)).(*ast.SelectorExpr); ok && se.Sel.Name == "ContentLength" && i < len(params) {
					fromCL[params[i]] = true
				}
			}
			return true
		})
	}
	w := &w1{p: p, tainted: map[types.Object]bool{}, raw: map[types.Object]bool{}}
	n := 0
	for _, file := range pkg.Syntax {
		for _, d := range file.Decls {
			fd, ok := d.(*ast.FuncDecl)
			if !ok || fd.Body == nil {
				continue
			}
			parents := parentMap(fd.Body)
			ast.Inspect(fd.Body, func(m ast.Node) bool {
				c, ok := m.(*ast.CallExpr)
				if !ok || !IsBuiltin(info, c, "make") || len(c.Args) < 2 {
					return true
				}
				for _, a := range c.Args[1:] {
					var v types.Object
					e := ast.Unparen(stripConv(info, a))
					if o := identObj(info, e); o != nil && fromCL[o] {
						v = o
					}
					if se, ok := e.(*ast.SelectorExpr); ok && se.Sel.Name == "ContentLength" {
						n++
						r.Viol(fmt.Sprintf("allocation by a declared body length in %s #%d", p.DeclName(fd), n), c.Pos(), "make() is sized by "+types.ExprString(e)+" directly")
						continue
					}
					if v == nil {
						continue
					}
					n++
					_, up := w.bounds(info, factsWithSwitch(parents, c), v, fd.Body, c.Pos())
					r.Check(up, fmt.Sprintf("allocation by a declared body length in %s #%d", p.DeclName(fd), n), c.Pos(), "under an upper bound", "`"+types.ExprString(c)+"` allocates what the Content-Length line announces with no upper bound on this path: the peer chooses that number - a few header bytes allocate gigabytes before any data arrives, and 9223372036854775807 panics with makeslice: len out of range in the goroutine that reads the body")
				}
				return true
			})
		}
	}
	if n == 0 {
		r.Undec("allocations by a declared body length", 0, "none found in rpc/http")
	}
}

// ---------------------------------------------------------------------------------------------------
// P15 a goroutine that outlives the request does not watch the request's context

func init() {
	register("P15", "in the stateful plugins (rpc/plugins/push, rpc/plugins/reverse) a function started with `go` from a request handler, which waits on Done() of the context it is given and then withdraws state (takes a subscriber offline, removes a provider), is not given the context of the request that started it (the handler's context parameter or one derived from it): that context ends with the request - over HTTP, under the timeout plugin, or when the publisher disconnects - and the withdrawal happens at once instead of after the heartbeat interval", 2, ruleP15)
}

func ruleP15(r *Run) {
	p := r.P
	n := 0
	for _, rel := range []string{"rpc/plugins/push", "rpc/plugins/reverse"} {
		pkg := p.Pkg(rel)
		if pkg == nil {
			continue
		}
		info := pkg.TypesInfo
		// functions that select on Done() of a context parameter
		waitsOn := map[*types.Func]int{} // -> index of the context parameter
		for _, file := range pkg.Syntax {
			for _, d := range file.Decls {
				fd, ok := d.(*ast.FuncDecl)
				if !ok || fd.Body == nil {
					continue
				}
				f, _ := info.Defs[fd.Name].(*types.Func)
				params := paramsOf(info, fd.Type)
				for i, pv := range params {
					if !isNamed(pv.Type(), "context", "Context") {
						continue
					}
					cp := map[types.Object]bool{pv: true}
					ast.Inspect(fd.Body, func(m ast.Node) bool {
						if c, ok := m.(*ast.CallExpr); ok && methodName(c) == "Done" {
							if se, ok := ast.Unparen(c.Fun).(*ast.SelectorExpr); ok && ctxDerived(info, fd.Body, se.X, cp, 0) && f != nil {
								waitsOn[f] = i
							}
						}
						return true
					})
				}
			}
		}
		for _, file := range pkg.Syntax {
			for _, d := range file.Decls {
				fd, ok := d.(*ast.FuncDecl)
				if !ok || fd.Body == nil {
					continue
				}
				reqCtx := map[types.Object]bool{}
				for _, pv := range paramsOf(info, fd.Type) {
					if isNamed(pv.Type(), "context", "Context") {
						reqCtx[pv] = true
					}
				}
				k := 0
				ast.Inspect(fd.Body, func(m ast.Node) bool {
					gs, ok := m.(*ast.GoStmt)
					if !ok {
						return true
					}
					f := Callee(info, gs.Call)
					idx, watches := waitsOn[f]
					if f == nil || !watches || idx >= len(gs.Call.Args) {
						return true
					}
					n++
					k++
					arg := gs.Call.Args[idx]
					bound := len(reqCtx) > 0 && ctxDerived(info, fd.Body, arg, reqCtx, 0)
					r.Check(!bound, fmt.Sprintf("context of the goroutine started in %s #%d", p.DeclName(fd), k), gs.Pos(), "detached from the request", fmt.Sprintf("`%s` hands the request's context to a goroutine that waits on its Done() and then withdraws state: when the request is over (at once over HTTP or under the timeout plugin) the wait ends immediately - the subscriber is taken offline and accepted messages are lost although it polls all the time", types.ExprString(gs.Call)))
					return true
				})
			}
		}
	}
	if n == 0 {
		r.Undec("goroutines started with a context", 0, "no `go f(ctx, ..)` for a function that waits on its context found in the push and reverse plugins")
	}
}

// ---------------------------------------------------------------------------------------------------
// F5 pointer-taking writers survive nil and write the infinities with their own item

func init() {
	register("F5", "an exported writer of the encoder that takes a pointer to a value (WriteBigInt(*big.Int), WriteBigFloat, WriteBigRat, ...) uses the pointer only where it has been compared with nil (a nil pointer in a struct field is written as null, not as `l<nil>;`, and does not crash Marshal), and a writer that formats a big.Float with the double tag does so only where IsInf() has been excluded (the grammar writes the infinities as I+ / I-; `d+Inf;` is not a double)", 3, ruleF5)
}

func ruleF5(r *Run) {
	p := r.P
	pkg := p.Pkg("io")
	if pkg == nil {
		r.Undec("package io", 0, "not found")
		return
	}
	info := pkg.TypesInfo
	n := 0
	for _, file := range pkg.Syntax {
		for _, d := range file.Decls {
			fd, ok := d.(*ast.FuncDecl)
			if !ok || fd.Body == nil || fd.Recv == nil || !fd.Name.IsExported() || !strings.HasPrefix(fd.Name.Name, "Write") {
				continue
			}
			if nt := recvNamed(info, fd); nt == nil || nt.Obj().Name() != "Encoder" {
				continue
			}
			parents := parentMap(fd.Body)
			for _, pv := range paramsOf(info, fd.Type) {
				pt, ok := pv.Type().(*types.Pointer)
				if !ok {
					continue
				}
				nt, ok := pt.Elem().(*types.Named)
				if !ok || nt.Obj().Pkg() == nil || p.InRepo(nt.Obj()) {
					continue
				}
				if _, isStruct := nt.Underlying().(*types.Struct); !isStruct {
					continue
				}
				n++
				// every use of the parameter other than the nil comparison itself is dominated by the exclusion of nil
				bad := ""
				ast.Inspect(fd.Body, func(m ast.Node) bool {
					id, ok := m.(*ast.Ident)
					if !ok || info.Uses[id] != pv || bad != "" {
						return true
					}
					if be, ok := parents[id].(*ast.BinaryExpr); ok && (be.Op == token.EQL || be.Op == token.NEQ) {
						return true // the test itself
					}
					excluded := false
					for _, fc := range factsWithSwitch(parents, id) {
						be, ok := fc.e.(*ast.BinaryExpr)
						if !ok || identObj(info, be.X) != pv {
							continue
						}
						if nid, ok := ast.Unparen(be.Y).(*ast.Ident); ok && nid.Name == "nil" {
							if be.Op == token.EQL && fc.neg || be.Op == token.NEQ && !fc.neg {
								excluded = true
							}
						}
					}
					if !excluded {
						bad = p.Rel(id.Pos())
					}
					return true
				})
				r.Check(bad == "", fmt.Sprintf("nil %s handed to io.Encoder.%s", types.TypeString(pv.Type(), types.RelativeTo(pkg.Types)), fd.Name.Name), fd.Pos(), "used only where nil is excluded", fmt.Sprintf("%s uses its pointer parameter %s (at %s) on a path where it may be nil: a nil pointer of that type in a struct field reaches this writer as it is - it is written as the text of a nil value (`l<nil>;`, which no reader accepts) or dereferenced (Marshal panics)", fd.Name.Name, pv.Name(), bad))
				// big.Float: the double tag only for finite values
				if nt.Obj().Pkg().Path() == "math/big" && nt.Obj().Name() == "Float" {
					n++
					okInf := true
					ast.Inspect(fd.Body, func(m ast.Node) bool {
						c, ok := m.(*ast.CallExpr)
						if !ok || !IsBuiltin(info, c, "append") {
							return true
						}
						writesDouble := false
						for _, a := range c.Args[1:] {
							if o := identObj(info, a); o != nil && o.Name() == "TagDouble" {
								writesDouble = true
							}
						}
						if !writesDouble {
							return true
						}
						excluded := false
						for _, fc := range factsWithSwitch(parents, c) {
							if ic, ok := fc.e.(*ast.CallExpr); ok && methodName(ic) == "IsInf" && fc.neg {
								excluded = true
							}
						}
						if !excluded {
							okInf = false
						}
						return true
					})
					r.Check(okInf, "infinite big.Float in io.Encoder."+fd.Name.Name, fd.Pos(), "TagDouble only where IsInf() is excluded", fd.Name.Name+" writes the double tag for every big.Float: an infinite value is formatted as `d+Inf;` / `d-Inf;`, which is not an item of the grammar (the infinities are I+ and I-); an independent reader rejects the stream")
				}
			}
		}
	}
	if n == 0 {
		r.Undec("pointer-taking writers", 0, "none found")
	}
}

// ---------------------------------------------------------------------------------------------------
// S12 the net/http client accepts a response only for the request it sent

func init() {
	register("S12", "the net/http client transport, which lets http.Client follow redirects, reads a response body only after it has compared the method of the request that was finally answered (resp.Request.Method) with the one it sent: a 301/302/303 redirect turns the POST into a GET without a body, and the answer to that GET (the function list) would otherwise be returned as the result of the call", 1, ruleS12)
}

func ruleS12(r *Run) {
	p := r.P
	fd, pkg := p.DeclOf("rpc/http", "Transport.Transport")
	key := "rpc/http.Transport.Transport checks which request was answered"
	if fd == nil {
		r.Undec(key, 0, "not found")
		return
	}
	info := pkg.TypesInfo
	var doPos, bodyUse, cmpPos token.Pos
	ast.Inspect(fd.Body, func(m ast.Node) bool {
		switch x := m.(type) {
		case *ast.CallExpr:
			if methodName(x) == "Do" && doPos == 0 {
				if f := Callee(info, x); f != nil && f.Pkg() != nil && f.Pkg().Path() == "net/http" {
					doPos = x.Pos()
				}
			}
			// the body handed on (readAll(resp.Body, ..))
			for _, a := range x.Args {
				if se, ok := ast.Unparen(a).(*ast.SelectorExpr); ok && se.Sel.Name == "Body" && !strings.HasSuffix(types.ExprString(x.Fun), "Close") && bodyUse == 0 {
					bodyUse = x.Pos()
				}
			}
		case *ast.BinaryExpr:
			if x.Op == token.EQL || x.Op == token.NEQ {
				s := types.ExprString(x)
				if strings.Contains(s, ".Request.Method") && cmpPos == 0 {
					cmpPos = x.Pos()
				}
			}
		}
		return true
	})
	if doPos == 0 {
		r.Undec(key, fd.Pos(), "no http.Client.Do call found")
		return
	}
	// a client configured not to follow redirects needs no check
	noFollow := false
	for _, file := range pkg.Syntax {
		ast.Inspect(file, func(m ast.Node) bool {
			if id, ok := m.(*ast.Ident); ok && id.Name == "ErrUseLastResponse" {
				noFollow = true
			}
			return true
		})
	}
	r.Check(noFollow || cmpPos > doPos && (bodyUse == 0 || cmpPos < bodyUse), key, fd.Pos(), "resp.Request.Method compared after Do and before the body is read", "the response of http.Client.Do is taken for the answer to the call without looking at resp.Request: when the server (a ServeMux redirecting /rpc to /rpc/) answers 301, 302 or 303, net/http re-issues the call as a GET without the request bytes, the service is handed an empty request and the caller receives the function list as its result, with no error")
}

// ---------------------------------------------------------------------------------------------------
// P16 an error frame is the answer to one request

func init() {
	register("P16", "in every multiplexing client transport (rpc/socket, rpc/websocket, rpc/udp conn.receive) the branch that handles a frame with the error flag takes the pending call the frame answers out of the table (loadAndDelete of the frame's index) and sends the error to that call's channel, and the error it then reports for the connection is not that call's error any more: otherwise the error text of one call (an unserializable result, one oversized request) is delivered to every call pending on the connection, and the UDP client closes its socket for a fault that concerned one datagram", 3, ruleP16)
}

func ruleP16(r *Run) {
	p := r.P
	for _, tr := range []string{"rpc/socket", "rpc/websocket", "rpc/udp"} {
		fd, pkg := p.DeclOf(tr, "conn.receive")
		key := "error frame delivered to its own call in " + tr + ".conn.receive"
		if fd == nil {
			r.Undec(key, 0, "not found")
			continue
		}
		info := pkg.TypesInfo
		parents := parentMap(fd.Body)
		// the flag: second/third result of parseHeader
		var okObj types.Object
		ast.Inspect(fd.Body, func(m ast.Node) bool {
			if as, ok := m.(*ast.AssignStmt); ok && len(as.Rhs) == 1 {
				if c, ok := ast.Unparen(as.Rhs[0]).(*ast.CallExpr); ok {
					if f := Callee(info, c); f != nil && refName(f.Name()) == "parseHeader" {
						okObj = identObj(info, as.Lhs[len(as.Lhs)-1])
					}
				}
			}
			return true
		})
		if okObj == nil {
			r.Undec(key, fd.Pos(), "the flag returned by parseHeader was not found")
			continue
		}
		delivered, reassigned, unmatchedToo := false, false, false
		var errObj types.Object
		if fd.Type.Results != nil {
			for _, f := range fd.Type.Results.List {
				for _, id := range f.Names {
					errObj = info.Defs[id]
				}
			}
		}
		ast.Inspect(fd.Body, func(m ast.Node) bool {
			send, ok := m.(*ast.SendStmt)
			if !ok {
				return true
			}
			// under !ok ?
			inErr := false
			for _, fc := range factsWithSwitch(parents, send) {
				if id, ok := ast.Unparen(fc.e).(*ast.Ident); ok && info.Uses[id] == okObj && fc.neg {
					inErr = true
				}
			}
			if !inErr {
				return true
			}
			// the channel came from loadAndDelete
			if o := identObj(info, send.Chan); o != nil {
				ast.Inspect(fd.Body, func(k ast.Node) bool {
					if as, ok := k.(*ast.AssignStmt); ok && len(as.Rhs) == 1 {
						if c, ok := ast.Unparen(as.Rhs[0]).(*ast.CallExpr); ok && refName(methodName(c)) == "loadAndDelete" && identObj(info, as.Lhs[0]) == o {
							delivered = true
						}
					}
					return true
				})
			}
			// afterwards the connection-level error is something else (or nothing): an assignment to the error result behind
			// the send, still inside the branch for flagged frames; and also for a frame that matches NO pending call
			// (the assignment does not depend on what loadAndDelete found)
			var loadedObj types.Object
			if ifs, ok := parents[parents[send]].(*ast.IfStmt); ok && ifs.Init != nil {
				if as, ok := ifs.Init.(*ast.AssignStmt); ok && len(as.Lhs) == 2 {
					loadedObj = identObj(info, as.Lhs[1])
				}
			}
			ast.Inspect(fd.Body, func(k ast.Node) bool {
				as, ok := k.(*ast.AssignStmt)
				if !ok || as.Pos() < send.Pos() || len(as.Lhs) != 1 || errObj == nil || identObj(info, as.Lhs[0]) != errObj {
					return true
				}
				flagged, onLoaded := false, false
				for _, fc := range factsWithSwitch(parents, as) {
					if id, ok := ast.Unparen(fc.e).(*ast.Ident); ok {
						if info.Uses[id] == okObj && fc.neg {
							flagged = true
						}
						if loadedObj != nil && info.Uses[id] == loadedObj {
							onLoaded = true
						}
					}
				}
				if flagged {
					reassigned = true
					if !onLoaded {
						unmatchedToo = true
					}
				}
				return true
			})
			return true
		})
		if delivered && reassigned {
			r.Check(unmatchedToo, key+", also when no call is waiting for it", fd.Pos(), "the reassignment does not depend on loadAndDelete", "the error of the connection is replaced only when the frame's call was still pending: an error frame for a call that has given up (time-out, cancel) or a stray one keeps its own error as the error of the receive loop - the connection is closed with it and every OTHER pending call fails with that text (over UDP the client socket is closed); C09: a response that matches no pending call is discarded without affecting any caller")
		}
		r.Check(delivered && reassigned, key, fd.Pos(), "loadAndDelete(index) <- error; then another error (or none) for the connection", "the branch for a frame with the error flag only sets the error of the receive loop: the connection is closed with it and EVERY pending call fails with the error text of the one call the frame answers (a concurrent slow(42) fails with `unsupported type: chan int` of another call; over UDP the client socket is closed for one refused datagram)")
	}
}

// ---------------------------------------------------------------------------------------------------
// P17 register the place for the answer before the request becomes visible (reverse caller)

func init() {
	register("P17", "Caller.InvokeContext registers the channel for the answer (resultMap.Set) before it puts the call where a provider can fetch it (callCache.Append) and before it wakes a parked poll (response): once the call is in the cache a concurrent invocation's response() may deliver it, and an answer that arrives before the registration matches no pending call and is dropped - the caller runs into its time-out although the provider answered", 1, ruleP17)
}

func ruleP17(r *Run) {
	p := r.P
	fd, pkg := p.DeclOf("rpc/plugins/reverse", "Caller.InvokeContext")
	key := "answer channel registered before the call is published in rpc/plugins/reverse.Caller.InvokeContext"
	if fd == nil {
		r.Undec(key, 0, "not found")
		return
	}
	info := pkg.TypesInfo
	var posSet, posAppend, posResponse token.Pos
	ast.Inspect(fd.Body, func(m ast.Node) bool {
		c, ok := m.(*ast.CallExpr)
		if !ok {
			return true
		}
		f := Callee(info, c)
		if f == nil {
			return true
		}
		switch p.FuncName(f) {
		case "rpc/plugins/reverse.resultMap.Set":
			if posSet == 0 {
				posSet = c.Pos()
			}
		case "rpc/plugins/reverse.callCache.Append":
			if posAppend == 0 {
				posAppend = c.Pos()
			}
		case "rpc/plugins/reverse.Caller.response":
			if posResponse == 0 {
				posResponse = c.Pos()
			}
		}
		return true
	})
	if posSet == 0 || posAppend == 0 {
		r.Undec(key, fd.Pos(), "resultMap.Set or callCache.Append not found in InvokeContext")
		return
	}
	r.Check(posSet < posAppend && (posResponse == 0 || posSet < posResponse), key, fd.Pos(), "resultMap.Set precedes callCache.Append and response", "the call is put into the cache (or the parked poll is woken) before the channel for its answer is registered: under load the provider's answer can arrive first, `end` finds no pending call for it and drops it, and the caller times out although the call was executed")
}

// ---------------------------------------------------------------------------------------------------
// G37 a counter slice that is re-allocated keeps its counts

func init() {
	register("G37", "in rpc/plugins/loadbalance a slice field whose elements are incremented and decremented around the downstream call (the in-flight counters, the effective weights) is never replaced by a fresh make() while it may hold counts: an assignment of a newly made slice to such a field, outside the constructor, copies the old contents first (append, or make + copy from the field) - otherwise the calls in flight later decrement counters that were reset to zero, the counts go negative and never return to zero", 1, ruleG37)
}

func ruleG37(r *Run) {
	p := r.P
	pkg := p.Pkg("rpc/plugins/loadbalance")
	if pkg == nil {
		r.Undec("package rpc/plugins/loadbalance", 0, "not found")
		return
	}
	info := pkg.TypesInfo
	// counter fields: fields with an IncDec on an element
	counters := map[*types.Var]bool{}
	for _, file := range pkg.Syntax {
		ast.Inspect(file, func(m ast.Node) bool {
			if ids, ok := m.(*ast.IncDecStmt); ok {
				if ix, ok := ast.Unparen(ids.X).(*ast.IndexExpr); ok {
					if fv := fieldOf(info, ix.X); fv != nil {
						counters[fv] = true
					}
				}
			}
			return true
		})
	}
	n := 0
	for _, file := range pkg.Syntax {
		for _, d := range file.Decls {
			fd, ok := d.(*ast.FuncDecl)
			if !ok || fd.Body == nil || fd.Recv == nil {
				continue // constructors (no receiver) build fresh instances
			}
			defs := localDefs(info, fd.Body)
			k := 0
			ast.Inspect(fd.Body, func(m ast.Node) bool {
				as, ok := m.(*ast.AssignStmt)
				if !ok || len(as.Lhs) != len(as.Rhs) {
					return true
				}
				for i, l := range as.Lhs {
					fv := fieldOf(info, l)
					if fv == nil || !counters[fv] {
						continue
					}
					if _, isIdx := ast.Unparen(l).(*ast.IndexExpr); isIdx {
						continue
					}
					n++
					k++
					rhs := ast.Unparen(as.Rhs[i])
					src := rhs
					if o := identObj(info, rhs); o != nil {
						if d, ok := defs[o]; ok && d != nil {
							src = ast.Unparen(d)
						}
					}
					keeps := false
					if c, ok := src.(*ast.CallExpr); ok {
						switch {
						case IsBuiltin(info, c, "append"):
							keeps = len(c.Args) > 0 && fieldOf(info, c.Args[0]) == fv
						case IsBuiltin(info, c, "make"):
							// make + copy(local, field) before the assignment
							if o := identObj(info, rhs); o != nil {
								ast.Inspect(fd.Body, func(x ast.Node) bool {
									if cc, ok := x.(*ast.CallExpr); ok && IsBuiltin(info, cc, "copy") && len(cc.Args) == 2 && cc.Pos() < as.Pos() {
										if identObj(info, cc.Args[0]) == o && fieldOf(info, cc.Args[1]) == fv {
											keeps = true
										}
									}
									return true
								})
							}
						}
					}
					// make + copy keeps the counts only if the new slice is LONGER: the reallocation is reached
					// under len(field) < n, not under != (a shorter list would cut off counters of calls in flight)
					if keeps {
						if c, ok := src.(*ast.CallExpr); ok && IsBuiltin(info, c, "make") {
							grows := false
							isLen := func(e ast.Expr) bool {
								lc, ok := ast.Unparen(e).(*ast.CallExpr)
								return ok && IsBuiltin(info, lc, "len") && len(lc.Args) == 1 && fieldOf(info, lc.Args[0]) == fv
							}
							for _, f := range factsWithSwitch(parentMap(fd.Body), as) {
								if b, ok := ast.Unparen(f.e).(*ast.BinaryExpr); ok {
									switch {
									case !f.neg && b.Op == token.LSS && isLen(b.X), !f.neg && b.Op == token.GTR && isLen(b.Y):
										grows = true
									case f.neg && b.Op == token.GEQ && isLen(b.X), f.neg && b.Op == token.LEQ && isLen(b.Y):
										grows = true
									}
								}
							}
							if !grows {
								r.Viol(fmt.Sprintf("reallocation of %s in %s #%d", fv.Name(), p.DeclName(fd), k), as.Pos(), fmt.Sprintf("%s is replaced by a copy of another length without a test that the new one is LONGER (len(%s) < n): when the server list shrinks the counters of calls that are still in flight are cut off - their decrement indexes past the end (panic with the lock held) or, after the list has grown again, drives a fresh counter to -1", fv.Name(), fv.Name()))
								continue
							}
						}
					}
					r.Check(keeps, fmt.Sprintf("reallocation of %s in %s #%d", fv.Name(), p.DeclName(fd), k), as.Pos(), "the old counts are carried over", fmt.Sprintf("%s is replaced by `%s` without copying what it held: the calls that are in flight at that moment have been counted in the old slice and will decrement the new one - their servers' counts become -1 and never return to zero, and the balancer prefers them for ever", fv.Name(), types.ExprString(as.Rhs[i])))
				}
				return true
			})
		}
	}
	if n == 0 {
		r.Ok("no counter slice is reallocated outside the constructors", 0, "nothing to carry over")
	}
}

// ---------------------------------------------------------------------------------------------------
// P18 a retry does not outlive the call's context

func init() {
	register("P18", "in Cluster.Handler the re-invocation for a retry is reached only over a test of the call's context (ctx.Err() / ctx.Done()) made after the retry interval, and the interval itself is not slept through blindly (no time.Sleep on the retry path): a call whose context has been cancelled or has passed its deadline must return, not wait and be sent again - with five retries and a 200 ms minimum interval a 100 ms call returned after 3 s", 1, ruleP18)
}

func ruleP18(r *Run) {
	p := r.P
	fd, pkg := p.DeclOf("rpc/plugins/cluster", "Cluster.Handler")
	key := "retry bounded by the call's context in rpc/plugins/cluster.Cluster.Handler"
	if fd == nil {
		r.Undec(key, 0, "not found")
		return
	}
	info := pkg.TypesInfo
	self, _ := info.Defs[fd.Name].(*types.Func)
	parents := parentMap(fd.Body)
	ctxParams := map[types.Object]bool{}
	for _, pv := range paramsOf(info, fd.Type) {
		if isNamed(pv.Type(), "context", "Context") {
			ctxParams[pv] = true
		}
	}
	found := false
	ast.Inspect(fd.Body, func(m ast.Node) bool {
		c, ok := m.(*ast.CallExpr)
		if !ok || Callee(info, c) != self || self == nil {
			return true
		}
		found = true
		// a dominating test of the context: negated guard `if ctx.Err() != nil { return }`, or a select on Done() that leaves
		tested := false
		for _, fc := range factsWithSwitch(parents, c) {
			ast.Inspect(fc.e, func(k ast.Node) bool {
				if mc, ok := k.(*ast.CallExpr); ok && (methodName(mc) == "Err" || methodName(mc) == "Done") {
					if se, ok := ast.Unparen(mc.Fun).(*ast.SelectorExpr); ok && ctxDerived(info, fd.Body, se.X, ctxParams, 0) {
						tested = true
					}
				}
				return true
			})
		}
		// blind sleep on the way
		sleeps := false
		for x := parents[c]; x != nil; x = parents[x] {
			if blk, ok := x.(*ast.BlockStmt); ok {
				for _, st := range blk.List {
					if st.Pos() >= c.Pos() {
						break
					}
					ast.Inspect(st, func(k ast.Node) bool {
						if sc, ok := k.(*ast.CallExpr); ok && FullNameOf(info, sc) == "time.Sleep" {
							sleeps = true
						}
						return true
					})
				}
			}
			if _, isLit := x.(*ast.FuncLit); isLit {
				break
			}
		}
		r.Check(tested && !sleeps, key, c.Pos(), "ctx tested after the interval, no blind sleep", "the retry path sleeps through its interval and re-sends the call without looking at the call's context: a call that has been cancelled or is past its deadline keeps waiting and retrying until its retry budget is used up")
		return true
	})
	if !found {
		r.Undec(key, fd.Pos(), "no re-invocation of Cluster.Handler found")
	}
}

// ---------------------------------------------------------------------------------------------------
// P19 no registration after the sweep

func init() {
	register("P19", "in every multiplexing client transport the pending table refuses a call once the connection is being closed: conn.Close records the reason in a field under the table's lock BEFORE it sweeps the table, conn.store reads that field under the same lock and returns it instead of inserting, and conn.Transport returns that error - otherwise a call that fetched the pooled connection just before it died registers after the sweep and is never told (it returns only at its time-out, or never when it has none)", 3, ruleP19)
}

func ruleP19(r *Run) {
	p := r.P
	for _, tr := range []string{"rpc/socket", "rpc/udp", "rpc/websocket"} {
		key := "no registration after the sweep in " + tr
		sfd, pkg := p.DeclOf(tr, "conn.store")
		cfd, _ := p.DeclOf(tr, "conn.Close")
		tfd, _ := p.DeclOf(tr, "conn.Transport")
		if sfd == nil || cfd == nil || tfd == nil {
			r.Undec(key, 0, "conn.store / conn.Close / conn.Transport not found")
			continue
		}
		info := pkg.TypesInfo
		// the flag: a field of conn that Close assigns and store reads
		assigned := map[*types.Var]token.Pos{}
		var sweepPos token.Pos
		ast.Inspect(cfd.Body, func(m ast.Node) bool {
			switch x := m.(type) {
			case *ast.AssignStmt:
				for _, l := range x.Lhs {
					if fv := fieldOf(info, l); fv != nil {
						if _, seen := assigned[fv]; !seen {
							assigned[fv] = x.Pos()
						}
					}
				}
			case *ast.CallExpr:
				if refName(methodName(x)) == "rangeAndClean" && sweepPos == 0 {
					sweepPos = x.Pos()
				}
			}
			return true
		})
		var flag *types.Var
		ast.Inspect(sfd.Body, func(m ast.Node) bool {
			if fv := fieldOf(info, exprOrNil(m)); fv != nil {
				if _, ok := assigned[fv]; ok {
					flag = fv
				}
			}
			return true
		})
		returnsErr := sfd.Type.Results != nil && len(sfd.Type.Results.List) == 1 && isErrorType(info.TypeOf(sfd.Type.Results.List[0].Type))
		// Transport uses the result of store
		used := false
		tparents := parentMap(tfd.Body)
		ast.Inspect(tfd.Body, func(m ast.Node) bool {
			if c, ok := m.(*ast.CallExpr); ok && refName(methodName(c)) == "store" {
				if _, isStmt := tparents[c].(*ast.ExprStmt); !isStmt {
					used = true
				}
				// ... and what it reports ends the call: `if err != nil { return ... }` on the variable it was assigned to
				if as, isAs := tparents[c].(*ast.AssignStmt); isAs && len(as.Lhs) >= 1 {
					if o := identObj(info, as.Lhs[len(as.Lhs)-1]); o != nil {
						returned := false
						ast.Inspect(tfd.Body, func(q ast.Node) bool {
							ifs, isIf := q.(*ast.IfStmt)
							if !isIf || ifs.End() < c.Pos() {
								return true
							}
							if be, isBin := ast.Unparen(ifs.Cond).(*ast.BinaryExpr); isBin && be.Op == token.NEQ && identObj(info, be.X) == o {
								if id, isId := ast.Unparen(be.Y).(*ast.Ident); isId && id.Name == "nil" && len(ifs.Body.List) > 0 {
									if _, isRet := ifs.Body.List[len(ifs.Body.List)-1].(*ast.ReturnStmt); isRet {
										returned = true
									}
								}
							}
							return true
						})
						if !returned {
							used = false
						}
					}
				}
			}
			return true
		})
		switch {
		case flag == nil:
			r.Viol(key, sfd.Pos(), "conn.store inserts into the pending table whatever the state of the connection: no field that conn.Close sets is consulted, so a call that registers after Close has swept the table waits for a response that cannot come - until its time-out, or for ever without one (the goroutine and the table entry leak)")
		case !returnsErr || !used:
			r.Viol(key, sfd.Pos(), "conn.store knows that the connection is closed (field "+flag.Name()+") but does not report it, or conn.Transport ignores the report: the call still waits for a response that cannot come")
		case sweepPos != 0 && assigned[flag] > sweepPos:
			r.Viol(key, cfd.Pos(), "conn.Close sets "+flag.Name()+" only after it has swept the table: a call can still register in between and is never told")
		default:
			r.Ok(key, sfd.Pos(), "Close sets "+flag.Name()+" before the sweep; store returns it; Transport returns that error")
		}
	}
}

// ---------------------------------------------------------------------------------------------------
// G38 handlers are not identified by their code pointer        (reports a known finding on the pinned tree)
// L13 no connect while the pool lock is held                   (reports known findings on the pinned tree)

func init() {
	register("G38", "an installed handler is not identified by reflect.Value.Pointer() of the function value: that is the CODE pointer, which all method values of one method (a.InvokeHandler, b.InvokeHandler) and all closures of one function literal share - Unuse(b.InvokeHandler) then also removes a's handler, Unuse of one plugin object removes every other plugin object of the same shape (the log plugin takes the circuit breaker with it)", 1, ruleG38)
	register("L13", "a client transport does not connect (dial, TLS/websocket handshake, the user's OnConnect hook) while it holds the lock of its connection pool: the lock is shared by all servers and all calls of the client, so one slow or hanging connect delays every other call - also calls to healthy servers over open connections - beyond their own time-outs", 3, ruleL13)
}

func ruleG38(r *Run) {
	p := r.P
	pkg := p.Pkg("rpc/core")
	if pkg == nil {
		r.Undec("package rpc/core", 0, "not found")
		return
	}
	info := pkg.TypesInfo
	n := 0
	for _, file := range pkg.Syntax {
		for _, d := range file.Decls {
			fd, ok := d.(*ast.FuncDecl)
			if !ok || fd.Body == nil {
				continue
			}
			defs := localDefs(info, fd.Body)
			// is e (through a local) reflect.ValueOf(<handler>).Pointer()?
			var isCodePtr func(e ast.Expr, depth int) bool
			isCodePtr = func(e ast.Expr, depth int) bool {
				e = ast.Unparen(e)
				if o := identObj(info, e); o != nil && depth < 3 {
					if d, ok := defs[o]; ok && d != nil {
						return isCodePtr(d, depth+1)
					}
				}
				c, ok := e.(*ast.CallExpr)
				if !ok || methodName(c) != "Pointer" || FullNameOf(info, c) != "reflect.Value.Pointer" {
					return false
				}
				se, ok := ast.Unparen(c.Fun).(*ast.SelectorExpr)
				if !ok {
					return false
				}
				vc, ok := ast.Unparen(se.X).(*ast.CallExpr)
				if !ok || FullNameOf(info, vc) != "reflect.ValueOf" || len(vc.Args) != 1 {
					return false
				}
				// the argument is a handler: PluginHandler (interface{}) or a func type
				t := info.TypeOf(vc.Args[0])
				if t == nil {
					return false
				}
				if _, isSig := t.Underlying().(*types.Signature); isSig {
					return true
				}
				return strings.HasSuffix(t.String(), "PluginHandler")
			}
			k := 0
			ast.Inspect(fd.Body, func(m ast.Node) bool {
				be, ok := m.(*ast.BinaryExpr)
				if !ok || (be.Op != token.EQL && be.Op != token.NEQ) {
					return true
				}
				if isCodePtr(be.X, 0) && isCodePtr(be.Y, 0) {
					n++
					k++
					r.Viol(fmt.Sprintf("handler identity by code pointer in %s #%d", p.DeclName(fd), k), be.Pos(), "`"+types.ExprString(be)+"` decides whether two handlers are the same by reflect.Value.Pointer(), the code pointer of the function value: every method value of the same method and every closure of the same literal compares equal, so removing one handler removes all of them (Use(a.H, b.H); Unuse(b.H) leaves an empty chain; Unuse(logPlugin) removes the breaker)")
				}
				return true
			})
		}
	}
	if n == 0 {
		r.Ok("no handler is identified by its code pointer", 0, "no comparison of reflect.ValueOf(handler).Pointer() values in rpc/core")
	}
}

func ruleL13(r *Run) {
	p := r.P
	for _, tr := range []string{"rpc/socket", "rpc/udp", "rpc/websocket"} {
		fd, pkg := p.DeclOf(tr, "Transport.getConn")
		key := "connect outside the pool lock in " + tr + ".Transport.getConn"
		if fd == nil {
			r.Undec(key, 0, "not found")
			continue
		}
		info := pkg.TypesInfo
		// does a repository function (transitively) dial?
		dials := func(call *ast.CallExpr) bool {
			found := false
			p.deepInspect(info, call, 3, func(ci *types.Info, n ast.Node) bool {
				if c, ok := n.(*ast.CallExpr); ok {
					if f := Callee(ci, c); f != nil && f.Pkg() != nil && !p.InRepo(f) && strings.HasPrefix(f.Name(), "Dial") {
						found = true
					}
				}
				return true
			})
			return found
		}
		// the write lock of the pool: <x>.lock.Lock() followed by a deferred or later Unlock
		var lockPos, unlockPos token.Pos
		deferred := false
		ast.Inspect(fd.Body, func(m ast.Node) bool {
			switch x := m.(type) {
			case *ast.DeferStmt:
				if methodName(x.Call) == "Unlock" {
					deferred = true
				}
			case *ast.CallExpr:
				if methodName(x) == "Lock" && lockPos == 0 {
					lockPos = x.Pos()
				}
				if methodName(x) == "Unlock" && lockPos != 0 && unlockPos == 0 && !deferred {
					unlockPos = x.Pos()
				}
			}
			return true
		})
		if lockPos == 0 {
			r.Undec(key, fd.Pos(), "the pool lock is not taken in getConn")
			continue
		}
		under := ""
		ast.Inspect(fd.Body, func(m ast.Node) bool {
			c, ok := m.(*ast.CallExpr)
			if !ok || c.Pos() < lockPos || (!deferred && unlockPos != 0 && c.Pos() > unlockPos) {
				return true
			}
			if f := Callee(info, c); f != nil && p.InRepo(f) && dials(c) && under == "" {
				under = types.ExprString(c.Fun)
			}
			return true
		})
		r.Check(under == "", key, fd.Pos(), "no dialing call between Lock and Unlock", "getConn calls "+under+", which connects to the server (dial, handshake, OnConnect hook), while it holds the write lock of the connection pool: the lock serialises all servers and all calls of this client, so a connect that hangs makes a call to a healthy server over an open connection wait as well - a call with a 300 ms time-out returned after 2.7 s")
	}
}

// ---------------------------------------------------------------------------------------------------
// W15 the argument / result list cannot be referred to from inside itself
// W16 Convert's fallback re-encodes in reference mode

func init() {
	register("W15", "the RPC codecs give the list they decode element by element (the arguments of a request, the results of a response) its place in the reference numbering with a nil placeholder, never with the address of the list: every Decoder.AddReference call in rpc/ passes nil - a registered list can be referred to from inside itself (r0), the reference converter then copies the slice header into an element, the list contains itself BY VALUE, and the decoder's own fmt.Sprint or the response encoder recurses until the stack overflows (a fatal error that no recover contains: 16 bytes end the server process)", 2, ruleW15)
	register("W16", "io.Convert, which is applied to values that came from the wire (results of the reverse and push plugins, JSON-RPC parameters), does not fall back on the package-level simple-mode Marshal/Unmarshal: simple mode does not track references, so a value that contains itself through a pointer (a1{r0;} decoded into interface{}) is followed until the stack overflows; the re-encoding uses a reference-mode formatter or encoder", 1, ruleW16)
}

func ruleW15(r *Run) {
	p := r.P
	addRef := p.LookupFunc("io", "Decoder.AddReference")
	if addRef == nil {
		r.Undec("io.Decoder.AddReference", 0, "not found")
		return
	}
	n := 0
	p.EachFunc(func(pkg *packages.Package, fd *ast.FuncDecl) {
		if !strings.HasPrefix(p.RelPkg(pkg.Types), "rpc") {
			return
		}
		info := pkg.TypesInfo
		k := 0
		ast.Inspect(fd.Body, func(m ast.Node) bool {
			c, ok := m.(*ast.CallExpr)
			if !ok || Callee(info, c) != addRef || len(c.Args) != 1 {
				return true
			}
			n++
			k++
			id, isID := ast.Unparen(c.Args[0]).(*ast.Ident)
			r.Check(isID && id.Name == "nil", fmt.Sprintf("placeholder for the decoded list in %s #%d", p.DeclName(fd), k), c.Pos(), "AddReference(nil)", "the codec registers `"+types.ExprString(c.Args[0])+"` in the decoder's reference table: the peer can refer to the list from inside itself (r0 in the place of a []interface{} parameter), the slice header is copied into an element and the list contains itself by value - fmt.Sprint in the decoder or the encoder of the response then recurses until the stack overflows, which ends the process")
			return true
		})
	})
	if n == 0 {
		r.Undec("reference placeholders of the codecs", 0, "no Decoder.AddReference call found in rpc/")
	}
}

func ruleW16(r *Run) {
	p := r.P
	fd, pkg := p.DeclOf("io", "Convert")
	key := "io.Convert re-encodes in reference mode"
	if fd == nil {
		r.Undec(key, 0, "not found")
		return
	}
	info := pkg.TypesInfo
	bad := ""
	recodes := false
	ast.Inspect(fd.Body, func(m ast.Node) bool {
		c, ok := m.(*ast.CallExpr)
		if !ok {
			return true
		}
		f := Callee(info, c)
		if f == nil || !p.InRepo(f) {
			return true
		}
		switch f.Name() {
		case "Marshal", "Unmarshal", "Encode", "Decode":
			recodes = true
			// the package-level functions use the default (simple) formatter
			if sig := f.Type().(*types.Signature); sig.Recv() == nil {
				bad = f.Name()
			}
		}
		return true
	})
	if !recodes {
		r.Ok(key, fd.Pos(), "Convert does not re-encode at all")
		return
	}
	// the formatter / encoder used is not simple: no `Simple: true`, no Simple(true)
	simple := false
	ast.Inspect(fd.Body, func(m ast.Node) bool {
		switch x := m.(type) {
		case *ast.KeyValueExpr:
			if id, ok := x.Key.(*ast.Ident); ok && id.Name == "Simple" && types.ExprString(x.Value) == "true" {
				simple = true
			}
		case *ast.CallExpr:
			if methodName(x) == "Simple" && len(x.Args) == 1 && types.ExprString(x.Args[0]) == "true" {
				simple = true
			}
		}
		return true
	})
	r.Check(bad == "" && !simple, key, fd.Pos(), "a reference-mode formatter", "Convert falls back on simple-mode coding ("+bad+"): the value may have been decoded from the wire and contain itself through a pointer; simple mode writes no references and follows the cycle until the stack overflows - a 49-byte reply from a provider ends a service that uses the reverse plugin")
}
