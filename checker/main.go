// hpcheck: repository-specific static checks for hprose-golang (see /verif/DESIGN.md).
//
//	hpcheck -property C07 -tier quick|thorough [-repo /repo] [-only RULE]
//	hpcheck -replay /verif/evidence/C07.violations/1.json
//
// Nothing under -repo is executed: the tool parses and type-checks the current working
// tree and decides rules about the shape of the code.
package main

import (
	"encoding/json"
	"flag"
	"fmt"
	"go/ast"
	"os"
	"path/filepath"
	"runtime/debug"
	"sort"
	"strconv"
	"strings"
	"time"
)

var rules = map[string]*ruleInfo{}

var dumpAll bool

func register(name, doc string, floor int, fn func(r *Run)) *ruleInfo {
	ri := &ruleInfo{Name: name, Doc: doc, Floor: floor, Fn: fn}
	rules[name] = ri
	return ri
}

// propRules: which rules serve which property (DESIGN.md section 4).
var propRules = map[string][]string{}

// scopedFloor: instance floors of rules served restricted to a directory ("L1@io").
var scopedFloor = map[string]int{"L1@io": 10}

func serve(prop string, names ...string) { propRules[prop] = append(propRules[prop], names...) }

func main() {
	property := flag.String("property", "", "property id (C01..C20)")
	tier := flag.String("tier", os.Getenv("VERIF_TIER"), "quick|thorough")
	repo := flag.String("repo", "/repo", "repository root")
	verif := flag.String("verif", "/verif", "verification directory (known_findings.json, evidence/)")
	only := flag.String("only", "", "run only this rule (comma separated)")
	replay := flag.String("replay", "", "replay file written by an earlier run")
	mutant := flag.String("mutant", "", "internal: apply this mutant (json file) as an overlay and print fired rule keys")
	list := flag.Bool("list", false, "list rules and properties")
	recordAnchors := flag.String("record-anchors", "", "development: run the property's rules and write the signatures of all functions looked up by name to this file")
	rulesJSON := flag.Bool("rules", false, "print the rule catalogue as JSON")
	goarch := flag.String("goarch", "", "GOARCH to load with (default: host)")
	noSelfval := flag.Bool("no-selfval", false, "thorough tier without the mutant corpus")
	flag.BoolVar(&dumpAll, "dump", false, "print every obligation")
	flag.Parse()

	if *rulesJSON {
		type rj struct {
			Rule, Doc string
			Floor     int
			Props     []string
		}
		var out []rj
		var names []string
		for n := range rules {
			names = append(names, n)
		}
		sort.Strings(names)
		for _, n := range names {
			var ps []string
			for p, rs := range propRules {
				if p == "ALL" || !strings.HasPrefix(p, "C") || len(p) != 3 {
					continue
				}
				for _, r := range rs {
					if r == n {
						ps = append(ps, p)
					}
				}
			}
			sort.Strings(ps)
			out = append(out, rj{n, rules[n].Doc, rules[n].Floor, ps})
		}
		b, _ := json.MarshalIndent(out, "", " ")
		fmt.Println(string(b))
		return
	}
	if *list {
		var ps []string
		for p := range propRules {
			ps = append(ps, p)
		}
		sort.Strings(ps)
		for _, p := range ps {
			fmt.Printf("%s: %s\n", p, strings.Join(propRules[p], " "))
		}
		return
	}
	if *replay != "" {
		b, err := os.ReadFile(*replay)
		if err != nil {
			fmt.Println("BROKEN:", err)
			os.Exit(2)
		}
		var rep struct{ Property, Rule, Key string }
		if err := json.Unmarshal(b, &rep); err != nil {
			fmt.Println("BROKEN:", err)
			os.Exit(2)
		}
		*property, *only = rep.Property, rep.Rule
		if *tier == "" {
			*tier = "quick"
		}
		// evidence of a replay goes to a scratch dir so it never overwrites the real one
		*verif = replayDir(*verif)
	}
	if *tier == "" {
		*tier = "quick"
	}
	if *tier != "quick" && *tier != "thorough" {
		fmt.Println("BROKEN: -tier must be quick or thorough")
		os.Exit(2)
	}
	seed, _ := strconv.ParseInt(os.Getenv("VERIF_SEED"), 10, 64)

	if *mutant != "" {
		os.Exit(runMutant(*repo, *mutant))
	}

	if *recordAnchors != "" {
		anchorRecord = map[string]string{}
		defer func() {}()
	}
	names := propRules[*property]
	if len(names) == 0 {
		fmt.Printf("BROKEN: unknown property %q\n", *property)
		os.Exit(2)
	}
	if *only != "" {
		names = strings.Split(*only, ",")
	}
	code := runProperty(*repo, *verif, *property, *tier, names, *goarch, seed, *noSelfval)
	if *recordAnchors != "" {
		// the inventory of the reference tree (canon.go) plus the looked-up anchors
		if p, err := loadOnce(*repo, "", nil); err == nil {
			for k, v := range p.inventory() {
				anchorRecord[k] = v
			}
		}
		b, _ := json.MarshalIndent(anchorRecord, "", " ")
		os.WriteFile(*recordAnchors, b, 0o644)
	}
	os.Exit(code)
}

func replayDir(verif string) string {
	d := filepath.Join(os.TempDir(), "hpcheck-replay")
	os.MkdirAll(d, 0o755)
	// known findings still apply
	if b, err := os.ReadFile(filepath.Join(verif, "known_findings.json")); err == nil {
		os.WriteFile(filepath.Join(d, "known_findings.json"), b, 0o644)
	}
	return d
}

func runRules(r *Run, names []string) (ris []*ruleInfo) {
	for _, n := range names {
		ri := rules[n]
		scope := ""
		if i := strings.Index(n, "@"); i > 0 && ri == nil {
			// "L1@io": rule L1 restricted to the obligations located under io/
			if base := rules[n[:i]]; base != nil {
				scope = n[i+1:]
				c := *base
				c.Name = n
				c.Doc = base.Doc + " (restricted to the sites under " + scope + "/)"
				c.Floor = scopedFloor[n]
				if c.Floor == 0 {
					c.Floor = 1
				}
				ri = &c
			}
		}
		if ri == nil {
			r.cur = n
			r.Undec("rule-missing", 0, "rule "+n+" is not implemented")
			continue
		}
		ris = append(ris, ri)
		r.cur = n
		func() {
			defer func() {
				if e := recover(); e != nil {
					r.cur = n
					r.Undec("analyser-panic", 0, fmt.Sprintf("rule %s panicked: %v\n%s", n, e, debug.Stack()))
				}
			}()
			before := len(r.Obs)
			runView := func() {
				ri.Fn(r)
				if r.Tier == "thorough" && ri.Thorough != nil {
					ri.Thorough(r)
				}
				if scope != "" {
					kept := r.Obs[:before]
					for _, o := range r.Obs[before:] {
						if strings.HasPrefix(o.Where, scope+"/") {
							kept = append(kept, o)
						}
					}
					r.Obs = kept
				}
			}
			alarmed := func() bool {
				for _, o := range r.Obs[before:] {
					if o.st != OK {
						return true
					}
				}
				return len(r.Obs)-before < ri.Floor
			}
			seenBefore := map[string]bool{}
			for k, v := range r.seen {
				seenBefore[k] = v
			}
			runView()
			// Two views of a refactored tree. Substituting extracted helpers (inline.go) exists to take false alarms away; where
			// a rule is not satisfied on the substituted tree but is on the tree as it was written, the rule has recognised its
			// subject there (by means of its own: helper summaries, call-site lookup) and that verdict stands. A rule that is
			// dissatisfied with both views reports what it saw on the substituted one.
			if pre := r.P.PreInline; pre != nil && alarmed() {
				first := append([]*Ob{}, r.Obs[before:]...)
				firstSeen := r.seen
				cur := r.P
				r.Obs = r.Obs[:before]
				r.seen = seenBefore
				switchView(r, pre)
				func() {
					defer switchView(r, cur)
					runView()
				}()
				if alarmed() {
					r.Obs = append(r.Obs[:before], first...)
					r.seen = firstSeen
				} else {
					notes, _ := r.Extra["decided_on_the_tree_as_written"].([]string)
					r.Extra["decided_on_the_tree_as_written"] = append(notes, n)
				}
			}
		}()
	}
	return ris
}

// switchView makes p the program the rules (and the fact helpers they share) look at.
func switchView(r *Run, p *Prog) {
	r.P = p
	curProg = p
	factCallExpand = func(call *ast.CallExpr, val bool) []condFact {
		info := p.InfoAt(call.Pos())
		if info == nil {
			return nil
		}
		return p.expandBoolFact(info, call, val)
	}
}

func runProperty(repo, verif, property, tier string, names []string, goarch string, seed int64, noSelfval bool) int {
	started := time.Now()
	p, err := Load(repo, goarch, nil)
	if err != nil {
		fmt.Printf("BROKEN: %v\n", err)
		// A tree that does not load cannot be decided: report as a violation so that it is not
		// mistaken for a pass.
		vdir := filepath.Join(verif, "evidence", property+".violations")
		os.MkdirAll(vdir, 0o755)
		path := filepath.Join(vdir, "load.json")
		b, _ := json.MarshalIndent(map[string]string{"property": property, "error": err.Error()}, "", " ")
		os.WriteFile(path, b, 0o644)
		fmt.Printf("VIOLATION property=%s replay=%s\n", property, path)
		return 1
	}
	r := NewRun(p, property, tier)
	ris := runRules(r, names)

	if dumpAll {
		for _, o := range r.Obs {
			fmt.Printf("OB %s | %s | %s | %s | %s\n", o.Rule, o.Status, o.Key, o.Where, o.Msg)
		}
	}
	var sv *selfValResult
	if tier == "thorough" {
		// (a) same rules under GOARCH=386 (type sizes change)
		if goarch == "" {
			p2, err := Load(repo, "386", nil)
			if err != nil {
				r.cur = "LOAD386"
				r.Undec("load-386", 0, err.Error())
			} else {
				r2 := NewRun(p2, property, tier)
				runRules(r2, names)
				n386 := 0
				for _, o := range r2.Obs {
					if o.st != OK {
						// merge non-discharged obligations found only under 386
						r.cur = o.Rule
						r.add(o.st, o.Key, 0, "[GOARCH=386] "+o.Msg+" ("+o.Where+")", o.Trace)
					}
					n386++
				}
				r.Extra["obligations_goarch_386"] = n386
			}
		}
		if !noSelfval {
			sv = runSelfValidation(repo, verif, property, names, seed)
		}
	}
	code := r.Finish(verif, ris, started, seed, 0, sv)
	if sv != nil && len(sv.Failed) > 0 {
		for _, f := range sv.Failed {
			fmt.Println("SELF-VALIDATION FAILED:", f)
		}
		if code == 0 {
			return 2
		}
	}
	return code
}
