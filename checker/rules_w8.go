package main

import (
	"fmt"
	"go/ast"
	"go/token"
	"go/types"
	"sort"
	"strings"

	"golang.org/x/tools/go/packages"
)

// W8 (C04): parse helpers of the decoder report malformed input through Decoder.Error and return
// nil. A caller that hands such a result to code that dereferences it panics on malformed input.

func init() {
	register("W8", "the result of a decoder helper that returns nil on malformed input (an explicit `return nil` of a pointer result, or a return of another such helper) is only stored, returned or compared; it is not passed to a function outside the repository, used as a method receiver or dereferenced unless a dominating test excludes nil", 6, ruleW8)
}

func ruleW8(r *Run) {
	p := r.P
	pkg := p.Pkg("io")
	if pkg == nil {
		r.Undec("package io", 0, "not found")
		return
	}
	info := pkg.TypesInfo
	mayNil := map[*types.Func]bool{}
	var decls []*ast.FuncDecl
	p.EachFunc(func(pk *packages.Package, fd *ast.FuncDecl) {
		if pk == pkg {
			decls = append(decls, fd)
		}
	})
	ptrResult := func(fd *ast.FuncDecl) bool {
		f, _ := info.Defs[fd.Name].(*types.Func)
		if f == nil {
			return false
		}
		res := f.Type().(*types.Signature).Results()
		if res.Len() != 1 {
			return false
		}
		_, ok := res.At(0).Type().Underlying().(*types.Pointer)
		return ok
	}
	isNilIdent := func(e ast.Expr) bool {
		id, ok := ast.Unparen(e).(*ast.Ident)
		return ok && id.Name == "nil" && info.Uses[id] == types.Universe.Lookup("nil")
	}
	for changed := true; changed; {
		changed = false
		for _, fd := range decls {
			f, _ := info.Defs[fd.Name].(*types.Func)
			if f == nil || mayNil[f] || !ptrResult(fd) {
				continue
			}
			ast.Inspect(fd.Body, func(n ast.Node) bool {
				if _, ok := n.(*ast.FuncLit); ok {
					return false
				}
				ret, ok := n.(*ast.ReturnStmt)
				if !ok || len(ret.Results) != 1 {
					return true
				}
				if isNilIdent(ret.Results[0]) {
					mayNil[f] = true
				} else if c, ok := ast.Unparen(ret.Results[0]).(*ast.CallExpr); ok {
					if g := Callee(info, c); g != nil && mayNil[g] {
						mayNil[f] = true
					}
				}
				return true
			})
			if mayNil[f] {
				changed = true
			}
		}
	}
	var names []string
	for f := range mayNil {
		names = append(names, f.Name())
	}
	sort.Strings(names)
	nSites := 0
	for _, fd := range decls {
		parents := parentMap(fd.Body)
		perFn := 0
		nilChecked := func(o types.Object, at ast.Node) bool {
			for _, fc := range factsWithSwitch(parents, at) {
				be, ok := fc.e.(*ast.BinaryExpr)
				if !ok || identObj(info, be.X) != o || !isNilIdent(be.Y) {
					continue
				}
				if (be.Op == token.NEQ && !fc.neg) || (be.Op == token.EQL && fc.neg) {
					return true
				}
			}
			return false
		}
		ast.Inspect(fd.Body, func(n ast.Node) bool {
			call, ok := n.(*ast.CallExpr)
			if !ok {
				return true
			}
			g := Callee(info, call)
			if g == nil || !mayNil[g] {
				return true
			}
			nSites++
			perFn++
			key := fmt.Sprintf("may-nil result of %s in %s #%d", g.Name(), p.DeclName(fd), perFn)
			par := parents[call]
			for {
				if pe, ok := par.(*ast.ParenExpr); ok {
					par = parents[pe]
					continue
				}
				break
			}
			switch x := par.(type) {
			case *ast.ReturnStmt:
				r.Ok(key, call.Pos(), "returned to the caller")
			case *ast.AssignStmt:
				// stored: through a pointer / field (fine) or into a local (check its uses)
				var lhs ast.Expr
				for i, rh := range x.Rhs {
					if ast.Unparen(rh) == ast.Expr(call) && i < len(x.Lhs) {
						lhs = x.Lhs[i]
					}
				}
				o := identObj(info, lhs)
				if o == nil {
					r.Ok(key, call.Pos(), "stored (nil is a legal value of the destination)")
					return true
				}
				bad := ""
				ast.Inspect(fd.Body, func(m ast.Node) bool {
					switch u := m.(type) {
					case *ast.StarExpr:
						if identObj(info, u.X) == o && !nilChecked(o, u) {
							bad = "dereferenced at " + p.Rel(u.Pos())
						}
					case *ast.SelectorExpr:
						if identObj(info, u.X) == o && !nilChecked(o, u) {
							bad = "used as receiver / field base at " + p.Rel(u.Pos())
						}
					case *ast.CallExpr:
						if h := Callee(info, u); h != nil && !p.InRepo(h) {
							for _, a := range u.Args {
								if identObj(info, a) == o && !nilChecked(o, u) {
									bad = "passed to " + FullName(h) + " at " + p.Rel(u.Pos())
								}
							}
						}
					}
					return true
				})
				r.Check(bad == "", key, call.Pos(), "stored in "+o.Name()+"; every dereferencing use is nil-checked", "the helper returns nil on malformed input and the result is "+bad+" without a nil test: a malformed literal panics the decoder")
			case *ast.CallExpr:
				// argument of another call
				h := Callee(info, x)
				isArg := false
				for _, a := range x.Args {
					if ast.Unparen(a) == ast.Expr(call) {
						isArg = true
					}
				}
				switch {
				case !isArg:
					r.Ok(key, call.Pos(), "callee expression")
				case h != nil && p.InRepo(h):
					r.Ok(key, call.Pos(), "passed to "+p.FuncName(h)+" (in-repository callee)")
				default:
					name := "a function value"
					if h != nil {
						name = FullName(h)
					}
					r.Viol(key, call.Pos(), fmt.Sprintf("%s returns nil when the literal does not parse (the error goes to Decoder.Error) and the result is passed straight to %s, which dereferences it: a malformed literal such as `lx;` panics with a nil pointer dereference instead of reporting the error", g.Name(), name))
				}
			case *ast.SelectorExpr:
				r.Viol(key, call.Pos(), g.Name()+" may return nil and its result is used as a method receiver / field base without a nil test")
			case *ast.StarExpr:
				r.Viol(key, call.Pos(), g.Name()+" may return nil and its result is dereferenced without a nil test")
			case *ast.BinaryExpr, *ast.ExprStmt, *ast.KeyValueExpr, *ast.CompositeLit:
				r.Ok(key, call.Pos(), "compared / discarded / stored")
			default:
				r.Undec(key, call.Pos(), fmt.Sprintf("unrecognised use of a may-nil result (%T)", par))
			}
			return true
		})
	}
	r.Ok("may-nil helpers enumerated", 0, fmt.Sprintf("%d helpers: %v; %d call sites", len(names), names, nSites))
}

// W2b (C04): the decoder's reference table can hold nil (the client codec registers a nil
// placeholder for the result list). A back-reference to such a slot yields a nil interface, and
// reflect.TypeOf(nil) is a nil reflect.Type.
func init() {
	register("W2b", "when nil can be stored in the decoder's reference table (some AddReference / refer.Add call passes nil), every value read from the table (decoderRefer.Read) is tested against nil before reflect.TypeOf of it is handed to GetConverter or has a method called on it", 1, ruleW2b)
}

func ruleW2b(r *Run) {
	p := r.P
	// 1. is nil ever stored?
	var placeholder token.Pos
	p.EachFunc(func(pkg *packages.Package, fd *ast.FuncDecl) {
		info := pkg.TypesInfo
		ast.Inspect(fd.Body, func(n ast.Node) bool {
			c, ok := n.(*ast.CallExpr)
			if !ok || len(c.Args) != 1 {
				return true
			}
			m := methodName(c)
			if m != "AddReference" && m != "Add" {
				return true
			}
			f := Callee(info, c)
			if f == nil || !p.InRepo(f) {
				return true
			}
			fn := p.FuncName(f)
			if fn != "io.Decoder.AddReference" && fn != "io.decoderRefer.Add" {
				return true
			}
			if id, ok := ast.Unparen(c.Args[0]).(*ast.Ident); ok && id.Name == "nil" {
				placeholder = c.Pos()
			}
			return true
		})
	})
	if !placeholder.IsValid() {
		r.Ok("reference table never holds nil", 0, "no AddReference(nil) / refer.Add(nil) in the repository")
		return
	}
	pkg := p.Pkg("io")
	info := pkg.TypesInfo
	n := 0
	p.EachFunc(func(pk *packages.Package, fd *ast.FuncDecl) {
		if pk != pkg {
			return
		}
		parents := parentMap(fd.Body)
		// values read from the table
		fromTable := map[types.Object]bool{}
		ast.Inspect(fd.Body, func(m ast.Node) bool {
			as, ok := m.(*ast.AssignStmt)
			if !ok || len(as.Rhs) != 1 {
				return true
			}
			c, ok := ast.Unparen(as.Rhs[0]).(*ast.CallExpr)
			if !ok {
				return true
			}
			if f := Callee(info, c); f != nil && p.FuncName(f) == "io.decoderRefer.Read" {
				if o := identObj(info, as.Lhs[0]); o != nil {
					fromTable[o] = true
				}
			}
			return true
		})
		if len(fromTable) == 0 {
			return
		}
		nonNil := func(o types.Object, at ast.Node) bool {
			for _, fc := range factsWithSwitch(parents, at) {
				be, ok := fc.e.(*ast.BinaryExpr)
				if !ok {
					continue
				}
				id, isNil := ast.Unparen(be.Y).(*ast.Ident)
				if identObj(info, be.X) != o || !isNil || id.Name != "nil" {
					continue
				}
				if (be.Op == token.NEQ && !fc.neg) || (be.Op == token.EQL && fc.neg) {
					return true
				}
			}
			return false
		}
		// types of table values
		typeOf := map[types.Object]types.Object{} // src -> o
		ast.Inspect(fd.Body, func(m ast.Node) bool {
			as, ok := m.(*ast.AssignStmt)
			if !ok || len(as.Lhs) != 1 || len(as.Rhs) != 1 {
				return true
			}
			c, ok := ast.Unparen(as.Rhs[0]).(*ast.CallExpr)
			if !ok || len(c.Args) != 1 {
				return true
			}
			if f := Callee(info, c); f != nil && FullName(f) == "reflect.TypeOf" {
				if o := identObj(info, c.Args[0]); o != nil && fromTable[o] {
					if s := identObj(info, as.Lhs[0]); s != nil {
						typeOf[s] = o
					}
				}
			}
			return true
		})
		ast.Inspect(fd.Body, func(m ast.Node) bool {
			switch x := m.(type) {
			case *ast.CallExpr:
				for _, a := range x.Args {
					if s := identObj(info, a); s != nil && typeOf[s] != nil {
						if f := Callee(info, x); f != nil && FullName(f) == "reflect.TypeOf" {
							continue
						}
						n++
						o := typeOf[s]
						r.Check(nonNil(o, x) || nonNil(s, x), fmt.Sprintf("type of a table value passed on in %s #%d", p.DeclName(fd), n), x.Pos(), "nil excluded first", fmt.Sprintf("%s is read from the reference table, which can hold nil (placeholder registered at %s); reflect.TypeOf of it is a nil reflect.Type and is passed to %s, which calls methods on it: a back-reference to the placeholder slot (`r0;`) panics with a nil pointer dereference", o.Name(), p.Rel(placeholder), types.ExprString(x.Fun)))
					}
				}
			case *ast.SelectorExpr:
				if s := identObj(info, x.X); s != nil && typeOf[s] != nil {
					if _, isCall := parents[x].(*ast.CallExpr); isCall {
						n++
						o := typeOf[s]
						r.Check(nonNil(o, x) || nonNil(s, x), fmt.Sprintf("method on the type of a table value in %s #%d", p.DeclName(fd), n), x.Pos(), "nil excluded first", "a method is called on reflect.TypeOf of a reference-table value that can be nil")
					}
				}
			}
			return true
		})
	})
	if n == 0 {
		r.Undec("uses of table value types", 0, "nil placeholders exist but no use of reflect.TypeOf(<table value>) was found")
	}
	// part 2: GetConverter(reflect.TypeOf(x), ..) written inline, x an interface{} value
	m := 0
	p.EachFunc(func(pk *packages.Package, fd *ast.FuncDecl) {
		if pk != pkg {
			return
		}
		parents := parentMap(fd.Body)
		fobj, _ := info.Defs[fd.Name].(*types.Func)
		isConverterFn := false
		if fobj != nil {
			sig := fobj.Type().(*types.Signature)
			if sig.Params().Len() == 3 && sig.Results().Len() == 0 && sig.Params().At(1).Type().String() == "interface{}" && sig.Params().At(2).Type().String() == "interface{}" {
				isConverterFn = true
			}
		}
		ast.Inspect(fd.Body, func(k ast.Node) bool {
			c, ok := k.(*ast.CallExpr)
			if !ok || len(c.Args) != 2 {
				return true
			}
			if f := Callee(info, c); f == nil || p.FuncName(f) != "io.GetConverter" {
				return true
			}
			tc, ok := ast.Unparen(c.Args[0]).(*ast.CallExpr)
			if !ok || len(tc.Args) != 1 {
				return true
			}
			if f := Callee(info, tc); f == nil || FullName(f) != "reflect.TypeOf" {
				return true
			}
			o := identObj(info, tc.Args[0])
			if o == nil {
				return true
			}
			m++
			key := fmt.Sprintf("converter source type of %s in %s", o.Name(), p.DeclName(fd))
			if isConverterFn {
				r.Ok(key, c.Pos(), "inside a converter, which runs only on the value whose (non-nil) type selected it")
				return true
			}
			nonNil := false
			for _, fc := range factsWithSwitch(parents, c) {
				be, ok := fc.e.(*ast.BinaryExpr)
				if !ok || identObj(info, be.X) != o {
					continue
				}
				if id, ok := ast.Unparen(be.Y).(*ast.Ident); !ok || id.Name != "nil" {
					continue
				}
				if (be.Op == token.NEQ && !fc.neg) || (be.Op == token.EQL && fc.neg) {
					nonNil = true
				}
			}
			r.Check(nonNil, key, c.Pos(), "nil excluded first", fmt.Sprintf("%s is an interface{} that can be nil (io.Convert is called with arguments taken from the wire); reflect.TypeOf(nil) is a nil reflect.Type and GetConverter calls methods on it: converting a nil argument to any typed parameter panics with a nil pointer dereference", o.Name()))
			return true
		})
	})
}

// W9 (C04/C07): the service codecs size the list of parameter types by the number of arguments on
// the wire and fill it with copy() from the method's parameters: with more arguments than
// parameters the tail stays nil.
func init() {
	register("W9", "an element of a []reflect.Type that was allocated with a wire-controlled length and filled by copy() (so that its tail can be nil) is used only where nil is acceptable: under a dominating != nil test, or passed to a repository function that itself tests the parameter against nil (Decoder.Read, io.Convert); it is never handed to reflect/reflect2 constructors or dereferenced unchecked", 2, ruleW9)
}

func ruleW9(r *Run) {
	p := r.P
	n := 0
	nilSafe := map[*types.Func]map[int]bool{}
	isNilSafeParam := func(f *types.Func, idx int) bool {
		if m, ok := nilSafe[f]; ok {
			if v, ok := m[idx]; ok {
				return v
			}
		}
		res := false
		if d := p.Decl(f); d != nil && d.Body != nil {
			pkg := p.PkgOfDecl(d)
			info := pkg.TypesInfo
			params := paramsOf(info, d.Type)
			if idx < len(params) && params[idx] != nil {
				pv := params[idx]
				ast.Inspect(d.Body, func(k ast.Node) bool {
					if be, ok := k.(*ast.BinaryExpr); ok && (be.Op == token.EQL || be.Op == token.NEQ) && identObj(info, be.X) == pv {
						if id, ok := ast.Unparen(be.Y).(*ast.Ident); ok && id.Name == "nil" {
							res = true
						}
					}
					return true
				})
			}
		}
		if nilSafe[f] == nil {
			nilSafe[f] = map[int]bool{}
		}
		nilSafe[f][idx] = res
		return res
	}
	p.EachFunc(func(pkg *packages.Package, fd *ast.FuncDecl) {
		if !strings.HasPrefix(p.RelPkg(pkg.Types), "rpc") {
			return
		}
		info := pkg.TypesInfo
		// lists: X := make([]reflect.Type, n) ... copy(X, ..)
		lists := map[types.Object]bool{}
		ast.Inspect(fd.Body, func(m ast.Node) bool {
			as, ok := m.(*ast.AssignStmt)
			if !ok || len(as.Lhs) != 1 || len(as.Rhs) != 1 {
				return true
			}
			c, ok := ast.Unparen(as.Rhs[0]).(*ast.CallExpr)
			if !ok || !IsBuiltin(info, c, "make") {
				return true
			}
			if tv, ok := info.Types[c.Args[0]]; !ok || tv.Type.String() != "[]reflect.Type" {
				return true
			}
			if o := identObj(info, as.Lhs[0]); o != nil {
				lists[o] = true
			}
			return true
		})
		copied := map[types.Object]bool{}
		ast.Inspect(fd.Body, func(m ast.Node) bool {
			if c, ok := m.(*ast.CallExpr); ok && IsBuiltin(info, c, "copy") && len(c.Args) == 2 {
				if o := identObj(info, c.Args[0]); o != nil && lists[o] {
					copied[o] = true
				}
			}
			return true
		})
		// a list handed out by a repository helper that builds it the same way (make + copy)
		ast.Inspect(fd.Body, func(m ast.Node) bool {
			as, ok := m.(*ast.AssignStmt)
			if !ok || len(as.Lhs) != 1 || len(as.Rhs) != 1 {
				return true
			}
			c, ok := ast.Unparen(as.Rhs[0]).(*ast.CallExpr)
			if !ok {
				return true
			}
			if tv, ok := info.Types[as.Rhs[0]]; !ok || tv.Type.String() != "[]reflect.Type" {
				return true
			}
			d, cpkg := p.calleeDecl(info, c)
			if d == nil {
				return true
			}
			ci := cpkg.TypesInfo
			made, cop := false, false
			ast.Inspect(d.Body, func(k ast.Node) bool {
				if cc, ok := k.(*ast.CallExpr); ok {
					if IsBuiltin(ci, cc, "make") {
						if tv, ok := ci.Types[cc.Args[0]]; ok && tv.Type.String() == "[]reflect.Type" {
							made = true
						}
					}
					if IsBuiltin(ci, cc, "copy") {
						cop = true
					}
				}
				return true
			})
			if made && cop {
				if o := identObj(info, as.Lhs[0]); o != nil {
					copied[o] = true
				}
			}
			return true
		})
		if len(copied) == 0 {
			return
		}
		parents := parentMap(fd.Body)
		// element expressions: X[i], or the value variable of `for _, t := range X`
		elemVars := map[types.Object]bool{}
		ast.Inspect(fd.Body, func(m ast.Node) bool {
			if rs, ok := m.(*ast.RangeStmt); ok {
				if o := identObj(info, rs.X); o != nil && copied[o] && rs.Value != nil {
					if v := identObj(info, rs.Value); v != nil {
						elemVars[v] = true
					}
				}
			}
			return true
		})
		isElem := func(e ast.Expr) bool {
			e = ast.Unparen(e)
			if ie, ok := e.(*ast.IndexExpr); ok {
				if o := identObj(info, ie.X); o != nil && copied[o] {
					return true
				}
			}
			if o := identObj(info, e); o != nil && elemVars[o] {
				return true
			}
			return false
		}
		perFn := 0
		ast.Inspect(fd.Body, func(m ast.Node) bool {
			switch x := m.(type) {
			case *ast.CallExpr:
				for i, a := range x.Args {
					if !isElem(a) {
						continue
					}
					n++
					perFn++
					key := fmt.Sprintf("possibly-nil parameter type %s passed to %s in %s #%d", types.ExprString(a), types.ExprString(x.Fun), p.DeclName(fd), perFn)
					as := types.ExprString(ast.Unparen(a))
					guard := false
					for _, fc := range factsWithSwitch(parents, x) {
						be, ok := fc.e.(*ast.BinaryExpr)
						if !ok || types.ExprString(ast.Unparen(be.X)) != as {
							continue
						}
						if id, ok := ast.Unparen(be.Y).(*ast.Ident); !ok || id.Name != "nil" {
							continue
						}
						if (be.Op == token.NEQ && !fc.neg) || (be.Op == token.EQL && fc.neg) {
							guard = true
						}
					}
					if guard {
						r.Ok(key, x.Pos(), "nil excluded on this path")
						continue
					}
					if f := Callee(info, x); f != nil && p.InRepo(f) && isNilSafeParam(f, i) {
						r.Ok(key, x.Pos(), p.FuncName(f)+" tests the parameter against nil itself")
						continue
					}
					r.Viol(key, x.Pos(), fmt.Sprintf("%s comes from a type list sized by the number of arguments on the wire and filled by copy() from the method's parameters, so it is nil for every argument beyond the parameters; %s does not accept a nil type: a request with more arguments than the function takes panics in the codec", as, types.ExprString(x.Fun)))
				}
			case *ast.SelectorExpr:
				if isElem(x.X) {
					if _, isCall := parents[x].(*ast.CallExpr); isCall {
						n++
						perFn++
						r.Viol(fmt.Sprintf("method on possibly-nil parameter type %s in %s #%d", types.ExprString(x.X), p.DeclName(fd), perFn), x.Pos(), "a method is called on a parameter type that is nil for arguments beyond the parameters")
					}
				}
			}
			return true
		})
	})
	if n == 0 {
		r.Undec("parameter type lists", 0, "no uses of elements of a copied []reflect.Type found under rpc/")
	}
}

// W10 (C04/C07): in the codecs, what was unmarshalled from the peer is of unknown shape.
func init() {
	register("W10", "in the RPC codecs (rpc/core codecs, rpc/codec/jsonrpc) a value taken from an unmarshalled message is type-asserted only in the comma-ok form or a type switch, and an index obtained by ranging over a list from the message is used on another slice only under a bound (i < len(other), or the list was clamped to len(other) first): a response of unexpected shape or length must give an error or be trimmed, not panic in the caller", 2, ruleW10)
}

func ruleW10(r *Run) {
	p := r.P
	n := 0
	for _, rel := range []string{"rpc/codec/jsonrpc", "rpc/core"} {
		pkg := p.Pkg(rel)
		if pkg == nil {
			continue
		}
		info := pkg.TypesInfo
		for _, file := range pkg.Syntax {
			name := p.Fset.Position(file.Pos()).Filename
			if !strings.HasSuffix(name, "_codec.go") {
				continue
			}
			for _, d := range file.Decls {
				fd, ok := d.(*ast.FuncDecl)
				if !ok || fd.Body == nil {
					continue
				}
				parents := parentMap(fd.Body)
				perFn := 0
				// (a) single-value assertions on interface-typed struct fields (message fields)
				ast.Inspect(fd.Body, func(m ast.Node) bool {
					ta, ok := m.(*ast.TypeAssertExpr)
					if !ok || ta.Type == nil {
						return true
					}
					fv := fieldOf(info, ta.X)
					if fv == nil {
						return true
					}
					if _, isIface := fv.Type().Underlying().(*types.Interface); !isIface {
						return true
					}
					n++
					perFn++
					key := fmt.Sprintf("assertion %s in %s #%d", types.ExprString(ta), p.DeclName(fd), perFn)
					as, isAssign := parents[ta].(*ast.AssignStmt)
					r.Check(isAssign && len(as.Lhs) == 2 && len(as.Rhs) == 1, key, ta.Pos(), "comma-ok form", fmt.Sprintf("%s holds whatever the peer sent; the single-value assertion panics when it is not a %s (a scalar result where the caller declared several)", types.ExprString(ta.X), types.ExprString(ta.Type)))
					return true
				})
				// (b) range index over a message list used on another slice
				ast.Inspect(fd.Body, func(m ast.Node) bool {
					rs, ok := m.(*ast.RangeStmt)
					if !ok || rs.Key == nil {
						return true
					}
					ko := identObj(info, rs.Key)
					lo := identObj(info, rs.X)
					if ko == nil || lo == nil {
						return true
					}
					// is the ranged list derived from a message field (assertion or field read)?
					fromMsg := false
					ast.Inspect(fd.Body, func(k ast.Node) bool {
						as, ok := k.(*ast.AssignStmt)
						if !ok {
							return true
						}
						for i, l := range as.Lhs {
							if identObj(info, l) != lo {
								continue
							}
							var rhs ast.Expr
							if len(as.Rhs) == len(as.Lhs) {
								rhs = as.Rhs[i]
							} else if len(as.Rhs) == 1 {
								rhs = as.Rhs[0]
							}
							if rhs == nil {
								continue
							}
							ast.Inspect(rhs, func(q ast.Node) bool {
								if se, ok := q.(*ast.SelectorExpr); ok {
									if fv := fieldOf(info, se); fv != nil {
										if _, isIface := fv.Type().Underlying().(*types.Interface); isIface {
											fromMsg = true
										}
									}
								}
								return true
							})
						}
						return true
					})
					if !fromMsg {
						return true
					}
					ast.Inspect(rs.Body, func(k ast.Node) bool {
						ie, ok := k.(*ast.IndexExpr)
						if !ok || identObj(info, ie.Index) != ko || identObj(info, ie.X) == lo {
							return true
						}
						n++
						perFn++
						key := fmt.Sprintf("index %s by a message list position in %s #%d", types.ExprString(ie), p.DeclName(fd), perFn)
						other := types.ExprString(ast.Unparen(ie.X))
						ok2 := false
						// bound on the index inside the loop
						for _, fc := range factsWithSwitch(parents, ie) {
							if be, isB := fc.e.(*ast.BinaryExpr); isB && identObj(info, be.X) == ko && ((!fc.neg && be.Op == token.LSS) || (fc.neg && be.Op == token.GEQ)) {
								if c, isC := ast.Unparen(be.Y).(*ast.CallExpr); isC && IsBuiltin(info, c, "len") && types.ExprString(ast.Unparen(c.Args[0])) == other {
									ok2 = true
								}
								if o := identObj(info, be.Y); o != nil && lenAliasOf(info, fd, other)[o] {
									ok2 = true
								}
							}
						}
						// or the list was clamped before the loop: if len(list) > N { list = list[:N] } with N = len(other) (directly or via a local)
						lenAlias := map[types.Object]bool{}
						ast.Inspect(fd.Body, func(q ast.Node) bool {
							if as, ok := q.(*ast.AssignStmt); ok && len(as.Lhs) == 1 && len(as.Rhs) == 1 {
								if c, isC := ast.Unparen(as.Rhs[0]).(*ast.CallExpr); isC && IsBuiltin(info, c, "len") && types.ExprString(ast.Unparen(c.Args[0])) == other {
									if o := identObj(info, as.Lhs[0]); o != nil {
										lenAlias[o] = true
									}
								}
							}
							// switch n := len(other); n { ... }
							if sw, ok := q.(*ast.SwitchStmt); ok && sw.Init != nil {
								if as, ok := sw.Init.(*ast.AssignStmt); ok && len(as.Lhs) == 1 && len(as.Rhs) == 1 {
									if c, isC := ast.Unparen(as.Rhs[0]).(*ast.CallExpr); isC && IsBuiltin(info, c, "len") && types.ExprString(ast.Unparen(c.Args[0])) == other {
										if o := identObj(info, as.Lhs[0]); o != nil {
											lenAlias[o] = true
										}
									}
								}
							}
							return true
						})
						isLenOther := func(e ast.Expr) bool {
							e = ast.Unparen(e)
							if o := identObj(info, e); o != nil && lenAlias[o] {
								return true
							}
							c, isC := e.(*ast.CallExpr)
							return isC && IsBuiltin(info, c, "len") && types.ExprString(ast.Unparen(c.Args[0])) == other
						}
						ast.Inspect(fd.Body, func(q ast.Node) bool {
							ifs, ok := q.(*ast.IfStmt)
							if !ok || ifs.Pos() > rs.Pos() {
								return true
							}
							be, ok := ast.Unparen(ifs.Cond).(*ast.BinaryExpr)
							if !ok || be.Op != token.GTR {
								return true
							}
							c, isC := ast.Unparen(be.X).(*ast.CallExpr)
							if !isC || !IsBuiltin(info, c, "len") || identObj(info, c.Args[0]) != lo || !isLenOther(be.Y) {
								return true
							}
							for _, s := range ifs.Body.List {
								if as, ok := s.(*ast.AssignStmt); ok && len(as.Lhs) == 1 && identObj(info, as.Lhs[0]) == lo {
									if se, ok := ast.Unparen(as.Rhs[0]).(*ast.SliceExpr); ok && identObj(info, se.X) == lo && se.High != nil && isLenOther(se.High) {
										ok2 = true
									}
								}
							}
							return true
						})
						r.Check(ok2, key, ie.Pos(), "bounded by the other slice's length", fmt.Sprintf("%s is indexed by the position in a list taken from the peer's message, which can be longer than %s: a response with more elements than the caller declared panics with index out of range in the caller's goroutine", other, other))
						return true
					})
					return true
				})
			}
		}
	}
	if n == 0 {
		r.Undec("codec message accesses", 0, "no assertions on message fields / cross-indexing found in the codecs")
	}
}

// lenAliasOf: locals defined as len(<other>) in fd (also in a switch init).
func lenAliasOf(info *types.Info, fd *ast.FuncDecl, other string) map[types.Object]bool {
	out := map[types.Object]bool{}
	ast.Inspect(fd.Body, func(q ast.Node) bool {
		if as, ok := q.(*ast.AssignStmt); ok && len(as.Lhs) == 1 && len(as.Rhs) == 1 {
			if c, isC := ast.Unparen(as.Rhs[0]).(*ast.CallExpr); isC && IsBuiltin(info, c, "len") && types.ExprString(ast.Unparen(c.Args[0])) == other {
				if o := identObj(info, as.Lhs[0]); o != nil {
					out[o] = true
				}
			}
		}
		return true
	})
	return out
}
