package main

import (
	"fmt"
	"go/ast"
	"go/token"
	"go/types"
	"strings"

	"golang.org/x/tools/go/packages"
)

// U1: reflect2.PtrOf(x) yields the data word of the interface x. For a pointer that is the pointer;
// for a value of a boxed kind it is the address of the copy; for a value of a POINTER-SHAPED type
// held by value (map, chan, func, a struct or one-element array around exactly one of those or a
// pointer) it is the value itself - not an address. Code that uses the result as the address of the
// value therefore has to know which case it is in.

func init() {
	register("U1", "every reflect2.PtrOf(x) in io/ whose result is used as the address of the value knows that x is not a pointer-shaped value held by value: x is statically a pointer or an address-of expression, or the destination parameter of a decode routine (always a pointer), or the result is cast to *T for a T that is never pointer-shaped (numbers, strings, slices, multi-word structs: the dynamic type the routine is registered for), or the use is dominated by a test of the dynamic type (Kind()/LikePtr()/a type switch) or preceded by boxing (toPtr, reflect.New); the remaining sites are listed with the reason each is safe - otherwise a map, [1]*T or struct{*T} held by value is dereferenced as if it were its own address (garbage reads, corrupt maps, SIGSEGV)", 150, ruleU1)
}

// u1Accepted: sites that none of the structural arguments covers, each confirmed by reading.
// Keyed by function and argument text (no line numbers).
var u1Accepted = map[string]string{
	"PtrOf(obj) in io.embeddedField.Get":   "implements reflect2.StructField.Get, whose contract is that obj is a pointer to the struct",
	"PtrOf(obj) in io.embeddedField.Set":   "implements reflect2.StructField.Set: obj is a pointer to the struct",
	"PtrOf(value) in io.embeddedField.Set": "implements reflect2.StructField.Set: value is a pointer to the field value",
}

func ruleU1(r *Run) {
	p := r.P
	pkg := p.Pkg("io")
	if pkg == nil {
		r.Undec("package io", 0, "not found")
		return
	}
	info := pkg.TypesInfo
	isPtrOf := func(c *ast.CallExpr) bool {
		se, ok := ast.Unparen(c.Fun).(*ast.SelectorExpr)
		if !ok || se.Sel.Name != "PtrOf" || len(c.Args) != 1 {
			return false
		}
		f, _ := info.Uses[se.Sel].(*types.Func)
		return f != nil && f.Pkg() != nil && strings.HasSuffix(f.Pkg().Path(), "reflect2")
	}
	for _, file := range pkg.Syntax {
		if strings.HasSuffix(p.Fset.File(file.Pos()).Name(), "_test.go") {
			continue
		}
		for _, d := range file.Decls {
			fd, ok := d.(*ast.FuncDecl)
			if !ok || fd.Body == nil {
				continue
			}
			parents := parentMap(fd.Body)
			perKey := map[string]int{}
			// parameters named as destination: the last interface{} parameter of a decode-shaped routine
			ast.Inspect(fd.Body, func(m ast.Node) bool {
				c, ok := m.(*ast.CallExpr)
				if !ok || !isPtrOf(c) {
					return true
				}
				arg := ast.Unparen(c.Args[0])
				argS := types.ExprString(arg)
				base := fmt.Sprintf("PtrOf(%s) in %s", argS, p.DeclName(fd))
				perKey[base]++
				key := fmt.Sprintf("%s #%d", base, perKey[base])
				ok2, how := p.u1Safe(info, fd, parents, c, arg)
				if !ok2 {
					if why, acc := u1Accepted[base]; acc {
						ok2, how = true, "confirmed by reading: "+why
					}
				}
				r.Check(ok2, key, c.Pos(), how, "the result of reflect2.PtrOf("+argS+") is used as the address of the value, but nothing establishes that "+argS+" is not a pointer-shaped value held by value (a map, a [1]*T, a struct around a single pointer): for such a value PtrOf returns the value itself and the code reads or writes through a wrong address")
				return true
			})
		}
	}
}

// pointerShaped: can a value of static type t be pointer-shaped (stored directly in the interface word)?
func pointerShaped(t types.Type) bool {
	switch u := t.Underlying().(type) {
	case *types.Pointer, *types.Map, *types.Chan, *types.Signature:
		return true
	case *types.Basic:
		return u.Kind() == types.UnsafePointer
	case *types.Struct:
		n := 0
		var only types.Type
		for i := 0; i < u.NumFields(); i++ {
			n++
			only = u.Field(i).Type()
		}
		return n == 1 && pointerShaped(only)
	case *types.Array:
		return u.Len() == 1 && pointerShaped(u.Elem())
	case *types.Interface, *types.TypeParam:
		return true // unknown dynamic type
	}
	return false
}

func (p *Prog) u1Safe(info *types.Info, fd *ast.FuncDecl, parents map[ast.Node]ast.Node, call *ast.CallExpr, arg ast.Expr) (bool, string) {
	// (a) statically a pointer / address-of
	if u, ok := arg.(*ast.UnaryExpr); ok && u.Op == token.AND {
		return true, "address-of expression"
	}
	at := info.TypeOf(arg)
	if at == nil {
		return false, ""
	}
	if _, ok := at.Underlying().(*types.Pointer); ok {
		return true, "statically a pointer"
	}
	if nt, ok := at.(*types.Named); ok && nt.Obj().Pkg() != nil && nt.Obj().Name() == "Type" && (nt.Obj().Pkg().Path() == "reflect" || strings.HasSuffix(nt.Obj().Pkg().Path(), "reflect2")) {
		return true, "a reflect type descriptor (implemented by pointer types only)"
	}
	if _, isIface := at.Underlying().(*types.Interface); !isIface {
		if !pointerShaped(at) {
			return true, "static type " + at.String() + " is never pointer-shaped"
		}
		return false, ""
	}
	// (b) cast of the result to *T with T never pointer-shaped
	var up ast.Node = call
	for {
		par := parents[up]
		if pe, ok := par.(*ast.ParenExpr); ok {
			up = pe
			continue
		}
		if conv, ok := par.(*ast.CallExpr); ok && len(conv.Args) == 1 && ast.Unparen(conv.Args[0]) == ast.Expr(ast.Unparen(up.(ast.Expr))) {
			if tv, ok := info.Types[conv.Fun]; ok && tv.IsType() {
				if pt, ok := tv.Type.Underlying().(*types.Pointer); ok {
					if !pointerShaped(pt.Elem()) {
						return true, "cast to *" + types.TypeString(pt.Elem(), types.RelativeTo(p.Pkg("io").Types)) + ", a type that is never pointer-shaped"
					}
				}
			}
		}
		break
	}
	// (c) the destination parameter of a decode routine
	if o := identObj(info, arg); o != nil {
		ftype := fd.Type
		for x := parents[call]; x != nil; x = parents[x] {
			if fl, ok := x.(*ast.FuncLit); ok {
				ftype = fl.Type
				break
			}
		}
		params := paramsOf(info, ftype)
		for i, pv := range params {
			if pv != o {
				continue
			}
			// decode routines: (dec *Decoder, p interface{}, tag byte) / (dec, t reflect.Type, p interface{}) / converters' destination (last)
			// the destination of a decode routine or converter, by the shape of the signature (not by its name): an
			// interface{} parameter that is last, or followed only by the tag byte; of two interface{} parameters
			// (converters: source, destination) the second
			if it, ok := pv.Type().Underlying().(*types.Interface); ok && it.Empty() {
				last := i == len(params)-1
				beforeTag := i == len(params)-2 && func() bool {
					b, ok := params[i+1].Type().Underlying().(*types.Basic)
					return ok && b.Kind() == types.Uint8
				}()
				laterIface := false
				for _, q := range params[i+1:] {
					if qt, ok := q.Type().Underlying().(*types.Interface); ok && qt.Empty() {
						laterIface = true
					}
				}
				hasDecoder := false
				for _, q := range params {
					if strings.HasSuffix(q.Type().String(), "io.Decoder") {
						hasDecoder = true
					}
				}
				if fd.Recv != nil && !hasDecoder {
					if rt := info.TypeOf(fd.Recv.List[0].Type); rt != nil && strings.HasSuffix(rt.String(), "io.Decoder") {
						hasDecoder = true
					}
				}
				if (last || beforeTag) && !laterIface && hasDecoder {
					return true, "the destination parameter of a decode routine (always a pointer to the destination)"
				}
			}
		}
	}
	// (d) dominated by a test of the dynamic type, or boxed before
	if o := identObj(info, arg); o != nil {
		tested := false
		ast.Inspect(fd.Body, func(n ast.Node) bool {
			if n == nil || n.Pos() >= call.Pos() {
				return n == nil || n.Pos() < call.Pos()
			}
			switch x := n.(type) {
			case *ast.CallExpr:
				switch methodName(x) {
				case "Kind", "LikePtr":
					// TypeOf(o).Kind() / t.Kind() with t := TypeOf(o)
					tested = tested || mentionsTypeOf(info, fd, x, o)
				}
				if f := Callee(info, x); f != nil && (f.Name() == "toPtr" || refName(f.Name()) == "toPtr") {
					// o = toPtr(t, o)
					if as, ok := parents[x].(*ast.AssignStmt); ok && len(as.Lhs) == 1 && identObj(info, as.Lhs[0]) == o {
						tested = true
					}
				}
			case *ast.TypeAssertExpr:
				// reflect2.TypeOf(o).(*reflect2.UnsafeMapType): the dynamic kind is established
				if c, ok := ast.Unparen(x.X).(*ast.CallExpr); ok && x.Type != nil && strings.HasSuffix(types.ExprString(c.Fun), "TypeOf") && len(c.Args) == 1 && identObj(info, c.Args[0]) == o {
					tested = true
				}
			case *ast.TypeSwitchStmt:
				ast.Inspect(x.Assign, func(k ast.Node) bool {
					if id, ok := k.(*ast.Ident); ok && info.Uses[id] == o {
						tested = true
					}
					return true
				})
			}
			return true
		})
		if tested {
			return true, "the dynamic type is examined (Kind/LikePtr/type switch/assertion of its reflect2 type) or the value boxed before the use"
		}
		// a local holding what a pointer-producing call returned: t.New(), reflect.New(t).Interface(), toPtr, PackEFace
		defs := localDefs(info, fd.Body)
		if d, ok := defs[o]; ok && d != nil {
			if c, ok := ast.Unparen(d).(*ast.CallExpr); ok {
				switch methodName(c) {
				case "New", "PackEFace", "toPtr":
					return true, "holds the pointer returned by " + methodName(c) + "()"
				}
				if f := Callee(info, c); f != nil && refName(f.Name()) == "toPtr" {
					return true, "holds the pointer returned by toPtr()"
				}
			}
		}
		// a parameter of an unexported helper: every call site passes something safe
		if f, _ := info.Defs[fd.Name].(*types.Func); f != nil && !fd.Name.IsExported() {
			idx := -1
			for i, pv := range paramsOf(info, fd.Type) {
				if pv == o {
					idx = i
				}
			}
			if idx >= 0 {
				sites, allOK := 0, true
				p.EachFunc(func(pk *packages.Package, cfd *ast.FuncDecl) {
					if pk.Types != f.Pkg() {
						return
					}
					cparents := parentMap(cfd.Body)
					ast.Inspect(cfd.Body, func(n ast.Node) bool {
						c, ok := n.(*ast.CallExpr)
						if !ok || Callee(info, c) != f || idx >= len(c.Args) {
							return true
						}
						sites++
						if ok, _ := p.u1Safe(info, cfd, cparents, c, ast.Unparen(c.Args[idx])); !ok {
							allOK = false
						}
						return true
					})
				})
				if sites > 0 && allOK {
					return true, fmt.Sprintf("parameter of %s: each of its %d call sites passes a pointer or a value it has examined", fd.Name.Name, sites)
				}
			}
		}
	}
	// the function asks reflect2 itself whether the type is pointer-shaped
	likePtr := false
	ast.Inspect(fd.Body, func(n ast.Node) bool {
		if c, ok := n.(*ast.CallExpr); ok && methodName(c) == "LikePtr" {
			likePtr = true
		}
		return true
	})
	if likePtr {
		return true, "the function asks LikePtr() and treats the pointer-shaped case separately"
	}
	return false, ""
}

// mentionsTypeOf: is the receiver chain of call rooted in TypeOf(o) / a local assigned from TypeOf(o)?
func mentionsTypeOf(info *types.Info, fd *ast.FuncDecl, call *ast.CallExpr, o types.Object) bool {
	found := false
	var visit func(e ast.Expr, depth int)
	defs := localDefs(info, fd.Body)
	visit = func(e ast.Expr, depth int) {
		if depth > 4 || found {
			return
		}
		ast.Inspect(e, func(n ast.Node) bool {
			switch x := n.(type) {
			case *ast.CallExpr:
				if strings.HasSuffix(types.ExprString(x.Fun), "TypeOf") && len(x.Args) == 1 && identObj(info, x.Args[0]) == o {
					found = true
				}
			case *ast.Ident:
				if v := info.Uses[x]; v != nil && v != o {
					if d, ok := defs[v]; ok && d != nil {
						visit(d, depth+1)
					}
				}
			}
			return !found
		})
	}
	if se, ok := ast.Unparen(call.Fun).(*ast.SelectorExpr); ok {
		visit(se.X, 0)
	}
	return found
}

// U2: what the decoder puts into its reference table is later handed to a converter as `o`, and the
// converters take PtrOf(o) for the address of the value. A map registered by value is its own data word.

func init() {
	register("U2", "an item is registered in the decoder's reference table (decoderRefer.Add, Decoder.AddReference) as a pointer or as a value of a boxed kind, never as a map, chan, func or single-pointer struct held by value: the reference converters take reflect2.PtrOf of the registered item for the address of the value, so a map registered by value comes back as a corrupt map (and, being a Go reference type, can contain itself, which no encoder or formatter survives)", 15, ruleU2)
}

func ruleU2(r *Run) {
	p := r.P
	pkg := p.Pkg("io")
	if pkg == nil {
		r.Undec("package io", 0, "not found")
		return
	}
	info := pkg.TypesInfo
	add := p.LookupFunc("io", "decoderRefer.Add")
	addRef := p.LookupFunc("io", "Decoder.AddReference")
	if add == nil || addRef == nil {
		r.Undec("decoderRefer.Add / Decoder.AddReference", 0, "not found")
		return
	}
	p.EachFunc(func(pk *packages.Package, fd *ast.FuncDecl) {
		if pk != pkg {
			return
		}
		n := 0
		ast.Inspect(fd.Body, func(m ast.Node) bool {
			c, ok := m.(*ast.CallExpr)
			if !ok || len(c.Args) != 1 {
				return true
			}
			f := Callee(info, c)
			if f != add && f != addRef {
				return true
			}
			n++
			arg := ast.Unparen(c.Args[0])
			at := info.TypeOf(arg)
			key := fmt.Sprintf("reference registration in %s #%d", p.DeclName(fd), n)
			if at == nil {
				r.Undec(key, c.Pos(), "untyped argument")
				return true
			}
			// a direct registration (refer.Add, not the mode-checking AddReference) happens in reference mode only: in simple
			// mode nothing may enter the table, or a pooled decoder carries the items of one message into the next
			if f == add {
				inRefMode := false
				for _, fc := range factsWithSwitch(parentMap(fd.Body), c) {
					ast.Inspect(fc.e, func(k ast.Node) bool {
						if mc, ok := k.(*ast.CallExpr); ok && refName(methodName(mc)) == "IsSimple" && fc.neg {
							inRefMode = true
						}
						if fv := fieldOf(info, exprOrNil(k)); fv != nil && fv.Name() == "simple" && fc.neg {
							inRefMode = true
						}
						return true
					})
				}
				// AddReference itself is the place that checks the mode
				if refName(fd.Name.Name) == "AddReference" {
					inRefMode = true
				}
				r.Check(inRefMode, fmt.Sprintf("registration only in reference mode in %s #%d", p.DeclName(fd), n), c.Pos(), "under !IsSimple()", "the item is put into the reference table whatever the mode: in simple mode the table is never consulted or cleared by the codecs, so a pooled decoder takes the registered items of one message into the next, and a later reference-mode message resolves its back-references against them")
			}
			_, isIface := at.Underlying().(*types.Interface)
			_, isPtr := at.Underlying().(*types.Pointer)
			bad := !isIface && !isPtr && pointerShaped(at)
			r.Check(!bad, key, c.Pos(), "registered as "+types.TypeString(at, types.RelativeTo(pkg.Types)), fmt.Sprintf("`%s` of type %s is registered by value: a later reference to it reaches the converters as a map (or other pointer-shaped value) held by value, whose interface word they take for an address - the destination gets a corrupt map - and such an item can contain itself by value, which makes the encoder and fmt recurse until the stack overflows", types.ExprString(arg), at.String()))
			return true
		})
	})
}

// W12: big.Float.Int materialises the integer part: as many bits as the binary exponent says.

func init() {
	register("W12", "a big.Float parsed from the wire is converted to an integer (big.Float.Int) only where its exponent has been bounded (a dominating test of MantExp on the same value): the text `1e600000000` is thirteen bytes, its integer part two thousand million bits", 1, ruleW12)
}

func ruleW12(r *Run) {
	p := r.P
	n := 0
	p.EachFunc(func(pkg *packages.Package, fd *ast.FuncDecl) {
		if p.RelPkg(pkg.Types) != "io" {
			return
		}
		info := pkg.TypesInfo
		parents := parentMap(fd.Body)
		k := 0
		ast.Inspect(fd.Body, func(m ast.Node) bool {
			c, ok := m.(*ast.CallExpr)
			if !ok {
				return true
			}
			f := Callee(info, c)
			if f == nil || f.Name() != "Int" || f.Pkg() == nil || f.Pkg().Path() != "math/big" {
				return true
			}
			sig := f.Type().(*types.Signature)
			if sig.Recv() == nil || !strings.HasSuffix(sig.Recv().Type().String(), "big.Float") {
				return true
			}
			se, _ := ast.Unparen(c.Fun).(*ast.SelectorExpr)
			if se == nil {
				return true
			}
			recv := identObj(info, se.X)
			n++
			k++
			key := fmt.Sprintf("big.Float.Int in %s #%d", p.DeclName(fd), k)
			bounded := false
			for _, fc := range factsWithSwitch(parents, c) {
				ast.Inspect(fc.e, func(x ast.Node) bool {
					if mc, ok := x.(*ast.CallExpr); ok && methodName(mc) == "MantExp" {
						if ms, ok := ast.Unparen(mc.Fun).(*ast.SelectorExpr); ok && (recv == nil || identObj(info, ms.X) == recv) {
							bounded = true
						}
					}
					return true
				})
			}
			r.Check(bounded, key, c.Pos(), "exponent bounded by a dominating MantExp test", fmt.Sprintf("`%s` materialises the integer part of a float whose exponent comes from the wire and is not bounded: a double item like d1e600000000; (13 bytes) allocates hundreds of megabytes and minutes of CPU", types.ExprString(c)))
			return true
		})
	})
	if n == 0 {
		r.Undec("big.Float.Int conversions in io", 0, "none found (the rule has nothing to decide: update it if the conversion moved)")
	}
}

// B8: a back-reference decoded into a pointer takes the referenced object, it does not allocate a copy.

func init() {
	register("B8", "a decoder for pointer destinations that allocates the element and delegates the same tag to the element decoder (`*ptr = et.UnsafeNew(); elem.Decode(dec, .., tag)`) does not do so for a back-reference: TagRef is handled by its own clause (ReadReference on the pointer destination, where ptrCopy lets the pointer take the referenced object itself) - otherwise every shared or cyclic *T comes back as a pointer to a fresh copy, taken while the object may still be half decoded", 1, ruleB8)
}

func ruleB8(r *Run) {
	p := r.P
	pkg := p.Pkg("io")
	if pkg == nil {
		r.Undec("package io", 0, "not found")
		return
	}
	info := pkg.TypesInfo
	n := 0
	for _, file := range pkg.Syntax {
		for _, d := range file.Decls {
			fd, ok := d.(*ast.FuncDecl)
			if !ok || fd.Body == nil {
				continue
			}
			// the tag parameter
			var tagParam types.Object
			for _, pv := range paramsOf(info, fd.Type) {
				if b, ok := pv.Type().Underlying().(*types.Basic); ok && b.Kind() == types.Uint8 && pv.Name() == "tag" {
					tagParam = pv
				}
			}
			if tagParam == nil {
				continue
			}
			parents := parentMap(fd.Body)
			// allocation stored through a pointer: *ptr = X.UnsafeNew() / reflect.New
			allocates := false
			ast.Inspect(fd.Body, func(m ast.Node) bool {
				as, ok := m.(*ast.AssignStmt)
				if !ok || len(as.Lhs) != 1 || len(as.Rhs) != 1 {
					return true
				}
				if _, isStar := ast.Unparen(as.Lhs[0]).(*ast.StarExpr); !isStar {
					return true
				}
				if c, ok := ast.Unparen(as.Rhs[0]).(*ast.CallExpr); ok {
					switch methodName(c) {
					case "UnsafeNew", "New":
						allocates = true
					}
				}
				return true
			})
			if !allocates {
				continue
			}
			k := 0
			ast.Inspect(fd.Body, func(m ast.Node) bool {
				c, ok := m.(*ast.CallExpr)
				if !ok || methodName(c) != "Decode" || len(c.Args) != 3 || identObj(info, c.Args[2]) != tagParam {
					return true
				}
				n++
				k++
				key := fmt.Sprintf("back-reference into a pointer destination in %s #%d", p.DeclName(fd), k)
				// the delegation must be unreachable for TagRef: an enclosing `switch tag` has a TagRef clause elsewhere
				excluded := false
				for x := parents[c]; x != nil; x = parents[x] {
					cc, ok := x.(*ast.CaseClause)
					if !ok {
						continue
					}
					sw, ok := parents[parents[cc]].(*ast.SwitchStmt)
					if !ok || sw.Tag == nil || identObj(info, sw.Tag) != tagParam {
						continue
					}
					for _, cs := range sw.Body.List {
						other := cs.(*ast.CaseClause)
						if other == cc {
							continue
						}
						for _, e := range other.List {
							if o := identObj(info, e); o != nil && refName(o.Name()) == "TagRef" {
								excluded = true
							}
							if se, ok := ast.Unparen(e).(*ast.SelectorExpr); ok && se.Sel.Name == "TagRef" {
								excluded = true
							}
						}
					}
				}
				if !excluded {
					for _, fc := range factsWithSwitch(parents, c) {
						if be, ok := fc.e.(*ast.BinaryExpr); ok && identObj(info, be.X) == tagParam {
							if o := identObj(info, be.Y); o != nil && o.Name() == "TagRef" && (be.Op == token.NEQ && !fc.neg || be.Op == token.EQL && fc.neg) {
								excluded = true
							}
						}
					}
				}
				r.Check(excluded, key, c.Pos(), "TagRef has its own clause", "the pointer decoder allocates a new element and hands the tag on to the element decoder also when the tag is a back-reference: the element decoder then COPIES the referenced object into the fresh element (dataCopy), so two pointers to one object decode to two objects, and a cycle n.Next == n comes back as a pointer to a half-filled copy of n")
				return true
			})
		}
	}
	if n == 0 {
		r.Undec("allocating pointer decoders", 0, "no function that allocates through *ptr and delegates its tag found")
	}
}

// U4: a destination of an interface type WITH methods has another layout (itab word) than interface{}.

func init() {
	register("U4", "every decode routine that the kind tables install for reflect.Interface (decodeHandlers, decodePtrHandlers, valueDecoderFactories, ptrDecoderFactories) asks whether the interface type has methods (NumMethod) before it treats the slot as an interface{}, and the map decoder accepts an interface key or value type for its list/object short cuts only if it IS interface{} (compared with interfaceType): an interface{} written into a fmt.Stringer or error slot leaves a corrupt interface behind - the first method call through it is a fatal SIGSEGV that untrusted bytes can trigger", 6, ruleU4)
}

func ruleU4(r *Run) {
	p := r.P
	pkg := p.Pkg("io")
	if pkg == nil {
		r.Undec("package io", 0, "not found")
		return
	}
	info := pkg.TypesInfo
	n := 0
	asksMethods := func(body ast.Node) bool {
		found := false
		ast.Inspect(body, func(k ast.Node) bool {
			if c, ok := k.(*ast.CallExpr); ok && methodName(c) == "NumMethod" {
				found = true
			}
			return true
		})
		return found
	}
	for _, file := range pkg.Syntax {
		if strings.HasSuffix(p.Fset.File(file.Pos()).Name(), "_test.go") {
			continue
		}
		ast.Inspect(file, func(m ast.Node) bool {
			cl, ok := m.(*ast.CompositeLit)
			if !ok {
				return true
			}
			t := info.TypeOf(cl)
			if t == nil {
				return true
			}
			sl, ok := t.Underlying().(*types.Slice)
			if !ok {
				return true
			}
			// decode-side tables only: element is a DecodeHandler or a ValueDecoder factory
			es := sl.Elem().String()
			if !strings.HasSuffix(es, "io.DecodeHandler") && !strings.Contains(es, "io.ValueDecoder") {
				return true
			}
			for _, el := range cl.Elts {
				kv, ok := el.(*ast.KeyValueExpr)
				if !ok {
					continue
				}
				se, ok := ast.Unparen(kv.Key).(*ast.SelectorExpr)
				if !ok || se.Sel.Name != "Interface" {
					continue
				}
				n++
				name := types.ExprString(kv.Value)
				var body ast.Node
				switch v := ast.Unparen(kv.Value).(type) {
				case *ast.FuncLit:
					body = v.Body
					name = "a function literal"
				case *ast.Ident:
					if f, ok := info.Uses[v].(*types.Func); ok {
						if d := p.Decl(f); d != nil {
							body = d.Body
						}
					}
				}
				key := fmt.Sprintf("reflect.Interface entry of a decode table (%s) #%d", es[strings.LastIndex(es, ".")+1:], n)
				if body == nil {
					r.Undec(key, kv.Pos(), "cannot resolve the installed function "+name)
					continue
				}
				r.Check(asksMethods(body), key, kv.Pos(), "asks NumMethod() before treating the slot as interface{}", name+" is installed for every destination of kind Interface and never asks whether the interface type has methods: for a fmt.Stringer, error or other non-empty interface slot it writes an interface{} (type word) where an itab word belongs - decoding succeeds, the first method call on the field crashes the process")
			}
			return true
		})
	}
	for _, fn := range []string{"mapDecoder.canDecodeListAsMap", "mapDecoder.canDecodeObjectAsMap"} {
		fd, _ := p.DeclOf("io", fn)
		key := "interface keys/values in io." + fn
		if fd == nil {
			r.Undec(key, 0, "not found")
			continue
		}
		n++
		mentionsKind, compares := false, false
		ast.Inspect(fd.Body, func(k ast.Node) bool {
			if se, ok := k.(*ast.SelectorExpr); ok && se.Sel.Name == "Interface" {
				mentionsKind = true
			}
			if id, ok := k.(*ast.Ident); ok && refName(id.Name) == "interfaceType" {
				compares = true
			}
			return true
		})
		r.Check(compares || !mentionsKind, key, fd.Pos(), "accepted only when the type is interface{} itself", "the short cut accepts every key or value type of KIND Interface: the index or field name (and the decoded value) are stored as interface{} values, which corrupts a map whose key or element type is an interface with methods")
	}
	if n == 0 {
		r.Undec("reflect.Interface entries of the decode tables", 0, "none found")
	}
}
