package main

import (
	"fmt"
	"go/ast"
	"go/token"
	"go/types"

	"golang.org/x/tools/go/packages"
)

// L9 (C15, C09, C10): check-then-act across a lock release. A value computed from a guarded field
// in one critical section and written back to that field in a later critical section of the same
// function overwrites whatever other goroutines stored in between (lost update), although every
// single access is under the lock and the race detector stays silent.

func init() {
	register("L9", "a function that enters critical sections of the same mutex more than once does not write to a field, in a later section, a value derived from what it read from that field in an earlier section (the lock was released in between, so the value is stale: a concurrent update is lost)", 3, ruleL9)
}

func ruleL9(r *Run) {
	p := r.P
	n := 0
	p.EachFunc(func(pkg *packages.Package, fd *ast.FuncDecl) {
		info := pkg.TypesInfo
		// lock events in source order (deferred unlocks end the last section only)
		type ev struct {
			pos token.Pos
			mv  *types.Var
			op  string
		}
		var evs []ev
		deferredCalls := map[*ast.CallExpr]bool{}
		ast.Inspect(fd.Body, func(m ast.Node) bool {
			if d, ok := m.(*ast.DeferStmt); ok {
				ast.Inspect(d, func(k ast.Node) bool {
					if c, ok := k.(*ast.CallExpr); ok {
						deferredCalls[c] = true
					}
					return true
				})
			}
			return true
		})
		ast.Inspect(fd.Body, func(m ast.Node) bool {
			if _, ok := m.(*ast.FuncLit); ok {
				return false
			}
			if c, ok := m.(*ast.CallExpr); ok && !deferredCalls[c] {
				if mv, op := lockOp(info, c); mv != nil {
					evs = append(evs, ev{c.Pos(), mv, op})
				}
			}
			return true
		})
		// mutexes acquired at least twice, with a release in between
		perM := map[*types.Var][]ev{}
		for _, e := range evs {
			perM[e.mv] = append(perM[e.mv], e)
		}
		for mv, es := range perM {
			acq := 0
			for _, e := range es {
				if e.op == "Lock" || e.op == "RLock" {
					acq++
				}
			}
			if acq < 2 {
				continue
			}
			// section index of a position: number of releases before it
			sectionOf := func(pos token.Pos) int {
				s := 0
				for _, e := range es {
					if e.pos < pos && (e.op == "Unlock" || e.op == "RUnlock") {
						s++
					}
				}
				return s
			}
			inSection := func(pos token.Pos) bool {
				held := false
				for _, e := range es {
					if e.pos >= pos {
						break
					}
					held = e.op == "Lock" || e.op == "RLock"
				}
				return held
			}
			n++
			key := fmt.Sprintf("re-entered critical section of %s in %s", mv.Name(), p.DeclName(fd))
			// taint: local -> (field, section) derived from a field read inside a section
			type src struct {
				field *types.Var
				sec   int
			}
			taint := map[types.Object]src{}
			mentions := func(e ast.Node) (src, bool) {
				var out src
				found := false
				ast.Inspect(e, func(k ast.Node) bool {
					switch x := k.(type) {
					case *ast.SelectorExpr:
						if fv := fieldOf(info, x); fv != nil && fv != mv && inSection(x.Pos()) {
							if _, isFunc := fv.Type().Underlying().(*types.Signature); !isFunc && !found {
								out, found = src{fv, sectionOf(x.Pos())}, true
							}
						}
					case *ast.Ident:
						if t, ok := taint[info.Uses[x]]; ok && !found {
							out, found = t, true
						}
					}
					return true
				})
				return out, found
			}
			bad := ""
			for pass := 0; pass < 3; pass++ {
				ast.Inspect(fd.Body, func(m ast.Node) bool {
					switch x := m.(type) {
					case *ast.RangeStmt:
						if s, ok := mentions(x.X); ok {
							for _, v := range []ast.Expr{x.Key, x.Value} {
								if o := identObj(info, v); o != nil {
									if _, seen := taint[o]; !seen {
										taint[o] = s
									}
								}
							}
						}
					case *ast.AssignStmt:
						for i, l := range x.Lhs {
							var rhs ast.Expr
							if len(x.Rhs) == len(x.Lhs) {
								rhs = x.Rhs[i]
							} else if len(x.Rhs) == 1 {
								rhs = x.Rhs[0]
							}
							if rhs == nil {
								continue
							}
							s, ok := mentions(rhs)
							if !ok {
								continue
							}
							if o := identObj(info, l); o != nil {
								if _, isField := o.(*types.Var); isField && !o.(*types.Var).IsField() {
									if _, seen := taint[o]; !seen {
										taint[o] = s
									}
								}
								continue
							}
							if fv := fieldOf(info, l); fv != nil && fv == s.field && inSection(x.Pos()) && sectionOf(x.Pos()) > s.sec {
								bad = fmt.Sprintf("%s is assigned at %s, in critical section #%d, a value derived from what was read from %s in section #%d; %s was released in between, so an update stored by another goroutine meanwhile (a Use that already returned, a concurrent Unuse) is overwritten", fv.Name(), p.Rel(x.Pos()), sectionOf(x.Pos())+1, fv.Name(), s.sec+1, mv.Name())
							}
						}
					}
					return true
				})
			}
			if bad != "" {
				r.Viol(key, fd.Pos(), bad)
			} else {
				r.Ok(key, fd.Pos(), "no stale write-back across the release")
			}
		}
	})
	// the single-section writers of the plugin lists are the reference shape: count them too, so that
	// the rule cannot pass by no longer seeing its subject
	for _, name := range []string{"pluginManager.Use", "pluginManager.Unuse"} {
		fd, pkg := p.DeclOf("rpc/core", name)
		if fd == nil {
			r.Undec("single critical section in rpc/core."+name, 0, "not found")
			continue
		}
		info := pkg.TypesInfo
		acq := 0
		ast.Inspect(fd.Body, func(m ast.Node) bool {
			if c, ok := m.(*ast.CallExpr); ok {
				if mv, op := lockOp(info, c); mv != nil && (op == "Lock" || op == "RLock") {
					acq++
				}
			}
			return true
		})
		if acq == 1 {
			r.Ok("single critical section in rpc/core."+name, fd.Pos(), "read-modify-write of the handler list in one critical section")
		}
	}
	_ = n
}
