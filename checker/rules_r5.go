package main

import (
	"fmt"
	"go/ast"
	"go/token"
	"go/types"
	"strings"
)

// ---------------------------------------------------------------------------------------------------
// T15 a number read from the wire changes its integer type only under a range test;
// T16 the literal of a numeric item is consumed as a whole

func init() {
	register("T15", "in package io a number that one of the decoder's own numeric readers has just taken from the wire (a method of Decoder named Read*/read* that returns a basic numeric type) is converted to an integer type that cannot hold every value of the source type - a narrower one, one of the other signedness, or any integer type when the source is a float - only where the value has been compared with a bound, and the decimal accumulation `v = v*10 + d` is guarded by an overflow test on v: C06 promises an error, not a wrong value, for a destination that cannot accept the number (`i300;` into int8 is 44, `i-1;` into uint is MaxUint64, `d1.5;` into int is 1, a long of 30 digits wraps). On the unchanged tree every such site is a KNOWN FINDING: the existing suite asserts the wrap-around (TestDecodeInt8 expects int8(math.MinInt64) ...), so no repair can pass it unedited; the rule keeps the list closed - a new unchecked narrowing is a violation", 1, ruleT15)
	register("T16", "where package io takes the literal of a numeric item off the wire as bytes (Until / UnsafeUntil(TagSemicolon)), the bytes are handed on as a whole - to a parser, a converter, a return or an assignment - or every byte is looked at (range); a routine that only measures the literal (len, a constant index) decides by spelling, not by value: `d0.0;`, `d-0;` and `i00;` decoded into bool as true", 3, ruleT16)
}

// numericReader: a method of io.Decoder called Read*/read* that returns one basic numeric value.
func numericReader(info *types.Info, e ast.Expr) (*types.Func, bool) {
	c, ok := ast.Unparen(e).(*ast.CallExpr)
	if !ok {
		return nil, false
	}
	f := Callee(info, c)
	if f == nil || f.Pkg() == nil || !strings.HasSuffix(f.Pkg().Path(), "/io") {
		return nil, false
	}
	sig := f.Type().(*types.Signature)
	if sig.Recv() == nil || sig.Results().Len() != 1 {
		return nil, false
	}
	rt := sig.Recv().Type()
	if pt, ok := rt.(*types.Pointer); ok {
		rt = pt.Elem()
	}
	if nt, ok := rt.(*types.Named); !ok || refName(nt.Obj().Name()) != "Decoder" {
		return nil, false
	}
	if !strings.HasPrefix(f.Name(), "Read") && !strings.HasPrefix(f.Name(), "read") {
		return nil, false
	}
	b, ok := sig.Results().At(0).Type().Underlying().(*types.Basic)
	if !ok || b.Info()&types.IsNumeric == 0 {
		return nil, false
	}
	return f, true
}

func ruleT15(r *Run) {
	p := r.P
	pkg := p.Pkg("io")
	if pkg == nil {
		r.Undec("package io", 0, "not found")
		return
	}
	info := pkg.TypesInfo
	lossy := func(from, to *types.Basic) bool {
		if to.Info()&types.IsInteger == 0 {
			return false
		}
		if from.Info()&types.IsFloat != 0 {
			return true
		}
		if from.Info()&types.IsInteger == 0 {
			return false
		}
		fs, ts := p.Sizes.Sizeof(from), p.Sizes.Sizeof(to)
		fu, tu := from.Info()&types.IsUnsigned != 0, to.Info()&types.IsUnsigned != 0
		switch {
		case fu == tu:
			return ts < fs
		case fu && !tu:
			return ts <= fs
		default: // signed into unsigned: negative values are lost whatever the size
			return true
		}
	}
	for _, file := range pkg.Syntax {
		for _, d := range file.Decls {
			fd, ok := d.(*ast.FuncDecl)
			if !ok || fd.Body == nil {
				continue
			}
			defs := localDefs(info, fd.Body)
			parents := parentMap(fd.Body)
			// derived: where the number comes from (reader name) and, if it sits in a local, the local
			var derived func(e ast.Expr, depth int) (string, types.Object)
			derived = func(e ast.Expr, depth int) (string, types.Object) {
				e = ast.Unparen(e)
				if depth > 6 {
					return "", nil
				}
				if f, ok := numericReader(info, e); ok {
					return refName(f.Name()), nil
				}
				switch x := e.(type) {
				case *ast.UnaryExpr:
					if x.Op == token.SUB || x.Op == token.ADD {
						return derived(x.X, depth+1)
					}
				case *ast.CallExpr:
					if tv, ok := info.Types[x.Fun]; ok && tv.IsType() && len(x.Args) == 1 {
						return derived(x.Args[0], depth+1)
					}
				case *ast.Ident:
					if o := info.Uses[x]; o != nil {
						if def, ok := defs[o]; ok {
							if s, _ := derived(def, depth+1); s != "" {
								return s, o
							}
						}
					}
				}
				return "", nil
			}
			count := map[string]int{}
			ast.Inspect(fd.Body, func(n ast.Node) bool {
				switch x := n.(type) {
				case *ast.CallExpr:
					tv, ok := info.Types[x.Fun]
					if !ok || !tv.IsType() || len(x.Args) != 1 {
						return true
					}
					to, ok := tv.Type.Underlying().(*types.Basic)
					if !ok {
						return true
					}
					at, ok := info.Types[x.Args[0]]
					if !ok {
						return true
					}
					from, ok := at.Type.Underlying().(*types.Basic)
					if !ok || !lossy(from, to) {
						return true
					}
					src, local := derived(x.Args[0], 0)
					if src == "" {
						return true
					}
					desc := fmt.Sprintf("%s(%s from %s)", types.TypeString(tv.Type, func(*types.Package) string { return "" }), from.Name(), src)
					count[desc]++
					key := fmt.Sprintf("conversion %s in %s #%d", desc, p.DeclName(fd), count[desc])
					if local != nil {
						for _, f := range factsWithSwitch(parents, x) {
							if b, ok := ast.Unparen(f.e).(*ast.BinaryExpr); ok {
								switch b.Op {
								case token.LSS, token.GTR, token.LEQ, token.GEQ:
									if mentionsObj(info, b, local) {
										r.Ok(key, x.Pos(), "under a comparison of "+local.Name()+" with a bound")
										return true
									}
								}
							}
						}
					}
					r.Viol(key, x.Pos(), fmt.Sprintf("the %s that %s has just read from the wire is converted to %s without a range test: a number the destination cannot hold becomes a different number instead of an error", from.Name(), src, to.Name()))
				case *ast.AssignStmt:
					// v = v*10 + d
					if len(x.Lhs) != 1 || len(x.Rhs) != 1 || x.Tok != token.ASSIGN {
						return true
					}
					v := identObj(info, x.Lhs[0])
					sum, ok := ast.Unparen(x.Rhs[0]).(*ast.BinaryExpr)
					if v == nil || !ok || sum.Op != token.ADD {
						return true
					}
					isMul10 := func(e ast.Expr) bool {
						m, ok := ast.Unparen(e).(*ast.BinaryExpr)
						if !ok || m.Op != token.MUL {
							return false
						}
						c1, ok1 := intConst(info, m.X)
						c2, ok2 := intConst(info, m.Y)
						return (ok1 && c1 == 10 && identObj(info, m.Y) == v) || (ok2 && c2 == 10 && identObj(info, m.X) == v)
					}
					if !isMul10(sum.X) && !isMul10(sum.Y) {
						return true
					}
					if b, ok := v.Type().Underlying().(*types.Basic); !ok || b.Info()&types.IsInteger == 0 {
						return true
					}
					count["acc"]++
					key := fmt.Sprintf("decimal accumulation of %s in %s #%d", v.Name(), p.DeclName(fd), count["acc"])
					// an overflow test: a comparison that mentions v in the innermost loop body, before the assignment
					guarded := false
					var loop ast.Node
					for q := parents[x]; q != nil; q = parents[q] {
						if _, ok := q.(*ast.ForStmt); ok {
							loop = q
							break
						}
						if _, ok := q.(*ast.RangeStmt); ok {
							loop = q
							break
						}
					}
					if loop != nil {
						ast.Inspect(loop, func(m ast.Node) bool {
							if b, ok := m.(*ast.BinaryExpr); ok && b.Pos() < x.Pos() {
								switch b.Op {
								case token.LSS, token.GTR, token.LEQ, token.GEQ:
									// the loop condition `p < tail` does not count: it has to be about v
									if mentionsObj(info, b, v) {
										guarded = true
									}
								}
							}
							return true
						})
					}
					r.Check(guarded, key, x.Pos(), "the accumulator is compared with a bound before it is multiplied", "the digits are accumulated with "+v.Name()+" = "+v.Name()+"*10 + d without an overflow test: a number beyond the 64-bit range wraps around silently")
				}
				return true
			})
		}
	}
}

func mentionsObj(info *types.Info, e ast.Node, o types.Object) bool {
	found := false
	ast.Inspect(e, func(n ast.Node) bool {
		if id, ok := n.(*ast.Ident); ok && info.Uses[id] == o {
			found = true
		}
		return !found
	})
	return found
}

func ruleT16(r *Run) {
	p := r.P
	pkg := p.Pkg("io")
	if pkg == nil {
		r.Undec("package io", 0, "not found")
		return
	}
	info := pkg.TypesInfo
	for _, file := range pkg.Syntax {
		for _, d := range file.Decls {
			fd, ok := d.(*ast.FuncDecl)
			if !ok || fd.Body == nil {
				continue
			}
			parents := parentMap(fd.Body)
			n := 0
			ast.Inspect(fd.Body, func(m ast.Node) bool {
				c, ok := m.(*ast.CallExpr)
				if !ok || len(c.Args) != 1 {
					return true
				}
				switch refName(methodName(c)) {
				case "Until", "UnsafeUntil":
				default:
					return true
				}
				if f := Callee(info, c); f == nil || f.Pkg() == nil || !strings.HasSuffix(f.Pkg().Path(), "/io") {
					return true
				}
				if o := identObj(info, c.Args[0]); o == nil || o.Name() != "TagSemicolon" {
					return true
				}
				n++
				key := fmt.Sprintf("numeric literal read in %s #%d", p.DeclName(fd), n)
				switch par := parents[c].(type) {
				case *ast.CallExpr: // argument of a parser / converter
					r.Ok(key, c.Pos(), "handed on to "+types.ExprString(par.Fun))
					return true
				case *ast.ReturnStmt:
					r.Ok(key, c.Pos(), "returned")
					return true
				case *ast.RangeStmt:
					if par.X == ast.Expr(c) {
						r.Ok(key, c.Pos(), "every byte is looked at")
						return true
					}
				case *ast.AssignStmt:
					// a local: what is done with it?
					var loc types.Object
					for i, rh := range par.Rhs {
						if rh == ast.Expr(c) && i < len(par.Lhs) {
							loc = identObj(info, par.Lhs[i])
						}
					}
					if loc == nil {
						r.Ok(key, c.Pos(), "stored")
						return true
					}
					if _, isVar := loc.(*types.Var); isVar && loc.Parent() != nil && loc.Parent() != pkg.Types.Scope() && !isParamOrResult(info, fd, loc) {
						whole, measured := false, false
						ast.Inspect(fd.Body, func(u ast.Node) bool {
							id, ok := u.(*ast.Ident)
							if !ok || info.Uses[id] != loc {
								return true
							}
							switch up := parents[id].(type) {
							case *ast.CallExpr:
								if fid, ok := up.Fun.(*ast.Ident); ok && fid.Name == "len" && IsBuiltin(info, up, "len") {
									measured = true
								} else {
									whole = true
								}
							case *ast.IndexExpr:
								if up.X == ast.Expr(id) {
									if _, isConst := intConst(info, up.Index); isConst {
										measured = true
									} else {
										whole = true // indexed by a variable: a scan
									}
								}
							case *ast.RangeStmt:
								whole = true
							default:
								whole = true
							}
							return true
						})
						r.Check(whole || !measured, key, c.Pos(), "the literal is used as a whole", "the literal is only measured (len, constant index), never parsed or scanned: the routine decides by the spelling of the number, not by its value (`d0.0;` is not \"0\")")
						return true
					}
					r.Ok(key, c.Pos(), "stored in "+loc.Name())
					return true
				}
				r.Undec(key, c.Pos(), "unrecognised use of the literal")
				return true
			})
		}
	}
}

func isParamOrResult(info *types.Info, fd *ast.FuncDecl, o types.Object) bool {
	for _, pv := range paramsOf(info, fd.Type) {
		if pv == o {
			return true
		}
	}
	if fd.Type.Results != nil {
		for _, f := range fd.Type.Results.List {
			for _, nm := range f.Names {
				if info.Defs[nm] == o {
					return true
				}
			}
		}
	}
	return false
}
