package main

import (
	"fmt"
	"go/ast"
	"go/token"
	"go/types"
	"sort"
	"strings"
)

// ---------------------------------------------------------------------------------------------------
// T15 a number read from the wire changes its integer type only under a range test;
// T16 the literal of a numeric item is consumed as a whole

func init() {
	register("T15", "in package io a number that one of the decoder's own numeric readers has just taken from the wire (a method of Decoder named Read*/read* that returns a basic numeric type) is converted to an integer type that cannot hold every value of the source type - a narrower one, one of the other signedness, or any integer type when the source is a float - only where the value has been compared with a bound, and the decimal accumulation `v = v*10 + d` is guarded by an overflow test on v: C06 promises an error, not a wrong value, for a destination that cannot accept the number (`i300;` into int8 is 44, `i-1;` into uint is MaxUint64, `d1.5;` into int is 1, a long of 30 digits wraps). On the unchanged tree every such site is a KNOWN FINDING: the existing suite asserts the wrap-around (TestDecodeInt8 expects int8(math.MinInt64) ...), so no repair can pass it unedited; the rule keeps the list closed - a new unchecked narrowing is a violation", 1, ruleT15)
	register("T16", "where package io takes the literal of a numeric item off the wire as bytes (Until / UnsafeUntil(TagSemicolon)), the bytes are handed on as a whole - to a parser, a converter, a return or an assignment - or every byte is looked at (range); a routine that only measures the literal (len, a constant index) decides by spelling, not by value: `d0.0;`, `d-0;` and `i00;` decoded into bool as true", 3, ruleT16)
}

// numericReader: a method of io.Decoder called Read*/read* that returns one basic numeric value.
func numericReader(info *types.Info, e ast.Expr) (*types.Func, bool) {
	c, ok := ast.Unparen(e).(*ast.CallExpr)
	if !ok {
		return nil, false
	}
	f := Callee(info, c)
	if f == nil || f.Pkg() == nil || !strings.HasSuffix(f.Pkg().Path(), "/io") {
		return nil, false
	}
	sig := f.Type().(*types.Signature)
	if sig.Recv() == nil || sig.Results().Len() != 1 {
		return nil, false
	}
	rt := sig.Recv().Type()
	if pt, ok := rt.(*types.Pointer); ok {
		rt = pt.Elem()
	}
	if nt, ok := rt.(*types.Named); !ok || refName(nt.Obj().Name()) != "Decoder" {
		return nil, false
	}
	if !strings.HasPrefix(f.Name(), "Read") && !strings.HasPrefix(f.Name(), "read") {
		return nil, false
	}
	b, ok := sig.Results().At(0).Type().Underlying().(*types.Basic)
	if !ok || b.Info()&types.IsNumeric == 0 {
		return nil, false
	}
	return f, true
}

func ruleT15(r *Run) {
	p := r.P
	pkg := p.Pkg("io")
	if pkg == nil {
		r.Undec("package io", 0, "not found")
		return
	}
	info := pkg.TypesInfo
	lossy := func(from, to *types.Basic) bool {
		if to.Info()&types.IsInteger == 0 {
			return false
		}
		if from.Info()&types.IsFloat != 0 {
			return true
		}
		if from.Info()&types.IsInteger == 0 {
			return false
		}
		fs, ts := p.Sizes.Sizeof(from), p.Sizes.Sizeof(to)
		fu, tu := from.Info()&types.IsUnsigned != 0, to.Info()&types.IsUnsigned != 0
		switch {
		case fu == tu:
			return ts < fs
		case fu && !tu:
			return ts <= fs
		default: // signed into unsigned: negative values are lost whatever the size
			return true
		}
	}
	for _, file := range pkg.Syntax {
		for _, d := range file.Decls {
			fd, ok := d.(*ast.FuncDecl)
			if !ok || fd.Body == nil {
				continue
			}
			defs := localDefs(info, fd.Body)
			parents := parentMap(fd.Body)
			// derived: where the number comes from (reader name) and, if it sits in a local, the local
			var derived func(e ast.Expr, depth int) (string, types.Object)
			derived = func(e ast.Expr, depth int) (string, types.Object) {
				e = ast.Unparen(e)
				if depth > 6 {
					return "", nil
				}
				if f, ok := numericReader(info, e); ok {
					return refName(f.Name()), nil
				}
				switch x := e.(type) {
				case *ast.UnaryExpr:
					if x.Op == token.SUB || x.Op == token.ADD {
						return derived(x.X, depth+1)
					}
				case *ast.CallExpr:
					if tv, ok := info.Types[x.Fun]; ok && tv.IsType() && len(x.Args) == 1 {
						return derived(x.Args[0], depth+1)
					}
				case *ast.Ident:
					if o := info.Uses[x]; o != nil {
						if def, ok := defs[o]; ok {
							if s, _ := derived(def, depth+1); s != "" {
								return s, o
							}
						}
					}
				}
				return "", nil
			}
			count := map[string]int{}
			ast.Inspect(fd.Body, func(n ast.Node) bool {
				switch x := n.(type) {
				case *ast.CallExpr:
					tv, ok := info.Types[x.Fun]
					if !ok || !tv.IsType() || len(x.Args) != 1 {
						return true
					}
					to, ok := tv.Type.Underlying().(*types.Basic)
					if !ok {
						return true
					}
					at, ok := info.Types[x.Args[0]]
					if !ok {
						return true
					}
					from, ok := at.Type.Underlying().(*types.Basic)
					if !ok || !lossy(from, to) {
						return true
					}
					src, local := derived(x.Args[0], 0)
					if src == "" {
						return true
					}
					desc := fmt.Sprintf("%s(%s from %s)", types.TypeString(tv.Type, func(*types.Package) string { return "" }), from.Name(), src)
					count[desc]++
					key := fmt.Sprintf("conversion %s in %s #%d", desc, p.DeclName(fd), count[desc])
					if local != nil {
						for _, f := range factsWithSwitch(parents, x) {
							if b, ok := ast.Unparen(f.e).(*ast.BinaryExpr); ok {
								switch b.Op {
								case token.LSS, token.GTR, token.LEQ, token.GEQ:
									if mentionsObj(info, b, local) {
										r.Ok(key, x.Pos(), "under a comparison of "+local.Name()+" with a bound")
										return true
									}
								}
							}
						}
					}
					r.Viol(key, x.Pos(), fmt.Sprintf("the %s that %s has just read from the wire is converted to %s without a range test: a number the destination cannot hold becomes a different number instead of an error", from.Name(), src, to.Name()))
				case *ast.AssignStmt:
					// v = v*10 + d
					if len(x.Lhs) != 1 || len(x.Rhs) != 1 || x.Tok != token.ASSIGN {
						return true
					}
					v := identObj(info, x.Lhs[0])
					sum, ok := ast.Unparen(x.Rhs[0]).(*ast.BinaryExpr)
					if v == nil || !ok || sum.Op != token.ADD {
						return true
					}
					isMul10 := func(e ast.Expr) bool {
						m, ok := ast.Unparen(e).(*ast.BinaryExpr)
						if !ok || m.Op != token.MUL {
							return false
						}
						c1, ok1 := intConst(info, m.X)
						c2, ok2 := intConst(info, m.Y)
						return (ok1 && c1 == 10 && identObj(info, m.Y) == v) || (ok2 && c2 == 10 && identObj(info, m.X) == v)
					}
					if !isMul10(sum.X) && !isMul10(sum.Y) {
						return true
					}
					if b, ok := v.Type().Underlying().(*types.Basic); !ok || b.Info()&types.IsInteger == 0 {
						return true
					}
					count["acc"]++
					key := fmt.Sprintf("decimal accumulation of %s in %s #%d", v.Name(), p.DeclName(fd), count["acc"])
					// an overflow test: a comparison that mentions v in the innermost loop body, before the assignment
					guarded := false
					var loop ast.Node
					for q := parents[x]; q != nil; q = parents[q] {
						if _, ok := q.(*ast.ForStmt); ok {
							loop = q
							break
						}
						if _, ok := q.(*ast.RangeStmt); ok {
							loop = q
							break
						}
					}
					if loop != nil {
						ast.Inspect(loop, func(m ast.Node) bool {
							if b, ok := m.(*ast.BinaryExpr); ok && b.Pos() < x.Pos() {
								switch b.Op {
								case token.LSS, token.GTR, token.LEQ, token.GEQ:
									// the loop condition `p < tail` does not count: it has to be about v
									if mentionsObj(info, b, v) {
										guarded = true
									}
								}
							}
							return true
						})
					}
					r.Check(guarded, key, x.Pos(), "the accumulator is compared with a bound before it is multiplied", "the digits are accumulated with "+v.Name()+" = "+v.Name()+"*10 + d without an overflow test: a number beyond the 64-bit range wraps around silently")
				}
				return true
			})
		}
	}
}

func mentionsObj(info *types.Info, e ast.Node, o types.Object) bool {
	found := false
	ast.Inspect(e, func(n ast.Node) bool {
		if id, ok := n.(*ast.Ident); ok && info.Uses[id] == o {
			found = true
		}
		return !found
	})
	return found
}

func ruleT16(r *Run) {
	p := r.P
	pkg := p.Pkg("io")
	if pkg == nil {
		r.Undec("package io", 0, "not found")
		return
	}
	info := pkg.TypesInfo
	for _, file := range pkg.Syntax {
		for _, d := range file.Decls {
			fd, ok := d.(*ast.FuncDecl)
			if !ok || fd.Body == nil {
				continue
			}
			parents := parentMap(fd.Body)
			n := 0
			ast.Inspect(fd.Body, func(m ast.Node) bool {
				c, ok := m.(*ast.CallExpr)
				if !ok || len(c.Args) != 1 {
					return true
				}
				switch refName(methodName(c)) {
				case "Until", "UnsafeUntil":
				default:
					return true
				}
				if f := Callee(info, c); f == nil || f.Pkg() == nil || !strings.HasSuffix(f.Pkg().Path(), "/io") {
					return true
				}
				if o := identObj(info, c.Args[0]); o == nil || o.Name() != "TagSemicolon" {
					return true
				}
				n++
				key := fmt.Sprintf("numeric literal read in %s #%d", p.DeclName(fd), n)
				switch par := parents[c].(type) {
				case *ast.CallExpr: // argument of a parser / converter
					r.Ok(key, c.Pos(), "handed on to "+types.ExprString(par.Fun))
					return true
				case *ast.ReturnStmt:
					r.Ok(key, c.Pos(), "returned")
					return true
				case *ast.RangeStmt:
					if par.X == ast.Expr(c) {
						r.Ok(key, c.Pos(), "every byte is looked at")
						return true
					}
				case *ast.AssignStmt:
					// a local: what is done with it?
					var loc types.Object
					for i, rh := range par.Rhs {
						if rh == ast.Expr(c) && i < len(par.Lhs) {
							loc = identObj(info, par.Lhs[i])
						}
					}
					if loc == nil {
						r.Ok(key, c.Pos(), "stored")
						return true
					}
					if _, isVar := loc.(*types.Var); isVar && loc.Parent() != nil && loc.Parent() != pkg.Types.Scope() && !isParamOrResult(info, fd, loc) {
						whole, measured := false, false
						ast.Inspect(fd.Body, func(u ast.Node) bool {
							id, ok := u.(*ast.Ident)
							if !ok || info.Uses[id] != loc {
								return true
							}
							switch up := parents[id].(type) {
							case *ast.CallExpr:
								if fid, ok := up.Fun.(*ast.Ident); ok && fid.Name == "len" && IsBuiltin(info, up, "len") {
									measured = true
								} else {
									whole = true
								}
							case *ast.IndexExpr:
								if up.X == ast.Expr(id) {
									if _, isConst := intConst(info, up.Index); isConst {
										measured = true
									} else {
										whole = true // indexed by a variable: a scan
									}
								}
							case *ast.RangeStmt:
								whole = true
							default:
								whole = true
							}
							return true
						})
						r.Check(whole || !measured, key, c.Pos(), "the literal is used as a whole", "the literal is only measured (len, constant index), never parsed or scanned: the routine decides by the spelling of the number, not by its value (`d0.0;` is not \"0\")")
						return true
					}
					r.Ok(key, c.Pos(), "stored in "+loc.Name())
					return true
				}
				r.Undec(key, c.Pos(), "unrecognised use of the literal")
				return true
			})
		}
	}
}

func isParamOrResult(info *types.Info, fd *ast.FuncDecl, o types.Object) bool {
	for _, pv := range paramsOf(info, fd.Type) {
		if pv == o {
			return true
		}
	}
	if fd.Type.Results != nil {
		for _, f := range fd.Type.Results.List {
			for _, nm := range f.Names {
				if info.Defs[nm] == o {
					return true
				}
			}
		}
	}
	return false
}

// ---------------------------------------------------------------------------------------------------
// G39 IsNil on a result of a reflective call only for nillable kinds

func init() {
	register("G39", "in rpc/ a reflect.Value that comes out of a reflective call of a published function (an element of the list returned by reflect.Value.Call) is asked IsNil() only where its kind is known to be nillable (reflect2.IsNullable(v.Kind()), a comparison of v.Kind() with Ptr/Map/Slice/Func/Chan/Interface, in the same condition or on the path): the kind of a result is chosen by whoever wrote the function - a last result of a concrete error type that is a struct made IsNil panic, and the caller got 'call of reflect.Value.IsNil on struct Value' instead of the function's error", 2, ruleG39)
}

func ruleG39(r *Run) {
	p := r.P
	nullable := map[string]bool{"Ptr": true, "Pointer": true, "Map": true, "Slice": true, "Func": true, "Chan": true, "Interface": true, "UnsafePointer": true}
	for _, pkg := range p.Pkgs {
		if !strings.Contains(pkg.PkgPath, "/rpc") {
			continue
		}
		info := pkg.TypesInfo
		for _, file := range pkg.Syntax {
			for _, d := range file.Decls {
				fd, ok := d.(*ast.FuncDecl)
				if !ok || fd.Body == nil {
					continue
				}
				defs := localDefs(info, fd.Body)
				parents := parentMap(fd.Body)
				// fromCall: the list of results of a reflective call, or an element of it
				var fromCall func(e ast.Expr, depth int) bool
				fromCall = func(e ast.Expr, depth int) bool {
					e = ast.Unparen(e)
					if depth > 5 {
						return false
					}
					switch x := e.(type) {
					case *ast.CallExpr:
						return FullNameOf(info, x) == "reflect.Value.Call" || FullNameOf(info, x) == "reflect.Value.CallSlice"
					case *ast.IndexExpr:
						return fromCall(x.X, depth+1)
					case *ast.SliceExpr:
						return fromCall(x.X, depth+1)
					case *ast.Ident:
						if o := info.Uses[x]; o != nil {
							if def, ok := defs[o]; ok {
								return fromCall(def, depth+1)
							}
							// out = out[:n-1]: assigned more than once, every time from itself or from a call
							all, any := true, false
							ast.Inspect(fd.Body, func(m ast.Node) bool {
								if as, ok := m.(*ast.AssignStmt); ok && len(as.Lhs) == len(as.Rhs) {
									for i, l := range as.Lhs {
										if identObj(info, l) == o {
											rh := ast.Unparen(as.Rhs[i])
											if mentionsObj(info, rh, o) {
												continue
											}
											any = true
											if depth > 3 || !fromCall(rh, depth+2) {
												all = false
											}
										}
									}
								}
								return true
							})
							return any && all
						}
					}
					return false
				}
				n := 0
				ast.Inspect(fd.Body, func(m ast.Node) bool {
					c, ok := m.(*ast.CallExpr)
					if !ok || FullNameOf(info, c) != "reflect.Value.IsNil" {
						return true
					}
					sel := c.Fun.(*ast.SelectorExpr)
					if !fromCall(sel.X, 0) {
						return true
					}
					n++
					key := fmt.Sprintf("IsNil on a result of a reflective call in %s #%d", p.DeclName(fd), n)
					recv := types.ExprString(sel.X)
					var root types.Object
					ast.Inspect(sel.X, func(q ast.Node) bool {
						if id, ok := q.(*ast.Ident); ok && root == nil {
							root = info.Uses[id]
						}
						return root == nil
					})
					// facts: the path conditions plus the operands that short-circuit evaluation has already decided
					facts := factsWithSwitch(parents, c)
					var child ast.Node = c
					for q := parents[c]; q != nil; q = parents[q] {
						b, ok := q.(*ast.BinaryExpr)
						if ok && (b.Op == token.LOR || b.Op == token.LAND) && b.Y == child {
							add := factAdder(parents, c, &facts)
							add(b.X, b.Op == token.LOR)
						}
						if _, isExpr := q.(ast.Expr); !isExpr {
							break
						}
						child = q
					}
					good := false
					for _, f := range facts {
						if f.neg {
							continue
						}
						ast.Inspect(f.e, func(q ast.Node) bool {
							switch x := q.(type) {
							case *ast.CallExpr:
								if strings.HasSuffix(FullNameOf(info, x), "reflect2.IsNullable") && len(x.Args) == 1 && kindOf(info, x.Args[0], recv, root) {
									good = true
								}
							case *ast.BinaryExpr:
								if x.Op == token.EQL {
									for _, pr := range [][2]ast.Expr{{x.X, x.Y}, {x.Y, x.X}} {
										if kindOf(info, pr[0], recv, root) {
											if o := qualObj(info, pr[1]); o != nil && o.Pkg() != nil && o.Pkg().Path() == "reflect" && nullable[o.Name()] {
												good = true
											}
										}
									}
								}
							}
							return true
						})
					}
					// switch v.Kind() { case reflect.Ptr, reflect.Map, ...: v.IsNil() }
					for q := parents[c]; q != nil && !good; q = parents[q] {
						cc, ok := q.(*ast.CaseClause)
						if !ok || len(cc.List) == 0 {
							continue
						}
						if blk, ok := parents[cc].(*ast.BlockStmt); ok {
							if sw, ok := parents[blk].(*ast.SwitchStmt); ok && sw.Tag != nil && kindOf(info, sw.Tag, recv, root) {
								all := true
								for _, e := range cc.List {
									if o := qualObj(info, e); o == nil || o.Pkg() == nil || o.Pkg().Path() != "reflect" || !nullable[o.Name()] {
										all = false
									}
								}
								good = all
							}
						}
					}
					r.Check(good, key, c.Pos(), "the kind of "+recv+" is known to be nillable here", recv+" is a result of a function the application published; IsNil() panics for a kind without nil (a struct-typed error), and no test of "+recv+".Kind() guards the call")
					return true
				})
			}
		}
	}
}

// kindOf: e is <recv>.Kind() (recv compared by text, or a local that stands for it)
func kindOf(info *types.Info, e ast.Expr, recv string, root types.Object) bool {
	c, ok := ast.Unparen(e).(*ast.CallExpr)
	if !ok || methodName(c) != "Kind" {
		return false
	}
	sel, ok := c.Fun.(*ast.SelectorExpr)
	if !ok {
		return false
	}
	if types.ExprString(sel.X) == recv {
		return true
	}
	// v.Type().Kind()
	if tc, ok := ast.Unparen(sel.X).(*ast.CallExpr); ok && methodName(tc) == "Type" {
		if ts, ok := tc.Fun.(*ast.SelectorExpr); ok && types.ExprString(ts.X) == recv {
			return true
		}
	}
	return false
}

// qualObj: the object an identifier or a qualified identifier (reflect.Ptr) stands for
func qualObj(info *types.Info, e ast.Expr) types.Object {
	if sel, ok := ast.Unparen(e).(*ast.SelectorExpr); ok {
		return info.Uses[sel.Sel]
	}
	return identObj(info, e)
}

// ---------------------------------------------------------------------------------------------------
// F6 a value encoder emits something on every path

func init() {
	register("F6", "every Write and Encode method of a type that implements io.ValueEncoder passes, on every path that returns normally, at least one call that can put bytes into the encoder's buffer (a function of package io that - directly or through its callees - assigns Encoder.buf, a call through a ValueEncoder or handler value, or any call that is handed the encoder and cannot be resolved): a path without one writes NOTHING for the value, and the enclosing list, map or object then has fewer items than its head announces (a nil `error` field: `c..2{s1\"x\"s3\"err\"}o0{1}` - two fields announced, one value written, the rest of the stream is misread)", 20, ruleF6)
}

type f6State struct{ emitted bool }

func (s *f6State) Key() string  { return fmt.Sprint(s.emitted) }
func (s *f6State) Copy() PState { n := *s; return &n }

func ruleF6(r *Run) {
	p := r.P
	pkg := p.Pkg("io")
	if pkg == nil {
		r.Undec("package io", 0, "not found")
		return
	}
	info := pkg.TypesInfo
	bufF := p.LookupField("io", "Encoder", "buf")
	veObj, _ := p.LookupObj("io", "ValueEncoder").(*types.TypeName)
	if bufF == nil || veObj == nil {
		r.Undec("io.Encoder.buf / io.ValueEncoder", 0, "not found")
		return
	}
	ve, _ := veObj.Type().Underlying().(*types.Interface)
	if ve == nil {
		r.Undec("io.ValueEncoder", 0, "not an interface")
		return
	}
	// mayEmit: functions of package io that can put bytes into Encoder.buf
	decls := map[*types.Func]*ast.FuncDecl{}
	for _, file := range pkg.Syntax {
		for _, d := range file.Decls {
			if fd, ok := d.(*ast.FuncDecl); ok && fd.Body != nil {
				if f, _ := info.Defs[fd.Name].(*types.Func); f != nil {
					decls[f] = fd
				}
			}
		}
	}
	mayEmit := map[*types.Func]bool{}
	encT := types.NewPointer(bufF.Pkg().Scope().Lookup("Encoder").Type())
	dynamicEmit := func(c *ast.CallExpr) bool {
		// a call through an interface of package io (ValueEncoder.Write/Encode): assumed to emit, every
		// implementation is an instance of this rule; a call of a function VALUE that is handed the encoder
		// (an encode handler out of a table): assumed to emit
		if sel, ok := ast.Unparen(c.Fun).(*ast.SelectorExpr); ok {
			if s := info.Selections[sel]; s != nil && s.Kind() == types.MethodVal {
				if _, isIface := s.Recv().Underlying().(*types.Interface); isIface {
					f := s.Obj()
					return f.Pkg() != nil && f.Pkg() == bufF.Pkg() && (f.Name() == "Write" || f.Name() == "Encode")
				}
				return false
			}
		}
		if Callee(info, c) != nil {
			return false
		}
		if tv, ok := info.Types[c.Fun]; ok && !tv.IsType() && !tv.IsBuiltin() {
			if _, isSig := tv.Type.Underlying().(*types.Signature); isSig {
				for _, a := range c.Args {
					if at, ok := info.Types[a]; ok && types.Identical(at.Type, encT) {
						return true
					}
				}
			}
		}
		return false
	}
	for f, fd := range decls {
		ast.Inspect(fd.Body, func(m ast.Node) bool {
			if as, ok := m.(*ast.AssignStmt); ok {
				for _, l := range as.Lhs {
					if fieldOf(info, l) == bufF {
						mayEmit[f] = true
					}
				}
			}
			return true
		})
	}
	for changed := true; changed; {
		changed = false
		for f, fd := range decls {
			if mayEmit[f] {
				continue
			}
			ast.Inspect(fd.Body, func(m ast.Node) bool {
				if c, ok := m.(*ast.CallExpr); ok && !mayEmit[f] {
					if g := Callee(info, c); (g != nil && mayEmit[g]) || dynamicEmit(c) {
						mayEmit[f] = true
						changed = true
					}
				}
				return true
			})
		}
	}
	for f, fd := range decls {
		if fd.Recv == nil || (f.Name() != "Write" && f.Name() != "Encode") {
			continue
		}
		sig := f.Type().(*types.Signature)
		rt := sig.Recv().Type()
		if !types.Implements(rt, ve) && !types.Implements(types.NewPointer(rt), ve) {
			continue
		}
		key := "emission on every path of " + p.DeclName(fd)
		var bad []string
		w := &Walk{Info: info}
		w.Event = func(w *Walk, ps PState, n ast.Node) []PState {
			switch x := n.(type) {
			case *ast.CallExpr:
				if g := Callee(info, x); (g != nil && mayEmit[g]) || dynamicEmit(x) {
					return []PState{&f6State{emitted: true}}
				}
			case *ast.AssignStmt:
				for _, l := range x.Lhs {
					if fieldOf(info, l) == bufF {
						return []PState{&f6State{emitted: true}}
					}
				}
			}
			return nil
		}
		w.Exit = func(w *Walk, ps PState, kind flowKind, at ast.Node) {
			if kind == fPanic || ps.(*f6State).emitted {
				return
			}
			where := "the end of the function"
			if at != nil {
				where = p.Rel(at.Pos())
			}
			bad = append(bad, where)
		}
		w.Run(fd.Body, &f6State{})
		if len(w.Undecided) > 0 {
			r.Undec(key, fd.Pos(), strings.Join(w.Undecided, "; "))
			continue
		}
		sort.Strings(bad)
		r.Check(len(bad) == 0, key, fd.Pos(), "every normal exit has passed a call that can emit", fmt.Sprintf("%s can return without having written anything (exit at %s): the value is missing from the stream and the enclosing item has fewer elements than its head announces", p.DeclName(fd), strings.Join(dedupStr(bad), ", ")))
	}
}

func dedupStr(in []string) []string {
	var out []string
	for i, s := range in {
		if i == 0 || s != in[i-1] {
			out = append(out, s)
		}
	}
	return out
}
