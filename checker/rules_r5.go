package main

import (
	"fmt"
	"go/ast"
	"go/token"
	"go/types"
	"sort"
	"strings"
)

// ---------------------------------------------------------------------------------------------------
// T15 a number read from the wire changes its integer type only under a range test;
// T16 the literal of a numeric item is consumed as a whole

func init() {
	register("T15", "in package io a number that one of the decoder's own numeric readers has just taken from the wire (a method of Decoder named Read*/read* that returns a basic numeric type) is converted to an integer type that cannot hold every value of the source type - a narrower one, one of the other signedness, or any integer type when the source is a float - only where the value has been compared with a bound, and the decimal accumulation `v = v*10 + d` is guarded by an overflow test on v: C06 promises an error, not a wrong value, for a destination that cannot accept the number (`i300;` into int8 is 44, `i-1;` into uint is MaxUint64, `d1.5;` into int is 1, a long of 30 digits wraps). On the unchanged tree every such site is a KNOWN FINDING: the existing suite asserts the wrap-around (TestDecodeInt8 expects int8(math.MinInt64) ...), so no repair can pass it unedited; the rule keeps the list closed - a new unchecked narrowing is a violation", 1, ruleT15)
	register("T16", "where package io takes the literal of a numeric item off the wire as bytes (Until / UnsafeUntil(TagSemicolon)), the bytes are handed on as a whole - to a parser, a converter, a return or an assignment - or every byte is looked at (range); a routine that only measures the literal (len, a constant index) decides by spelling, not by value: `d0.0;`, `d-0;` and `i00;` decoded into bool as true", 3, ruleT16)
}

// numericReader: a method of io.Decoder called Read*/read* that returns one basic numeric value.
func numericReader(info *types.Info, e ast.Expr) (*types.Func, bool) {
	c, ok := ast.Unparen(e).(*ast.CallExpr)
	if !ok {
		return nil, false
	}
	f := Callee(info, c)
	if f == nil || f.Pkg() == nil || !strings.HasSuffix(f.Pkg().Path(), "/io") {
		return nil, false
	}
	sig := f.Type().(*types.Signature)
	if sig.Recv() == nil || sig.Results().Len() != 1 {
		return nil, false
	}
	rt := sig.Recv().Type()
	if pt, ok := rt.(*types.Pointer); ok {
		rt = pt.Elem()
	}
	if nt, ok := rt.(*types.Named); !ok || refName(nt.Obj().Name()) != "Decoder" {
		return nil, false
	}
	if !strings.HasPrefix(f.Name(), "Read") && !strings.HasPrefix(f.Name(), "read") {
		return nil, false
	}
	b, ok := sig.Results().At(0).Type().Underlying().(*types.Basic)
	if !ok || b.Info()&types.IsNumeric == 0 {
		return nil, false
	}
	return f, true
}

func ruleT15(r *Run) {
	p := r.P
	pkg := p.Pkg("io")
	if pkg == nil {
		r.Undec("package io", 0, "not found")
		return
	}
	info := pkg.TypesInfo
	lossy := func(from, to *types.Basic) bool {
		if to.Info()&types.IsInteger == 0 {
			return false
		}
		if from.Info()&types.IsFloat != 0 {
			return true
		}
		if from.Info()&types.IsInteger == 0 {
			return false
		}
		fs, ts := p.Sizes.Sizeof(from), p.Sizes.Sizeof(to)
		fu, tu := from.Info()&types.IsUnsigned != 0, to.Info()&types.IsUnsigned != 0
		switch {
		case fu == tu:
			return ts < fs
		case fu && !tu:
			return ts <= fs
		default: // signed into unsigned: negative values are lost whatever the size
			return true
		}
	}
	for _, file := range pkg.Syntax {
		for _, d := range file.Decls {
			fd, ok := d.(*ast.FuncDecl)
			if !ok || fd.Body == nil {
				continue
			}
			defs := localDefs(info, fd.Body)
			parents := parentMap(fd.Body)
			// derived: where the number comes from (reader name) and, if it sits in a local, the local
			var derived func(e ast.Expr, depth int) (string, types.Object)
			derived = func(e ast.Expr, depth int) (string, types.Object) {
				e = ast.Unparen(e)
				if depth > 6 {
					return "", nil
				}
				if f, ok := numericReader(info, e); ok {
					return refName(f.Name()), nil
				}
				switch x := e.(type) {
				case *ast.UnaryExpr:
					if x.Op == token.SUB || x.Op == token.ADD {
						return derived(x.X, depth+1)
					}
				case *ast.CallExpr:
					if tv, ok := info.Types[x.Fun]; ok && tv.IsType() && len(x.Args) == 1 {
						return derived(x.Args[0], depth+1)
					}
				case *ast.Ident:
					if o := info.Uses[x]; o != nil {
						if def, ok := defs[o]; ok {
							if s, _ := derived(def, depth+1); s != "" {
								return s, o
							}
						}
					}
				}
				return "", nil
			}
			count := map[string]int{}
			ast.Inspect(fd.Body, func(n ast.Node) bool {
				switch x := n.(type) {
				case *ast.CallExpr:
					tv, ok := info.Types[x.Fun]
					if !ok || !tv.IsType() || len(x.Args) != 1 {
						return true
					}
					to, ok := tv.Type.Underlying().(*types.Basic)
					if !ok {
						return true
					}
					at, ok := info.Types[x.Args[0]]
					if !ok {
						return true
					}
					from, ok := at.Type.Underlying().(*types.Basic)
					if !ok || !lossy(from, to) {
						return true
					}
					src, local := derived(x.Args[0], 0)
					if src == "" {
						return true
					}
					desc := fmt.Sprintf("%s(%s from %s)", types.TypeString(tv.Type, func(*types.Package) string { return "" }), from.Name(), src)
					count[desc]++
					key := fmt.Sprintf("conversion %s in %s #%d", desc, p.DeclName(fd), count[desc])
					if local != nil {
						for _, f := range factsWithSwitch(parents, x) {
							if b, ok := ast.Unparen(f.e).(*ast.BinaryExpr); ok {
								switch b.Op {
								case token.LSS, token.GTR, token.LEQ, token.GEQ:
									if mentionsObj(info, b, local) {
										r.Ok(key, x.Pos(), "under a comparison of "+local.Name()+" with a bound")
										return true
									}
								}
							}
						}
					}
					r.Viol(key, x.Pos(), fmt.Sprintf("the %s that %s has just read from the wire is converted to %s without a range test: a number the destination cannot hold becomes a different number instead of an error", from.Name(), src, to.Name()))
				case *ast.AssignStmt:
					// v = v*10 + d
					if len(x.Lhs) != 1 || len(x.Rhs) != 1 || x.Tok != token.ASSIGN {
						return true
					}
					v := identObj(info, x.Lhs[0])
					sum, ok := ast.Unparen(x.Rhs[0]).(*ast.BinaryExpr)
					if v == nil || !ok || sum.Op != token.ADD {
						return true
					}
					isMul10 := func(e ast.Expr) bool {
						m, ok := ast.Unparen(e).(*ast.BinaryExpr)
						if !ok || m.Op != token.MUL {
							return false
						}
						c1, ok1 := intConst(info, m.X)
						c2, ok2 := intConst(info, m.Y)
						return (ok1 && c1 == 10 && identObj(info, m.Y) == v) || (ok2 && c2 == 10 && identObj(info, m.X) == v)
					}
					if !isMul10(sum.X) && !isMul10(sum.Y) {
						return true
					}
					if b, ok := v.Type().Underlying().(*types.Basic); !ok || b.Info()&types.IsInteger == 0 {
						return true
					}
					count["acc"]++
					key := fmt.Sprintf("decimal accumulation of %s in %s #%d", v.Name(), p.DeclName(fd), count["acc"])
					// an overflow test: a comparison that mentions v in the innermost loop body, before the assignment
					guarded := false
					var loop ast.Node
					for q := parents[x]; q != nil; q = parents[q] {
						if _, ok := q.(*ast.ForStmt); ok {
							loop = q
							break
						}
						if _, ok := q.(*ast.RangeStmt); ok {
							loop = q
							break
						}
					}
					if loop != nil {
						ast.Inspect(loop, func(m ast.Node) bool {
							if b, ok := m.(*ast.BinaryExpr); ok && b.Pos() < x.Pos() {
								switch b.Op {
								case token.LSS, token.GTR, token.LEQ, token.GEQ:
									// the loop condition `p < tail` does not count: it has to be about v
									if mentionsObj(info, b, v) {
										guarded = true
									}
								}
							}
							return true
						})
					}
					r.Check(guarded, key, x.Pos(), "the accumulator is compared with a bound before it is multiplied", "the digits are accumulated with "+v.Name()+" = "+v.Name()+"*10 + d without an overflow test: a number beyond the 64-bit range wraps around silently")
				}
				return true
			})
		}
	}
}

func mentionsObj(info *types.Info, e ast.Node, o types.Object) bool {
	found := false
	ast.Inspect(e, func(n ast.Node) bool {
		if id, ok := n.(*ast.Ident); ok && info.Uses[id] == o {
			found = true
		}
		return !found
	})
	return found
}

func ruleT16(r *Run) {
	p := r.P
	pkg := p.Pkg("io")
	if pkg == nil {
		r.Undec("package io", 0, "not found")
		return
	}
	info := pkg.TypesInfo
	for _, file := range pkg.Syntax {
		for _, d := range file.Decls {
			fd, ok := d.(*ast.FuncDecl)
			if !ok || fd.Body == nil {
				continue
			}
			parents := parentMap(fd.Body)
			n := 0
			ast.Inspect(fd.Body, func(m ast.Node) bool {
				c, ok := m.(*ast.CallExpr)
				if !ok || len(c.Args) != 1 {
					return true
				}
				switch refName(methodName(c)) {
				case "Until", "UnsafeUntil":
				default:
					return true
				}
				if f := Callee(info, c); f == nil || f.Pkg() == nil || !strings.HasSuffix(f.Pkg().Path(), "/io") {
					return true
				}
				if o := identObj(info, c.Args[0]); o == nil || o.Name() != "TagSemicolon" {
					return true
				}
				n++
				key := fmt.Sprintf("numeric literal read in %s #%d", p.DeclName(fd), n)
				switch par := parents[c].(type) {
				case *ast.CallExpr: // argument of a parser / converter
					r.Ok(key, c.Pos(), "handed on to "+types.ExprString(par.Fun))
					return true
				case *ast.ReturnStmt:
					r.Ok(key, c.Pos(), "returned")
					return true
				case *ast.RangeStmt:
					if par.X == ast.Expr(c) {
						r.Ok(key, c.Pos(), "every byte is looked at")
						return true
					}
				case *ast.AssignStmt:
					// a local: what is done with it?
					var loc types.Object
					for i, rh := range par.Rhs {
						if rh == ast.Expr(c) && i < len(par.Lhs) {
							loc = identObj(info, par.Lhs[i])
						}
					}
					if loc == nil {
						r.Ok(key, c.Pos(), "stored")
						return true
					}
					if _, isVar := loc.(*types.Var); isVar && loc.Parent() != nil && loc.Parent() != pkg.Types.Scope() && !isParamOrResult(info, fd, loc) {
						whole, measured := false, false
						ast.Inspect(fd.Body, func(u ast.Node) bool {
							id, ok := u.(*ast.Ident)
							if !ok || info.Uses[id] != loc {
								return true
							}
							switch up := parents[id].(type) {
							case *ast.CallExpr:
								if fid, ok := up.Fun.(*ast.Ident); ok && fid.Name == "len" && IsBuiltin(info, up, "len") {
									measured = true
								} else {
									whole = true
								}
							case *ast.IndexExpr:
								if up.X == ast.Expr(id) {
									if _, isConst := intConst(info, up.Index); isConst {
										measured = true
									} else {
										whole = true // indexed by a variable: a scan
									}
								}
							case *ast.RangeStmt:
								whole = true
							default:
								whole = true
							}
							return true
						})
						r.Check(whole || !measured, key, c.Pos(), "the literal is used as a whole", "the literal is only measured (len, constant index), never parsed or scanned: the routine decides by the spelling of the number, not by its value (`d0.0;` is not \"0\")")
						return true
					}
					r.Ok(key, c.Pos(), "stored in "+loc.Name())
					return true
				}
				r.Undec(key, c.Pos(), "unrecognised use of the literal")
				return true
			})
		}
	}
}

func isParamOrResult(info *types.Info, fd *ast.FuncDecl, o types.Object) bool {
	for _, pv := range paramsOf(info, fd.Type) {
		if pv == o {
			return true
		}
	}
	if fd.Type.Results != nil {
		for _, f := range fd.Type.Results.List {
			for _, nm := range f.Names {
				if info.Defs[nm] == o {
					return true
				}
			}
		}
	}
	return false
}

// ---------------------------------------------------------------------------------------------------
// G39 IsNil on a result of a reflective call only for nillable kinds

func init() {
	register("G39", "in rpc/ a reflect.Value that comes out of a reflective call of a published function (an element of the list returned by reflect.Value.Call) is asked IsNil() only where its kind is known to be nillable (reflect2.IsNullable(v.Kind()), a comparison of v.Kind() with Ptr/Map/Slice/Func/Chan/Interface, in the same condition or on the path): the kind of a result is chosen by whoever wrote the function - a last result of a concrete error type that is a struct made IsNil panic, and the caller got 'call of reflect.Value.IsNil on struct Value' instead of the function's error", 2, ruleG39)
}

func ruleG39(r *Run) {
	p := r.P
	nullable := map[string]bool{"Ptr": true, "Pointer": true, "Map": true, "Slice": true, "Func": true, "Chan": true, "Interface": true, "UnsafePointer": true}
	for _, pkg := range p.Pkgs {
		if !strings.Contains(pkg.PkgPath, "/rpc") {
			continue
		}
		info := pkg.TypesInfo
		for _, file := range pkg.Syntax {
			for _, d := range file.Decls {
				fd, ok := d.(*ast.FuncDecl)
				if !ok || fd.Body == nil {
					continue
				}
				defs := localDefs(info, fd.Body)
				parents := parentMap(fd.Body)
				// fromCall: the list of results of a reflective call, or an element of it
				var fromCall func(e ast.Expr, depth int) bool
				fromCall = func(e ast.Expr, depth int) bool {
					e = ast.Unparen(e)
					if depth > 5 {
						return false
					}
					switch x := e.(type) {
					case *ast.CallExpr:
						return FullNameOf(info, x) == "reflect.Value.Call" || FullNameOf(info, x) == "reflect.Value.CallSlice"
					case *ast.IndexExpr:
						return fromCall(x.X, depth+1)
					case *ast.SliceExpr:
						return fromCall(x.X, depth+1)
					case *ast.Ident:
						if o := info.Uses[x]; o != nil {
							if def, ok := defs[o]; ok {
								return fromCall(def, depth+1)
							}
							// out = out[:n-1]: assigned more than once, every time from itself or from a call
							all, any := true, false
							ast.Inspect(fd.Body, func(m ast.Node) bool {
								if as, ok := m.(*ast.AssignStmt); ok && len(as.Lhs) == len(as.Rhs) {
									for i, l := range as.Lhs {
										if identObj(info, l) == o {
											rh := ast.Unparen(as.Rhs[i])
											if mentionsObj(info, rh, o) {
												continue
											}
											any = true
											if depth > 3 || !fromCall(rh, depth+2) {
												all = false
											}
										}
									}
								}
								return true
							})
							return any && all
						}
					}
					return false
				}
				n := 0
				ast.Inspect(fd.Body, func(m ast.Node) bool {
					c, ok := m.(*ast.CallExpr)
					if !ok || FullNameOf(info, c) != "reflect.Value.IsNil" {
						return true
					}
					sel := c.Fun.(*ast.SelectorExpr)
					if !fromCall(sel.X, 0) {
						return true
					}
					n++
					key := fmt.Sprintf("IsNil on a result of a reflective call in %s #%d", p.DeclName(fd), n)
					recv := types.ExprString(sel.X)
					var root types.Object
					ast.Inspect(sel.X, func(q ast.Node) bool {
						if id, ok := q.(*ast.Ident); ok && root == nil {
							root = info.Uses[id]
						}
						return root == nil
					})
					// facts: the path conditions plus the operands that short-circuit evaluation has already decided
					facts := factsWithSwitch(parents, c)
					var child ast.Node = c
					for q := parents[c]; q != nil; q = parents[q] {
						b, ok := q.(*ast.BinaryExpr)
						if ok && (b.Op == token.LOR || b.Op == token.LAND) && b.Y == child {
							add := factAdder(parents, c, &facts)
							add(b.X, b.Op == token.LOR)
						}
						if _, isExpr := q.(ast.Expr); !isExpr {
							break
						}
						child = q
					}
					good := false
					for _, f := range facts {
						if f.neg {
							continue
						}
						ast.Inspect(f.e, func(q ast.Node) bool {
							switch x := q.(type) {
							case *ast.CallExpr:
								if strings.HasSuffix(FullNameOf(info, x), "reflect2.IsNullable") && len(x.Args) == 1 && kindOf(info, x.Args[0], recv, root) {
									good = true
								}
							case *ast.BinaryExpr:
								if x.Op == token.EQL {
									for _, pr := range [][2]ast.Expr{{x.X, x.Y}, {x.Y, x.X}} {
										if kindOf(info, pr[0], recv, root) {
											if o := qualObj(info, pr[1]); o != nil && o.Pkg() != nil && o.Pkg().Path() == "reflect" && nullable[o.Name()] {
												good = true
											}
										}
									}
								}
							}
							return true
						})
					}
					// switch v.Kind() { case reflect.Ptr, reflect.Map, ...: v.IsNil() }
					for q := parents[c]; q != nil && !good; q = parents[q] {
						cc, ok := q.(*ast.CaseClause)
						if !ok || len(cc.List) == 0 {
							continue
						}
						if blk, ok := parents[cc].(*ast.BlockStmt); ok {
							if sw, ok := parents[blk].(*ast.SwitchStmt); ok && sw.Tag != nil && kindOf(info, sw.Tag, recv, root) {
								all := true
								for _, e := range cc.List {
									if o := qualObj(info, e); o == nil || o.Pkg() == nil || o.Pkg().Path() != "reflect" || !nullable[o.Name()] {
										all = false
									}
								}
								good = all
							}
						}
					}
					r.Check(good, key, c.Pos(), "the kind of "+recv+" is known to be nillable here", recv+" is a result of a function the application published; IsNil() panics for a kind without nil (a struct-typed error), and no test of "+recv+".Kind() guards the call")
					return true
				})
			}
		}
	}
}

// kindOf: e is <recv>.Kind() (recv compared by text, or a local that stands for it)
func kindOf(info *types.Info, e ast.Expr, recv string, root types.Object) bool {
	c, ok := ast.Unparen(e).(*ast.CallExpr)
	if !ok || methodName(c) != "Kind" {
		return false
	}
	sel, ok := c.Fun.(*ast.SelectorExpr)
	if !ok {
		return false
	}
	if types.ExprString(sel.X) == recv {
		return true
	}
	// v.Type().Kind()
	if tc, ok := ast.Unparen(sel.X).(*ast.CallExpr); ok && methodName(tc) == "Type" {
		if ts, ok := tc.Fun.(*ast.SelectorExpr); ok && types.ExprString(ts.X) == recv {
			return true
		}
	}
	return false
}

// qualObj: the object an identifier or a qualified identifier (reflect.Ptr) stands for
func qualObj(info *types.Info, e ast.Expr) types.Object {
	if sel, ok := ast.Unparen(e).(*ast.SelectorExpr); ok {
		return info.Uses[sel.Sel]
	}
	return identObj(info, e)
}

// ---------------------------------------------------------------------------------------------------
// F6 a value encoder emits something on every path

func init() {
	register("F6", "every Write and Encode method of a type that implements io.ValueEncoder passes, on every path that returns normally, at least one call that can put bytes into the encoder's buffer (a function of package io that - directly or through its callees - assigns Encoder.buf, a call through a ValueEncoder or handler value, or any call that is handed the encoder and cannot be resolved): a path without one writes NOTHING for the value, and the enclosing list, map or object then has fewer items than its head announces (a nil `error` field: `c..2{s1\"x\"s3\"err\"}o0{1}` - two fields announced, one value written, the rest of the stream is misread)", 20, ruleF6)
}

type f6State struct{ emitted bool }

func (s *f6State) Key() string  { return fmt.Sprint(s.emitted) }
func (s *f6State) Copy() PState { n := *s; return &n }

func ruleF6(r *Run) {
	p := r.P
	pkg := p.Pkg("io")
	if pkg == nil {
		r.Undec("package io", 0, "not found")
		return
	}
	info := pkg.TypesInfo
	bufF := p.LookupField("io", "Encoder", "buf")
	veObj, _ := p.LookupObj("io", "ValueEncoder").(*types.TypeName)
	if bufF == nil || veObj == nil {
		r.Undec("io.Encoder.buf / io.ValueEncoder", 0, "not found")
		return
	}
	ve, _ := veObj.Type().Underlying().(*types.Interface)
	if ve == nil {
		r.Undec("io.ValueEncoder", 0, "not an interface")
		return
	}
	// mayEmit: functions of package io that can put bytes into Encoder.buf
	decls := map[*types.Func]*ast.FuncDecl{}
	for _, file := range pkg.Syntax {
		for _, d := range file.Decls {
			if fd, ok := d.(*ast.FuncDecl); ok && fd.Body != nil {
				if f, _ := info.Defs[fd.Name].(*types.Func); f != nil {
					decls[f] = fd
				}
			}
		}
	}
	mayEmit := map[*types.Func]bool{}
	encT := types.NewPointer(bufF.Pkg().Scope().Lookup("Encoder").Type())
	dynamicEmit := func(c *ast.CallExpr) bool {
		// a call through an interface of package io (ValueEncoder.Write/Encode): assumed to emit, every
		// implementation is an instance of this rule; a call of a function VALUE that is handed the encoder
		// (an encode handler out of a table): assumed to emit
		if sel, ok := ast.Unparen(c.Fun).(*ast.SelectorExpr); ok {
			if s := info.Selections[sel]; s != nil && s.Kind() == types.MethodVal {
				if _, isIface := s.Recv().Underlying().(*types.Interface); isIface {
					f := s.Obj()
					return f.Pkg() != nil && f.Pkg() == bufF.Pkg() && (f.Name() == "Write" || f.Name() == "Encode")
				}
				return false
			}
		}
		if Callee(info, c) != nil {
			return false
		}
		if tv, ok := info.Types[c.Fun]; ok && !tv.IsType() && !tv.IsBuiltin() {
			if _, isSig := tv.Type.Underlying().(*types.Signature); isSig {
				for _, a := range c.Args {
					if at, ok := info.Types[a]; ok && types.Identical(at.Type, encT) {
						return true
					}
				}
			}
		}
		return false
	}
	for f, fd := range decls {
		ast.Inspect(fd.Body, func(m ast.Node) bool {
			if as, ok := m.(*ast.AssignStmt); ok {
				for _, l := range as.Lhs {
					if fieldOf(info, l) == bufF {
						mayEmit[f] = true
					}
				}
			}
			return true
		})
	}
	for changed := true; changed; {
		changed = false
		for f, fd := range decls {
			if mayEmit[f] {
				continue
			}
			ast.Inspect(fd.Body, func(m ast.Node) bool {
				if c, ok := m.(*ast.CallExpr); ok && !mayEmit[f] {
					if g := Callee(info, c); (g != nil && mayEmit[g]) || dynamicEmit(c) {
						mayEmit[f] = true
						changed = true
					}
				}
				return true
			})
		}
	}
	for f, fd := range decls {
		if fd.Recv == nil || (f.Name() != "Write" && f.Name() != "Encode") {
			continue
		}
		sig := f.Type().(*types.Signature)
		rt := sig.Recv().Type()
		if !types.Implements(rt, ve) && !types.Implements(types.NewPointer(rt), ve) {
			continue
		}
		key := "emission on every path of " + p.DeclName(fd)
		var bad []string
		w := &Walk{Info: info}
		w.Event = func(w *Walk, ps PState, n ast.Node) []PState {
			switch x := n.(type) {
			case *ast.CallExpr:
				if g := Callee(info, x); (g != nil && mayEmit[g]) || dynamicEmit(x) {
					return []PState{&f6State{emitted: true}}
				}
			case *ast.AssignStmt:
				for _, l := range x.Lhs {
					if fieldOf(info, l) == bufF {
						return []PState{&f6State{emitted: true}}
					}
				}
			}
			return nil
		}
		w.Exit = func(w *Walk, ps PState, kind flowKind, at ast.Node) {
			if kind == fPanic || ps.(*f6State).emitted {
				return
			}
			where := "the end of the function"
			if at != nil {
				where = p.Rel(at.Pos())
			}
			bad = append(bad, where)
		}
		w.Run(fd.Body, &f6State{})
		if len(w.Undecided) > 0 {
			r.Undec(key, fd.Pos(), strings.Join(w.Undecided, "; "))
			continue
		}
		sort.Strings(bad)
		r.Check(len(bad) == 0, key, fd.Pos(), "every normal exit has passed a call that can emit", fmt.Sprintf("%s can return without having written anything (exit at %s): the value is missing from the stream and the enclosing item has fewer elements than its head announces", p.DeclName(fd), strings.Join(dedupStr(bad), ", ")))
	}
}

func dedupStr(in []string) []string {
	var out []string
	for i, s := range in {
		if i == 0 || s != in[i-1] {
			out = append(out, s)
		}
	}
	return out
}

// ---------------------------------------------------------------------------------------------------
// G41 the wrapper around an installed handler is transparent; G42 deletion by index inside an ascending loop

func init() {
	register("G41", "the function that a plugin manager builds around each installed handler (the literal returned by the getNextHandler argument of newPluginManager, in NewInvokeManager and NewIOManager) is transparent: its first statement calls the handler, unconditionally, with the wrapper's own parameters in order followed by the next handler, and what the handler returns is returned unchanged - a wrapper that answers by itself on some condition (an ended context, a nil request) makes the framework skip that handler and everything behind it, so a call passes through only a prefix of the installed handlers", 2, ruleG41)
	register("G42", "where an element is cut out of a slice in place (s = append(s[:i], s[i+1:]...)) inside a loop that counts i upwards, the loop is left (return, break of that loop) or i is stepped back before the next iteration: otherwise the element that has moved into position i is never looked at (two adjacent handlers passed to one Unuse: the second stays installed)", 1, ruleG42)
}

func ruleG41(r *Run) {
	p := r.P
	pkg := p.Pkg("rpc/core")
	if pkg == nil {
		r.Undec("package rpc/core", 0, "not found")
		return
	}
	info := pkg.TypesInfo
	npm := p.LookupFunc("rpc/core", "newPluginManager")
	if npm == nil {
		r.Undec("rpc/core.newPluginManager", 0, "not found")
		return
	}
	for _, file := range pkg.Syntax {
		for _, d := range file.Decls {
			fd, ok := d.(*ast.FuncDecl)
			if !ok || fd.Body == nil {
				continue
			}
			ast.Inspect(fd.Body, func(m ast.Node) bool {
				c, ok := m.(*ast.CallExpr)
				if !ok || Callee(info, c) != npm || len(c.Args) < 2 {
					return true
				}
				var builderType *ast.FuncType
				var builderBody *ast.BlockStmt
				if bl, ok := ast.Unparen(c.Args[1]).(*ast.FuncLit); ok {
					builderType, builderBody = bl.Type, bl.Body
				} else if bf, ok := identObj(info, c.Args[1]).(*types.Func); ok {
					if bd := p.Decl(bf); bd != nil && bd.Body != nil {
						builderType, builderBody = bd.Type, bd.Body
					}
				}
				if builderBody == nil {
					// handed on from a parameter (newPluginManager itself): not a construction site
					return true
				}
				builder := struct {
					Type *ast.FuncType
					Body *ast.BlockStmt
				}{builderType, builderBody}
				key := "wrapper built in " + p.DeclName(fd)
				bps := paramsOf(info, builder.Type)
				if len(bps) != 2 {
					r.Undec(key, builder.Body.Pos(), "the builder does not take (handler, next)")
					return true
				}
				defs := localDefs(info, builder.Body)
				// from: the object is the builder's parameter i, or a local defined from it by assertion/conversion
				from := func(e ast.Expr, want *types.Var) bool {
					for depth := 0; depth < 4; depth++ {
						e = ast.Unparen(e)
						switch x := e.(type) {
						case *ast.TypeAssertExpr:
							e = x.X
							continue
						case *ast.CallExpr:
							if tv, ok := info.Types[x.Fun]; ok && tv.IsType() && len(x.Args) == 1 {
								e = x.Args[0]
								continue
							}
							return false
						case *ast.Ident:
							o := info.Uses[x]
							if o == want {
								return true
							}
							if def, ok := defs[o]; ok {
								e = def
								continue
							}
						}
						return false
					}
					return false
				}
				// the wrapper: the function literal the builder returns
				var wrap *ast.FuncLit
				ast.Inspect(builder.Body, func(k ast.Node) bool {
					if ret, ok := k.(*ast.ReturnStmt); ok && len(ret.Results) == 1 && wrap == nil {
						e := ast.Unparen(ret.Results[0])
						if cv, ok := e.(*ast.CallExpr); ok && len(cv.Args) == 1 {
							e = ast.Unparen(cv.Args[0])
						}
						if fl, ok := e.(*ast.FuncLit); ok {
							wrap = fl
						} else if id, ok := e.(*ast.Ident); ok {
							if def, ok := defs[info.Uses[id]]; ok {
								if fl, ok := ast.Unparen(def).(*ast.FuncLit); ok {
									wrap = fl
								}
							}
						}
					}
					return true
				})
				if wrap == nil || len(wrap.Body.List) == 0 {
					r.Undec(key, builder.Body.Pos(), "the literal the builder returns was not found")
					return true
				}
				wps := paramsOf(info, wrap.Type)
				// first statement: the call of the handler
				var call *ast.CallExpr
				var assigned []types.Object
				switch s := wrap.Body.List[0].(type) {
				case *ast.ReturnStmt:
					if len(s.Results) == 1 {
						call, _ = ast.Unparen(s.Results[0]).(*ast.CallExpr)
					}
				case *ast.AssignStmt:
					if len(s.Rhs) == 1 {
						call, _ = ast.Unparen(s.Rhs[0]).(*ast.CallExpr)
						for _, l := range s.Lhs {
							assigned = append(assigned, identObj(info, l))
						}
					}
				}
				if call == nil || !from(call.Fun, bps[0]) {
					r.Viol(key, wrap.Body.List[0].Pos(), "the first statement of the wrapper is not the call of the installed handler: whatever comes before it (a test of the context, of the request) can answer in the handler's place, and the chain behind this position is skipped")
					return true
				}
				if len(call.Args) != len(wps)+1 {
					r.Viol(key, call.Pos(), "the handler is not called with the wrapper's parameters and the next handler")
					return true
				}
				for i, a := range call.Args {
					if i < len(wps) {
						if identObj(info, a) != types.Object(wps[i]) {
							r.Viol(key, a.Pos(), fmt.Sprintf("argument %d of the handler call is not the wrapper's own parameter %s", i+1, wps[i].Name()))
							return true
						}
					} else if !from(a, bps[1]) {
						r.Viol(key, a.Pos(), "the last argument of the handler call is not the next handler of the chain")
						return true
					}
				}
				// the rest: only returns of what the handler returned
				for _, s := range wrap.Body.List[1:] {
					ret, ok := s.(*ast.ReturnStmt)
					good := ok
					if ok {
						for i, e := range ret.Results {
							if i >= len(assigned) || identObj(info, e) != assigned[i] {
								good = false
							}
						}
					}
					if !good {
						r.Viol(key, s.Pos(), "after the handler has returned the wrapper does something else than return its results")
						return true
					}
				}
				r.Ok(key, wrap.Pos(), "calls the handler first, with its own parameters and the next handler, and returns its results")
				return true
			})
		}
	}
}

func ruleG42(r *Run) {
	p := r.P
	total := 0
	defer func() {
		if total == 0 {
			r.Ok("no in-place deletion inside an ascending loop in the repository", 0, "nothing to step back")
		}
	}()
	for _, pkg := range p.Pkgs {
		info := pkg.TypesInfo
		for _, file := range pkg.Syntax {
			for _, d := range file.Decls {
				fd, ok := d.(*ast.FuncDecl)
				if !ok || fd.Body == nil {
					continue
				}
				parents := parentMap(fd.Body)
				n := 0
				ast.Inspect(fd.Body, func(m ast.Node) bool {
					as, ok := m.(*ast.AssignStmt)
					if !ok || len(as.Lhs) != 1 || len(as.Rhs) != 1 {
						return true
					}
					c, ok := ast.Unparen(as.Rhs[0]).(*ast.CallExpr)
					if !ok || !IsBuiltin(info, c, "append") || len(c.Args) != 2 || !c.Ellipsis.IsValid() {
						return true
					}
					s1, ok1 := ast.Unparen(c.Args[0]).(*ast.SliceExpr)
					s2, ok2 := ast.Unparen(c.Args[1]).(*ast.SliceExpr)
					if !ok1 || !ok2 || s1.Low != nil || s1.High == nil || s2.High != nil || s2.Low == nil {
						return true
					}
					iv := identObj(info, s1.High)
					lo, okb := ast.Unparen(s2.Low).(*ast.BinaryExpr)
					if iv == nil || !okb || lo.Op != token.ADD || identObj(info, lo.X) != iv {
						return true
					}
					if k, ok := intConst(info, lo.Y); !ok || k != 1 {
						return true
					}
					if types.ExprString(s1.X) != types.ExprString(s2.X) || types.ExprString(s1.X) != types.ExprString(as.Lhs[0]) {
						return true
					}
					// the loop that counts iv upwards
					var loop ast.Stmt
					var loopBody *ast.BlockStmt
					for q := parents[as]; q != nil; q = parents[q] {
						if fs, ok := q.(*ast.ForStmt); ok {
							if inc, ok := fs.Post.(*ast.IncDecStmt); ok && inc.Tok == token.INC && identObj(info, inc.X) == iv {
								loop, loopBody = fs, fs.Body
								break
							}
						}
						if rs, ok := q.(*ast.RangeStmt); ok && rs.Key != nil && identObj(info, rs.Key) == iv {
							loop, loopBody = rs, rs.Body
							break
						}
						if _, ok := q.(*ast.FuncLit); ok {
							break
						}
					}
					if loop == nil {
						return true
					}
					n++
					total++
					key := fmt.Sprintf("in-place deletion from %s in %s #%d", types.ExprString(s1.X), p.DeclName(fd), n)
					loopLabel := ""
					if ls, ok := parents[loop].(*ast.LabeledStmt); ok {
						loopLabel = ls.Label.Name
					}
					// what happens between the deletion and the next iteration
					verdict := ""
					var cur ast.Node = as
					for verdict == "" {
						par := parents[cur]
						var list []ast.Stmt
						switch b := par.(type) {
						case *ast.BlockStmt:
							list = b.List
						case *ast.CaseClause:
							list = b.Body
						case *ast.CommClause:
							list = b.Body
						}
						after := false
						for _, s := range list {
							if ast.Node(s) == cur {
								after = true
								continue
							}
							if !after || verdict != "" {
								continue
							}
							switch x := s.(type) {
							case *ast.IncDecStmt:
								if x.Tok == token.DEC && identObj(info, x.X) == iv {
									verdict = "ok: " + iv.Name() + "-- follows"
								}
							case *ast.ReturnStmt:
								verdict = "ok: return follows"
							case *ast.BranchStmt:
								switch {
								case x.Tok == token.BREAK && x.Label != nil && x.Label.Name == loopLabel:
									verdict = "ok: the loop is left"
								case x.Tok == token.BREAK && x.Label == nil:
									// which statement does it leave?
									for y := parents[x]; y != nil; y = parents[y] {
										switch y.(type) {
										case *ast.ForStmt, *ast.RangeStmt, *ast.SwitchStmt, *ast.SelectStmt, *ast.TypeSwitchStmt:
											if y == ast.Node(loop) {
												verdict = "ok: the loop is left"
											} else {
												cur = y // execution goes on behind that statement
												verdict = "jump"
											}
										}
										if verdict != "" {
											break
										}
									}
								case x.Tok == token.CONTINUE:
									verdict = "bad: continue"
								case x.Tok == token.GOTO:
									verdict = "undecided: goto"
								}
							}
						}
						if verdict == "jump" {
							verdict = ""
							continue
						}
						if verdict != "" {
							break
						}
						if par == nil || par == ast.Node(loopBody) {
							verdict = "bad: the end of the loop body is reached"
							break
						}
						cur = par
						if _, ok := cur.(*ast.BlockStmt); ok && parents[cur] != nil {
							// a bare block or the body of an if/for: go on behind the statement that owns it
							if _, isList := parents[cur].(*ast.BlockStmt); !isList {
								cur = parents[cur]
							}
						}
						if cur == ast.Node(loop) {
							verdict = "bad: the end of the loop body is reached"
						}
					}
					switch {
					case strings.HasPrefix(verdict, "ok"):
						r.Ok(key, as.Pos(), verdict[4:])
					case strings.HasPrefix(verdict, "undecided"):
						r.Undec(key, as.Pos(), verdict)
					default:
						r.Viol(key, as.Pos(), "the element at "+iv.Name()+" is cut out and the loop goes on with "+iv.Name()+"+1 ("+verdict[5:]+"): the element that has moved into position "+iv.Name()+" is skipped")
					}
					return true
				})
			}
		}
	}
}

// ---------------------------------------------------------------------------------------------------
// G40 a plugin does not re-enter the chain of the call's own client

func init() {
	register("G40", "in rpc/plugins the client of the call in progress (ClientContext.Client()) is used for its data (URLs, settings) only: no plugin calls one of its methods that run a plugin chain or are the bottom of one (the methods of core.Client that fetch PluginManager.Handler(), transitively, and the method values handed to NewIOManager / NewInvokeManager - InvokeContext, Invoke, Call, Request, Transport). A plugin is already INSIDE that client's chain; going on is `next`. Re-entering from the top runs every handler installed in front of the plugin again, nested, for one call (a retry through Client().Request), entering at the bottom skips the handlers behind it", 5, ruleG40)
}

func ruleG40(r *Run) {
	p := r.P
	core := p.Pkg("rpc/core")
	if core == nil {
		r.Undec("package rpc/core", 0, "not found")
		return
	}
	cinfo := core.TypesInfo
	clientObj, _ := p.LookupObj("rpc/core", "Client").(*types.TypeName)
	if clientObj == nil {
		r.Undec("rpc/core.Client", 0, "not found")
		return
	}
	// entry methods of Client
	entry := map[*types.Func]bool{}
	mdecl := map[*types.Func]*ast.FuncDecl{}
	for _, file := range core.Syntax {
		for _, d := range file.Decls {
			fd, ok := d.(*ast.FuncDecl)
			if !ok || fd.Body == nil || fd.Recv == nil {
				continue
			}
			f, _ := cinfo.Defs[fd.Name].(*types.Func)
			if f == nil {
				continue
			}
			rt := f.Type().(*types.Signature).Recv().Type()
			if pt, ok := rt.(*types.Pointer); ok {
				rt = pt.Elem()
			}
			if nt, ok := rt.(*types.Named); ok && nt.Obj() == clientObj {
				mdecl[f] = fd
			}
		}
	}
	for f, fd := range mdecl {
		ast.Inspect(fd.Body, func(m ast.Node) bool {
			if c, ok := m.(*ast.CallExpr); ok && methodName(c) == "Handler" {
				if sel, ok := c.Fun.(*ast.SelectorExpr); ok {
					if s := cinfo.Selections[sel]; s != nil {
						if _, isIface := s.Recv().Underlying().(*types.Interface); isIface {
							entry[f] = true
						}
					}
				}
			}
			return true
		})
	}
	// bottoms: method values of Client handed to a manager constructor
	for _, file := range core.Syntax {
		ast.Inspect(file, func(m ast.Node) bool {
			c, ok := m.(*ast.CallExpr)
			if !ok {
				return true
			}
			if f := Callee(cinfo, c); f == nil || (refName(f.Name()) != "NewIOManager" && refName(f.Name()) != "NewInvokeManager") {
				return true
			}
			for _, a := range c.Args {
				if sel, ok := ast.Unparen(a).(*ast.SelectorExpr); ok {
					if s := cinfo.Selections[sel]; s != nil && s.Kind() == types.MethodVal {
						if f, ok := s.Obj().(*types.Func); ok && mdecl[f] != nil {
							entry[f] = true
						}
					}
				}
			}
			return true
		})
	}
	for changed := true; changed; {
		changed = false
		for f, fd := range mdecl {
			if entry[f] {
				continue
			}
			ast.Inspect(fd.Body, func(m ast.Node) bool {
				if c, ok := m.(*ast.CallExpr); ok {
					if g := Callee(cinfo, c); g != nil && entry[g] && !entry[f] {
						entry[f] = true
						changed = true
					}
				}
				return true
			})
		}
	}
	if len(entry) < 3 {
		r.Undec("entry methods of rpc/core.Client", clientObj.Pos(), fmt.Sprintf("only %d found", len(entry)))
		return
	}
	var names []string
	for f := range entry {
		names = append(names, f.Name())
	}
	sort.Strings(names)
	for _, pkg := range p.Pkgs {
		if !strings.Contains(pkg.PkgPath, "/rpc/plugins/") {
			continue
		}
		info := pkg.TypesInfo
		for _, file := range pkg.Syntax {
			for _, d := range file.Decls {
				fd, ok := d.(*ast.FuncDecl)
				if !ok || fd.Body == nil {
					continue
				}
				parents := parentMap(fd.Body)
				n := 0
				ast.Inspect(fd.Body, func(m ast.Node) bool {
					c, ok := m.(*ast.CallExpr)
					if !ok || methodName(c) != "Client" || len(c.Args) != 0 {
						return true
					}
					tv, ok := info.Types[c]
					if !ok {
						return true
					}
					pt, ok := tv.Type.(*types.Pointer)
					if !ok {
						return true
					}
					if nt, ok := pt.Elem().(*types.Named); !ok || nt.Obj() != clientObj {
						return true
					}
					n++
					key := fmt.Sprintf("use of the call's client in %s #%d", p.DeclName(fd), n)
					bad := ""
					checkUse := func(e ast.Expr) {
						if sel, ok := parents[e].(*ast.SelectorExpr); ok && sel.X == e {
							if s := info.Selections[sel]; s != nil && s.Kind() == types.MethodVal {
								if f, ok := s.Obj().(*types.Func); ok && entry[f] {
									bad = f.Name()
								}
							}
						}
					}
					checkUse(c)
					// a local that stands for it
					if as, ok := parents[c].(*ast.AssignStmt); ok {
						for i, rh := range as.Rhs {
							if rh == ast.Expr(c) && i < len(as.Lhs) {
								if loc := identObj(info, as.Lhs[i]); loc != nil {
									ast.Inspect(fd.Body, func(u ast.Node) bool {
										if id, ok := u.(*ast.Ident); ok && info.Uses[id] == loc {
											checkUse(id)
										}
										return true
									})
								}
							}
						}
					}
					r.Check(bad == "", key, c.Pos(), "used for its data only (entry methods: "+strings.Join(names, ", ")+")", "the plugin calls "+bad+" on the client of the call it is handling: that enters the client's plugin chain again (from the top, or at its bottom) from inside the chain - handlers in front of this plugin run a second time, nested, or the handlers behind it are skipped; the way on is `next`")
					return true
				})
			}
		}
	}
}

// ---------------------------------------------------------------------------------------------------
// G43 the bottom of the invoke chain hands the error of the IO chain on unchanged

func init() {
	register("G43", "the bottom of the client's invoke chain (the method value handed to NewInvokeManager: Client.Call) returns the error that the IO chain gave it (the result of Client.Request) as it is: on the path where that error is not nil, the error variable is not assigned again and no other value is returned in its place. Plugins that sit in BOTH chains recognise their own refusals by identity (the circuit breaker's invoke handler serves the mock service when err == ErrBreaker; the limiters' ErrTimeout): an error replaced on the way up - by ctx.Err(), by a wrapped copy - is not recognised, and an open breaker neither rejects with its own error nor falls back", 1, ruleG43)
}

func ruleG43(r *Run) {
	p := r.P
	core := p.Pkg("rpc/core")
	if core == nil {
		r.Undec("package rpc/core", 0, "not found")
		return
	}
	info := core.TypesInfo
	// the bottoms of invoke chains
	var bottoms []*types.Func
	for _, file := range core.Syntax {
		ast.Inspect(file, func(m ast.Node) bool {
			c, ok := m.(*ast.CallExpr)
			if !ok {
				return true
			}
			if f := Callee(info, c); f == nil || refName(f.Name()) != "NewInvokeManager" {
				return true
			}
			for _, a := range c.Args {
				if sel, ok := ast.Unparen(a).(*ast.SelectorExpr); ok {
					if s := info.Selections[sel]; s != nil && s.Kind() == types.MethodVal {
						if f, ok := s.Obj().(*types.Func); ok {
							bottoms = append(bottoms, f)
						}
					}
				}
			}
			return true
		})
	}
	n := 0
	for _, bf := range bottoms {
		fd := p.Decl(bf)
		if fd == nil || fd.Body == nil {
			continue
		}
		// the call into the IO chain: a call of a method of the same receiver type that takes and returns []byte
		var reqStmt *ast.AssignStmt
		var errV types.Object
		ast.Inspect(fd.Body, func(m ast.Node) bool {
			as, ok := m.(*ast.AssignStmt)
			if !ok || len(as.Rhs) != 1 || len(as.Lhs) != 2 || reqStmt != nil {
				return true
			}
			c, ok := ast.Unparen(as.Rhs[0]).(*ast.CallExpr)
			if !ok {
				return true
			}
			g := Callee(info, c)
			if g == nil || g.Pkg() != bf.Pkg() {
				return true
			}
			sig := g.Type().(*types.Signature)
			if sig.Recv() == nil || sig.Results().Len() != 2 || sig.Results().At(0).Type().String() != "[]byte" || !isErrorType(sig.Results().At(1).Type()) {
				return true
			}
			takesBytes := false
			for i := 0; i < sig.Params().Len(); i++ {
				if sig.Params().At(i).Type().String() == "[]byte" {
					takesBytes = true
				}
			}
			if !takesBytes {
				return true
			}
			reqStmt = as
			errV = identObj(info, as.Lhs[1])
			return true
		})
		if reqStmt == nil || errV == nil {
			continue // a bottom that does not go through an IO chain (the service side executes the method)
		}
		n++
		key := "error of the IO chain in " + p.DeclName(fd)
		parents := parentMap(fd.Body)
		failing := func(at ast.Node) bool {
			for _, f := range factsWithSwitch(parents, at) {
				b, ok := ast.Unparen(f.e).(*ast.BinaryExpr)
				if !ok || (b.Op != token.EQL && b.Op != token.NEQ) {
					continue
				}
				var other ast.Expr
				if identObj(info, b.X) == errV {
					other = b.Y
				} else if identObj(info, b.Y) == errV {
					other = b.X
				}
				if id, ok := ast.Unparen(exprOrNilE(other)).(*ast.Ident); !ok || id.Name != "nil" {
					continue
				}
				// err != nil holds: (NEQ, !neg) or (EQL, neg)
				if (b.Op == token.NEQ && !f.neg) || (b.Op == token.EQL && f.neg) {
					return true
				}
			}
			return false
		}
		bad := ""
		var badPos token.Pos
		ast.Inspect(fd.Body, func(m ast.Node) bool {
			if bad != "" || m == nil || m.Pos() <= reqStmt.Pos() {
				return true
			}
			switch x := m.(type) {
			case *ast.AssignStmt:
				for _, l := range x.Lhs {
					if identObj(info, l) == errV && failing(x) {
						bad = "an assignment at " + p.Rel(x.Pos()) + " gives the error variable another value where the IO chain has failed"
						badPos = x.Pos()
					}
				}
			case *ast.ReturnStmt:
				if len(x.Results) > 0 && failing(x) {
					last := x.Results[len(x.Results)-1]
					if identObj(info, last) != errV {
						bad = "the return at " + p.Rel(x.Pos()) + " hands back something else than the error of the IO chain"
						badPos = x.Pos()
					}
				}
			}
			return true
		})
		if bad != "" {
			r.Viol(key, badPos, bad+": a refusal that a plugin raised in the IO chain (ErrBreaker, ErrTimeout) no longer reaches the same plugin's invoke handler as the value it compares with")
		} else {
			r.Ok(key, reqStmt.Pos(), "returned as it is")
		}
	}
	if n == 0 {
		r.Undec("bottom of the client's invoke chain", 0, "no method value handed to NewInvokeManager calls into an IO chain")
	}
}

func exprOrNilE(e ast.Expr) ast.Expr {
	if e == nil {
		return &ast.BadExpr{}
	}
	return e
}
