package main

import (
	"fmt"
	"go/ast"
	"go/types"
	"sort"
	"strings"

	"golang.org/x/tools/go/packages"
)

// L8 lock pairing (C18, C14, C09, C10, C15): every mutex a function acquires is released on every
// way out of it (explicitly or by a deferred unlock), and no path acquires a mutex it already
// holds.

func init() {
	register("L8", "every sync.Mutex/RWMutex field a function (or function literal) locks is unlocked again on every path to every exit (return, fall off the end), counting deferred unlocks, and is never locked again while held on the same path: a path that leaves with the lock held blocks every later writer forever", 45, ruleL8)
}

func ruleL8(r *Run) {
	p := r.P
	type unit struct {
		pkg  *packages.Package
		name string
		body *ast.BlockStmt
		pos  ast.Node
	}
	var units []unit
	p.EachFunc(func(pkg *packages.Package, fd *ast.FuncDecl) {
		units = append(units, unit{pkg, p.DeclName(fd), fd.Body, fd})
		n := 0
		// literals that are not deferred (deferred ones are replayed inside their function) and not
		// nested in another collected literal
		deferred := map[*ast.FuncLit]bool{}
		ast.Inspect(fd.Body, func(m ast.Node) bool {
			if d, ok := m.(*ast.DeferStmt); ok {
				if fl, ok := ast.Unparen(d.Call.Fun).(*ast.FuncLit); ok {
					deferred[fl] = true
				}
			}
			return true
		})
		ast.Inspect(fd.Body, func(m ast.Node) bool {
			if fl, ok := m.(*ast.FuncLit); ok && !deferred[fl] {
				n++
				units = append(units, unit{pkg, fmt.Sprintf("%s$lit%d", p.DeclName(fd), n), fl.Body, fl})
			}
			return true
		})
	})
	for _, u := range units {
		info := u.pkg.TypesInfo
		hasLock := false
		ast.Inspect(u.body, func(m ast.Node) bool {
			if c, ok := m.(*ast.CallExpr); ok {
				if mv, op := lockOp(info, c); mv != nil && (op == "Lock" || op == "RLock") {
					hasLock = true
				}
			}
			return true
		})
		if !hasLock {
			continue
		}
		leaks := map[string]string{}
		doubles := map[string]string{}
		w := &Walk{Info: info}
		w.Event = func(w *Walk, ps PState, n ast.Node) []PState {
			// literals other than deferred ones run elsewhere (their own unit)
			call, ok := n.(*ast.CallExpr)
			if !ok {
				return nil
			}
			mv, op := lockOp(info, call)
			if mv == nil {
				return nil
			}
			st := ps.(*lockState)
			ns := st.Copy().(*lockState)
			switch op {
			case "Lock":
				if st.held[mv] != 0 {
					doubles[mv.Name()] = p.Rel(call.Pos())
				}
				ns.held[mv] = 2
			case "RLock":
				if st.held[mv] == 2 {
					doubles[mv.Name()] = p.Rel(call.Pos())
				}
				ns.held[mv] = 1
			default:
				delete(ns.held, mv)
			}
			return []PState{ns}
		}
		w.Exit = func(w *Walk, ps PState, kind flowKind, at ast.Node) {
			if kind == fPanic {
				return
			}
			st := ps.(*lockState)
			for mv := range st.held {
				where := "the end of the function"
				if at != nil {
					where = p.Rel(at.Pos())
				}
				if _, seen := leaks[mv.Name()]; !seen {
					leaks[mv.Name()] = where
				}
			}
		}
		w.Run(u.body, &lockState{held: map[*types.Var]int{}})
		key := "lock pairing in " + u.name
		if len(w.Undecided) > 0 {
			r.Undec(key, u.pos.Pos(), strings.Join(w.Undecided, "; "))
			continue
		}
		var msgs []string
		for l, where := range leaks {
			msgs = append(msgs, fmt.Sprintf("%s is still held at the exit at %s (no unlock on that path and no deferred unlock): the next goroutine that needs the lock exclusively blocks forever", l, where))
		}
		for l, where := range doubles {
			msgs = append(msgs, fmt.Sprintf("%s is locked at %s while this path already holds it: sync mutexes are not reentrant, the goroutine deadlocks on itself", l, where))
		}
		sort.Strings(msgs)
		if len(msgs) > 0 {
			r.Viol(key, u.pos.Pos(), strings.Join(msgs, "; "))
		} else {
			r.Ok(key, u.pos.Pos(), "every acquired lock is released on every exit")
		}
	}
}
