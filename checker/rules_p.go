package main

import (
	"fmt"
	"go/ast"
	"go/token"
	"go/types"
	"strings"

	"golang.org/x/tools/go/packages"
)

// P1 acquire / deferred release, P2 in-flight counter symmetry, P3 registered hand-over entries
// are consumed or withdrawn on every exit (+ dual: deliver only to an atomically removed
// entry), P5 cancellable waits.

func init() {
	register("P1", "ConcurrentLimiter.Handler reaches next only after Acquire returned nil with Release registered by defer before it (so the permit is returned on the panic exit too); the timeout branch of Acquire takes no permit", 4, ruleP1)
	register("P2", "every in-flight counter increment (actives[i]++) is followed, before the downstream call, by a defer that decrements the same counter under the same lock", 2, ruleP2)
	register("P3", "after a result channel is registered in a shared pending table every exit of the function has withdrawn the entry itself or received from that channel a value it did not send itself; responses are delivered only to a channel obtained by the table's atomic remove-and-return, and such channels are buffered", 12, ruleP3)
	register("P5", "on the client call path every blocking channel operation is a case of a select that also receives from the call context's Done channel", 6, ruleP5)
}

// ---------------------------------------------------------------------------------------
// P3

type p3Site struct {
	pkg, fn  string
	register string   // name of the registering call (method name); the channel is one of its args
	onField  string   // if set: the call's receiver expression must end in this field name
	withdraw []string // method names that remove the entry again (same receiver field if onField set)
}

var p3Sites = []p3Site{
	{"rpc/socket", "conn.Transport", "store", "", []string{"delete"}},
	{"rpc/udp", "conn.Transport", "store", "", []string{"delete"}},
	{"rpc/websocket", "conn.Transport", "store", "", []string{"delete"}},
	{"rpc/plugins/reverse", "Caller.InvokeContext", "Set", "", []string{"Delete", "GetAndDelete"}},
	{"rpc/plugins/push", "Broker.message", "Upsert", "responders", []string{"Pop", "Remove"}},
	{"rpc/plugins/reverse", "Caller.begin", "Upsert", "responders", []string{"Pop", "Remove"}},
}

type p3State struct {
	reg      bool
	selfSent bool
	regJust  bool // the registration call has just been made: a test of its error result decides whether it took place
}

func (s *p3State) Key() string  { return fmt.Sprintf("%v|%v|%v", s.reg, s.selfSent, s.regJust) }
func (s *p3State) Copy() PState { n := *s; return &n }

func recvFieldName(info *types.Info, call *ast.CallExpr) string {
	se, ok := ast.Unparen(call.Fun).(*ast.SelectorExpr)
	if !ok {
		return ""
	}
	if fv := fieldOf(info, se.X); fv != nil {
		return fv.Name()
	}
	if id, ok := ast.Unparen(se.X).(*ast.Ident); ok {
		return id.Name
	}
	return ""
}

func methodName(call *ast.CallExpr) string {
	if se, ok := ast.Unparen(call.Fun).(*ast.SelectorExpr); ok {
		return refName(se.Sel.Name)
	}
	return ""
}

func ruleP3(r *Run) {
	p := r.P
	for _, s := range p3Sites {
		key := fmt.Sprintf("pending entry %s.%s", s.pkg, s.fn)
		fd, pkg := p.DeclOf(s.pkg, s.fn)
		if fd == nil {
			r.Undec(key, 0, "function not found")
			continue
		}
		info := pkg.TypesInfo
		var chanObj types.Object
		var regSeen bool
		var regRecv string // the table the entry was registered in (receiver of the register call)
		var regErr types.Object
		var badExit ast.Node
		w := &Walk{Info: info}
		// bool locals that hold the result of a conditional withdrawal
		withdrawVar := map[types.Object]*ast.CallExpr{}
		ast.Inspect(fd.Body, func(n ast.Node) bool {
			if as, ok := n.(*ast.AssignStmt); ok && len(as.Lhs) == 1 && len(as.Rhs) == 1 {
				if c, ok := ast.Unparen(as.Rhs[0]).(*ast.CallExpr); ok && methodName(c) == "RemoveCb" {
					if o := identObj(info, as.Lhs[0]); o != nil {
						withdrawVar[o] = c
					}
				}
			}
			return true
		})
		isChanArg := func(e ast.Expr) types.Object {
			if o := identObj(info, e); o != nil {
				if _, ok := o.Type().Underlying().(*types.Chan); ok {
					return o
				}
			}
			return nil
		}
		w.Event = func(w *Walk, ps PState, n ast.Node) []PState {
			st := ps.(*p3State)
			switch x := n.(type) {
			case *ast.CallExpr:
				name := methodName(x)
				if name == s.register && (s.onField == "" || recvFieldName(info, x) == s.onField) {
					for _, a := range x.Args {
						if o := isChanArg(a); o != nil {
							chanObj = o
							regSeen = true
							regRecv = recvFieldName(info, x)
							// a registration that can be refused (it returns an error): find the variable that receives it
							if as, ok := parentMap(fd.Body)[x].(*ast.AssignStmt); ok && len(as.Lhs) == 1 && isErrorType(info.TypeOf(as.Lhs[0])) {
								regErr = identObj(info, as.Lhs[0])
							}
							return []PState{&p3State{reg: true, selfSent: st.selfSent, regJust: true}}
						}
					}
				}
				for _, wd := range s.withdraw {
					if name == wd && recvFieldName(info, x) == regRecv && st.reg {
						return []PState{&p3State{reg: false, selfSent: st.selfSent}}
					}
				}
			case *ast.UnaryExpr: // <-ch
				if x.Op == token.ARROW && chanObj != nil && identObj(info, x.X) == chanObj && st.reg && !st.selfSent {
					// producers remove the entry before sending: a value from someone else implies the entry is gone
					return []PState{&p3State{reg: false, selfSent: st.selfSent}}
				}
			case *ast.SendStmt:
				if chanObj != nil && identObj(info, x.Chan) == chanObj {
					return []PState{&p3State{reg: st.reg, selfSent: true}}
				}
			}
			return nil
		}
		// conditional withdrawal: `if table.RemoveCb(id, func(.., v, exists) bool { return exists && v == own })`
		// removes the entry only if it is still this function's own; on the true edge it is gone
		w.Branch = func(w *Walk, ps PState, cond ast.Expr, val bool) (PState, bool) {
			st := ps.(*p3State)
			// `if err = table.store(..); err != nil`: on the error edge the entry was refused, nothing is registered
			if st.regJust && regErr != nil {
				if nonNil, ok := testsErrSimple(info, cond, regErr); ok {
					if nonNil == val {
						return &p3State{reg: false, selfSent: st.selfSent}, true
					}
					return &p3State{reg: st.reg, selfSent: st.selfSent}, true
				}
			}
			call, ok := ast.Unparen(cond).(*ast.CallExpr)
			if !ok {
				// withdrawn := table.RemoveCb(..); if !withdrawn { .. }
				if o := identObj(info, cond); o != nil && withdrawVar[o] != nil {
					call, ok = withdrawVar[o], true
				}
			}
			if !ok || methodName(call) != "RemoveCb" || recvFieldName(info, call) != regRecv || !st.reg || len(call.Args) != 2 {
				return ps, true
			}
			own := false
			ast.Inspect(call.Args[1], func(k ast.Node) bool {
				if be, ok := k.(*ast.BinaryExpr); ok && be.Op == token.EQL {
					ast.Inspect(be, func(q ast.Node) bool {
						if id, ok := q.(*ast.Ident); ok && chanObj != nil && info.Uses[id] == chanObj {
							own = true
						}
						return true
					})
				}
				return true
			})
			if own && val {
				return &p3State{reg: false, selfSent: st.selfSent}, true
			}
			return ps, true
		}
		w.Exit = func(w *Walk, ps PState, kind flowKind, at ast.Node) {
			if kind == fPanic {
				return
			}
			if ps.(*p3State).reg && badExit == nil {
				if at == nil {
					at = fd
				}
				badExit = at
			}
		}
		w.Run(fd.Body, &p3State{})
		switch {
		case len(w.Undecided) > 0:
			r.Undec(key, fd.Pos(), strings.Join(w.Undecided, "; "))
		case !regSeen:
			r.Undec(key, fd.Pos(), "registration call "+s.register+" not found")
		case badExit != nil:
			r.Viol(key, badExit.Pos(), fmt.Sprintf("the function returns at %s with its result channel still registered in the shared table and without having received a value from another party: the entry is abandoned (a later response or publish is delivered into a channel nobody reads, pending entries accumulate)", p.Rel(badExit.Pos())))
		default:
			r.Ok(key, fd.Pos(), "every exit withdrew the entry or consumed a value sent by the other side")
		}
	}
	// ---- dual clause: deliveries go only to atomically removed entries; channels buffered
	type tableDef struct{ pkg, removeFn string }
	for _, t := range []tableDef{
		{"rpc/socket", "conn.loadAndDelete"}, {"rpc/udp", "conn.loadAndDelete"}, {"rpc/websocket", "conn.loadAndDelete"},
		{"rpc/plugins/reverse", "resultMap.GetAndDelete"},
	} {
		key := "atomic remove-and-return " + t.pkg + "." + t.removeFn
		fd, pkg := p.DeclOf(t.pkg, t.removeFn)
		if fd == nil {
			r.Undec(key, 0, "function not found")
			continue
		}
		info := pkg.TypesInfo
		// lookup and delete of the same key under one critical section: the function body must
		// contain a map read and a delete of the same map field, both between Lock and Unlock
		// (L1 checks the lock; here: the delete exists and is not conditional on anything but presence)
		var readField, delField *types.Var
		ast.Inspect(fd.Body, func(n ast.Node) bool {
			switch x := n.(type) {
			case *ast.IndexExpr:
				if fv := fieldOf(info, x.X); fv != nil {
					readField = fv
				}
			case *ast.CallExpr:
				if IsBuiltin(info, x, "delete") && len(x.Args) == 2 {
					delField = fieldOf(info, x.Args[0])
				}
			}
			return true
		})
		r.Check(readField != nil && readField == delField, key, fd.Pos(), "lookup and delete of the same table in one function", "the table's remove-and-return no longer deletes the entry it returns: a response that arrives twice is delivered twice")
	}
	// every send of a response into a pending-call channel uses a channel obtained from the
	// remove-and-return function (or handed to the rangeAndClean callback after the swap)
	for _, tr := range []string{"rpc/socket", "rpc/udp", "rpc/websocket"} {
		pkg := p.Pkg(tr)
		if pkg == nil {
			continue
		}
		info := pkg.TypesInfo
		for _, fn := range []string{"conn.receive", "conn.Close"} {
			fd, _ := p.DeclOf(tr, fn)
			key := fmt.Sprintf("delivery source %s.%s", tr, fn)
			if fd == nil {
				r.Undec(key, 0, "function not found")
				continue
			}
			defs := localDefs(info, fd.Body)
			okAll, n := true, 0
			why := ""
			ast.Inspect(fd.Body, func(m ast.Node) bool {
				send, ok := m.(*ast.SendStmt)
				if !ok {
					return true
				}
				n++
				o := identObj(info, send.Chan)
				if o == nil {
					okAll, why = false, "send on a channel expression that is not a local obtained from the table"
					return true
				}
				// (a) parameter of a literal passed to rangeAndClean
				if v, ok := o.(*types.Var); ok {
					isParamOfCallback := false
					ast.Inspect(fd.Body, func(k ast.Node) bool {
						if call, ok := k.(*ast.CallExpr); ok && methodName(call) == "rangeAndClean" && len(call.Args) == 1 {
							if fl, ok := call.Args[0].(*ast.FuncLit); ok {
								for _, pv := range paramsOf(info, fl.Type) {
									if pv == v {
										isParamOfCallback = true
									}
								}
							}
						}
						return true
					})
					if isParamOfCallback {
						return true
					}
				}
				// (c) the value variable of a range over a table that was swapped out (results := c.results; c.results =
				// make(..); for _, ch := range results): the sweep written in place
				if sweptValue(info, fd.Body)[o] {
					return true
				}
				// (b) defined by loadAndDelete(...)
				src := defs[o]
				found := false
				ast.Inspect(fd.Body, func(k ast.Node) bool {
					if as, ok := k.(*ast.AssignStmt); ok {
						for _, l := range as.Lhs {
							if identObj(info, l) == o && len(as.Rhs) == 1 {
								if call, ok := ast.Unparen(as.Rhs[0]).(*ast.CallExpr); ok && methodName(call) == "loadAndDelete" {
									found = true
								}
							}
						}
					}
					return true
				})
				_ = src
				if !found {
					okAll, why = false, "a response is sent to a channel that was not obtained by loadAndDelete (plain lookup leaves the entry in the table: duplicates are delivered twice, unknown ids can block)"
				}
				return true
			})
			if n == 0 {
				r.Undec(key, fd.Pos(), "no delivery found")
			} else {
				r.Check(okAll, key, fd.Pos(), fmt.Sprintf("%d deliveries, all to atomically removed entries", n), why)
			}
		}
		// result channels are created with capacity >= 1 (a delivery never blocks the receive loop)
		fd, _ := p.DeclOf(tr, "conn.Transport")
		key := "buffered result channel " + tr + ".conn.Transport"
		if fd == nil {
			r.Undec(key, 0, "function not found")
			continue
		}
		buffered := false
		ast.Inspect(fd.Body, func(m ast.Node) bool {
			if call, ok := m.(*ast.CallExpr); ok && IsBuiltin(info, call, "make") && len(call.Args) == 2 {
				if _, isChan := info.TypeOf(call.Args[0]).Underlying().(*types.Chan); isChan {
					if c, ok := intConst(info, call.Args[1]); ok && c >= 1 {
						buffered = true
					}
				}
			}
			return true
		})
		r.Check(buffered, key, fd.Pos(), "make(chan data, >=1)", "the per-call result channel is not a channel made for this call with capacity >= 1 (no make(chan T, n) in conn.Transport): an unbuffered channel lets the delivery to a caller that already gave up block the connection's receive loop for everybody, and a recycled one can still receive the response of the call that used it before - the next caller takes that response for its own")
	}
}

// ---------------------------------------------------------------------------------------
// P5

var p5Funcs = []struct{ pkg, fn string }{
	{"rpc/socket", "conn.Transport"}, {"rpc/udp", "conn.Transport"}, {"rpc/websocket", "conn.Transport"},
	{"rpc/mock", "Transport.Transport"}, {"rpc/plugins/reverse", "Caller.InvokeContext"},
	{"rpc/plugins/timeout", "ExecuteTimeout.Handler"},
}

// isCtxDone: expr is <-X.Done() where X is a context.Context
func isCtxDoneRecv(info *types.Info, e ast.Expr) bool {
	u, ok := ast.Unparen(e).(*ast.UnaryExpr)
	if !ok || u.Op != token.ARROW {
		return false
	}
	call, ok := ast.Unparen(u.X).(*ast.CallExpr)
	if !ok {
		return false
	}
	se, ok := call.Fun.(*ast.SelectorExpr)
	if !ok || se.Sel.Name != "Done" {
		return false
	}
	t := info.TypeOf(se.X)
	return t != nil && isNamed(t, "context", "Context")
}

func ruleP5(r *Run) {
	p := r.P
	for _, s := range p5Funcs {
		fd, pkg := p.DeclOf(s.pkg, s.fn)
		if fd == nil {
			r.Undec("waits "+s.pkg+"."+s.fn, 0, "function not found")
			continue
		}
		info := pkg.TypesInfo
		parents := parentMap(fd.Body)
		n := 0
		ast.Inspect(fd.Body, func(m ast.Node) bool {
			if _, ok := m.(*ast.FuncLit); ok {
				return false // goroutine bodies / callbacks are not the caller's wait
			}
			var pos token.Pos
			var what string
			switch x := m.(type) {
			case *ast.SendStmt:
				pos, what = x.Pos(), "send "+types.ExprString(x.Chan)
			case *ast.UnaryExpr:
				if x.Op != token.ARROW {
					return true
				}
				pos, what = x.Pos(), "receive "+types.ExprString(x.X)
			default:
				return true
			}
			n++
			key := fmt.Sprintf("wait #%d in %s.%s", n, s.pkg, s.fn)
			// find the enclosing select comm clause
			var sel *ast.SelectStmt
			for y := parents[m]; y != nil; y = parents[y] {
				if cc, ok := y.(*ast.CommClause); ok {
					// only counts if the operation is the clause's own communication
					inComm := false
					if cc.Comm != nil {
						ast.Inspect(cc.Comm, func(k ast.Node) bool {
							if k == m {
								inComm = true
							}
							return true
						})
					}
					if inComm {
						if bs, ok := parents[cc].(*ast.BlockStmt); ok {
							sel, _ = parents[bs].(*ast.SelectStmt)
						}
					}
					break
				}
			}
			if sel == nil {
				if ss, isSend := m.(*ast.SendStmt); isSend && handOverSend(pkg, fd, ss) {
					r.Ok(key, pos, "the one send into a buffered channel that this function has taken out of the table (Pop): it does not wait")
					return true
				}
				r.Viol(key, pos, fmt.Sprintf("blocking %s on the call path is not a case of a select: the call cannot be cancelled or time out while it waits here", what))
				return true
			}
			hasDone, hasDefault := false, false
			for _, cs := range sel.Body.List {
				cc := cs.(*ast.CommClause)
				if cc.Comm == nil {
					hasDefault = true
					continue
				}
				switch c := cc.Comm.(type) {
				case *ast.ExprStmt:
					if isCtxDoneRecv(info, c.X) {
						hasDone = true
					}
				case *ast.AssignStmt:
					if len(c.Rhs) == 1 && isCtxDoneRecv(info, c.Rhs[0]) {
						hasDone = true
					}
				}
			}
			if hasDone || hasDefault {
				r.Ok(key, pos, "select with ctx.Done() (or default)")
			} else {
				r.Viol(key, pos, fmt.Sprintf("select containing %s has no <-ctx.Done() case: the wait ignores cancellation and the call's deadline", what))
			}
			return true
		})
	}
}

// sweptValue: the value variables of `for k, v := range L` where L is a local that took a map field of channels
// (L := x.F) which the same function then replaced by a fresh map (x.F = make(..)): every entry is delivered to exactly once
// and is no longer in the table.
func sweptValue(info *types.Info, body ast.Node) map[types.Object]bool {
	out := map[types.Object]bool{}
	taken := map[types.Object]*types.Var{}
	replaced := map[*types.Var]bool{}
	ast.Inspect(body, func(n ast.Node) bool {
		as, ok := n.(*ast.AssignStmt)
		if !ok || len(as.Lhs) != 1 || len(as.Rhs) != 1 {
			return true
		}
		if fv := fieldOf(info, as.Rhs[0]); fv != nil {
			if mt, isMap := fv.Type().Underlying().(*types.Map); isMap {
				if _, isChan := mt.Elem().Underlying().(*types.Chan); isChan {
					if o := identObj(info, as.Lhs[0]); o != nil {
						taken[o] = fv
					}
				}
			}
		}
		if fv := fieldOf(info, as.Lhs[0]); fv != nil {
			if c, isCall := ast.Unparen(as.Rhs[0]).(*ast.CallExpr); isCall && IsBuiltin(info, c, "make") {
				replaced[fv] = true
			}
		}
		return true
	})
	ast.Inspect(body, func(n ast.Node) bool {
		rs, ok := n.(*ast.RangeStmt)
		if !ok || rs.Value == nil {
			return true
		}
		if l := identObj(info, rs.X); l != nil && taken[l] != nil && replaced[taken[l]] {
			if id, isId := rs.Value.(*ast.Ident); isId {
				if o := info.Defs[id]; o != nil {
					out[o] = true
				}
			}
		}
		return true
	})
	return out
}

// handOverSend: the send hands a value to a parked party and cannot wait - the channel is a local obtained by an exclusive
// removal from a table (x, ok := table.Pop(id); ch := x.(chan T)), every make of that channel type in the package has a
// constant capacity >= 1, and it is the only send statement on that variable in the function.
func handOverSend(pkg *packages.Package, fd *ast.FuncDecl, ss *ast.SendStmt) bool {
	info := pkg.TypesInfo
	ch := identObj(info, ss.Chan)
	if ch == nil {
		return false
	}
	sends := 0
	popped := false
	ast.Inspect(fd.Body, func(n ast.Node) bool {
		switch x := n.(type) {
		case *ast.SendStmt:
			if identObj(info, x.Chan) == ch {
				sends++
			}
		case *ast.AssignStmt:
			if len(x.Lhs) != 1 || len(x.Rhs) != 1 || identObj(info, x.Lhs[0]) != ch {
				return true
			}
			ta, ok := ast.Unparen(x.Rhs[0]).(*ast.TypeAssertExpr)
			if !ok {
				return true
			}
			src := identObj(info, ta.X)
			if src == nil {
				return true
			}
			ast.Inspect(fd.Body, func(q ast.Node) bool {
				as, ok := q.(*ast.AssignStmt)
				if !ok || len(as.Rhs) != 1 || len(as.Lhs) == 0 || identObj(info, as.Lhs[0]) != src {
					return true
				}
				if c, ok := ast.Unparen(as.Rhs[0]).(*ast.CallExpr); ok && refName(methodName(c)) == "Pop" {
					popped = true
				}
				return true
			})
		}
		return true
	})
	if sends != 1 || !popped {
		return false
	}
	makes, buffered := 0, 0
	for _, file := range pkg.Syntax {
		ast.Inspect(file, func(n ast.Node) bool {
			c, ok := n.(*ast.CallExpr)
			if !ok || !IsBuiltin(info, c, "make") || len(c.Args) == 0 {
				return true
			}
			if t := info.TypeOf(c.Args[0]); t == nil || !types.Identical(t, ch.Type()) {
				return true
			}
			makes++
			if len(c.Args) == 2 {
				if v, ok := intConst(info, c.Args[1]); ok && v >= 1 {
					buffered++
				}
			}
			return true
		})
	}
	return makes > 0 && makes == buffered
}

// ---------------------------------------------------------------------------------------
// P1

type p1aState struct{ took, timedOut, errSet bool }

func (s *p1aState) Key() string  { return fmt.Sprintf("%v|%v|%v", s.took, s.timedOut, s.errSet) }
func (s *p1aState) Copy() PState { n := *s; return &n }

type p1State struct {
	acquired int // 0 unknown/not, 1 acquired (err == nil), 2 failed
	deferRel bool
	stale    bool // the error variable has been reassigned since Acquire: a test of it says nothing about the permit
}

func (s *p1State) Key() string  { return fmt.Sprintf("%d|%v|%v", s.acquired, s.deferRel, s.stale) }
func (s *p1State) Copy() PState { n := *s; return &n }

func ruleP1(r *Run) {
	p := r.P
	fd, pkg := p.DeclOf("rpc/plugins/limiter", "ConcurrentLimiter.Handler")
	if fd == nil {
		r.Undec("limiter handler", 0, "ConcurrentLimiter.Handler not found")
		return
	}
	info := pkg.TypesInfo
	acq := p.LookupFunc("rpc/plugins/limiter", "ConcurrentLimiter.Acquire")
	rel := p.LookupFunc("rpc/plugins/limiter", "ConcurrentLimiter.Release")
	var errObj types.Object
	badNext, okNext := "", 0
	w := &Walk{Info: info}
	w.Event = func(w *Walk, ps PState, n ast.Node) []PState {
		st := ps.(*p1State)
		switch x := n.(type) {
		case *ast.AssignStmt:
			if len(x.Rhs) == 1 {
				if call, ok := ast.Unparen(x.Rhs[0]).(*ast.CallExpr); ok && Callee(info, call) == acq && acq != nil {
					errObj = identObj(info, x.Lhs[0])
					return []PState{&p1State{acquired: 0, deferRel: st.deferRel}}
				}
			}
			// any other assignment to the error variable: from here on `err != nil` is about something else
			for _, l := range x.Lhs {
				if errObj != nil && identObj(info, l) == errObj {
					ns := st.Copy().(*p1State)
					ns.stale = true
					return []PState{ns}
				}
			}
		case *ast.DeferStmt:
			if Callee(info, x.Call) == rel && rel != nil {
				return []PState{&p1State{acquired: st.acquired, deferRel: true}}
			}
		case *ast.CallExpr:
			x2 := &r2{p: p}
			if h := x2.hazardCall(info, x); strings.HasPrefix(h, "request-path callback") {
				if st.acquired == 1 && st.deferRel {
					okNext++
				} else if badNext == "" {
					switch {
					case st.acquired != 1:
						badNext = "next is reachable on a path where Acquire did not return nil (no permit held)"
					default:
						badNext = "next is called without Release registered by defer: a panicking or failing downstream handler leaks the permit and the limiter eventually wedges"
					}
				}
			}
		}
		return nil
	}
	w.Branch = func(w *Walk, ps PState, cond ast.Expr, val bool) (PState, bool) {
		st := ps.(*p1State)
		be, ok := cond.(*ast.BinaryExpr)
		if !ok || errObj == nil || (be.Op != token.NEQ && be.Op != token.EQL) {
			return nil, true
		}
		isNilId := func(e ast.Expr) bool { id, ok := ast.Unparen(e).(*ast.Ident); return ok && id.Name == "nil" }
		if identObj(info, be.X) == errObj && isNilId(be.Y) && !st.stale {
			isNil := val == (be.Op == token.EQL)
			ns := st.Copy().(*p1State)
			if isNil {
				ns.acquired = 1
			} else {
				ns.acquired = 2
			}
			return ns, true
		}
		return nil, true
	}
	leak := ""
	surplus := ""
	w.Exit = func(w *Walk, ps PState, kind flowKind, at ast.Node) {
		st := ps.(*p1State)
		// a Release that runs although no permit was taken: registered by defer BEFORE Acquire, it also runs on the exit
		// where Acquire failed (or was never reached) and gives back the permit of a call that is still running
		if st.deferRel && st.acquired != 1 && surplus == "" {
			surplus = "the end of the function"
			if at != nil {
				surplus = p.Rel(at.Pos())
			}
		}
		if st.acquired == 1 && !st.deferRel && leak == "" {
			leak = "the end of the function"
			if at != nil {
				leak = p.Rel(at.Pos())
			}
		}
	}
	w.Run(fd.Body, &p1State{})
	if len(w.Undecided) == 0 {
		r.Check(leak == "", "no exit of ConcurrentLimiter.Handler keeps the permit", fd.Pos(), "every exit after a successful Acquire runs Release", "ConcurrentLimiter.Handler can leave (at "+leak+") after Acquire succeeded and before Release is registered with defer: the permit is never given back; after max such requests the limiter admits nothing any more")
	}
	if len(w.Undecided) == 0 {
		r.Check(surplus == "", "no exit of ConcurrentLimiter.Handler releases a permit it did not take", fd.Pos(), "Release is registered only after Acquire has succeeded", "ConcurrentLimiter.Handler can leave (at "+surplus+") with Release registered although Acquire did not return nil: the waiter that gave up releases a permit it never took - the token of a request that is still running - and every such waiter lets one more request than configured run at once")
	}
	key := "permit held around next in ConcurrentLimiter.Handler"
	switch {
	case len(w.Undecided) > 0:
		r.Undec(key, fd.Pos(), strings.Join(w.Undecided, "; "))
	case badNext != "":
		r.Viol(key, fd.Pos(), badNext)
	case okNext == 0:
		r.Undec(key, fd.Pos(), "no call of next found")
	default:
		r.Ok(key, fd.Pos(), "next only after Acquire()==nil with deferred Release")
	}
	// Release is a receive from the semaphore; Acquire's permit is a send on it
	afd, _ := p.DeclOf("rpc/plugins/limiter", "ConcurrentLimiter.Acquire")
	rfd, _ := p.DeclOf("rpc/plugins/limiter", "ConcurrentLimiter.Release")
	if afd == nil || rfd == nil {
		r.Undec("limiter semaphore", 0, "Acquire/Release not found")
		return
	}
	sends, recvs := 0, 0
	var semField *types.Var
	ast.Inspect(afd.Body, func(n ast.Node) bool {
		if s, ok := n.(*ast.SendStmt); ok {
			sends++
			semField = fieldOf(info, s.Chan)
		}
		return true
	})
	ast.Inspect(rfd.Body, func(n ast.Node) bool {
		if u, ok := n.(*ast.UnaryExpr); ok && u.Op == token.ARROW && fieldOf(info, u.X) == semField && semField != nil {
			recvs++
		}
		return true
	})
	// every send on the semaphore in Acquire is one case of a select that also waits on the caller's context
	{
		aparents := parentMap(afd.Body)
		ctxParams := map[types.Object]bool{}
		for _, pv := range paramsOf(info, afd.Type) {
			if isNamed(pv.Type(), "context", "Context") {
				ctxParams[pv] = true
			}
		}
		bare := ""
		ast.Inspect(afd.Body, func(n ast.Node) bool {
			s, ok := n.(*ast.SendStmt)
			if !ok || fieldOf(info, s.Chan) != semField || semField == nil {
				return true
			}
			listens := false
			if cc, ok := aparents[s].(*ast.CommClause); ok && cc.Comm == ast.Stmt(s) {
				if sel, ok := aparents[aparents[cc]].(*ast.SelectStmt); ok {
					for _, cs := range sel.Body.List {
						if es, ok := cs.(*ast.CommClause).Comm.(*ast.ExprStmt); ok {
							if u, ok := ast.Unparen(es.X).(*ast.UnaryExpr); ok && u.Op == token.ARROW {
								if c, ok := ast.Unparen(u.X).(*ast.CallExpr); ok && methodName(c) == "Done" {
									if se, ok := ast.Unparen(c.Fun).(*ast.SelectorExpr); ok && ctxDerived(info, afd.Body, se.X, ctxParams, 0) {
										listens = true
									}
								}
							}
						}
					}
				}
			}
			if !listens {
				bare = p.Rel(s.Pos())
			}
			return true
		})
		r.Check(bare == "", "a call queued in the limiter honours its own context", afd.Pos(), "every wait for a permit is a select with the caller's context", "Acquire waits for a permit with a bare send on the semaphore (at "+bare+"): a call that is queued behind a full limiter ignores its deadline and its cancellation, and Abort cannot reach it - it returns only when some other request ends")
	}
	r.Check(sends >= 1 && recvs == 1, "Release returns exactly one permit to the semaphore Acquire takes from", rfd.Pos(), "one receive on the semaphore channel", "Release does not perform exactly one receive on the channel Acquire sends to")
	// timeout branch of Acquire performs no send: in the select, the ctx.Done() clause body has no send
	okTimeout := true
	nSel := 0
	ast.Inspect(afd.Body, func(n ast.Node) bool {
		sel, ok := n.(*ast.SelectStmt)
		if !ok {
			return true
		}
		nSel++
		for _, cs := range sel.Body.List {
			cc := cs.(*ast.CommClause)
			isDone := false
			if es, ok := cc.Comm.(*ast.ExprStmt); ok && isCtxDoneRecv(info, es.X) {
				isDone = true
			}
			if isDone {
				for _, b := range cc.Body {
					ast.Inspect(b, func(m ast.Node) bool {
						if _, ok := m.(*ast.SendStmt); ok {
							okTimeout = false
						}
						return true
					})
				}
				// and it must set the error
				setsErr := false
				for _, b := range cc.Body {
					if as, ok := b.(*ast.AssignStmt); ok {
						for _, l := range as.Lhs {
							if t := info.TypeOf(l); t != nil && types.Identical(t, types.Universe.Lookup("error").Type()) {
								setsErr = true
							}
						}
					}
					if _, ok := b.(*ast.ReturnStmt); ok {
						setsErr = true
					}
				}
				if !setsErr {
					okTimeout = false
				}
			}
		}
		return true
	})
	// path-sensitive: after the send arm was taken no error may be assigned/returned, and after
	// the Done arm was taken the function must end with an error
	{
		type st = p1aState
		errT := types.Universe.Lookup("error").Type()
		bad := ""
		w := &Walk{Info: info}
		w.Event = func(w *Walk, ps PState, n ast.Node) []PState {
			s0 := ps.(*st)
			switch x := n.(type) {
			case *ast.CommClause:
				if x.Comm == nil {
					return nil
				}
				if _, ok := x.Comm.(*ast.SendStmt); ok {
					return []PState{&st{took: true}}
				}
				if es, ok := x.Comm.(*ast.ExprStmt); ok && isCtxDoneRecv(info, es.X) {
					return []PState{&st{timedOut: true}}
				}
			case *ast.SendStmt:
				return []PState{&st{took: true, timedOut: s0.timedOut, errSet: s0.errSet}}
			case *ast.AssignStmt:
				for i, l := range x.Lhs {
					if t := info.TypeOf(l); t != nil && types.Identical(t, errT) {
						if i < len(x.Rhs) {
							if id, ok := ast.Unparen(x.Rhs[i]).(*ast.Ident); ok && id.Name == "nil" {
								continue
							}
						}
						if s0.took && bad == "" {
							bad = "an error is assigned after the permit was taken (send arm): Acquire reports failure while holding a permit that Handler will never release"
						}
						return []PState{&st{took: s0.took, timedOut: s0.timedOut, errSet: true}}
					}
				}
			}
			return nil
		}
		w.Exit = func(w *Walk, ps PState, kind flowKind, at ast.Node) {
			s0 := ps.(*st)
			if s0.timedOut && !s0.took && !s0.errSet && bad == "" {
				bad = "the timed-out path returns without an error"
			}
		}
		w.Run(afd.Body, &st{})
		if bad != "" {
			okTimeout = false
			_ = bad
		}
	}
	r.Check(nSel >= 1 && okTimeout, "timed-out Acquire takes no permit and reports an error", afd.Pos(), "ctx.Done() clause sets the error and sends nothing", "the timeout branch of Acquire takes a permit or reports success: a request that timed out waiting consumes a permit that is never released")
	// the unconditional send path returns nil only after the send
	r.Check(sends >= 1, "Acquire takes the permit by a send on the semaphore", afd.Pos(), fmt.Sprintf("%d send(s)", sends), "Acquire no longer sends on the semaphore channel")
}

// ---------------------------------------------------------------------------------------
// P2

func ruleP2(r *Run) {
	p := r.P
	for _, fn := range []string{"LeastActiveLoadBalance.Handler", "WeightedLeastActiveLoadBalance.Handler"} {
		key := "in-flight counter " + fn
		fd, pkg := p.DeclOf("rpc/plugins/loadbalance", fn)
		if fd == nil {
			r.Undec(key, 0, "function not found")
			continue
		}
		info := pkg.TypesInfo
		// find the increment x.actives[i]++ , the deferred literal with x.actives[i]--, and the next call
		var incPos, decDeferPos, nextPos token.Pos
		var incIdx, decIdx types.Object
		decUnderLock := false
		ast.Inspect(fd.Body, func(n ast.Node) bool {
			switch x := n.(type) {
			case *ast.IncDecStmt:
				if ie, ok := ast.Unparen(x.X).(*ast.IndexExpr); ok {
					if fv := fieldOf(info, ie.X); fv != nil && fv.Name() == "actives" {
						if x.Tok == token.INC && !incPos.IsValid() {
							incPos, incIdx = x.Pos(), identObj(info, ie.Index)
						}
					}
				}
			case *ast.AssignStmt:
				// actives[i] += delta with delta a local that holds the constant 1 (a counter helper substituted for its call)
				if x.Tok == token.ADD_ASSIGN && len(x.Lhs) == 1 && len(x.Rhs) == 1 && !incPos.IsValid() {
					if ie, ok := ast.Unparen(x.Lhs[0]).(*ast.IndexExpr); ok {
						if fv := fieldOf(info, ie.X); fv != nil && fv.Name() == "actives" {
							if v, ok := localConst(info, fd.Body, x.Rhs[0]); ok && v == 1 {
								incPos, incIdx = x.Pos(), identObj(info, ie.Index)
							}
						}
					}
				}
			case *ast.DeferStmt:
				if fl, ok := ast.Unparen(x.Call.Fun).(*ast.FuncLit); ok {
					ast.Inspect(fl.Body, func(m ast.Node) bool {
						if d, ok := m.(*ast.IncDecStmt); ok && d.Tok == token.DEC {
							if ie, ok := ast.Unparen(d.X).(*ast.IndexExpr); ok {
								if fv := fieldOf(info, ie.X); fv != nil && fv.Name() == "actives" {
									decDeferPos, decIdx = x.Pos(), identObj(info, ie.Index)
								}
							}
						}
						if c, ok := m.(*ast.CallExpr); ok {
							if mv, op := lockOp(info, c); mv != nil && op == "Lock" {
								decUnderLock = true
							}
						}
						return true
					})
				}
			case *ast.CallExpr:
				x2 := &r2{p: p}
				if h := x2.hazardCall(info, x); strings.HasPrefix(h, "request-path callback") && !nextPos.IsValid() {
					nextPos = x.Pos()
				}
			}
			return true
		})
		// the same through a counter helper of the balancer: addActive(index, +1); defer addActive(index, -1)
		// where the helper does actives[param] += delta between Lock and Unlock
		if !incPos.IsValid() || !decDeferPos.IsValid() {
			isCounterHelper := func(call *ast.CallExpr) (idxArg ast.Expr, delta int64, locked, ok bool) {
				d, cpkg := p.calleeDecl(info, call)
				if d == nil || len(call.Args) != 2 {
					return nil, 0, false, false
				}
				ci := cpkg.TypesInfo
				params := paramsOf(ci, d.Type)
				if len(params) != 2 || params[0] == nil || params[1] == nil {
					return nil, 0, false, false
				}
				adds := false
				ast.Inspect(d.Body, func(m ast.Node) bool {
					if as, isA := m.(*ast.AssignStmt); isA && as.Tok == token.ADD_ASSIGN && len(as.Lhs) == 1 && len(as.Rhs) == 1 {
						if ie, isI := ast.Unparen(as.Lhs[0]).(*ast.IndexExpr); isI {
							if fv := fieldOf(ci, ie.X); fv != nil && fv.Name() == "actives" && identObj(ci, ie.Index) == types.Object(params[0]) && identObj(ci, as.Rhs[0]) == types.Object(params[1]) {
								adds = true
							}
						}
					}
					if c, isC := m.(*ast.CallExpr); isC {
						if mv, op := lockOp(ci, c); mv != nil && op == "Lock" {
							locked = true
						}
					}
					return true
				})
				if !adds {
					return nil, 0, false, false
				}
				dv, isConst := intConst(info, call.Args[1])
				if !isConst {
					return nil, 0, false, false
				}
				return call.Args[0], dv, locked, true
			}
			ast.Inspect(fd.Body, func(n ast.Node) bool {
				switch x := n.(type) {
				case *ast.ExprStmt:
					if c, isC := x.X.(*ast.CallExpr); isC {
						if ia, dv, _, ok := isCounterHelper(c); ok && dv == 1 && !incPos.IsValid() {
							incPos, incIdx = c.Pos(), identObj(info, ia)
						}
					}
				case *ast.DeferStmt:
					if ia, dv, locked, ok := isCounterHelper(x.Call); ok && dv == -1 && !decDeferPos.IsValid() {
						decDeferPos, decIdx = x.Pos(), identObj(info, ia)
						decUnderLock = locked
					}
				}
				return true
			})
		}
		switch {
		case !incPos.IsValid() || !nextPos.IsValid():
			r.Undec(key, fd.Pos(), "increment or downstream call not found")
		case !decDeferPos.IsValid():
			r.Viol(key, incPos, "actives[i]++ has no deferred actives[i]--: a failing or panicking call leaves the in-flight count raised for ever and the balancer avoids that server")
		case decIdx != incIdx:
			r.Viol(key, decDeferPos, "the deferred decrement uses a different index variable than the increment")
		case !(incPos < nextPos && decDeferPos < nextPos):
			r.Viol(key, decDeferPos, "the decrement is not registered by defer before the downstream call")
		case !decUnderLock:
			r.Viol(key, decDeferPos, "the deferred decrement does not take the balancer's lock")
		default:
			r.Ok(key, incPos, "increment, deferred decrement of the same index under the lock, then next")
		}
	}
	_ = packages.NeedName
}

// ---------------------------------------------------------------------------------------
// P4 / P3w / P3c / L6 (added after independent seeding showed the gaps)

func init() {
	register("P4", "Client.Transport registers the call's cancel function for Abort under the lock and removes it by defer; Client.Abort visits EVERY registered cancel function (a container/list loop that removes the current element must save its successor first) and calls it", 3, ruleP4)
	register("P3w", "while a call is registered in the pending table every select it blocks in has a case receiving from its own result channel, because connection loss and Abort are delivered through that channel", 6, ruleP3w)
	register("P3c", "a response whose id matches no pending call is discarded: on the not-found path conn.receive reports no error (an error there closes the shared connection and fails every other caller)", 3, ruleP3c)
	register("L6", "a batch taken out of a lock-guarded queue/table does not share storage with the live one: after `taken = x.f` the field is replaced by nil or a fresh allocation, never by a reslice of itself", 5, ruleL6)
}

func ruleP4(r *Run) {
	p := r.P
	// (a) list loops that remove the current element
	n := 0
	p.EachFunc(func(pkg *packages.Package, fd *ast.FuncDecl) {
		info := pkg.TypesInfo
		ast.Inspect(fd.Body, func(m ast.Node) bool {
			fs, ok := m.(*ast.ForStmt)
			if !ok || fs.Init == nil {
				return true
			}
			as, ok := fs.Init.(*ast.AssignStmt)
			if !ok || len(as.Rhs) != 1 {
				return true
			}
			c, ok := ast.Unparen(as.Rhs[0]).(*ast.CallExpr)
			if !ok || methodName(c) != "Front" {
				return true
			}
			if t := info.TypeOf(as.Lhs[0]); t == nil || !isNamed(t, "container/list", "Element") {
				return true
			}
			e := identObj(info, as.Lhs[0])
			n++
			key := fmt.Sprintf("list iteration in %s #%d", p.DeclName(fd), n)
			removes := false
			ast.Inspect(fs.Body, func(k ast.Node) bool {
				if call, ok := k.(*ast.CallExpr); ok && methodName(call) == "Remove" && len(call.Args) == 1 && identObj(info, call.Args[0]) == e {
					removes = true
				}
				return true
			})
			if !removes {
				r.Ok(key, fs.Pos(), "no removal during iteration")
				return true
			}
			// post statement must not be e = e.Next() (Remove clears e.next): successor saved before
			bad := false
			if ps, ok := fs.Post.(*ast.AssignStmt); ok && len(ps.Rhs) == 1 {
				if pc, ok := ast.Unparen(ps.Rhs[0]).(*ast.CallExpr); ok && methodName(pc) == "Next" {
					if se, ok := pc.Fun.(*ast.SelectorExpr); ok && identObj(info, se.X) == e {
						bad = true
					}
				}
			}
			if bad {
				r.Viol(key, fs.Pos(), "the loop removes the current list element and then advances with e = e.Next(): list.Remove clears the element's links, so the loop ends after the first element (Abort cancels only the oldest pending call)")
			} else {
				r.Ok(key, fs.Pos(), "successor saved before the removal")
			}
			return true
		})
	})
	// (b) Client.Transport: PushBack under the lock, deferred Remove + cancel
	fd, pkg := p.DeclOf("rpc/core", "Client.Transport")
	if fd == nil {
		r.Undec("cancel registration", 0, "Client.Transport not found")
		return
	}
	info := pkg.TypesInfo
	push, deferredRemove, deferredCancel := false, false, false
	// looked for in Client.Transport and in the repository helpers it calls (the lock/unlock
	// pairs are often moved into small register/unregister helpers)
	p.deepInspect(info, fd.Body, 2, func(ci *types.Info, m ast.Node) bool {
		if x, ok := m.(*ast.CallExpr); ok && methodName(x) == "PushBack" && recvFieldName(ci, x) == "cancelFuncs" {
			push = true
		}
		return true
	})
	ast.Inspect(fd.Body, func(m ast.Node) bool {
		x, ok := m.(*ast.DeferStmt)
		if !ok {
			return true
		}
		var body ast.Node
		dinfo := info
		if fl, ok := ast.Unparen(x.Call.Fun).(*ast.FuncLit); ok {
			body = fl.Body
		} else if d, cpkg := p.calleeDecl(info, x.Call); d != nil {
			body, dinfo = d.Body, cpkg.TypesInfo
		}
		if body == nil {
			return true
		}
		p.deepInspect(dinfo, body, 2, func(ci *types.Info, k ast.Node) bool {
			if c, ok := k.(*ast.CallExpr); ok {
				if methodName(c) == "Remove" && recvFieldName(ci, c) == "cancelFuncs" {
					deferredRemove = true
				}
				if id, ok := ast.Unparen(c.Fun).(*ast.Ident); ok {
					if v, ok := ci.Uses[id].(*types.Var); ok && isNamed(v.Type(), "context", "CancelFunc") {
						deferredCancel = true
					}
				}
			}
			return true
		})
		return true
	})
	r.Check(push && deferredRemove && deferredCancel, "cancel function registered for Abort and withdrawn by defer in Client.Transport", fd.Pos(), "PushBack + deferred Remove and cancel", "Client.Transport does not register the call's cancel function and remove it (and cancel) by defer: Abort cannot reach the call, or entries accumulate")
	// (c) Abort calls every cancel function it removes
	afd, _ := p.DeclOf("rpc/core", "Client.Abort")
	if afd == nil {
		r.Undec("Abort cancels", 0, "Client.Abort not found")
		return
	}
	calls := false
	p.deepInspect(info, afd.Body, 2, func(ci *types.Info, m ast.Node) bool {
		if c, ok := m.(*ast.CallExpr); ok {
			if ta, ok := ast.Unparen(c.Fun).(*ast.TypeAssertExpr); ok {
				if t := ci.TypeOf(ta.Type); t != nil && isNamed(t, "context", "CancelFunc") {
					calls = true
				}
			}
		}
		return true
	})
	r.Check(calls, "Abort invokes the removed cancel functions", afd.Pos(), "cancelFunc.(context.CancelFunc)()", "Client.Abort no longer invokes the cancel functions it removes")
}

func ruleP3w(r *Run) {
	p := r.P
	for _, s := range p3Sites[:4] {
		fd, pkg := p.DeclOf(s.pkg, s.fn)
		if fd == nil {
			r.Undec("waits while registered "+s.pkg+"."+s.fn, 0, "function not found")
			continue
		}
		info := pkg.TypesInfo
		var regPos token.Pos
		var chanObj types.Object
		ast.Inspect(fd.Body, func(m ast.Node) bool {
			if call, ok := m.(*ast.CallExpr); ok && methodName(call) == s.register && !regPos.IsValid() {
				for _, a := range call.Args {
					if o := identObj(info, a); o != nil {
						if _, ok := o.Type().Underlying().(*types.Chan); ok {
							regPos, chanObj = call.Pos(), o
						}
					}
				}
			}
			return true
		})
		if chanObj == nil {
			r.Undec("waits while registered "+s.pkg+"."+s.fn, fd.Pos(), "registration not found")
			continue
		}
		k := 0
		ast.Inspect(fd.Body, func(m ast.Node) bool {
			if _, ok := m.(*ast.FuncLit); ok {
				return false
			}
			sel, ok := m.(*ast.SelectStmt)
			if !ok || sel.Pos() < regPos {
				return true
			}
			k++
			key := fmt.Sprintf("select #%d after registration in %s.%s", k, s.pkg, s.fn)
			has := false
			for _, cs := range sel.Body.List {
				cc := cs.(*ast.CommClause)
				if cc.Comm == nil {
					continue
				}
				ast.Inspect(cc.Comm, func(x ast.Node) bool {
					if u, ok := x.(*ast.UnaryExpr); ok && u.Op == token.ARROW && identObj(info, u.X) == chanObj {
						has = true
					}
					return true
				})
			}
			if has {
				r.Ok(key, sel.Pos(), "has a case receiving from the call's result channel")
			} else {
				r.Viol(key, sel.Pos(), "the call is already registered but this select has no case receiving from its result channel: a connection loss or Abort, which is delivered through that channel, does not wake the caller here and it waits for its deadline (or for ever)")
			}
			return true
		})
	}
}

type p3cState struct{ miss bool }

func (s *p3cState) Key() string  { return fmt.Sprintf("%v", s.miss) }
func (s *p3cState) Copy() PState { n := *s; return &n }

func ruleP3c(r *Run) {
	p := r.P
	for _, tr := range []string{"rpc/socket", "rpc/udp", "rpc/websocket"} {
		key := "unknown id discarded silently " + tr + ".conn.receive"
		fd, pkg := p.DeclOf(tr, "conn.receive")
		if fd == nil {
			r.Undec(key, 0, "function not found")
			continue
		}
		info := pkg.TypesInfo
		// the `loaded` result of loadAndDelete
		var loadedObj types.Object
		ast.Inspect(fd.Body, func(m ast.Node) bool {
			if as, ok := m.(*ast.AssignStmt); ok && len(as.Rhs) == 1 && len(as.Lhs) == 2 {
				if c, ok := ast.Unparen(as.Rhs[0]).(*ast.CallExpr); ok && methodName(c) == "loadAndDelete" {
					loadedObj = identObj(info, as.Lhs[1])
				}
			}
			return true
		})
		if loadedObj == nil {
			r.Undec(key, fd.Pos(), "loadAndDelete result not found")
			continue
		}
		bad := ""
		var badPos token.Pos
		errT := types.Universe.Lookup("error").Type()
		w := &Walk{Info: info}
		w.Branch = func(w *Walk, ps PState, cond ast.Expr, val bool) (PState, bool) {
			if identObj(info, cond) == loadedObj {
				return &p3cState{miss: !val}, true
			}
			return nil, true
		}
		w.Event = func(w *Walk, ps PState, n ast.Node) []PState {
			st := ps.(*p3cState)
			if !st.miss {
				return nil
			}
			switch x := n.(type) {
			case *ast.AssignStmt:
				for i, l := range x.Lhs {
					if t := info.TypeOf(l); t != nil && types.Identical(t, errT) {
						if i < len(x.Rhs) {
							if id, ok := ast.Unparen(x.Rhs[i]).(*ast.Ident); ok && id.Name == "nil" {
								continue
							}
						}
						bad, badPos = "an error is assigned on the path where the response's id matched no pending call", x.Pos()
					}
				}
			case *ast.ReturnStmt:
				for _, res := range x.Results {
					if t := info.TypeOf(res); t != nil && types.Implements(t, errT.Underlying().(*types.Interface)) {
						if id, ok := ast.Unparen(res).(*ast.Ident); ok && (id.Name == "nil" || id.Name == "err") {
							continue
						}
						bad, badPos = "an error is returned on the path where the response's id matched no pending call", x.Pos()
					}
				}
			case *ast.CallExpr:
				if methodName(x) == "Close" {
					bad, badPos = "the connection is closed on the path where the response's id matched no pending call", x.Pos()
				}
			}
			return nil
		}
		w.Run(fd.Body, &p3cState{})
		if bad != "" {
			r.Viol(key, badPos, bad+": a late or duplicate response tears down the shared connection and fails every other call in flight")
		} else {
			r.Ok(key, fd.Pos(), "not-found path reports nothing")
		}
	}
}

func ruleL6(r *Run) {
	p := r.P
	guarded := map[*types.Var]bool{}
	for _, e := range l1Table {
		if f := p.LookupField(e.pkg, e.typ, e.field); f != nil {
			guarded[f] = true
		}
	}
	// (b) a guarded slice/map field is never made an alias of another field or of a parameter:
	// the balancers' working copies (effectiveWeights ...) are modified at run time and compared
	// with the configured values they were copied from
	p.EachFunc(func(pkg *packages.Package, fd *ast.FuncDecl) {
		info := pkg.TypesInfo
		params := map[types.Object]bool{}
		for _, pv := range paramsOf(info, fd.Type) {
			if pv != nil {
				params[pv] = true
			}
		}
		ast.Inspect(fd.Body, func(m ast.Node) bool {
			as, ok := m.(*ast.AssignStmt)
			if !ok || len(as.Lhs) != len(as.Rhs) {
				return true
			}
			for i, l := range as.Lhs {
				fv := fieldOf(info, l)
				if fv == nil || !guarded[fv] {
					continue
				}
				switch fv.Type().Underlying().(type) {
				case *types.Slice, *types.Map:
				default:
					continue
				}
				rhs := ast.Unparen(as.Rhs[i])
				base := rhs
				if se, ok := base.(*ast.SliceExpr); ok {
					base = ast.Unparen(se.X)
				}
				alias := ""
				if of := fieldOf(info, base); of != nil && of != fv {
					alias = "field " + of.Name()
				}
				if o := identObj(info, base); o != nil && params[o] {
					alias = "parameter " + o.Name()
				}
				key := fmt.Sprintf("fresh storage for %s in %s", fv.Name(), p.DeclName(fd))
				if alias != "" {
					r.Viol(key, as.Pos(), fmt.Sprintf("the lock-guarded working field %s is set to %s, an alias of %s: run-time updates of %s also change the value it was derived from (a balancer's reduced weight can never be restored, configured values drift)", fv.Name(), types.ExprString(rhs), alias, fv.Name()))
				} else {
					r.Ok(key, as.Pos(), "not an alias of another field or of a parameter")
				}
			}
			return true
		})
	})
	p.EachFunc(func(pkg *packages.Package, fd *ast.FuncDecl) {
		info := pkg.TypesInfo
		// taken: local/result := x.f   (f guarded, slice or map typed)
		taken := map[*types.Var]token.Pos{}
		ast.Inspect(fd.Body, func(m ast.Node) bool {
			as, ok := m.(*ast.AssignStmt)
			if !ok || len(as.Lhs) != len(as.Rhs) {
				return true
			}
			for i, rhs := range as.Rhs {
				if fv := fieldOf(info, rhs); fv != nil && guarded[fv] {
					switch fv.Type().Underlying().(type) {
					case *types.Slice, *types.Map:
						if _, isIdent := as.Lhs[i].(*ast.Ident); isIdent {
							taken[fv] = as.Pos()
						}
					}
				}
			}
			return true
		})
		for fv, tpos := range taken {
			// later assignment to the field in the same function
			ast.Inspect(fd.Body, func(m ast.Node) bool {
				as, ok := m.(*ast.AssignStmt)
				if !ok || as.Pos() <= tpos || len(as.Lhs) != len(as.Rhs) {
					return true
				}
				for i, l := range as.Lhs {
					if fieldOf(info, l) != fv {
						continue
					}
					key := fmt.Sprintf("taken batch of %s in %s", fv.Name(), p.DeclName(fd))
					rhs := ast.Unparen(as.Rhs[i])
					fresh := false
					if id, ok := rhs.(*ast.Ident); ok && id.Name == "nil" {
						fresh = true
					}
					if c, ok := rhs.(*ast.CallExpr); ok && IsBuiltin(info, c, "make") {
						fresh = true
					}
					if _, ok := rhs.(*ast.CompositeLit); ok {
						fresh = true
					}
					if fresh {
						r.Ok(key, as.Pos(), "field replaced by nil / a fresh allocation")
					} else {
						r.Viol(key, as.Pos(), fmt.Sprintf("after the contents of %s were handed out the field is set to %s, which shares storage with the batch that was taken: a later append overwrites entries the taker has not processed yet (calls lost or executed twice)", fv.Name(), types.ExprString(rhs)))
					}
				}
				return true
			})
		}
	})
}

// ---------------------------------------------------------------------------------------
// P6 subscription ordering (C19)

func init() {
	register("P6", "the push client installs a topic's callback BEFORE it announces the subscription to the broker and removes it only AFTER the broker confirmed the unsubscription, so a message accepted while the call is in flight always finds its callback", 2, ruleP6)
}

func ruleP6(r *Run) {
	p := r.P
	for _, c := range []struct{ fn, first, firstRecv, second, secondRecv, why string }{
		{"Prosumer.Subscribe", "Store", "callbacks", "subscribe", "proxy", "the subscription is announced to the broker before the callback is installed: a message accepted for the new topic while Subscribe is still running is dispatched to no callback and silently dropped"},
		{"Prosumer.Unsubscribe", "unsubscribe", "proxy", "Delete", "callbacks", "the callback is removed before the broker confirmed the unsubscription: messages accepted in between are dropped"},
	} {
		key := "ordering in rpc/plugins/push." + c.fn
		fd, pkg := p.DeclOf("rpc/plugins/push", c.fn)
		if fd == nil {
			r.Undec(key, 0, "function not found")
			continue
		}
		info := pkg.TypesInfo
		var a, b token.Pos
		ast.Inspect(fd.Body, func(n ast.Node) bool {
			call, ok := n.(*ast.CallExpr)
			if !ok {
				return true
			}
			if methodName(call) == c.first && recvFieldName(info, call) == c.firstRecv && !a.IsValid() {
				a = call.Pos()
			}
			if methodName(call) == c.second && recvFieldName(info, call) == c.secondRecv && !b.IsValid() {
				b = call.Pos()
			}
			return true
		})
		if !a.IsValid() || !b.IsValid() {
			r.Undec(key, fd.Pos(), "callback table operation or broker call not found")
			continue
		}
		r.Check(a < b, key, fd.Pos(), c.firstRecv+"."+c.first+" before "+c.secondRecv+"."+c.second, c.why)
	}
}

// ---------------------------------------------------------------------------------------
// L7 no append into a caller's slice (C15: SeparatePluginHandlers; generic)

func init() {
	register("L7", "no function appends into storage it received as a slice parameter (append(p[:k], ...) or via a local resliced from the parameter): filtering in place overwrites the caller's list, which the caller may reuse for a later Use/Unuse", 1, ruleL7)
}

func ruleL7(r *Run) {
	p := r.P
	nChecked := 0
	p.EachFunc(func(pkg *packages.Package, fd *ast.FuncDecl) {
		info := pkg.TypesInfo
		params := map[types.Object]bool{}
		for _, pv := range paramsOf(info, fd.Type) {
			if pv != nil {
				if _, ok := pv.Type().Underlying().(*types.Slice); ok {
					params[pv] = true
				}
			}
		}
		if len(params) == 0 {
			return
		}
		// locals that are reslices of a parameter
		derived := map[types.Object]types.Object{}
		ast.Inspect(fd.Body, func(n ast.Node) bool {
			as, ok := n.(*ast.AssignStmt)
			if !ok || len(as.Lhs) != len(as.Rhs) {
				return true
			}
			for i, rhs := range as.Rhs {
				if se, ok := ast.Unparen(rhs).(*ast.SliceExpr); ok {
					if o := identObj(info, se.X); o != nil && params[o] {
						if l := identObj(info, as.Lhs[i]); l != nil {
							derived[l] = o
						}
					}
				}
			}
			return true
		})
		n := 0
		ast.Inspect(fd.Body, func(m ast.Node) bool {
			call, ok := m.(*ast.CallExpr)
			if !ok || !IsBuiltin(info, call, "append") || len(call.Args) < 2 {
				return true
			}
			base := ast.Unparen(call.Args[0])
			var from types.Object
			if se, ok := base.(*ast.SliceExpr); ok {
				if o := identObj(info, se.X); o != nil && params[o] {
					from = o
				}
			} else if o := identObj(info, base); o != nil {
				if pv, ok := derived[o]; ok {
					from = pv
				}
			}
			if from == nil {
				return true
			}
			n++
			r.Viol(fmt.Sprintf("append into parameter storage in %s #%d", p.DeclName(fd), n), call.Pos(), fmt.Sprintf("append writes into the backing array of the slice parameter %s: the caller's list is overwritten in place (a handler list reused for a second Use/Unuse installs or removes the wrong handlers)", from.Name()))
			return true
		})
		nChecked++
	})

	r.Ok("functions with slice parameters scanned", 0, fmt.Sprintf("%d functions, no append into parameter storage", nChecked))
}

// localConst: the integer constant an expression stands for - a constant expression, or a local declared once with one
func localConst(info *types.Info, body ast.Node, e ast.Expr) (int64, bool) {
	if v, ok := intConst(info, e); ok {
		return v, true
	}
	o := identObj(info, e)
	if o == nil {
		return 0, false
	}
	var val int64
	n := 0
	ast.Inspect(body, func(m ast.Node) bool {
		switch d := m.(type) {
		case *ast.ValueSpec:
			for i, nm := range d.Names {
				if info.Defs[nm] == o && i < len(d.Values) {
					if v, ok := intConst(info, d.Values[i]); ok {
						val = v
						n++
					} else {
						n += 2
					}
				}
			}
		case *ast.AssignStmt:
			for i, l := range d.Lhs {
				if identObj(info, l) == o && i < len(d.Rhs) {
					if v, ok := intConst(info, d.Rhs[i]); ok && d.Tok == token.DEFINE {
						val = v
						n++
					} else {
						n += 2
					}
				}
			}
		}
		return true
	})
	return val, n == 1
}
