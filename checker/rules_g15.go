package main

import (
	"fmt"
	"go/ast"
	"go/constant"
	"go/token"
	"go/types"
	"sort"
	"strings"

	"golang.org/x/tools/go/packages"
)

// G15 Clone completeness (C10/C16), G16 request-id width (C09/C10), G17 random bounds (C11/C18),
// S7 limiting readers (C12/C13), S8 stream write errors (C12).

func init() {
	register("G15", "every Clone method of a context type copies every field of the struct (field set computed from the type): each field is given a value derived from the receiver's same field, in a positional or keyed literal or by assignment to the clone", 8, ruleG15)
	register("G16", "per transport, the mask the client applies to its call counter, the mask parseHeader applies to an error reply and the error flag the handler sets all fit the index field that makeHeader actually writes (8 bits per header byte): client mask = parse mask = 2^(bits-1)-1 and flag = 2^(bits-1)", 9, ruleG16)
	register("G17", "every bound passed to math/rand Intn/Int63n/Int31n (they panic on a bound <= 0) is the length of the configured server list or is proven positive by a dominating test on the same variable", 5, ruleG17)
	register("S7", "a reader that limits how much of a request body is read (io.LimitReader, io.LimitedReader, http.MaxBytesReader) before the MaxRequestLength test lets at least one byte more than the limit through (bound = limit + k, k >= 1), otherwise the test can never see an oversized body and a truncated request is dispatched; MaxBytesReader is accepted with bound = limit only if its read error leads to refusal", 1, ruleS7)
	register("S8", "on a byte stream a failed write ends the writer: in every send loop of the stream transports each path from a conn.Write / send error leaves the loop (return), because a partially written frame followed by another frame desynchronises the peer", 2, ruleS8)
}

func ruleG15(r *Run) {
	p := r.P
	p.EachFunc(func(pkg *packages.Package, fd *ast.FuncDecl) {
		if fd.Name.Name != "Clone" || fd.Recv == nil || !strings.HasPrefix(p.RelPkg(pkg.Types), "rpc") {
			return
		}
		info := pkg.TypesInfo
		fobj, _ := info.Defs[fd.Name].(*types.Func)
		if fobj == nil {
			return
		}
		rt, _ := deref(fobj.Type().(*types.Signature).Recv().Type())
		named, ok := rt.(*types.Named)
		if !ok {
			return
		}
		st, ok := named.Underlying().(*types.Struct)
		if !ok {
			return
		}
		var recvObj types.Object
		if len(fd.Recv.List) == 1 && len(fd.Recv.List[0].Names) == 1 {
			recvObj = info.Defs[fd.Recv.List[0].Names[0]]
		}
		// value given to each field
		given := map[string]ast.Expr{}
		var cloneObj types.Object
		ast.Inspect(fd.Body, func(n ast.Node) bool {
			switch x := n.(type) {
			case *ast.CompositeLit:
				tv, ok := info.Types[x]
				if !ok {
					return true
				}
				lt, _ := deref(tv.Type)
				if ln, ok := lt.(*types.Named); !ok || ln.Obj() != named.Obj() {
					return true
				}
				for i, el := range x.Elts {
					if kv, ok := el.(*ast.KeyValueExpr); ok {
						if id, ok := kv.Key.(*ast.Ident); ok {
							given[id.Name] = kv.Value
						}
					} else if i < st.NumFields() {
						given[st.Field(i).Name()] = el
					}
				}
			case *ast.AssignStmt:
				// clone := &T{} ; clone.f = ...
				for i, l := range x.Lhs {
					if i >= len(x.Rhs) {
						break
					}
					if id, ok := l.(*ast.Ident); ok && x.Tok == token.DEFINE {
						if tv, ok := info.Types[x.Rhs[i]]; ok {
							lt, _ := deref(tv.Type)
							if ln, ok := lt.(*types.Named); ok && ln.Obj() == named.Obj() {
								cloneObj = info.Defs[id]
							}
						}
					}
					if se, ok := l.(*ast.SelectorExpr); ok && cloneObj != nil && identObj(info, se.X) == cloneObj {
						given[se.Sel.Name] = x.Rhs[i]
					}
				}
			case *ast.CallExpr:
				// c.f.CopyTo(clone.f)
				if methodName(x) == "CopyTo" && len(x.Args) == 1 {
					if se, ok := ast.Unparen(x.Args[0]).(*ast.SelectorExpr); ok && cloneObj != nil && identObj(info, se.X) == cloneObj {
						given[se.Sel.Name] = x.Fun.(*ast.SelectorExpr).X
					}
				}
			}
			return true
		})
		for i := 0; i < st.NumFields(); i++ {
			f := st.Field(i)
			key := fmt.Sprintf("field %s in %s", f.Name(), p.DeclName(fd))
			v, ok := given[f.Name()]
			if !ok {
				r.Viol(key, fd.Pos(), fmt.Sprintf("Clone does not copy field %s: the clone has the zero value (for ClientContext.Timeout: the per-server calls of Forking/Broadcast run without a deadline and wait forever for a silent server)", f.Name()))
				continue
			}
			// the value mentions <recv>.<same field>
			fromSame := false
			ast.Inspect(v, func(m ast.Node) bool {
				if se, ok := m.(*ast.SelectorExpr); ok && se.Sel.Name == f.Name() && identObj(info, se.X) == recvObj {
					fromSame = true
				}
				return true
			})
			r.Check(fromSame, key, v.Pos(), "copied from the receiver's "+f.Name(), fmt.Sprintf("field %s of the clone is not derived from the receiver's %s (got %s)", f.Name(), f.Name(), types.ExprString(v)))
		}
	})
}

func constU64(info *types.Info, e ast.Expr) (uint64, bool) {
	tv, ok := info.Types[e]
	if !ok || tv.Value == nil {
		return 0, false
	}
	v := tv.Value
	if v.Kind() != constant.Int {
		return 0, false
	}
	if i, ok := constant.Int64Val(v); ok {
		return uint64(i), true
	}
	if u, ok := constant.Uint64Val(v); ok {
		return u, true
	}
	return 0, false
}

func ruleG16(r *Run) {
	p := r.P
	for _, tr := range []string{"rpc/socket", "rpc/udp", "rpc/websocket"} {
		pkg := p.Pkg(tr)
		if pkg == nil {
			r.Undec("transport "+tr, 0, "package not found")
			continue
		}
		info := pkg.TypesInfo
		// bits written by makeHeader for `index`
		mh, _ := p.DeclOf(tr, "makeHeader")
		if mh == nil {
			r.Undec("index field width in "+tr, 0, "makeHeader not found")
			continue
		}
		var idxParam types.Object
		for _, pv := range paramsOf(info, mh.Type) {
			if pv != nil && pv.Name() == "index" {
				idxParam = pv
			}
		}
		shifts := map[int64]bool{}
		ast.Inspect(mh.Body, func(n ast.Node) bool {
			as, ok := n.(*ast.AssignStmt)
			if !ok || len(as.Rhs) != 1 {
				return true
			}
			uses := false
			shift := int64(0)
			ast.Inspect(as.Rhs[0], func(m ast.Node) bool {
				if id, ok := m.(*ast.Ident); ok && info.Uses[id] == idxParam {
					uses = true
				}
				if be, ok := m.(*ast.BinaryExpr); ok && be.Op == token.SHR {
					if k, ok := intConst(info, be.Y); ok {
						shift = k
					}
				}
				return true
			})
			if uses {
				shifts[shift] = true
			}
			return true
		})
		bits := uint(8 * len(shifts))
		if bits == 0 || bits > 32 {
			r.Undec("index field width in "+tr, mh.Pos(), fmt.Sprintf("unrecognised makeHeader (%d index bytes)", len(shifts)))
			continue
		}
		wantMask := uint64(1)<<(bits-1) - 1
		wantFlag := uint64(1) << (bits - 1)
		r.Ok("index field width in "+tr, mh.Pos(), fmt.Sprintf("%d bits: ids 0..%#x, error flag %#x", bits, wantMask, wantFlag))
		// client mask: atomic.AddInt32(&c.counter, 1) & M in conn.Transport
		if fd, _ := p.DeclOf(tr, "conn.Transport"); fd != nil {
			found := false
			ast.Inspect(fd.Body, func(n ast.Node) bool {
				be, ok := n.(*ast.BinaryExpr)
				if !ok || be.Op != token.AND {
					return true
				}
				if c, ok := ast.Unparen(be.X).(*ast.CallExpr); !ok || !strings.HasPrefix(types.ExprString(c.Fun), "atomic.Add") {
					return true
				}
				m, ok := constU64(info, be.Y)
				if !ok {
					return true
				}
				found = true
				r.Check(m == wantMask, "client id mask in "+tr, be.Pos(), fmt.Sprintf("mask %#x", m), fmt.Sprintf("the client numbers its calls with mask %#x but the frame header carries %d index bits of which the top one is the error flag (ids 0..%#x): once the counter passes %#x the server echoes a truncated id, the client cannot find the pending call and every later call on the connection ends in its timeout although the server answered", m, bits, wantMask, wantMask))
				return true
			})
			if !found {
				r.Undec("client id mask in "+tr, fd.Pos(), "no atomic.Add.. & mask in conn.Transport")
			}
		} else {
			r.Undec("client id mask in "+tr, 0, "conn.Transport not found")
		}
		// parseHeader mask
		if fd, _ := p.DeclOf(tr, "parseHeader"); fd != nil {
			found := false
			ast.Inspect(fd.Body, func(n ast.Node) bool {
				as, ok := n.(*ast.AssignStmt)
				if !ok || as.Tok != token.AND_ASSIGN || len(as.Lhs) != 1 || types.ExprString(as.Lhs[0]) != "index" {
					return true
				}
				if m, ok := constU64(info, as.Rhs[0]); ok {
					found = true
					r.Check(m == wantMask, "error-reply id mask in "+tr, as.Pos(), fmt.Sprintf("mask %#x", m), fmt.Sprintf("parseHeader strips the error flag with mask %#x, the index field has %d bits (ids 0..%#x)", m, bits, wantMask))
				}
				return true
			})
			if !found {
				r.Undec("error-reply id mask in "+tr, fd.Pos(), "no index &= mask in parseHeader")
			}
		}
		// handler flag: index |= F
		nFlag := 0
		for _, file := range pkg.Syntax {
			ast.Inspect(file, func(n ast.Node) bool {
				// index |= F, or the same written as an expression (index | F: what a helper returns, what a tuple assignment assigns)
				var flagExpr ast.Expr
				var at ast.Node
				switch x := n.(type) {
				case *ast.AssignStmt:
					if x.Tok == token.OR_ASSIGN && len(x.Lhs) == 1 && types.ExprString(x.Lhs[0]) == "index" {
						flagExpr, at = x.Rhs[0], x
					}
				case *ast.BinaryExpr:
					if x.Op == token.OR && types.ExprString(ast.Unparen(x.X)) == "index" {
						flagExpr, at = x.Y, x
					}
				}
				if flagExpr == nil {
					return true
				}
				as := at
				fv, ok := constU64(info, flagExpr)
				if !ok {
					return true
				}
				nFlag++
				f := fv & (uint64(1)<<bits - 1)
				r.Check(f == wantFlag, fmt.Sprintf("error flag in %s #%d", tr, nFlag), as.Pos(), fmt.Sprintf("flag %#x", f), fmt.Sprintf("the handler marks an error reply with %#x within the %d-bit index field; parseHeader tests bit %#x", f, bits, wantFlag))
				return true
			})
		}
		if nFlag == 0 {
			r.Undec("error flag in "+tr, 0, "no index |= flag found")
		}
	}
}

func ruleG17(r *Run) {
	p := r.P
	n := 0
	p.EachFunc(func(pkg *packages.Package, fd *ast.FuncDecl) {
		if !strings.HasPrefix(p.RelPkg(pkg.Types), "rpc") {
			return
		}
		info := pkg.TypesInfo
		parents := parentMap(fd.Body)
		defs := localDefs(info, fd.Body)
		perFn := 0
		ast.Inspect(fd.Body, func(m ast.Node) bool {
			call, ok := m.(*ast.CallExpr)
			if !ok || len(call.Args) != 1 {
				return true
			}
			f := Callee(info, call)
			if f == nil {
				return true
			}
			switch FullName(f) {
			case "math/rand.Intn", "math/rand.Int63n", "math/rand.Int31n":
			default:
				return true
			}
			n++
			perFn++
			key := fmt.Sprintf("random bound %s in %s #%d", types.ExprString(call.Args[0]), p.DeclName(fd), perFn)
			arg := stripConv(info, call.Args[0])
			isLenCfg := func(e ast.Expr) bool {
				c, ok := ast.Unparen(e).(*ast.CallExpr)
				return ok && IsBuiltin(info, c, "len") && isURLsExpr(info, c.Args[0])
			}
			if isLenCfg(arg) {
				r.Ok(key, call.Pos(), "length of the configured server list")
				return true
			}
			o := identObj(info, arg)
			if o != nil {
				if d := defs[o]; d != nil && isLenCfg(stripConv(info, d)) {
					r.Ok(key, call.Pos(), "length of the configured server list")
					return true
				}
				pos := false
				for _, fc := range factsWithSwitch(parents, call) {
					be, ok := fc.e.(*ast.BinaryExpr)
					if !ok || identObj(info, be.X) != o {
						continue
					}
					k, ok := intConst(info, be.Y)
					if !ok {
						continue
					}
					op := be.Op
					if fc.neg {
						switch op {
						case token.LEQ:
							op = token.GTR
						case token.LSS:
							op = token.GEQ
						default:
							continue
						}
					}
					if (op == token.GTR && k >= 0) || (op == token.GEQ && k >= 1) {
						pos = true
					}
				}
				r.Check(pos, key, call.Pos(), "proven positive on this path", fmt.Sprintf("%s panics when its bound is <= 0 and no dominating test proves %s > 0 here: when every server's effective weight has been driven to zero by failures the balancer panics in the caller's goroutine on every later call, although the servers are healthy again", f.Name(), o.Name()))
				return true
			}
			r.Viol(key, call.Pos(), "the bound is neither the configured server count nor a variable proven positive")
			return true
		})
	})
	r.Assumption("G17: a load balancer is configured with at least one server (an empty list is a configuration error that panics at the first call)")
	if n == 0 {
		r.Undec("random bounds", 0, "no math/rand bound calls found under rpc/")
	}
}

// linOfExpr: a linear form over opaque sub-expressions (conversions stripped).
func linOfExpr(info *types.Info, e ast.Expr) lin {
	e = stripConv(info, e)
	if k, ok := intConst(info, e); ok {
		return linConst(k)
	}
	if be, ok := e.(*ast.BinaryExpr); ok {
		switch be.Op {
		case token.ADD:
			return linOfExpr(info, be.X).add(linOfExpr(info, be.Y))
		case token.SUB:
			return linOfExpr(info, be.X).sub(linOfExpr(info, be.Y))
		}
	}
	return linSym(types.ExprString(e))
}

func ruleS7(r *Run) {
	p := r.P
	n := 0
	p.EachFunc(func(pkg *packages.Package, fd *ast.FuncDecl) {
		if !strings.HasPrefix(p.RelPkg(pkg.Types), "rpc") {
			return
		}
		info := pkg.TypesInfo
		perFn := 0
		ast.Inspect(fd.Body, func(m ast.Node) bool {
			call, ok := m.(*ast.CallExpr)
			if !ok {
				return true
			}
			f := Callee(info, call)
			if f == nil {
				return true
			}
			var bound ast.Expr
			kind := ""
			switch FullName(f) {
			case "io.LimitReader":
				bound, kind = call.Args[1], "io.LimitReader"
			case "net/http.MaxBytesReader":
				bound, kind = call.Args[2], "http.MaxBytesReader"
			default:
				return true
			}
			// only readers bounded in terms of MaxRequestLength are subject to the rule
			mentions := false
			var limit ast.Expr
			ast.Inspect(bound, func(k ast.Node) bool {
				if se, ok := k.(*ast.SelectorExpr); ok && se.Sel.Name == "MaxRequestLength" {
					mentions = true
					limit = se
				}
				return true
			})
			// limit := int64(MaxRequestLength); if limit < math.MaxInt64 { limit++ }: the bound is a local that starts at the
			// limit and is raised, unconditionally or under a test that it is below the maximum of its type (where it is
			// not, nothing can exceed it)
			raised := int64(0)
			if o := identObj(info, bound); !mentions && o != nil {
				var def ast.Expr
				okLocal := true
				parents := parentMap(fd.Body)
				ast.Inspect(fd.Body, func(k ast.Node) bool {
					switch x := k.(type) {
					case *ast.AssignStmt:
						for i, l := range x.Lhs {
							if identObj(info, l) != o {
								continue
							}
							switch {
							case x.Tok == token.DEFINE && len(x.Lhs) == len(x.Rhs) && def == nil:
								def = x.Rhs[i]
							case x.Tok == token.ADD_ASSIGN && len(x.Rhs) == 1:
								if c, isC := intConst(info, x.Rhs[0]); isC && c > 0 {
									raised += c
								} else {
									okLocal = false
								}
							default:
								okLocal = false
							}
						}
					case *ast.IncDecStmt:
						if identObj(info, x.X) == o {
							if x.Tok != token.INC {
								okLocal = false
								return true
							}
							raised++
							// conditional only on being below the maximum
							for a := parents[k]; a != nil && a != ast.Node(fd.Body); a = parents[a] {
								if ifs, isIf := a.(*ast.IfStmt); isIf {
									be, isBin := ast.Unparen(ifs.Cond).(*ast.BinaryExpr)
									if !isBin || identObj(info, be.X) != o || !strings.Contains(types.ExprString(be.Y), "Max") || be.Op != token.LSS && be.Op != token.NEQ {
										okLocal = false
									}
								}
							}
						}
					}
					return true
				})
				if def != nil && okLocal {
					ast.Inspect(def, func(k ast.Node) bool {
						if se, ok := k.(*ast.SelectorExpr); ok && se.Sel.Name == "MaxRequestLength" {
							mentions = true
							limit = se
						}
						return true
					})
					if mentions {
						bound = def
					}
				}
			}
			if !mentions {
				return true
			}
			n++
			perFn++
			key := fmt.Sprintf("%s bound in %s #%d", kind, p.DeclName(fd), perFn)
			d := linOfExpr(info, bound).sub(linOfExpr(info, limit))
			d.c += raised
			if d.isConst() && d.c >= 1 {
				r.Ok(key, call.Pos(), fmt.Sprintf("lets limit+%d bytes through: the length test can see an oversized body", d.c))
				return true
			}
			if kind == "http.MaxBytesReader" && d.isConst() && d.c == 0 {
				// the read error must refuse the request: find `if err != nil { ...return }` after the read
				refuses := false
				ast.Inspect(fd.Body, func(k ast.Node) bool {
					if ifs, ok := k.(*ast.IfStmt); ok && ifs.Pos() > call.Pos() {
						if be, ok := ifs.Cond.(*ast.BinaryExpr); ok && be.Op == token.NEQ && types.ExprString(be.X) == "err" && endsInJump(ifs.Body.List) {
							// ... and the refusal says "too large" (the caller is owed that error, not a generic failure)
							ast.Inspect(ifs.Body, func(x ast.Node) bool {
								if id, ok := x.(*ast.Ident); ok && strings.Contains(id.Name, "RequestEntityTooLarge") {
									refuses = true
								}
								return true
							})
						}
					}
					return true
				})
				r.Check(refuses, key, call.Pos(), "overflow reported by the read error, which refuses the request as too large", "http.MaxBytesReader hands over the first limit bytes and reports the overflow only through the read error, which is not turned into a request-too-large refusal here: the request is truncated to exactly the limit and dispatched as if it were complete (200 instead of 413), or refused with an error that does not say why")
				return true
			}
			r.Viol(key, call.Pos(), fmt.Sprintf("the reader lets through at most %s bytes, which is not more than the limit %s: len(data) can never exceed the limit, the too-large test after the read is dead, and an oversized body without Content-Length is silently truncated and dispatched", types.ExprString(bound), types.ExprString(limit)))
			return true
		})
	})
	if n == 0 {
		r.Undec("limiting readers", 0, "no io.LimitReader / http.MaxBytesReader bounded by MaxRequestLength found")
	}
}

func ruleS8(r *Run) {
	p := r.P
	n := 0
	for _, tr := range []string{"rpc/socket"} {
		pkg := p.Pkg(tr)
		if pkg == nil {
			continue
		}
		info := pkg.TypesInfo
		// functions of this package that write to the stream: conn.Write(..) on a net.Conn, directly or one call deep
		writes := map[*types.Func]bool{}
		isStreamWrite := func(c *ast.CallExpr) bool {
			if methodName(c) != "Write" {
				return false
			}
			se := c.Fun.(*ast.SelectorExpr)
			tv, ok := info.Types[se.X]
			if !ok {
				return false
			}
			t := tv.Type
			if pt, ok := t.Underlying().(*types.Pointer); ok {
				t = pt.Elem()
			}
			s := t.String()
			if s == "net.Conn" {
				return true
			}
			// a struct embedding net.Conn (the transport's conn)
			if st, ok := t.Underlying().(*types.Struct); ok {
				for i := 0; i < st.NumFields(); i++ {
					if st.Field(i).Embedded() && st.Field(i).Type().String() == "net.Conn" {
						return true
					}
				}
			}
			return false
		}
		var decls []*ast.FuncDecl
		for _, file := range pkg.Syntax {
			for _, d := range file.Decls {
				if fd, ok := d.(*ast.FuncDecl); ok && fd.Body != nil {
					decls = append(decls, fd)
				}
			}
		}
		for _, fd := range decls {
			ast.Inspect(fd.Body, func(m ast.Node) bool {
				if c, ok := m.(*ast.CallExpr); ok && isStreamWrite(c) {
					if f, ok := info.Defs[fd.Name].(*types.Func); ok {
						writes[f] = true
					}
				}
				return true
			})
		}
		for _, fd := range decls {
			// loops
			ast.Inspect(fd.Body, func(m ast.Node) bool {
				loop, ok := m.(*ast.ForStmt)
				if !ok {
					return true
				}
				// error variables assigned from a stream write inside this loop
				errVars := map[types.Object]bool{}
				ast.Inspect(loop.Body, func(k ast.Node) bool {
					as, ok := k.(*ast.AssignStmt)
					if !ok || len(as.Rhs) != 1 {
						return true
					}
					c, ok := ast.Unparen(as.Rhs[0]).(*ast.CallExpr)
					if !ok {
						return true
					}
					isW := isStreamWrite(c)
					if f := Callee(info, c); f != nil && writes[f] {
						if fdef, _ := info.Defs[fd.Name].(*types.Func); fdef != f {
							isW = true
						}
					}
					if !isW {
						return true
					}
					if o := identObj(info, as.Lhs[len(as.Lhs)-1]); o != nil {
						errVars[o] = true
					}
					return true
				})
				if len(errVars) == 0 {
					return true
				}
				// every `if err != nil {..}` on such a variable inside the loop must leave the loop
				ast.Inspect(loop.Body, func(k ast.Node) bool {
					ifs, ok := k.(*ast.IfStmt)
					if !ok {
						return true
					}
					be, ok := ast.Unparen(ifs.Cond).(*ast.BinaryExpr)
					if !ok || be.Op != token.NEQ || !errVars[identObj(info, be.X)] {
						return true
					}
					if id, ok := ast.Unparen(be.Y).(*ast.Ident); !ok || id.Name != "nil" {
						return true
					}
					n++
					key := fmt.Sprintf("write error leaves the loop in %s #%d", p.DeclName(fd), n)
					bad := ""
					var allReturn func(list []ast.Stmt) bool
					allReturn = func(list []ast.Stmt) bool {
						if len(list) == 0 {
							return false
						}
						for _, s := range list {
							ast.Inspect(s, func(q ast.Node) bool {
								if _, ok := q.(*ast.FuncLit); ok {
									return false
								}
								if br, ok := q.(*ast.BranchStmt); ok && br.Tok == token.CONTINUE {
									bad = "continues with the next response at " + p.Rel(br.Pos())
								}
								return true
							})
						}
						switch last := list[len(list)-1].(type) {
						case *ast.ReturnStmt:
							return true
						case *ast.IfStmt:
							if last.Else == nil {
								return false
							}
							eb, ok := last.Else.(*ast.BlockStmt)
							return ok && allReturn(last.Body.List) && allReturn(eb.List)
						}
						return false
					}
					ok2 := allReturn(ifs.Body.List)
					if bad == "" && !ok2 {
						bad = "can fall through to the next iteration"
					}
					r.Check(bad == "", key, ifs.Pos(), "every path returns", "after a failed write on the byte stream the loop "+bad+": a write that timed out after some bytes went out leaves a torn frame on the wire, the next frame is written straight after it and the peer assembles a response from two callers' bytes (delivered as success, stream out of sync from then on)")
					return true
				})
				return true
			})
		}
	}
	if n == 0 {
		r.Undec("stream send loops", 0, "no write-error test found in a loop of rpc/socket")
	}
	_ = sort.Strings
}
