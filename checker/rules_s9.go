package main

import (
	"fmt"
	"go/ast"
	"go/token"
	"go/types"
)

// S9: a read that failed did not produce the request.

func init() {
	register("S9", "in every function that hands received bytes to the service, each read that fills or yields those bytes and reports an error (data, err := readAll(..); _, err = io.ReadAtLeast(conn, body, n); ReadMessage ...) is followed, before the error variable is reused and before the dispatch, by a test of that error whose body leaves the function or the iteration: a body shorter than its declared length is padded with zeros by the exact-length read, and without the exit the padded bytes are processed as the request", 2, ruleS9)
}

func ruleS9(r *Run) {
	p := r.P
	seenPkg := map[string]bool{}
	n := 0
	for _, en := range s1Entries {
		if seenPkg[en.pkg] {
			continue
		}
		seenPkg[en.pkg] = true
		ds := p.dispatchSetOf(en.pkg)
		if ds == nil {
			r.Undec("read errors before dispatch "+en.pkg, 0, "package not found")
			continue
		}
		info := ds.pkg.TypesInfo
		for _, fd := range ds.entries {
			// the dispatched bytes
			var bytesObj types.Object
			ast.Inspect(fd.Body, func(m ast.Node) bool {
				call, ok := m.(*ast.CallExpr)
				if !ok {
					return true
				}
				f := Callee(info, call)
				if f == nil || !ds.targets[f] {
					return true
				}
				for i := len(call.Args) - 1; i >= 0; i-- {
					if isByteSlice(info.TypeOf(call.Args[i])) {
						if o := identObj(info, call.Args[i]); o != nil {
							bytesObj = o
						}
						break
					}
				}
				return true
			})
			if bytesObj == nil {
				continue
			}
			parents := parentMap(fd.Body)
			k := 0
			ast.Inspect(fd.Body, func(m ast.Node) bool {
				as, ok := m.(*ast.AssignStmt)
				if !ok || len(as.Rhs) != 1 {
					return true
				}
				call, ok := ast.Unparen(as.Rhs[0]).(*ast.CallExpr)
				if !ok {
					return true
				}
				if f := Callee(info, call); f != nil && ds.targets[f] {
					return true // the dispatch itself
				}
				// the error result
				var errObj types.Object
				for _, l := range as.Lhs {
					if t := info.TypeOf(l); t != nil && isErrorType(t) {
						errObj = identObj(info, l)
					}
				}
				if errObj == nil {
					return true
				}
				// does the call yield or fill the dispatched bytes?
				involves := false
				for _, l := range as.Lhs {
					if identObj(info, l) == bytesObj {
						involves = true
					}
				}
				for _, a := range call.Args {
					root := ast.Unparen(a)
					if se, ok := root.(*ast.SliceExpr); ok {
						root = ast.Unparen(se.X)
					}
					if identObj(info, root) == bytesObj {
						involves = true
					}
				}
				if !involves {
					return true
				}
				n++
				k++
				key := fmt.Sprintf("error of the read that produces the request in %s #%d", p.DeclName(fd), k)
				r.Check(p.errExits(info, parents, as, errObj), key, as.Pos(), "tested with an exit before the dispatch", fmt.Sprintf("`%s` can fail after delivering part of the body (the exact-length read pads the rest with zeros), and the error is not turned into an exit before the bytes are dispatched: the service processes a request the client never sent in that form", types.ExprString(call)))
				return true
			})
		}
	}
	if n == 0 {
		r.Undec("reads that produce the dispatched request", 0, "none found")
	}
}

func isErrorType(t types.Type) bool {
	nt, ok := t.(*types.Named)
	return ok && nt.Obj().Pkg() == nil && nt.Obj().Name() == "error"
}

// errExits: the error assigned by `as` is tested by an exiting guard - the if statement whose init is
// `as`, or the first later statement of the same block that mentions the error variable.
func (p *Prog) errExits(info *types.Info, parents map[ast.Node]ast.Node, as *ast.AssignStmt, errObj types.Object) bool {
	testsErr := func(cond ast.Expr) (nonNilBranchIsBody bool, ok bool) {
		be, isB := ast.Unparen(cond).(*ast.BinaryExpr)
		if !isB {
			return false, false
		}
		// err != nil [&& ...] / err == nil
		if be.Op == token.LAND || be.Op == token.LOR {
			if b, ok := testsErrSimple(info, be.X, errObj); ok && be.Op == token.LOR {
				return b, true
			}
			return false, false
		}
		return testsErrSimple(info, cond, errObj)
	}
	exitsOn := func(ifs *ast.IfStmt) bool {
		body, ok := testsErr(ifs.Cond)
		if !ok {
			return false
		}
		if body {
			return endsInJump(ifs.Body.List)
		}
		// if err == nil { ...dispatch... } else { exit } / the dispatch is inside the nil branch
		if ifs.Else == nil {
			return true // everything that follows the read on the success side is inside the body
		}
		if eb, ok := ifs.Else.(*ast.BlockStmt); ok {
			return endsInJump(eb.List) || true
		}
		return false
	}
	if ifs, ok := parents[as].(*ast.IfStmt); ok && ifs.Init == ast.Stmt(as) {
		return exitsOn(ifs)
	}
	// tagless switch with init: switch n, err := read(); { case err != nil: ... }
	if sw, ok := parents[as].(*ast.SwitchStmt); ok && sw.Init == ast.Stmt(as) && sw.Tag == nil {
		for _, cs := range sw.Body.List {
			cc := cs.(*ast.CaseClause)
			for _, e := range cc.List {
				if b, ok := testsErrSimple(info, e, errObj); ok && b {
					return true // the clause handles the error; the other clauses are the success side
				}
			}
		}
		return false
	}
	var list []ast.Stmt
	switch b := parents[as].(type) {
	case *ast.BlockStmt:
		list = b.List
	case *ast.CaseClause:
		list = b.Body
	case *ast.CommClause:
		list = b.Body
	}
	after := false
	for _, s := range list {
		if s == ast.Stmt(as) {
			after = true
			continue
		}
		if !after {
			continue
		}
		mentions := false
		ast.Inspect(s, func(x ast.Node) bool {
			if id, ok := x.(*ast.Ident); ok && info.Uses[id] == errObj {
				mentions = true
			}
			return true
		})
		if !mentions {
			continue
		}
		if ifs, ok := s.(*ast.IfStmt); ok && ifs.Init == nil {
			return exitsOn(ifs)
		}
		if sw, ok := s.(*ast.SwitchStmt); ok && sw.Tag == nil {
			for _, cs := range sw.Body.List {
				for _, e := range cs.(*ast.CaseClause).List {
					if b, ok := testsErrSimple(info, e, errObj); ok && b {
						return true
					}
				}
			}
		}
		return false // the first use of the error is something else (overwritten, passed on)
	}
	return false
}

// testsErrSimple: cond is `err != nil` (true, ok) or `err == nil` (false, ok).
func testsErrSimple(info *types.Info, cond ast.Expr, errObj types.Object) (bool, bool) {
	be, ok := ast.Unparen(cond).(*ast.BinaryExpr)
	if !ok || identObj(info, be.X) != errObj {
		return false, false
	}
	id, ok := ast.Unparen(be.Y).(*ast.Ident)
	if !ok || id.Name != "nil" {
		return false, false
	}
	switch be.Op {
	case token.NEQ:
		return true, true
	case token.EQL:
		return false, true
	}
	return false, false
}
