package main

import (
	"fmt"
	"go/ast"
	"go/types"
	"sort"
	"strings"
)

// T3 writer/reader tag agreement: FIRST(writer of T) is a subset of ACCEPT(reader of T).

func init() {
	register("T3", "for every Go type handled on both sides, every head tag the type's writer can emit first is accepted by the type's reader (pairs taken from the code's own compile-checked fast type switches plus a frozen container table); decodeInterface accepts the union", 30, ruleT3)
}

// frozen container table: writer -> readers whose union must accept what the writer emits
var t3Table = [][2]string{
	{"Encoder.EncodeString", "Decoder.decodeString"},
	{"Encoder.WriteString", "Decoder.decodeString"},
	{"Encoder.writeTime|timeEncoder.Write", "Decoder.decodeTime"},
	{"Encoder.writeUUID|uuidEncoder.Write", "Decoder.decodeUUID"},
	{"Encoder.writeSlice|sliceEncoder.Write", "sliceDecoder.Decode+Decoder.decodeBytes"},
	{"Encoder.writeArray|arrayEncoder.Write", "arrayDecoder.Decode+byteArrayDecoder.Decode"},
	{"Encoder.writeMap|mapEncoder.Write", "mapDecoder.Decode"},
	{"Encoder.writeList|listEncoder.Write", "listDecoder.Decode"},
	{"structEncoder.Write", "structDecoder.Decode"},
	{"anonymousStructEncoder.Write", "structDecoder.Decode"},
	// nil is written by the callers of the container writers for every nullable destination
	{"Encoder.WriteNil", "sliceDecoder.Decode"},
	{"Encoder.WriteNil", "mapDecoder.Decode"},
	{"Encoder.WriteNil", "listDecoder.Decode"},
	{"Encoder.WriteNil", "ptrDecoder.Decode"},
	{"Encoder.WriteNil", "Decoder.decodeBytes"},
	{"Encoder.WriteNil", "Decoder.decodeInterface"},
}

func ruleT3(r *Run) {
	p := r.P
	pkg := p.Pkg("io")
	info := pkg.TypesInfo
	b := &b1{p: p, memo: map[string][]b1Result{}, active: map[string]bool{}, contract: map[*types.Func]bool{}, undec: map[*types.Func][]string{}, isParam: map[*types.Var]bool{}, inline: true}
	sets := p.acceptSets()

	first := func(f *types.Func) (map[string]bool, string) {
		fd := p.Decl(f)
		if fd == nil {
			return nil, "no body"
		}
		var args []absVal
		firstRef := true
		for _, pv := range paramsOf(p.PkgOfDecl(fd).TypesInfo, fd.Type) {
			a := absVal{}
			if pv != nil {
				switch pv.Type().Underlying().(type) {
				case *types.Interface, *types.Pointer, *types.Slice, *types.Map:
					if !p.namedIO(pv.Type(), "Encoder") && firstRef {
						a.n = nNonNil
						firstRef = false
					}
				}
			}
			args = append(args, a)
		}
		res := b.call(f, args, false)
		out := map[string]bool{}
		for _, x := range res {
			if x.first != "" {
				out[x.first] = true
			}
		}
		if u := b.undec[f]; len(u) > 0 {
			return out, strings.Join(u, "; ")
		}
		return out, ""
	}
	accept := func(names string) (map[string]bool, bool) {
		acc := map[string]bool{}
		for _, n := range strings.Split(names, "+") {
			f := p.LookupFunc("io", n)
			if f == nil || sets[f] == nil {
				return nil, false
			}
			for t := range acceptClosure(sets, f, map[*types.Func]bool{}) {
				acc[t] = true
			}
		}
		return acc, true
	}
	union := map[string]bool{}
	check := func(desc string, wf *types.Func, readers string, extra ...string) {
		key := fmt.Sprintf("FIRST(%s) subset-of ACCEPT(%s)", desc, readers)
		if wf == nil {
			r.Undec(key, 0, "writer not found")
			return
		}
		fs, und := first(wf)
		if und != "" {
			r.Undec(key, p.Decl(wf).Pos(), "writer not analysable: "+und)
			return
		}
		for _, e := range extra {
			fs[e] = true
		}
		acc, ok := accept(readers)
		if !ok {
			r.Undec(key, 0, "reader not found: "+readers)
			return
		}
		var missing, unknown []string
		for t := range fs {
			if t == "DYN" {
				continue // nested dynamic coder: its own pair
			}
			if strings.HasPrefix(t, "?") {
				unknown = append(unknown, t)
				continue
			}
			union[t] = true
			if !acc[t] {
				missing = append(missing, strings.TrimPrefix(t, "Tag"))
			}
		}
		sort.Strings(missing)
		pos := p.Decl(wf).Pos()
		switch {
		case len(unknown) > 0:
			r.Undec(key, pos, "first emitted byte is not a tag constant: "+strings.Join(unknown, ","))
		case len(fs) == 0:
			r.Undec(key, pos, "writer emits nothing visible")
		case len(missing) > 0:
			r.Viol(key, pos, fmt.Sprintf("the writer can start a value with {%s} which the reader of the same type does not accept (it accepts {%s}): the value does not decode into its own type", strings.Join(missing, ","), setString(acc)))
		default:
			r.Ok(key, pos, fmt.Sprintf("FIRST {%s}", setString(fs)))
		}
	}

	// ---- pairs from the fast type switches (compile-checked association type -> routine)
	typeSwitchMap := func(fn string) map[string]*types.Func {
		out := map[string]*types.Func{}
		fd, _ := p.DeclOf("io", fn)
		if fd == nil {
			return out
		}
		ast.Inspect(fd.Body, func(n ast.Node) bool {
			ts, ok := n.(*ast.TypeSwitchStmt)
			if !ok {
				return true
			}
			for _, st := range ts.Body.List {
				cc := st.(*ast.CaseClause)
				if len(cc.List) != 1 {
					continue
				}
				ct := info.TypeOf(cc.List[0])
				if ct == nil {
					continue
				}
				for _, bs := range cc.Body {
					ast.Inspect(bs, func(m ast.Node) bool {
						if call, ok := m.(*ast.CallExpr); ok {
							if f := Callee(info, call); f != nil && p.InRepo(f) {
								if _, dup := out[typeKey(ct)]; !dup {
									out[typeKey(ct)] = f
								}
							}
						}
						return true
					})
				}
			}
			return false
		})
		return out
	}
	writers := typeSwitchMap("Encoder.fastWriteValue")
	readers := typeSwitchMap("Decoder.fastDecode")
	ptrReaders := typeSwitchMap("Decoder.fastDecodePtr")
	var tnames []string
	for t := range writers {
		tnames = append(tnames, t)
	}
	sort.Strings(tnames)
	for _, t := range tnames {
		if rd, ok := readers["*"+t]; ok {
			check(t+" via "+writers[t].Name(), writers[t], strings.TrimPrefix(p.FuncName(rd), "io."))
		}
		if rd, ok := ptrReaders["**"+t]; ok {
			check("*"+t+" via "+writers[t].Name()+"|nil", writers[t], strings.TrimPrefix(p.FuncName(rd), "io."), "TagNull")
		}
	}
	// ---- frozen container table
	for _, e := range t3Table {
		// alternates: an unexported writer that was inlined into the Write method of its encoder
		name, f := e[0], (*types.Func)(nil)
		for _, alt := range strings.Split(e[0], "|") {
			if g := p.LookupFunc("io", alt); g != nil {
				name, f = strings.Split(e[0], "|")[0], g
				break
			}
		}
		check(name, f, e[1])
	}
	// ---- decodeInterface accepts everything any writer can start with
	if f := p.LookupFunc("io", "Decoder.decodeInterface"); f != nil && sets[f] != nil {
		acc := acceptClosure(sets, f, map[*types.Func]bool{})
		var missing []string
		for t := range union {
			if !acc[t] {
				missing = append(missing, t)
			}
		}
		sort.Strings(missing)
		r.Check(len(missing) == 0, "union of all FIRST sets subset-of ACCEPT(decodeInterface)", p.Decl(f).Pos(), "union {"+setString(union)+"}", "decodeInterface does not accept "+strings.Join(missing, ","))
	} else {
		r.Undec("decodeInterface", 0, "not found")
	}
}
