package main

import (
	_ "embed"
	"encoding/json"
	"fmt"
	"go/ast"
	"go/parser"
	"go/token"
	"go/types"
	"os"
	"path/filepath"
	"regexp"
	"sort"
	"strconv"
	"strings"

	"golang.org/x/tools/go/packages"
	"golang.org/x/tools/go/ssa"
	"golang.org/x/tools/go/ssa/ssautil"
)

// Prog is the resolved program: every non-test package of the module under -repo,
// parsed and type-checked from the CURRENT working tree on every run.
type Prog struct {
	Repo      string
	ModPath   string
	Fset      *token.FileSet
	Pkgs      []*packages.Package // repo packages, sorted by path
	ByRel     map[string]*packages.Package
	GOARCH    string
	Sizes     types.Sizes
	Renamed   []string // "kind current -> reference" for identifiers canonicalised before analysis
	Inlined   []string // "helper inlined into caller" (inline.go)
	PreInline *Prog    // the tree as it was written, when helpers have been substituted in this one

	ssaProg  *ssa.Program
	ssaPkgs  map[string]*ssa.Package
	fileInfo map[*token.File]*types.Info

	funcDecls map[*types.Func]*ast.FuncDecl
	declPkg   map[*ast.FuncDecl]*packages.Package
	nFuncs    int
}

const minPackages = 20 // 23 today; a load that sees fewer analysed nothing worth a verdict

func goEnv(goarch string) []string {
	var env []string
	for _, e := range os.Environ() {
		k := strings.SplitN(e, "=", 2)[0]
		switch k {
		case "GOWORK", "GOFLAGS", "GOPROXY", "GOSUMDB", "GOTOOLCHAIN", "GOARCH", "GOOS", "CGO_ENABLED":
			continue
		}
		env = append(env, e)
	}
	env = append(env, "GOWORK=off", "GOFLAGS=-mod=mod", "GOPROXY=off", "GOSUMDB=off", "GOTOOLCHAIN=local", "CGO_ENABLED=0")
	if goarch != "" {
		env = append(env, "GOARCH="+goarch)
	}
	return env
}

// Load parses and type-checks the repository; when unexported functions, methods, fields or types
// of the reference tree were merely RENAMED (canon.go), it loads once more with those identifiers
// rewritten to their reference names, so that every rule sees the names it knows. overlay maps
// absolute file names to replacement contents (used only by the self-validation corpus).
func Load(repo, goarch string, overlay map[string][]byte) (*Prog, error) {
	p, err := loadOnce(repo, goarch, overlay)
	if err != nil || anchorRecord != nil {
		return p, err
	}
	ov, renames := p.canonicalOverlay(overlay)
	if len(renames) > 0 {
		if p2, err2 := loadOnce(repo, goarch, ov); err2 == nil {
			p2.Renamed = renames
			p = p2
			overlay = ov
		}
		// else: the reverse renaming did not type-check (name clash): analyse the tree as it is
	}
	// extracted helpers are substituted for their calls (inline.go); up to three rounds, for a helper of a helper and several helpers in one statement
	orig := p
	defer func() {
		if p != orig && p != nil {
			p.PreInline = orig
		}
	}()
	forceBlock := map[string]bool{}
	allBlock := false
	for round, attempts := 0, 0; round < 3 && attempts < 8; attempts++ {
		iov, notes := p.inlineOverlay(overlay, forceBlock, allBlock)
		if len(notes) == 0 {
			break
		}
		p3, err3 := loadOnce(repo, goarch, iov)
		if err3 != nil {
			if os.Getenv("HPCHECK_DEBUG_INLINE") != "" {
				fmt.Fprintln(os.Stderr, "inline: result does not type-check:", err3, notes)
				for f, b := range iov {
					_ = os.WriteFile("/var/tmp/inline_dbg_"+filepath.Base(f), b, 0o644)
				}
			}
			if allBlock {
				break // does not type-check in either form: analyse the tree as it is
			}
			// the flat form met a name of the caller: the callers in which the errors lie take the block form in the next attempt
			added := false
			for _, k := range errorDecls(err3.Error(), iov) {
				if !forceBlock[k] {
					forceBlock[k] = true
					added = true
				}
			}
			if !added {
				allBlock = true
			}
			continue
		}
		if os.Getenv("HPCHECK_DEBUG_INLINE") == "2" {
			for f, b := range iov {
				_ = os.WriteFile("/var/tmp/inline_ok_"+filepath.Base(f), b, 0o644)
			}
		}
		p3.Renamed = p.Renamed
		p3.Inlined = append(p.Inlined, notes...)
		p = p3
		overlay = iov
		round++
	}
	return p, nil
}

// errorDecls: the function declarations (declKey) that contain the positions named in a type-check error text.
func errorDecls(msg string, overlay map[string][]byte) []string {
	var out []string
	seen := map[string]bool{}
	for _, m := range regexp.MustCompile(`(/[^\s:]+\.go):(\d+):\d+`).FindAllStringSubmatch(msg, -1) {
		file := m[1]
		line, _ := strconv.Atoi(m[2])
		src, ok := overlay[file]
		if !ok {
			continue
		}
		fset := token.NewFileSet()
		f, err := parser.ParseFile(fset, file, src, parser.SkipObjectResolution)
		if err != nil || f == nil {
			continue
		}
		for _, d := range f.Decls {
			fd, ok := d.(*ast.FuncDecl)
			if !ok {
				continue
			}
			if fset.Position(fd.Pos()).Line <= line && line <= fset.Position(fd.End()).Line {
				if k := declKey(file, fd); !seen[k] {
					seen[k] = true
					out = append(out, k)
				}
			}
		}
	}
	return out
}

func loadOnce(repo, goarch string, overlay map[string][]byte) (*Prog, error) {
	repo, _ = filepath.Abs(repo)
	fset := token.NewFileSet()
	cfg := &packages.Config{
		Mode: packages.NeedName | packages.NeedFiles | packages.NeedCompiledGoFiles | packages.NeedImports |
			packages.NeedDeps | packages.NeedTypes | packages.NeedSyntax | packages.NeedTypesInfo |
			packages.NeedTypesSizes | packages.NeedModule,
		Dir:     repo,
		Fset:    fset,
		Env:     goEnv(goarch),
		Tests:   false,
		Overlay: overlay,
	}
	pkgs, err := packages.Load(cfg, "./...")
	if err != nil {
		return nil, fmt.Errorf("packages.Load: %v", err)
	}
	p := &Prog{Repo: repo, Fset: fset, ByRel: map[string]*packages.Package{}, GOARCH: goarch,
		funcDecls: map[*types.Func]*ast.FuncDecl{}, declPkg: map[*ast.FuncDecl]*packages.Package{}}
	var errs []string
	for _, pkg := range pkgs {
		for _, e := range pkg.Errors {
			errs = append(errs, e.Error())
		}
		if pkg.Module != nil && pkg.Module.Main {
			p.ModPath = pkg.Module.Path
		}
	}
	if len(errs) > 0 {
		if len(errs) > 8 {
			errs = errs[:8]
		}
		return nil, fmt.Errorf("type-check errors in the tree under analysis (a check cannot decide code that does not compile):\n  %s", strings.Join(errs, "\n  "))
	}
	if p.ModPath == "" {
		return nil, fmt.Errorf("no main module found under %s", repo)
	}
	for _, pkg := range pkgs {
		if pkg.Module == nil || !pkg.Module.Main {
			continue
		}
		rel := strings.TrimPrefix(strings.TrimPrefix(pkg.PkgPath, p.ModPath), "/")
		if rel == "" {
			rel = "."
		}
		p.ByRel[rel] = pkg
		p.Pkgs = append(p.Pkgs, pkg)
		if p.Sizes == nil {
			p.Sizes = pkg.TypesSizes
		}
	}
	sort.Slice(p.Pkgs, func(i, j int) bool { return p.Pkgs[i].PkgPath < p.Pkgs[j].PkgPath })
	if len(p.Pkgs) < minPackages {
		return nil, fmt.Errorf("only %d packages loaded from %s (expected >= %d)", len(p.Pkgs), repo, minPackages)
	}
	for _, pkg := range p.Pkgs {
		for _, f := range pkg.Syntax {
			for _, d := range f.Decls {
				if fd, ok := d.(*ast.FuncDecl); ok {
					if obj, ok := pkg.TypesInfo.Defs[fd.Name].(*types.Func); ok {
						p.funcDecls[obj] = fd
						p.declPkg[fd] = pkg
						p.nFuncs++
					}
				}
			}
		}
	}
	return p, nil
}

func (p *Prog) Pkg(rel string) *packages.Package { return p.ByRel[rel] }

// Rel returns the path of a position relative to the repository root.
func (p *Prog) Rel(pos token.Pos) string {
	ps := p.Fset.Position(pos)
	r, err := filepath.Rel(p.Repo, ps.Filename)
	if err != nil {
		r = ps.Filename
	}
	return fmt.Sprintf("%s:%d", r, ps.Line)
}

// InRepo reports whether the object is declared in the module under analysis.
func (p *Prog) InRepo(obj types.Object) bool {
	if obj == nil || obj.Pkg() == nil {
		return false
	}
	return obj.Pkg().Path() == p.ModPath || strings.HasPrefix(obj.Pkg().Path(), p.ModPath+"/")
}

func (p *Prog) RelPkg(pkg *types.Package) string {
	if pkg == nil {
		return ""
	}
	r := strings.TrimPrefix(strings.TrimPrefix(pkg.Path(), p.ModPath), "/")
	if r == "" {
		return "."
	}
	return r
}

// LookupFunc finds a package-level function ("name") or method ("Type.name") of package rel.
func (p *Prog) LookupFunc(rel, name string) *types.Func {
	f := p.lookupFuncByName(rel, name)
	key := "F " + rel + " " + name
	if anchorRecord != nil && f != nil {
		anchorRecord[key] = sigKey(f)
	}
	if f == nil {
		// renamed? the reference tree's signature of this anchor (anchors.json) identifies it when
		// exactly one function with the same receiver and signature exists that is not itself an anchor
		f = p.lookupRenamed(rel, name)
	}
	return f
}

// sigKey: receiver type name and signature without parameter names.
func sigKey(f *types.Func) string {
	sig := f.Type().(*types.Signature)
	recv := ""
	if r := sig.Recv(); r != nil {
		t := r.Type()
		if pt, ok := t.(*types.Pointer); ok {
			t = pt.Elem()
		}
		if n, ok := t.(*types.Named); ok {
			recv = n.Obj().Name()
		}
	}
	var ps, rs []string
	for i := 0; i < sig.Params().Len(); i++ {
		ps = append(ps, sig.Params().At(i).Type().String())
	}
	for i := 0; i < sig.Results().Len(); i++ {
		rs = append(rs, sig.Results().At(i).Type().String())
	}
	v := ""
	if sig.Variadic() {
		v = "..."
	}
	return recv + "(" + strings.Join(ps, ",") + v + ")(" + strings.Join(rs, ",") + ")"
}

func (p *Prog) lookupRenamed(rel, name string) *types.Func {
	want, ok := anchorSigs["F "+rel+" "+name]
	if !ok {
		return nil
	}
	pkg := p.ByRel[rel]
	if pkg == nil {
		return nil
	}
	// names that are anchors themselves (and exist) are not candidates
	taken := map[string]bool{}
	for k := range anchorSigs {
		if strings.HasPrefix(k, "F "+rel+" ") {
			n := strings.TrimPrefix(k, "F "+rel+" ")
			if p.lookupFuncByName(rel, n) != nil {
				taken[n] = true
			}
		}
	}
	var cands []*types.Func
	for f := range p.funcDecls {
		if f.Pkg() != pkg.Types || sigKey(f) != want {
			continue
		}
		n := f.Name()
		if i := strings.Index(want, "("); i > 0 {
			n = want[:i] + "." + n
		}
		if taken[n] {
			continue
		}
		cands = append(cands, f)
	}
	if len(cands) == 1 {
		return cands[0]
	}
	return nil
}

func (p *Prog) lookupFuncByName(rel, name string) *types.Func {
	pkg := p.ByRel[rel]
	if pkg == nil {
		return nil
	}
	if i := strings.Index(name, "."); i >= 0 {
		tn, _ := pkg.Types.Scope().Lookup(name[:i]).(*types.TypeName)
		if tn == nil {
			return nil
		}
		obj, _, _ := types.LookupFieldOrMethod(types.NewPointer(tn.Type()), true, pkg.Types, name[i+1:])
		f, _ := obj.(*types.Func)
		return f
	}
	f, _ := pkg.Types.Scope().Lookup(name).(*types.Func)
	return f
}

func (p *Prog) Decl(f *types.Func) *ast.FuncDecl {
	if f == nil {
		return nil
	}
	return p.funcDecls[f.Origin()]
}

func (p *Prog) DeclOf(rel, name string) (*ast.FuncDecl, *packages.Package) {
	f := p.LookupFunc(rel, name)
	fd := p.Decl(f)
	if fd == nil {
		return nil, nil
	}
	return fd, p.declPkg[fd]
}

func (p *Prog) PkgOfDecl(fd *ast.FuncDecl) *packages.Package { return p.declPkg[fd] }

// LookupVar finds a package-level variable or constant.
func (p *Prog) LookupObj(rel, name string) types.Object {
	pkg := p.ByRel[rel]
	if pkg == nil {
		return nil
	}
	return pkg.Types.Scope().Lookup(name)
}

// LookupField finds field `field` of named struct type `typ` in package rel.
func (p *Prog) LookupField(rel, typ, field string) *types.Var {
	pkg := p.ByRel[rel]
	if pkg == nil {
		return nil
	}
	tn, _ := pkg.Types.Scope().Lookup(typ).(*types.TypeName)
	if tn == nil {
		return nil
	}
	obj, _, _ := types.LookupFieldOrMethod(tn.Type(), true, pkg.Types, field)
	v, _ := obj.(*types.Var)
	return v
}

// FuncName gives "rel.Type.method" / "rel.func" for a function object.
func (p *Prog) FuncName(f *types.Func) string {
	if f == nil {
		return "<nil>"
	}
	name := f.Name()
	if sig, ok := f.Type().(*types.Signature); ok && sig.Recv() != nil {
		t := sig.Recv().Type()
		if pt, ok := t.(*types.Pointer); ok {
			t = pt.Elem()
		}
		if n, ok := t.(*types.Named); ok {
			name = n.Obj().Name() + "." + name
		}
	}
	return p.RelPkg(f.Pkg()) + "." + name
}

func (p *Prog) DeclName(fd *ast.FuncDecl) string {
	pkg := p.declPkg[fd]
	if pkg == nil {
		return fd.Name.Name
	}
	f, _ := pkg.TypesInfo.Defs[fd.Name].(*types.Func)
	return p.FuncName(f)
}

// EachFunc visits every function declaration with a body in the repo, in a stable order.
func (p *Prog) EachFunc(fn func(pkg *packages.Package, fd *ast.FuncDecl)) {
	for _, pkg := range p.Pkgs {
		for _, f := range pkg.Syntax {
			for _, d := range f.Decls {
				if fd, ok := d.(*ast.FuncDecl); ok && fd.Body != nil {
					fn(pkg, fd)
				}
			}
		}
	}
}

// SSA builds (once) the SSA form of the repo packages.
func (p *Prog) SSA() (*ssa.Program, map[string]*ssa.Package) {
	if p.ssaProg != nil {
		return p.ssaProg, p.ssaPkgs
	}
	prog, _ := ssautil.AllPackages(p.Pkgs, ssa.InstantiateGenerics)
	prog.Build()
	p.ssaProg = prog
	p.ssaPkgs = map[string]*ssa.Package{}
	for _, pkg := range p.Pkgs {
		rel := p.RelPkg(pkg.Types)
		p.ssaPkgs[rel] = prog.Package(pkg.Types)
	}
	return p.ssaProg, p.ssaPkgs
}

// Callee resolves the statically known callee of a call expression (function,
// method, or method through an embedded field); nil for dynamic calls.
func Callee(info *types.Info, call *ast.CallExpr) *types.Func {
	fun := ast.Unparen(call.Fun)
	switch f := fun.(type) {
	case *ast.Ident:
		if fn, ok := info.Uses[f].(*types.Func); ok {
			return fn
		}
	case *ast.SelectorExpr:
		if sel, ok := info.Selections[f]; ok {
			if sel.Kind() == types.MethodVal {
				if fn, ok := sel.Obj().(*types.Func); ok {
					// interface method: dynamic
					if types.IsInterface(sel.Recv()) {
						return nil
					}
					return fn
				}
			}
			return nil
		}
		if fn, ok := info.Uses[f.Sel].(*types.Func); ok {
			return fn
		}
	}
	return nil
}

// IfaceCallee returns the interface method called dynamically, if any.
func IfaceCallee(info *types.Info, call *ast.CallExpr) *types.Func {
	if f, ok := ast.Unparen(call.Fun).(*ast.SelectorExpr); ok {
		if sel, ok := info.Selections[f]; ok && sel.Kind() == types.MethodVal && types.IsInterface(sel.Recv()) {
			fn, _ := sel.Obj().(*types.Func)
			return fn
		}
	}
	return nil
}

// IsBuiltin reports whether call is a call of the named builtin.
func IsBuiltin(info *types.Info, call *ast.CallExpr, name string) bool {
	id, ok := ast.Unparen(call.Fun).(*ast.Ident)
	if !ok {
		return false
	}
	b, ok := info.Uses[id].(*types.Builtin)
	return ok && b.Name() == name
}

// FullName is pkgpath.Func or pkgpath.Type.Method for any function (repo or not).
func FullName(f *types.Func) string {
	if f == nil {
		return ""
	}
	name := f.Name()
	if sig, ok := f.Type().(*types.Signature); ok && sig.Recv() != nil {
		t := sig.Recv().Type()
		if pt, ok := t.(*types.Pointer); ok {
			t = pt.Elem()
		}
		if n, ok := t.(*types.Named); ok {
			name = n.Obj().Name() + "." + name
		}
	}
	if f.Pkg() != nil {
		return f.Pkg().Path() + "." + name
	}
	return name
}

// InfoAt: the types.Info of the repository package whose syntax contains pos.
func (p *Prog) InfoAt(pos token.Pos) *types.Info {
	if p.fileInfo == nil {
		p.fileInfo = map[*token.File]*types.Info{}
		for _, pkg := range p.Pkgs {
			for _, f := range pkg.Syntax {
				if tf := p.Fset.File(f.Pos()); tf != nil {
					p.fileInfo[tf] = pkg.TypesInfo
				}
			}
		}
	}
	if tf := p.Fset.File(pos); tf != nil {
		return p.fileInfo[tf]
	}
	return nil
}

// anchorRecord, when non-nil (hpcheck -record-anchors), collects the signature of every function
// looked up by name; anchorSigs is the committed table written from it (anchors.json, embedded).
var anchorRecord map[string]string

//go:embed anchors.json
var anchorsJSON []byte

var anchorSigs = func() map[string]string {
	m := map[string]string{}
	_ = json.Unmarshal(anchorsJSON, &m)
	return m
}()

// calleeAnchors: functions that rules recognise by NAME at call sites (methodName(call) == "...",
// f.Name() == "..."). They are looked up once per run so that their signatures are in the anchor
// table and a rename can be mapped back (nameAlias).
var calleeAnchors = []struct{ rel, name string }{
	{"rpc/socket", "parseHeader"}, {"rpc/udp", "parseHeader"}, {"rpc/websocket", "parseHeader"},
	{"rpc/socket", "makeHeader"}, {"rpc/udp", "makeHeader"}, {"rpc/websocket", "makeHeader"},
	{"rpc/socket", "conn.loadAndDelete"}, {"rpc/udp", "conn.loadAndDelete"}, {"rpc/websocket", "conn.loadAndDelete"},
	{"rpc/socket", "conn.rangeAndClean"}, {"rpc/udp", "conn.rangeAndClean"}, {"rpc/websocket", "conn.rangeAndClean"},
	{"rpc/socket", "conn.store"}, {"rpc/udp", "conn.store"}, {"rpc/websocket", "conn.store"},
	{"rpc/socket", "conn.delete"}, {"rpc/udp", "conn.delete"}, {"rpc/websocket", "conn.delete"},
	{"rpc/socket", "Handler.sendResponse"}, {"rpc/udp", "Handler.sendResponse"}, {"rpc/websocket", "Handler.sendResponse"},
	{"rpc/socket", "Handler.run"}, {"rpc/udp", "Handler.run"}, {"rpc/websocket", "Handler.run"},
	{"rpc/socket", "Handler.task"}, {"rpc/udp", "Handler.task"}, {"rpc/websocket", "Handler.task"},
	{"rpc/socket", "Handler.getServiceContext"}, {"rpc/udp", "Handler.getServiceContext"}, {"rpc/websocket", "Handler.getServiceContext"},
	{"io", "Decoder.loadMore"}, {"io", "getFields"}, {"io", "appendName"}, {"io", "Decoder.decodeError"},
	{"rpc/core", "pluginManager.rebuildHandler"},
}

// nameAlias: current name -> reference name, for anchor functions that were renamed (resolved by
// signature). Filled by resolveAliases after loading.
var nameAlias = map[string]string{}

func (p *Prog) resolveAliases() {
	nameAlias = map[string]string{}
	for _, a := range calleeAnchors {
		p.LookupFunc(a.rel, a.name)
	}
	for k := range anchorSigs {
		parts := strings.SplitN(k, " ", 3)
		if len(parts) != 3 || parts[0] != "F" {
			continue
		}
		rel, name := parts[1], parts[2]
		if p.lookupFuncByName(rel, name) != nil {
			continue
		}
		if f := p.lookupRenamed(rel, name); f != nil {
			base := name
			if j := strings.LastIndex(base, "."); j >= 0 {
				base = base[j+1:]
			}
			if f.Name() != base {
				nameAlias[f.Name()] = base
			}
		}
	}
}

// refName: the reference-tree name of a (possibly renamed) anchor function.
func refName(name string) string {
	if a, ok := nameAlias[name]; ok {
		return a
	}
	return name
}
