package main

import (
	"fmt"
	"go/ast"
	"go/constant"
	"go/token"
	"go/types"
	"strings"

	"golang.org/x/tools/go/packages"
)

// ---- small helpers over the typed AST -------------------------------------------------

func deref(t types.Type) (types.Type, int) {
	n := 0
	for {
		pt, ok := t.Underlying().(*types.Pointer)
		if !ok {
			return t, n
		}
		t = pt.Elem()
		n++
	}
}

func isUnsafePointer(t types.Type) bool {
	b, ok := t.Underlying().(*types.Basic)
	return ok && b.Kind() == types.UnsafePointer
}

func isNamed(t types.Type, pkgPath, name string) bool {
	if pt, ok := t.(*types.Pointer); ok {
		t = pt.Elem()
	}
	n, ok := t.(*types.Named)
	if !ok {
		return false
	}
	o := n.Obj()
	return o.Name() == name && o.Pkg() != nil && o.Pkg().Path() == pkgPath
}

// constOf returns the constant object an expression denotes (reflect.Int8, TagList, ...).
func constOf(info *types.Info, e ast.Expr) *types.Const {
	switch x := ast.Unparen(e).(type) {
	case *ast.Ident:
		c, _ := info.Uses[x].(*types.Const)
		return c
	case *ast.SelectorExpr:
		c, _ := info.Uses[x.Sel].(*types.Const)
		return c
	}
	return nil
}

func isReflectKind(t types.Type) bool { return isNamed(t, "reflect", "Kind") }

// kindConst returns the name of a reflect.Kind constant ("Int8") or "".
func kindConst(info *types.Info, e ast.Expr) string {
	c := constOf(info, e)
	if c == nil || !isReflectKind(c.Type()) {
		return ""
	}
	return c.Name()
}

// objOf resolves an identifier or selector to the object it uses.
func objOf(info *types.Info, e ast.Expr) types.Object {
	switch x := ast.Unparen(e).(type) {
	case *ast.Ident:
		if o := info.Uses[x]; o != nil {
			return o
		}
		return info.Defs[x]
	case *ast.SelectorExpr:
		return info.Uses[x.Sel]
	}
	return nil
}

// fieldOf returns the struct field selected by a selector expression, or nil.
func fieldOf(info *types.Info, e ast.Expr) *types.Var {
	se, ok := ast.Unparen(e).(*ast.SelectorExpr)
	if !ok {
		return nil
	}
	if sel, ok := info.Selections[se]; ok && sel.Kind() == types.FieldVal {
		v, _ := sel.Obj().(*types.Var)
		return v
	}
	// a selector rebuilt by substParams (helper expansion) has no Selections entry, but its Sel
	// identifier is the original, resolved one
	if _, ok := info.Selections[se]; !ok {
		if v, ok := info.Uses[se.Sel].(*types.Var); ok && v.IsField() {
			return v
		}
	}
	return nil
}

func intConst(info *types.Info, e ast.Expr) (int64, bool) {
	tv, ok := info.Types[e]
	if !ok || tv.Value == nil {
		return 0, false
	}
	if tv.Value.Kind() != constant.Int {
		return 0, false
	}
	v, ok := constant.Int64Val(tv.Value)
	return v, ok
}

// isConversion reports whether call is a type conversion and returns the target type.
func isConversion(info *types.Info, call *ast.CallExpr) (types.Type, bool) {
	tv, ok := info.Types[call.Fun]
	if ok && tv.IsType() && len(call.Args) == 1 {
		return tv.Type, true
	}
	return nil, false
}

func exprString(fset *token.FileSet, e ast.Node) string {
	if ex, ok := e.(ast.Expr); ok {
		return types.ExprString(ex)
	}
	return fmt.Sprintf("%T", e)
}

// enclosing function bodies -------------------------------------------------------------

// funcBody describes a function body together with its parameters (decl or literal).
type funcBody struct {
	Name   string // descriptor used in obligation keys
	Type   *ast.FuncType
	Body   *ast.BlockStmt
	Pkg    *packages.Package
	Recv   *ast.FieldList
	Params []*types.Var // in order, receiver excluded
}

func paramsOf(info *types.Info, ft *ast.FuncType) []*types.Var {
	var out []*types.Var
	if ft.Params == nil {
		return nil
	}
	for _, f := range ft.Params.List {
		if len(f.Names) == 0 {
			out = append(out, nil)
			continue
		}
		for _, n := range f.Names {
			v, _ := info.Defs[n].(*types.Var)
			out = append(out, v)
		}
	}
	return out
}

func (p *Prog) bodyOfDecl(fd *ast.FuncDecl) *funcBody {
	pkg := p.declPkg[fd]
	if pkg == nil || fd.Body == nil {
		return nil
	}
	return &funcBody{Name: p.DeclName(fd), Type: fd.Type, Body: fd.Body, Pkg: pkg, Recv: fd.Recv, Params: paramsOf(pkg.TypesInfo, fd.Type)}
}

func (p *Prog) bodyOfLit(pkg *packages.Package, fl *ast.FuncLit, name string) *funcBody {
	return &funcBody{Name: name, Type: fl.Type, Body: fl.Body, Pkg: pkg, Params: paramsOf(pkg.TypesInfo, fl.Type)}
}

// methodsOf returns the declared methods (with bodies) of a named repo type.
func (p *Prog) methodsOf(t types.Type) []*ast.FuncDecl {
	if pt, ok := t.(*types.Pointer); ok {
		t = pt.Elem()
	}
	n, ok := t.(*types.Named)
	if !ok {
		return nil
	}
	var out []*ast.FuncDecl
	for i := 0; i < n.NumMethods(); i++ {
		if fd := p.Decl(n.Method(i)); fd != nil {
			out = append(out, fd)
		}
	}
	return out
}

// parentMap builds child->parent links for a subtree.
func parentMap(root ast.Node) map[ast.Node]ast.Node {
	m := map[ast.Node]ast.Node{}
	var stack []ast.Node
	ast.Inspect(root, func(n ast.Node) bool {
		if n == nil {
			stack = stack[:len(stack)-1]
			return true
		}
		if len(stack) > 0 {
			m[n] = stack[len(stack)-1]
		}
		stack = append(stack, n)
		return true
	})
	return m
}

// typeKey renders a type relative to nothing (full paths trimmed to package names).
func typeKey(t types.Type) string {
	return types.TypeString(t, func(p *types.Package) string { return p.Name() })
}

func shortKind(k string) string { return strings.TrimPrefix(k, "reflect.") }
