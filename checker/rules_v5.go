package main

import (
	"fmt"
	"go/ast"
	"go/token"
	"go/types"
)

// V5 window discipline (C05): the decoder's buffer holds valid stream bytes only in
// buf[head:tail]; everything else is stale data from earlier reads. Every read of the buffer must
// stay inside that window, and every consumption must advance head by what was taken.

func init() {
	register("V5", "decoder window discipline: every read of Decoder.buf is a slice or index inside [head, tail) by construction (upper bound tail, head+k with k proven not larger than the window, or k under tail >= k right after a refill); the buffer is never used whole except as the refill target; and every consumption advances head by exactly what was taken (or is followed by a refill)", 12, ruleV5)
}

func ruleV5(r *Run) {
	p := r.P
	pkg := p.Pkg("io")
	if pkg == nil {
		r.Undec("package io", 0, "not found")
		return
	}
	info := pkg.TypesInfo
	bufF, headF, tailF := p.LookupField("io", "Decoder", "buf"), p.LookupField("io", "Decoder", "head"), p.LookupField("io", "Decoder", "tail")
	if bufF == nil || headF == nil || tailF == nil {
		r.Undec("Decoder.buf/head/tail", 0, "fields not found")
		return
	}
	isF := func(e ast.Expr, f *types.Var) bool { return fieldOf(info, ast.Unparen(e)) == f }
	hasLoadMore := func(n ast.Node) bool {
		found := false
		if n == nil {
			return false
		}
		ast.Inspect(n, func(m ast.Node) bool {
			if c, ok := m.(*ast.CallExpr); ok && methodName(c) == "loadMore" {
				found = true
			}
			return true
		})
		return found
	}
	// V5e: a Read that delivered bytes is a success whatever error came with it (io.Reader allows
	// n > 0 together with io.EOF): the error of Read is recorded only where n > 0 is excluded
	if lm, _ := p.DeclOf("io", "Decoder.loadMore"); lm != nil {
		lparents := parentMap(lm.Body)
		var nObj, errObj types.Object
		ast.Inspect(lm.Body, func(n ast.Node) bool {
			if as, ok := n.(*ast.AssignStmt); ok && len(as.Lhs) == 2 && len(as.Rhs) == 1 {
				if c, ok := ast.Unparen(as.Rhs[0]).(*ast.CallExpr); ok && methodName(c) == "Read" {
					nObj, errObj = identObj(info, as.Lhs[0]), identObj(info, as.Lhs[1])
				}
			}
			return true
		})
		errF := p.LookupField("io", "Decoder", "Error")
		found := false
		ast.Inspect(lm.Body, func(n ast.Node) bool {
			as, ok := n.(*ast.AssignStmt)
			var site ast.Node
			if ok && len(as.Lhs) == 1 && len(as.Rhs) == 1 && errF != nil && errObj != nil && fieldOf(info, as.Lhs[0]) == errF && identObj(info, as.Rhs[0]) == errObj {
				site = as
			}
			// or through a helper that stores its argument in Decoder.Error (dec.setError(err))
			if es, isES := n.(*ast.ExprStmt); isES && errObj != nil {
				if c, isCall := es.X.(*ast.CallExpr); isCall {
					for ai, a := range c.Args {
						if identObj(info, a) != errObj {
							continue
						}
						if hd := p.Decl(Callee(info, c)); hd != nil && hd.Body != nil {
							hp := paramsOf(info, hd.Type)
							ast.Inspect(hd.Body, func(k ast.Node) bool {
								if ha, ok := k.(*ast.AssignStmt); ok && len(ha.Lhs) == 1 && len(ha.Rhs) == 1 && ai < len(hp) && fieldOf(info, ha.Lhs[0]) == errF && identObj(info, ha.Rhs[0]) == hp[ai] {
									site = es
								}
								return true
							})
						}
					}
				}
			}
			if site == nil {
				return true
			}
			found = true
			noBytes := false
			for _, fc := range factsWithSwitch(lparents, site) {
				be, ok := fc.e.(*ast.BinaryExpr)
				if !ok || identObj(info, be.X) != nObj {
					continue
				}
				k, ok := intConst(info, be.Y)
				if !ok || k != 0 {
					continue
				}
				switch {
				case fc.neg && be.Op == token.GTR, !fc.neg && be.Op == token.EQL, !fc.neg && be.Op == token.LEQ:
					noBytes = true
				}
			}
			r.Check(noBytes, "read error recorded only when no bytes came with it (Decoder.loadMore)", site.Pos(), "Error = err under n == 0", "loadMore records the error of Read although the same call delivered bytes: a reader that returns its last fragment together with io.EOF (allowed by io.Reader) puts the decoder in the error state while all values still decode, so the streaming decode reports EOF where the in-memory decode of the same bytes reports nothing, and a later genuine error is masked")
			return true
		})
		if !found {
			r.Undec("read error handling (Decoder.loadMore)", lm.Pos(), "no `dec.Error = err` of the Read result found")
		}
	} else {
		r.Undec("Decoder.loadMore", 0, "not found")
	}
	for _, file := range pkg.Syntax {
		for _, d := range file.Decls {
			fd, ok := d.(*ast.FuncDecl)
			if !ok || fd.Body == nil {
				continue
			}
			uses := 0
			ast.Inspect(fd.Body, func(n ast.Node) bool {
				if se, ok := n.(*ast.SelectorExpr); ok && info.Uses[se.Sel] == types.Object(bufF) {
					uses++
				}
				return true
			})
			if uses == 0 {
				continue
			}
			parents := parentMap(fd.Body)
			defs := localDefs(info, fd.Body)
			// window length: expression tail-head or a local defined as that
			isWinLen := func(e ast.Expr) bool {
				e = ast.Unparen(e)
				if o := identObj(info, e); o != nil {
					if d := defs[o]; d != nil {
						e = ast.Unparen(d)
					} else {
						// multi-assigned locals: every assignment must be tail-head
						all, n := true, 0
						ast.Inspect(fd.Body, func(m ast.Node) bool {
							if as, ok := m.(*ast.AssignStmt); ok && len(as.Lhs) == len(as.Rhs) {
								for i, l := range as.Lhs {
									if identObj(info, l) == o {
										n++
										be, ok := ast.Unparen(as.Rhs[i]).(*ast.BinaryExpr)
										if !(ok && be.Op == token.SUB && isF(be.X, tailF) && isF(be.Y, headF)) {
											all = false
										}
									}
								}
							}
							return true
						})
						return all && n > 0
					}
				}
				be, ok := e.(*ast.BinaryExpr)
				return ok && be.Op == token.SUB && isF(be.X, tailF) && isF(be.Y, headF)
			}
			same := func(a, b ast.Expr) bool { return types.ExprString(ast.Unparen(a)) == types.ExprString(ast.Unparen(b)) }
			// k <= window length at node `at`?
			boundedByWindow := func(k ast.Expr, at ast.Node) bool {
				k = ast.Unparen(k)
				// index of a delimiter found inside the window
				if o := identObj(info, k); o != nil {
					for n := parents[at]; n != nil; n = parents[n] {
						ifs, ok := n.(*ast.IfStmt)
						if !ok || ifs.Init == nil {
							continue
						}
						as, ok := ifs.Init.(*ast.AssignStmt)
						if !ok || len(as.Lhs) != 1 || len(as.Rhs) != 1 || identObj(info, as.Lhs[0]) != o {
							continue
						}
						call, ok := ast.Unparen(as.Rhs[0]).(*ast.CallExpr)
						if !ok || len(call.Args) < 1 {
							continue
						}
						if f := Callee(info, call); f != nil && FullName(f) == "bytes.IndexByte" {
							if se, ok := ast.Unparen(call.Args[0]).(*ast.SliceExpr); ok && isF(se.X, bufF) && isF(se.Low, headF) && isF(se.High, tailF) {
								return true
							}
						}
					}
				}
				for _, fc := range collectFacts(parents, at) {
					be, ok := fc.e.(*ast.BinaryExpr)
					if !ok {
						continue
					}
					op := be.Op
					if fc.neg {
						switch op {
						case token.LSS:
							op = token.GEQ
						case token.GTR:
							op = token.LEQ
						default:
							continue
						}
					}
					if (op == token.GEQ || op == token.GTR) && isWinLen(be.X) && same(be.Y, k) {
						return true
					}
					if (op == token.LEQ || op == token.LSS) && isWinLen(be.Y) && same(be.X, k) {
						return true
					}
				}
				return false
			}
			afterRefill := func(at ast.Node) bool {
				for _, fc := range collectFacts(parents, at) {
					if hasLoadMore(fc.e) {
						return true
					}
				}
				return false
			}
			stmtOf := func(n ast.Node) ast.Stmt {
				for m := n; m != nil; m = parents[m] {
					if s, ok := m.(ast.Stmt); ok {
						if _, inBlock := parents[m].(*ast.BlockStmt); inBlock {
							return s
						}
					}
				}
				return nil
			}
			touches := func(n ast.Node) bool {
				t := false
				ast.Inspect(n, func(m ast.Node) bool {
					if se, ok := m.(*ast.SelectorExpr); ok {
						if o := info.Uses[se.Sel]; o == types.Object(bufF) || o == types.Object(headF) {
							t = true
						}
					}
					if c, ok := m.(*ast.CallExpr); ok && methodName(c) == "loadMore" {
						t = true
					}
					return true
				})
				return t
			}
			// firstTouch: the first leaf (simple statement or condition) in evaluation order that touches the window state
			var firstTouch func(s ast.Node) ast.Node
			firstTouch = func(s ast.Node) ast.Node {
				if s == nil || !touches(s) {
					return nil
				}
				switch x := s.(type) {
				case *ast.BlockStmt:
					for _, c := range x.List {
						if t := firstTouch(c); t != nil {
							return t
						}
					}
					return nil
				case *ast.IfStmt:
					if x.Init != nil && touches(x.Init) {
						return x.Init
					}
					if touches(x.Cond) {
						return x.Cond
					}
					if t := firstTouch(x.Body); t != nil {
						return t
					}
					return firstTouch(x.Else)
				case *ast.ForStmt:
					if x.Init != nil && touches(x.Init) {
						return x.Init
					}
					if x.Cond != nil && touches(x.Cond) {
						return x.Cond
					}
					return firstTouch(x.Body)
				}
				return s
			}
			// nextTouch: the first window-touching leaf executed after statement s (following loop back edges once)
			nextTouch := func(s ast.Stmt) (ast.Node, bool) {
				cur := ast.Node(s)
				for hops := 0; hops < 12; hops++ {
					par := parents[cur]
					switch x := par.(type) {
					case *ast.BlockStmt:
						idx := -1
						for i, c := range x.List {
							if c == cur {
								idx = i
							}
						}
						jumped := false
						for _, c := range x.List[idx+1:] {
							if _, isRet := c.(*ast.ReturnStmt); isRet {
								return nil, false // leaves the function without touching the window
							}
							if br, isBr := c.(*ast.BranchStmt); isBr && br.Label == nil && br.Tok == token.CONTINUE {
								// on to the next iteration of the innermost loop: post statement, condition, body
								for l := parents[ast.Node(x)]; l != nil; l = parents[l] {
									if fs, ok := l.(*ast.ForStmt); ok {
										if fs.Post != nil && touches(fs.Post) {
											return fs.Post, true
										}
										if fs.Cond != nil && touches(fs.Cond) {
											return fs.Cond, true
										}
										if t := firstTouch(fs.Body); t != nil {
											return t, true
										}
										cur = fs
										jumped = true
										break
									}
								}
								break
							}
							if t := firstTouch(c); t != nil {
								return t, true
							}
						}
						if jumped {
							continue
						}
						cur = x
					case *ast.ForStmt:
						if cur == ast.Node(x.Body) { // back edge
							if x.Post != nil && touches(x.Post) {
								return x.Post, true
							}
							if x.Cond != nil && touches(x.Cond) {
								return x.Cond, true
							}
							if t := firstTouch(x.Body); t != nil {
								return t, true
							}
						}
						cur = x
					case *ast.IfStmt, *ast.CaseClause, *ast.SwitchStmt, *ast.LabeledStmt:
						cur = par
					default:
						return nil, false
					}
				}
				return nil, false
			}
			advancesHead := func(blockOf ast.Stmt, want func(as *ast.AssignStmt) bool) bool {
				blk, ok := parents[blockOf].(*ast.BlockStmt)
				if !ok {
					return false
				}
				for _, c := range blk.List {
					if as, ok := c.(*ast.AssignStmt); ok && len(as.Lhs) == 1 && len(as.Rhs) == 1 && isF(as.Lhs[0], headF) && want(as) {
						return true
					}
				}
				return false
			}
			// whole-window consumption through a local alias: buf := dec.buf[head:tail]; append(data, buf...)
			winLocals := map[types.Object]bool{}
			ast.Inspect(fd.Body, func(n ast.Node) bool {
				if as, ok := n.(*ast.AssignStmt); ok && len(as.Lhs) == 1 && len(as.Rhs) == 1 {
					if se, ok := ast.Unparen(as.Rhs[0]).(*ast.SliceExpr); ok && isF(se.X, bufF) && isF(se.Low, headF) && isF(se.High, tailF) {
						if o := identObj(info, as.Lhs[0]); o != nil {
							winLocals[o] = true
						}
					}
				}
				return true
			})
			isConsume := func(n ast.Node) (ast.Stmt, bool) { // n (a whole-window value) is an argument of append/copy
				call, ok := parents[n].(*ast.CallExpr)
				if !ok {
					return nil, false
				}
				if IsBuiltin(info, call, "append") || IsBuiltin(info, call, "copy") {
					for _, a := range call.Args[1:] {
						if a == n {
							return stmtOf(call), true
						}
					}
				}
				return nil, false
			}
			checkWholeConsume := func(key string, n ast.Node, pos token.Pos) {
				st, ok := isConsume(n)
				if !ok {
					return
				}
				t, found := nextTouch(st)
				okNext := found && (hasLoadMore(t))
				if found && !okNext {
					if as, isA := t.(*ast.AssignStmt); isA && len(as.Lhs) == 1 && isF(as.Lhs[0], headF) && len(as.Rhs) == 1 && isF(as.Rhs[0], tailF) {
						okNext = true
					}
				}
				r.Check(okNext, key+" is followed by a refill", pos, "whole window consumed, then loadMore()", "the whole window is copied out but the next access to the window is not a refill (or the function returns without advancing head): the same bytes are delivered twice")
			}
			nSite := 0
			fname := p.DeclName(fd)
			ast.Inspect(fd.Body, func(n ast.Node) bool {
				// whole-window locals consumed
				if id, ok := n.(*ast.Ident); ok && winLocals[info.Uses[id]] {
					if _, isC := isConsume(id); isC {
						nSite++
						checkWholeConsume(fmt.Sprintf("window copy %s in %s #%d", id.Name, fname, nSite), id, id.Pos())
					}
					return true
				}
				se, ok := n.(*ast.SelectorExpr)
				if !ok || info.Uses[se.Sel] != types.Object(bufF) {
					return true
				}
				nSite++
				par := parents[se]
				for {
					if pe, ok := par.(*ast.ParenExpr); ok {
						par = parents[pe]
						continue
					}
					break
				}
				key := fmt.Sprintf("buffer access in %s #%d", fname, nSite)
				switch x := par.(type) {
				case *ast.AssignStmt:
					for _, l := range x.Lhs {
						if ast.Unparen(l) == ast.Expr(se) {
							return true // the buffer itself is (re)assigned
						}
					}
				case *ast.BinaryExpr:
					if x.Op == token.EQL || x.Op == token.NEQ {
						return true // nil test
					}
				case *ast.CallExpr:
					if IsBuiltin(info, x, "len") || IsBuiltin(info, x, "cap") {
						return true
					}
					if methodName(x) == "Read" && len(x.Args) == 1 && ast.Unparen(x.Args[0]) == ast.Expr(se) {
						r.Ok(key, se.Pos(), "refill target")
						return true
					}
				case *ast.IndexExpr:
					if ast.Unparen(x.X) == ast.Expr(se) {
						guard := false
						for _, fc := range collectFacts(parents, x) {
							if fc.neg {
								if be, ok := fc.e.(*ast.BinaryExpr); ok && be.Op == token.EQL && isF(be.X, headF) && isF(be.Y, tailF) {
									guard = true
								}
								if hasLoadMore(fc.e) {
									guard = true
								}
							} else if hasLoadMore(fc.e) {
								guard = true
							}
						}
						// the combined guard `(head == tail) && !loadMore()` negated is recorded as one disjunctive fact
						for m := parents[ast.Node(x)]; m != nil && !guard; m = parents[m] {
							if blk, ok := m.(*ast.BlockStmt); ok {
								for _, s := range blk.List {
									if s.Pos() >= x.Pos() {
										break
									}
									if ifs, ok := s.(*ast.IfStmt); ok && endsInJump(ifs.Body.List) && hasLoadMore(ifs.Cond) {
										guard = true
									}
								}
							}
						}
						// window scan: for p := head; p < tail; p++ { buf[p] }
						if o := identObj(info, x.Index); o != nil {
							for m := parents[ast.Node(x)]; m != nil; m = parents[m] {
								fs, ok := m.(*ast.ForStmt)
								if !ok || fs.Init == nil || fs.Cond == nil {
									continue
								}
								as, ok := fs.Init.(*ast.AssignStmt)
								if !ok || len(as.Lhs) != 1 || identObj(info, as.Lhs[0]) != o || !isF(as.Rhs[0], headF) {
									continue
								}
								be, ok := ast.Unparen(fs.Cond).(*ast.BinaryExpr)
								if !ok || be.Op != token.LSS || identObj(info, be.X) != o || !isF(be.Y, tailF) {
									continue
								}
								// every return inside the scan stores the position reached; the scan is followed by a refill
								okRet := true
								ast.Inspect(fs.Body, func(k ast.Node) bool {
									if ret, ok := k.(*ast.ReturnStmt); ok {
										st := stmtOf(ret)
										if !advancesHead(st, func(as *ast.AssignStmt) bool {
											if as.Tok != token.ASSIGN {
												return false
											}
											if identObj(info, as.Rhs[0]) == o {
												return true
											}
											b2, ok := ast.Unparen(as.Rhs[0]).(*ast.BinaryExpr)
											if !ok || b2.Op != token.ADD || identObj(info, b2.X) != o {
												return false
											}
											c, ok := intConst(info, b2.Y)
											return ok && c == 1
										}) {
											okRet = false
										}
									}
									return true
								})
								t, found := nextTouch(fs)
								r.Check(okRet && found && hasLoadMore(t), key, x.Pos(), "window scan head..tail; position stored on exit; refill after the scan", "the scan over the window does not store the position it reached before returning, or is not followed by a refill: bytes are delivered twice or skipped at a read boundary")
								return true
							}
						}
						r.Check(isF(x.Index, headF) && guard, key, x.Pos(), "buf[head] after a non-empty-window guard", "a single byte is read from the buffer at an index that is not head under a head != tail (or successful refill) guard: a stale byte beyond the window is delivered")
						return true
					}
				case *ast.SliceExpr:
					if ast.Unparen(x.X) == ast.Expr(se) {
						st := stmtOf(x)
						lowHead := x.Low != nil && isF(x.Low, headF)
						lowZero := x.Low == nil
						if c, ok := intConst(info, x.Low); x.Low != nil && ok && c == 0 {
							lowZero = true
						}
						switch {
						case x.High == nil:
							r.Viol(key, x.Pos(), "the buffer is sliced without an upper bound: bytes beyond tail are stale data from an earlier read")
						case isF(x.High, tailF) && (lowHead || (lowZero && afterRefill(x))):
							r.Ok(key, x.Pos(), "whole window")
							checkWholeConsume(key, x, x.Pos())
						case lowHead:
							// head + k  or  head - r
							be, ok := ast.Unparen(x.High).(*ast.BinaryExpr)
							if !ok || !isF(be.X, headF) || (be.Op != token.ADD && be.Op != token.SUB) {
								r.Viol(key, x.Pos(), "upper bound "+types.ExprString(x.High)+" is not tail or head+k")
								return true
							}
							var k ast.Expr = be.Y
							if be.Op == token.SUB {
								k = &ast.UnaryExpr{Op: token.SUB, X: be.Y}
							}
							if !boundedByWindow(k, x) {
								r.Viol(key, x.Pos(), fmt.Sprintf("the slice buf[head:%s] is not proven to end inside the window (no guard %s <= tail-head on the path): after a short read it takes stale bytes beyond tail and moves head past tail", types.ExprString(x.High), types.ExprString(k)))
								return true
							}
							adv := advancesHead(st, func(as *ast.AssignStmt) bool {
								if be.Op == token.ADD && as.Tok == token.ADD_ASSIGN {
									if same(as.Rhs[0], be.Y) {
										return true
									}
									if b2, ok := ast.Unparen(as.Rhs[0]).(*ast.BinaryExpr); ok && b2.Op == token.ADD && same(b2.X, be.Y) {
										if c, ok := intConst(info, b2.Y); ok && c == 1 {
											return true // delimiter skipped as well
										}
									}
								}
								if be.Op == token.SUB && as.Tok == token.SUB_ASSIGN && same(as.Rhs[0], be.Y) {
									return true
								}
								return false
							})
							r.Check(adv, key, x.Pos(), "inside the window; head advanced by the same amount", "head is not advanced by exactly the number of bytes taken from the window: bytes are delivered twice or skipped")
						case lowZero:
							// buf[0:k] right after a refill under tail >= k, with head = k
							okB := false
							for _, fc := range collectFacts(parents, x) {
								// tail >= k in any spelling: as a positive test, or as the failed test of `if tail < k { ...; continue }`
								if be, ok := fc.e.(*ast.BinaryExpr); ok {
									switch {
									case !fc.neg && be.Op == token.GEQ && isF(be.X, tailF) && same(be.Y, x.High),
										fc.neg && be.Op == token.LSS && isF(be.X, tailF) && same(be.Y, x.High),
										!fc.neg && be.Op == token.LEQ && isF(be.Y, tailF) && same(be.X, x.High),
										fc.neg && be.Op == token.GTR && isF(be.Y, tailF) && same(be.X, x.High):
										okB = true
									}
								}
							}
							if !okB || !afterRefill(x) {
								r.Viol(key, x.Pos(), "the slice buf[0:"+types.ExprString(x.High)+"] is not guarded by tail >= "+types.ExprString(x.High)+" after a refill")
								return true
							}
							adv := advancesHead(st, func(as *ast.AssignStmt) bool { return as.Tok == token.ASSIGN && same(as.Rhs[0], x.High) })
							r.Check(adv, key, x.Pos(), "inside the refilled window; head set to the amount taken", "head is not set to the number of bytes taken from the refilled window")
						default:
							r.Viol(key, x.Pos(), "lower bound "+types.ExprString(x.Low)+" is neither head nor the start of a freshly refilled buffer")
						}
						return true
					}
				}
				r.Viol(key, se.Pos(), "the decoder's buffer is used whole (not as buf[head:tail] or a guarded part of it): bytes beyond tail are stale data from earlier reads and get delivered as stream content")
				return true
			})
		}
	}
}

// V8 (C14): a decoded value is the caller's own. Handing out a package-level pointer (a shared
// "zero" or "one") lets one caller's mutation change what every later decode returns.
func init() {
	register("V8", "no decode routine stores a package-level variable of pointer, slice or map type into its destination or returns it as the decoded value: every decoded reference value is freshly allocated (a shared object handed out once can be mutated by its receiver and then changes what every later decode yields)", 1, ruleV8)
}

func ruleV8(r *Run) {
	p := r.P
	pkg := p.Pkg("io")
	if pkg == nil {
		r.Undec("package io", 0, "not found")
		return
	}
	info := pkg.TypesInfo
	isSharedRef := func(e ast.Expr) (types.Object, bool) {
		id, ok := ast.Unparen(e).(*ast.Ident)
		if !ok {
			return nil, false
		}
		v, ok := info.Uses[id].(*types.Var)
		if !ok || v.Parent() != pkg.Types.Scope() {
			return nil, false
		}
		switch v.Type().Underlying().(type) {
		case *types.Pointer, *types.Slice, *types.Map:
			return v, true
		}
		return nil, false
	}
	nStores, nBad := 0, 0
	for _, file := range pkg.Syntax {
		for _, d := range file.Decls {
			fd, ok := d.(*ast.FuncDecl)
			if !ok || fd.Body == nil {
				continue
			}
			name := fd.Name.Name
			isDecodeFn := len(name) >= 6 && (name[:6] == "decode" || name[:6] == "Decode") || (len(name) >= 4 && (name[:4] == "read" || name[:4] == "Read"))
			if !isDecodeFn {
				// converter literals registered in init functions are decode routines too
				if name != "init" {
					continue
				}
			}
			perFn := 0
			ast.Inspect(fd.Body, func(m ast.Node) bool {
				as, ok := m.(*ast.AssignStmt)
				if !ok || len(as.Lhs) != len(as.Rhs) {
					return true
				}
				for i, l := range as.Lhs {
					if _, isStar := ast.Unparen(l).(*ast.StarExpr); !isStar {
						continue
					}
					nStores++
					// *p = *sharedPointer: a shallow copy of a package-level object whose type holds slices, maps or
					// pointers shares those with every other copy
					if se, ok := ast.Unparen(as.Rhs[i]).(*ast.StarExpr); ok {
						if o, shared := isSharedRef(se.X); shared {
							if pt, ok := o.Type().Underlying().(*types.Pointer); ok && holdsReferences(pt.Elem(), 0) {
								perFn++
								nBad++
								r.Viol(fmt.Sprintf("shallow copy of the shared object %s stored as decoded value in %s #%d", o.Name(), p.DeclName(fd), perFn), as.Pos(), fmt.Sprintf("the destination receives `*%s`, a shallow copy of the package-level %s: the slices inside it (the digits of a big number) are shared with every other value decoded this way, so a caller that changes its own decoded value in place changes what all later decodes return, and two goroutines doing so race", o.Name(), o.Type()))
							}
						}
					}
					if o, shared := isSharedRef(as.Rhs[i]); shared {
						perFn++
						nBad++
						r.Viol(fmt.Sprintf("shared object %s stored as decoded value in %s #%d", o.Name(), p.DeclName(fd), perFn), as.Pos(), fmt.Sprintf("the package-level %s (%s) is stored into the destination: every caller that decodes this item receives the same object, and the first one that modifies its result (x.Add(x, y)) changes what all later decodes return", o.Name(), o.Type()))
					}
				}
				return true
			})
		}
	}
	r.Ok("destination stores scanned", 0, fmt.Sprintf("%d stores through destination pointers in decode routines, %d of a shared object", nStores, nBad))
	if nStores < 100 {
		r.Undec("destination stores", 0, fmt.Sprintf("only %d stores through destination pointers found (expected more than 100)", nStores))
	}
}

// holdsReferences: values of the type contain slices, maps or pointers (directly or in struct / array members)
func holdsReferences(t types.Type, depth int) bool {
	if depth > 4 {
		return true
	}
	switch u := t.Underlying().(type) {
	case *types.Slice, *types.Map, *types.Pointer, *types.Chan:
		return true
	case *types.Struct:
		for i := 0; i < u.NumFields(); i++ {
			if holdsReferences(u.Field(i).Type(), depth+1) {
				return true
			}
		}
	case *types.Array:
		return holdsReferences(u.Elem(), depth+1)
	}
	return false
}
