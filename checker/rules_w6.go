package main

import (
	"fmt"
	"go/ast"
	"go/token"
	"go/types"
	"sort"
	"strings"

	"golang.org/x/tools/go/packages"
)

// W6 (C04/C06): reflect2's UnsafeSetIndex(map, keyPtr, elemPtr) copies key and element through
// untyped pointers. A pointer to a value of another type than the map's key/element type is type
// confusion (the runtime hashes a string header as an interface: fatal error, not recoverable).
// W7: a lookup in a table keyed by a wire-provided name uses the comma-ok form.

func init() {
	register("W6", "every key and element pointer passed to reflect2 UnsafeSetIndex on a map points to a value of the map's key / element type: it comes from UnsafeNew() of that map's own key/element type descriptor, or it points to a Go value whose static type is the key/element type of a statically known map type, or (dynamic map type) the pointee's kind is the only kind the dominating tests on the descriptor's Kind() leave possible", 8, ruleW6)
	register("W7", "a field table keyed by a name from the wire (map[string]FieldAccessor) is read with the comma-ok form before the entry's handlers are used: a class definition may name fields the Go struct does not have", 2, ruleW7)
}

func ruleW7(r *Run) {
	p := r.P
	pkg := p.Pkg("io")
	if pkg == nil {
		r.Undec("package io", 0, "not found")
		return
	}
	info := pkg.TypesInfo
	fa := p.LookupObj("io", "FieldAccessor")
	if fa == nil {
		r.Undec("io.FieldAccessor", 0, "type not found")
		return
	}
	p.EachFunc(func(pk *packages.Package, fd *ast.FuncDecl) {
		if pk != pkg {
			return
		}
		parents := parentMap(fd.Body)
		n := 0
		ast.Inspect(fd.Body, func(m ast.Node) bool {
			ie, ok := m.(*ast.IndexExpr)
			if !ok {
				return true
			}
			tv, ok := info.Types[ie.X]
			if !ok {
				return true
			}
			mt, ok := tv.Type.Underlying().(*types.Map)
			if !ok {
				return true
			}
			if nn, ok := mt.Elem().(*types.Named); !ok || nn.Obj() != fa {
				return true
			}
			// writes are fine
			if as, ok := parents[ie].(*ast.AssignStmt); ok {
				for _, l := range as.Lhs {
					if l == ast.Expr(ie) {
						return true
					}
				}
				n++
				key := fmt.Sprintf("field table lookup in %s #%d", p.DeclName(fd), n)
				r.Check(len(as.Lhs) == 2 && len(as.Rhs) == 1, key, ie.Pos(), "comma-ok form", "the field table is read without the comma-ok form: a class definition on the wire that names a field the struct does not have yields a zero FieldAccessor whose Type and Decode are nil (nil pointer dereference on untrusted input)")
				return true
			}
			n++
			r.Viol(fmt.Sprintf("field table lookup in %s #%d", p.DeclName(fd), n), ie.Pos(), "the field table is read without the comma-ok form: a missing entry yields a zero FieldAccessor with nil handlers")
			return true
		})
	})
}

type w6 struct {
	r    *Run
	p    *Prog
	pkg  *packages.Package
	info *types.Info
}

// pointee: the static Go type the pointer expression points to, or the descriptor expression whose
// UnsafeNew() produced it.
type w6Pointee struct {
	typ   types.Type // static pointee type (nil if unknown)
	desc  string     // "valdec.kt" when produced by <desc>.UnsafeNew()
	param *types.Var // an unsafe.Pointer parameter of the enclosing function
}

func (w *w6) pointee(fd *ast.FuncDecl, e ast.Expr, depth int) (w6Pointee, bool) {
	info := w.info
	e = ast.Unparen(e)
	if depth > 4 {
		return w6Pointee{}, false
	}
	switch x := e.(type) {
	case *ast.Ident:
		o := info.Uses[x]
		if o == nil {
			o = info.Defs[x]
		}
		if v, ok := o.(*types.Var); ok {
			for _, pv := range paramsOf(info, fd.Type) {
				if pv == v {
					return w6Pointee{param: v}, true
				}
			}
		}
		// all assignments agree
		var res *w6Pointee
		okAll := true
		ast.Inspect(fd.Body, func(n ast.Node) bool {
			as, ok := n.(*ast.AssignStmt)
			if !ok || len(as.Lhs) != len(as.Rhs) {
				return true
			}
			for i, l := range as.Lhs {
				if identObj(info, l) == o {
					pt, ok := w.pointee(fd, as.Rhs[i], depth+1)
					if !ok {
						okAll = false
					} else if res == nil {
						res = &pt
					} else if res.desc != pt.desc || !sameType(res.typ, pt.typ) {
						okAll = false
					}
				}
			}
			return true
		})
		if res == nil || !okAll {
			return w6Pointee{}, false
		}
		return *res, true
	case *ast.CallExpr:
		if methodName(x) == "UnsafeNew" && len(x.Args) == 0 {
			return w6Pointee{desc: types.ExprString(x.Fun.(*ast.SelectorExpr).X)}, true
		}
		if t, ok := isConversion(info, x); ok && isUnsafePointer(t) && len(x.Args) == 1 {
			if u, ok := ast.Unparen(x.Args[0]).(*ast.UnaryExpr); ok && u.Op == token.AND {
				if tv, ok := info.Types[u.X]; ok {
					return w6Pointee{typ: tv.Type}, true
				}
			}
			return w.pointee(fd, x.Args[0], depth+1)
		}
		if f := Callee(info, x); f != nil && FullName(f) == "github.com/modern-go/reflect2.PtrOf" && len(x.Args) == 1 {
			a := ast.Unparen(x.Args[0])
			tv, ok := info.Types[a]
			if !ok {
				return w6Pointee{}, false
			}
			// PtrOf(&x) -> points to x; PtrOf(v) with a non-pointer v -> points to (a copy of) v;
			// PtrOf(p) with a pointer-typed p -> points to *p
			if pt, ok := tv.Type.Underlying().(*types.Pointer); ok {
				return w6Pointee{typ: pt.Elem()}, true
			}
			if _, isIface := tv.Type.Underlying().(*types.Interface); isIface {
				return w6Pointee{}, false // dynamic
			}
			return w6Pointee{typ: tv.Type}, true
		}
	}
	return w6Pointee{}, false
}

func sameType(a, b types.Type) bool {
	if a == nil || b == nil {
		return a == nil && b == nil
	}
	return types.Identical(a, b)
}

func goKindName(t types.Type) string {
	switch u := t.Underlying().(type) {
	case *types.Interface:
		return "Interface"
	case *types.Basic:
		if u.Kind() == types.String {
			return "String"
		}
		return strings.Title(u.Name())
	case *types.Map:
		return "Map"
	case *types.Slice:
		return "Slice"
	case *types.Pointer:
		return "Ptr"
	case *types.Struct:
		return "Struct"
	}
	return "?"
}

// kindsLeft: which kinds can descriptor `desc` still have at node `at`, given the dominating tests
// (positive equalities, disjunctions of equalities, negated equalities), expanding niladic bool
// helpers of the same package and local aliases (ktKind := valdec.kt.Kind()).
func (w *w6) kindFacts(fd *ast.FuncDecl, parents map[ast.Node]ast.Node, at ast.Node, desc string) (map[string]bool, map[string]bool) {
	info := w.info
	var only map[string]bool // nil = unconstrained
	excluded := map[string]bool{}
	constrained := false
	// kindTest: e is `<desc>.Kind() == reflect.K` (through aliases in scope `aliases`)
	kindTest := func(e ast.Expr, aliases map[string]string) (string, token.Token, bool) {
		be, ok := ast.Unparen(e).(*ast.BinaryExpr)
		if !ok || (be.Op != token.EQL && be.Op != token.NEQ) {
			return "", 0, false
		}
		// normalise: a local that renames (part of) the descriptor is replaced by its definition, and the reflect.Type
		// view of a reflect2 type (X.Type1()) is the same type
		norm := func(e ast.Expr) string {
			s := types.ExprString(ast.Unparen(e))
			if a, ok := aliases[s]; ok {
				s = a
			}
			if i := strings.IndexAny(s, ".("); i > 0 {
				if a, ok := aliases[s[:i]]; ok && !strings.ContainsAny(a, " +-*/") {
					s = a + s[i:]
				}
			}
			return strings.ReplaceAll(s, ".Type1()", "")
		}
		lhs := norm(be.X)
		// <desc> == interfaceType: the type IS interface{} (kind Interface, and no methods)
		if lhs == desc || norm(be.Y) == desc {
			other := be.Y
			if lhs != desc {
				other = be.X
			}
			if o := identObj(info, other); o != nil && refName(o.Name()) == "interfaceType" {
				return "Interface", be.Op, true
			}
		}
		if lhs != desc+".Kind()" {
			return "", 0, false
		}
		k := kindConst(info, be.Y)
		if k == "" {
			return "", 0, false
		}
		return shortKind(k), be.Op, true
	}
	var apply func(e ast.Expr, neg bool, aliases map[string]string, depth int)
	apply = func(e ast.Expr, neg bool, aliases map[string]string, depth int) {
		e = ast.Unparen(e)
		if u, ok := e.(*ast.UnaryExpr); ok && u.Op == token.NOT {
			apply(u.X, !neg, aliases, depth)
			return
		}
		if be, ok := e.(*ast.BinaryExpr); ok {
			if (be.Op == token.LAND && !neg) || (be.Op == token.LOR && neg) {
				apply(be.X, neg, aliases, depth)
				apply(be.Y, neg, aliases, depth)
				return
			}
			if be.Op == token.LOR && !neg {
				// disjunction of kind equalities on the same descriptor
				set := map[string]bool{}
				okAll := true
				var collect func(x ast.Expr)
				collect = func(x ast.Expr) {
					x = ast.Unparen(x)
					if b2, ok := x.(*ast.BinaryExpr); ok && b2.Op == token.LOR {
						collect(b2.X)
						collect(b2.Y)
						return
					}
					if k, op, ok := kindTest(x, aliases); ok && op == token.EQL {
						set[k] = true
					} else {
						okAll = false
					}
				}
				collect(be)
				if okAll {
					constrained = true
					if only == nil {
						only = set
					} else {
						for k := range only {
							if !set[k] {
								delete(only, k)
							}
						}
					}
				}
				return
			}
			if k, op, ok := kindTest(be, aliases); ok {
				eq := (op == token.EQL) != neg
				constrained = true
				if eq {
					if only == nil {
						only = map[string]bool{k: true}
					} else {
						for k2 := range only {
							if k2 != k {
								delete(only, k2)
							}
						}
					}
				} else {
					excluded[k] = true
				}
				return
			}
		}
		// niladic bool helper on a receiver: expand `return cond` / `if cond { return true }; return false`
		if call, ok := e.(*ast.CallExpr); ok && len(call.Args) == 0 && depth < 2 {
			if f := Callee(info, call); f != nil && w.p.InRepo(f) {
				if d := w.p.Decl(f); d != nil && d.Body != nil && w.p.PkgOfDecl(d) == w.pkg {
					al := map[string]string{}
					var cond ast.Expr
					for _, s := range d.Body.List {
						switch x := s.(type) {
						case *ast.AssignStmt:
							if len(x.Lhs) == 1 && len(x.Rhs) == 1 {
								al[types.ExprString(x.Lhs[0])] = types.ExprString(ast.Unparen(x.Rhs[0]))
							}
						case *ast.IfStmt:
							if len(x.Body.List) == 1 {
								if ret, ok := x.Body.List[0].(*ast.ReturnStmt); ok && len(ret.Results) == 1 && types.ExprString(ret.Results[0]) == "true" {
									cond = x.Cond
								}
							}
						case *ast.ReturnStmt:
							if len(x.Results) == 1 && cond == nil && types.ExprString(x.Results[0]) != "false" {
								cond = x.Results[0]
							}
						}
					}
					if cond != nil {
						apply(cond, neg, al, depth+1)
					}
				}
			}
		}
	}
	aliases := map[string]string{}
	for o, d := range localDefs(info, fd.Body) {
		if d != nil {
			aliases[o.Name()] = types.ExprString(ast.Unparen(d))
		}
	}
	for _, fc := range factsWithSwitch(parents, at) {
		apply(fc.e, fc.neg, aliases, 0)
	}
	_ = constrained
	return only, excluded
}

// kindsLeft combines the tests dominating `at` in fd with, when those alone do not pin the kind,
// the tests dominating every call site of fd (the helper is only reached under its callers' guards).
func (w *w6) kindsLeft(fd *ast.FuncDecl, parents map[ast.Node]ast.Node, at ast.Node, desc string) (map[string]bool, bool) {
	only, excluded := w.kindFacts(fd, parents, at, desc)
	if only == nil {
		fobj, _ := w.info.Defs[fd.Name].(*types.Func)
		var callerOnly map[string]bool
		n, okAll := 0, true
		if fobj != nil {
			w.p.EachFunc(func(pk *packages.Package, cfd *ast.FuncDecl) {
				if pk != w.pkg || cfd == fd {
					return
				}
				cparents := parentMap(cfd.Body)
				ast.Inspect(cfd.Body, func(m ast.Node) bool {
					c, ok := m.(*ast.CallExpr)
					if !ok || Callee(w.info, c) != fobj {
						return true
					}
					n++
					// the descriptor as the caller names it: <caller receiver>.<kt|vt>
					cdesc := desc
					if se, ok := c.Fun.(*ast.SelectorExpr); ok {
						if i := strings.LastIndex(desc, "."); i > 0 {
							cdesc = types.ExprString(se.X) + desc[i:]
						}
					}
					co, _ := w.kindFacts(cfd, cparents, c, cdesc)
					if co == nil {
						okAll = false
						return true
					}
					if callerOnly == nil {
						callerOnly = map[string]bool{}
						for k := range co {
							callerOnly[k] = true
						}
					} else {
						for k := range co { // union over call sites
							callerOnly[k] = true
						}
					}
					return true
				})
			})
		}
		if n == 0 || !okAll || callerOnly == nil {
			return nil, false
		}
		only = callerOnly
	}
	for k := range excluded {
		delete(only, k)
	}
	return only, true
}

func ruleW6(r *Run) {
	p := r.P
	pkg := p.Pkg("io")
	if pkg == nil {
		r.Undec("package io", 0, "not found")
		return
	}
	w := &w6{r: r, p: p, pkg: pkg, info: pkg.TypesInfo}
	info := pkg.TypesInfo
	type site struct {
		fd   *ast.FuncDecl
		call *ast.CallExpr
	}
	var sites []site
	p.EachFunc(func(pk *packages.Package, fd *ast.FuncDecl) {
		if pk != pkg {
			return
		}
		ast.Inspect(fd.Body, func(n ast.Node) bool {
			call, ok := n.(*ast.CallExpr)
			if !ok || methodName(call) != "UnsafeSetIndex" || len(call.Args) != 3 {
				return true
			}
			f := Callee(info, call)
			if f == nil {
				return true
			}
			if recv := f.Type().(*types.Signature).Recv(); recv == nil || !strings.HasSuffix(recv.Type().String(), "reflect2.UnsafeMapType") {
				return true
			}
			sites = append(sites, site{fd, call})
			return true
		})
	})
	sort.Slice(sites, func(i, j int) bool { return sites[i].call.Pos() < sites[j].call.Pos() })
	perFn := map[string]int{}
	var check func(fd *ast.FuncDecl, at *ast.CallExpr, recvExpr ast.Expr, arg ast.Expr, role string, key string, depth int)
	check = func(fd *ast.FuncDecl, at *ast.CallExpr, recvExpr ast.Expr, arg ast.Expr, role string, key string, depth int) {
		parents := parentMap(fd.Body)
		// static map type? receiver is a local defined from reflect2.TypeOf(m) / Type2(reflect.TypeOf(m))
		var static *types.Map
		if o := identObj(info, recvExpr); o != nil {
			if d := localDefs(info, fd.Body)[o]; d != nil {
				ast.Inspect(d, func(n ast.Node) bool {
					if c, ok := n.(*ast.CallExpr); ok && len(c.Args) == 1 && methodName(c) == "" {
						return true
					}
					if c, ok := n.(*ast.CallExpr); ok && len(c.Args) == 1 {
						if f := Callee(info, c); f != nil && (FullName(f) == "github.com/modern-go/reflect2.TypeOf" || FullName(f) == "reflect.TypeOf") {
							if tv, ok := info.Types[c.Args[0]]; ok {
								if mt, ok := tv.Type.Underlying().(*types.Map); ok {
									static = mt
								}
							}
						}
					}
					return true
				})
			}
		}
		pt, ok := w.pointee(fd, arg, 0)
		if !ok {
			r.Undec(key, arg.Pos(), "cannot determine what the "+role+" pointer "+types.ExprString(arg)+" points to")
			return
		}
		descWant := ""
		if se, ok := ast.Unparen(recvExpr).(*ast.SelectorExpr); ok && static == nil {
			base := types.ExprString(se.X)
			if role == "key" {
				descWant = base + ".kt"
			} else {
				descWant = base + ".vt"
			}
		}
		switch {
		case pt.param != nil:
			// typed by the callers: check every call site of this function
			fobj, _ := info.Defs[fd.Name].(*types.Func)
			idx := -1
			for i, pv := range paramsOf(info, fd.Type) {
				if pv == pt.param {
					idx = i
				}
			}
			n := 0
			if depth < 2 && fobj != nil && idx >= 0 {
				p.EachFunc(func(pk *packages.Package, cfd *ast.FuncDecl) {
					if pk != pkg {
						return
					}
					ast.Inspect(cfd.Body, func(m ast.Node) bool {
						if c, ok := m.(*ast.CallExpr); ok && Callee(info, c) == fobj && idx < len(c.Args) {
							n++
							// the helper's receiver stands for the map decoder at the caller
							var rx ast.Expr = recvExpr
							if se, ok := c.Fun.(*ast.SelectorExpr); ok {
								if rs, ok := ast.Unparen(recvExpr).(*ast.SelectorExpr); ok {
									rx = &ast.SelectorExpr{X: se.X, Sel: rs.Sel}
								}
							}
							check(cfd, c, rx, c.Args[idx], role, fmt.Sprintf("%s via %s #%d", key, p.DeclName(cfd), n), depth+1)
						}
						return true
					})
				})
			}
			if n == 0 {
				r.Undec(key, arg.Pos(), "the "+role+" pointer is a parameter and no call site was found")
			}
		case pt.desc != "":
			if static != nil {
				r.Undec(key, arg.Pos(), "UnsafeNew() of a descriptor used with a static map type")
				return
			}
			r.Check(pt.desc == descWant, key, arg.Pos(), "allocated by "+pt.desc+".UnsafeNew()", fmt.Sprintf("the %s pointer was allocated by %s.UnsafeNew() but the map's %s type is %s: the map copies a value of the wrong type", role, pt.desc, role, descWant))
		case pt.typ != nil && static != nil:
			want := static.Key()
			if role == "elem" {
				want = static.Elem()
			}
			r.Check(types.Identical(pt.typ, want), key, arg.Pos(), "points to a "+want.String(), fmt.Sprintf("the %s pointer points to a %s but the map's %s type is %s", role, pt.typ, role, want))
		case pt.typ != nil:
			kinds, ok := w.kindsLeft(fd, parents, at, descWant)
			wantK := goKindName(pt.typ)
			if ok && len(kinds) == 1 && kinds[wantK] {
				r.Ok(key, arg.Pos(), fmt.Sprintf("points to a %s; %s.Kind() is %s on this path", pt.typ, descWant, wantK))
				return
			}
			var ks []string
			for k := range kinds {
				ks = append(ks, k)
			}
			sort.Strings(ks)
			poss := "not tested on this path"
			if ok {
				poss = "one of {" + strings.Join(ks, ",") + "} on this path"
			}
			r.Viol(key, arg.Pos(), fmt.Sprintf("the %s pointer points to a Go %s, but the kind of the map's %s type (%s) is %s: when it is not %s the map copies the value through the wrong type (a string header hashed as an interface is a fatal, unrecoverable runtime error on a few bytes of input)", role, pt.typ, role, descWant, poss, wantK))
		default:
			r.Undec(key, arg.Pos(), "unknown pointee")
		}
	}
	for _, s := range sites {
		fn := p.DeclName(s.fd)
		perFn[fn]++
		recvExpr := s.call.Fun.(*ast.SelectorExpr).X
		check(s.fd, s.call, recvExpr, s.call.Args[1], "key", fmt.Sprintf("map key pointer in %s #%d", fn, perFn[fn]), 0)
		check(s.fd, s.call, recvExpr, s.call.Args[2], "elem", fmt.Sprintf("map element pointer in %s #%d", fn, perFn[fn]), 0)
	}
}

// W5 (C04): inserting into a Go map hashes the key; a key whose type can hold an interface value
// (interface{}, or a struct/array containing one) panics with "hash of unhashable type" when the
// wire put a list, map or bytes item there.
func init() {
	register("W5", "a map insertion (UnsafeSetIndex) whose key was filled by a decode handler from the wire runs under a deferred recover that turns the runtime's unhashable-key panic into a decoder error (directly, or in the helper that performs the insertion)", 1, ruleW5)
}

func ruleW5(r *Run) {
	p := r.P
	pkg := p.Pkg("io")
	if pkg == nil {
		r.Undec("package io", 0, "not found")
		return
	}
	info := pkg.TypesInfo
	gateWhy := ""
	hasRecover := func(fd *ast.FuncDecl) bool {
		found := false
		gateWhy = ""
		ast.Inspect(fd.Body, func(n ast.Node) bool {
			if d, ok := n.(*ast.DeferStmt); ok && p.deferRecovers(info, d) {
				// installed for every key type whose values can be unhashable?
				if ok, why := p.recoverGate(info, fd, d); ok {
					found = true
				} else {
					gateWhy = why
				}
			}
			return true
		})
		return found
	}
	gated := func(msg string) string {
		if gateWhy != "" {
			return "the recover around the insertion is " + gateWhy + "; " + msg
		}
		return msg
	}
	// insertsParam: fd passes its parameter #i as the key of UnsafeSetIndex
	insertsKeyParam := func(fd *ast.FuncDecl) int {
		idx := -1
		params := paramsOf(info, fd.Type)
		ast.Inspect(fd.Body, func(n ast.Node) bool {
			c, ok := n.(*ast.CallExpr)
			if !ok || methodName(c) != "UnsafeSetIndex" || len(c.Args) != 3 {
				return true
			}
			if o := identObj(info, c.Args[1]); o != nil {
				for i, pv := range params {
					if pv == o {
						idx = i
					}
				}
			}
			return true
		})
		return idx
	}
	n := 0
	p.EachFunc(func(pk *packages.Package, fd *ast.FuncDecl) {
		if pk != pkg {
			return
		}
		// key slots filled from the wire: X in `<recv>.decodeKey(dec, t, X)` (a DecodeHandler-typed field call)
		wireKeys := map[types.Object]bool{}
		ast.Inspect(fd.Body, func(m ast.Node) bool {
			c, ok := m.(*ast.CallExpr)
			if !ok || len(c.Args) != 3 {
				return true
			}
			se, ok := c.Fun.(*ast.SelectorExpr)
			if !ok || se.Sel.Name != "decodeKey" {
				return true
			}
			if o := identObj(info, c.Args[2]); o != nil {
				wireKeys[o] = true
			}
			return true
		})
		if len(wireKeys) == 0 {
			return
		}
		ast.Inspect(fd.Body, func(m ast.Node) bool {
			c, ok := m.(*ast.CallExpr)
			if !ok {
				return true
			}
			if methodName(c) == "UnsafeSetIndex" && len(c.Args) == 3 {
				if o := identObj(info, c.Args[1]); o != nil && wireKeys[o] {
					n++
					okR := hasRecover(fd)
					r.Check(okR, fmt.Sprintf("wire-keyed map insertion in %s #%d", p.DeclName(fd), n), c.Pos(), "under a deferred recover", gated("the key was decoded from the wire and is inserted without a recover: for a key type that can hold an interface value, a list/map/bytes item in key position (`m1{a0{}1}`) panics with hash of unhashable type"))
				}
				return true
			}
			if f := Callee(info, c); f != nil && p.InRepo(f) {
				if d := p.Decl(f); d != nil && d.Body != nil {
					if ki := insertsKeyParam(d); ki >= 0 && ki < len(c.Args) {
						if o := identObj(info, c.Args[ki]); o != nil && wireKeys[o] {
							n++
							okR := hasRecover(d)
							r.Check(okR, fmt.Sprintf("wire-keyed map insertion in %s #%d", p.DeclName(fd), n), c.Pos(), "the inserting helper "+p.DeclName(d)+" recovers", gated("the key was decoded from the wire and is inserted by "+p.DeclName(d)+" without a recover: a list/map/bytes item in key position panics with hash of unhashable type"))
						}
					}
				}
			}
			return true
		})
	})
	if n == 0 {
		r.Undec("wire-keyed map insertions", 0, "no UnsafeSetIndex with a decodeKey-filled key found")
	}
}
