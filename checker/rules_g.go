package main

import (
	"fmt"
	"go/ast"
	"go/token"
	"go/types"
	"golang.org/x/tools/go/packages"
	"regexp"
	"sort"
	"strings"
)

// G1 retry gate (C16), G2 breaker gates (C20), G3 fold direction (C15), G4 key normalisation
// (C08), G8 single invocation (C08).

func init() {
	register("G1", "in Cluster.Handler the only re-invocation of the handler lies in the deferred section, is control-dependent on the idempotent flag AND a strict `retried < retry` comparison of the per-call budget, and next is called exactly once per activation on the non-retry path", 4, ruleG1)
	register("G2", "CircuitBreaker.IOHandler rejects with ErrBreaker exactly under failCount > threshold AND now-lastFailTime < recoverTime (strict, as the property words them) before anything that calls next; a success stores 0 to failCount; InvokeHandler calls the mock service only when err == ErrBreaker", 6, ruleG2)
	register("G3", "pluginManager.rebuildHandler folds the handler list from the last index down to 0 starting from the default handler (first added outermost); Use appends, Unuse filters, and both rebuild under the write lock", 5, ruleG3)
	register("G4", "every Load/Store/Delete on the method registry uses strings.ToLower of the name (or the literal \"*\"), and Get tries the exact key before the \"*\" fallback", 4, ruleG4)
	register("G8", "Service.Execute performs exactly one call of the published function on every path, and an error from the invoke chain is returned by Process, never dropped", 3, ruleG8)
	register("G9", "the fan-out helpers join correctly: Broadcast adds exactly n to the WaitGroup for n goroutines each of which defers Done; Forking closes its done channel under a sync.Once on every terminal branch and counts failures atomically", 4, ruleG9)
}

// ---- condition normalisation --------------------------------------------------------

// facts collects the atomic conditions that must hold at node `at` inside body: enclosing if
// conditions (positive on the then-branch, negated on the else-branch) and preceding
// `if cond { ...; return }` guards of the enclosing blocks (negated).
type condFact struct {
	e   ast.Expr
	neg bool
}

// factExpand, when set by a rule, replaces an identifier that names a single-assignment boolean
// local by its defining expression (canRetry := idempotent && retried < retry; if canRetry {..}).
var factExpand func(e ast.Expr) ast.Expr

// factCallExpand, set once per run, expands a fact `helper(args) == val` into the facts of the one
// path of the helper that can yield val (util_inline.go).
var factCallExpand func(call *ast.CallExpr, val bool) []condFact

// autoExpanders caches the boolean-local expander of a function body (keyed by the root of its parent map)
var autoExpanders = map[ast.Node]func(e ast.Expr) ast.Expr{}

// factAdder returns the function that adds a condition (with polarity) to a fact list: it flattens
// conjunctions, pushes negations inward, expands single-assignment boolean locals and boolean helpers.
func factAdder(parents map[ast.Node]ast.Node, at ast.Node, out *[]condFact) func(e ast.Expr, neg bool) {
	var add func(e ast.Expr, neg bool)
	depth := 0
	factExpand := factExpand
	if factExpand == nil && curProg != nil {
		// every rule sees through single-assignment boolean locals (`ok := a && b; if ok {...}`)
		top := at
		for parents[top] != nil {
			top = parents[top]
		}
		exp, seen := autoExpanders[top]
		if !seen {
			if info := curProg.InfoAt(top.Pos()); info != nil {
				exp = boolLocalExpander(info, top)
			}
			autoExpanders[top] = exp
		}
		factExpand = exp
	}
	add = func(e ast.Expr, neg bool) {
		e = ast.Unparen(e)
		// the success flag of a substituted helper (inline.go): ok true means that none of the helper's early exits, which
		// set it to false, was taken - the conditions of those exits are false
		if id, isId := e.(*ast.Ident); isId && !neg && curProg != nil && depth < 4 {
			top := at
			for parents[top] != nil {
				top = parents[top]
			}
			if info := curProg.InfoAt(top.Pos()); info != nil {
				if gs := inlinedFlagGuards(info, top, info.Uses[id]); len(gs) > 0 {
					*out = append(*out, condFact{e, neg})
					depth++
					for _, g := range gs {
						add(g, true)
					}
					depth--
					return
				}
			}
		}
		if factExpand != nil && depth < 4 {
			if x := factExpand(e); x != nil && x != e {
				depth++
				add(x, neg)
				depth--
				return
			}
		}
		if u, ok := e.(*ast.UnaryExpr); ok && u.Op == token.NOT {
			add(u.X, !neg)
			return
		}
		// a boolean helper of the repository stands for the conditions of the path that yields the value
		if call, ok := e.(*ast.CallExpr); ok && factCallExpand != nil && depth < 4 {
			if fs := factCallExpand(call, !neg); len(fs) > 0 {
				*out = append(*out, condFact{e, neg}) // keep the call itself as a fact too
				depth++
				for _, f := range fs {
					add(f.e, f.neg)
				}
				depth--
				return
			}
		}
		if b, ok := e.(*ast.BinaryExpr); ok {
			if (b.Op == token.LAND && !neg) || (b.Op == token.LOR && neg) {
				add(b.X, neg)
				add(b.Y, neg)
				return
			}
		}
		*out = append(*out, condFact{e, neg})
	}
	return add
}

var inlLabel = regexp.MustCompile(`^inl\d+L$`)

// inlinedFlagGuards: flag is a boolean local that is assigned only inside ONE block the helper inliner produced
// (inlNL: switch { default: ... }), where every early exit (`if G { ...; flag = false; break inlNL }`, at the top level of
// the block) sets it to the literal false. Then flag == true implies that every such G was false. Returns those G.
func inlinedFlagGuards(info *types.Info, top ast.Node, flag types.Object) []ast.Expr {
	if flag == nil {
		return nil
	}
	if b, ok := flag.Type().Underlying().(*types.Basic); !ok || b.Kind() != types.Bool {
		return nil
	}
	var block *ast.LabeledStmt
	assigns, inside := 0, 0
	ast.Inspect(top, func(n ast.Node) bool {
		if as, ok := n.(*ast.AssignStmt); ok {
			for _, l := range as.Lhs {
				if identObj(info, l) == flag {
					assigns++
				}
			}
		}
		return true
	})
	ast.Inspect(top, func(n ast.Node) bool {
		ls, ok := n.(*ast.LabeledStmt)
		if !ok || !inlLabel.MatchString(ls.Label.Name) {
			return true
		}
		cnt := 0
		ast.Inspect(ls, func(q ast.Node) bool {
			if as, ok := q.(*ast.AssignStmt); ok {
				for _, l := range as.Lhs {
					if identObj(info, l) == flag {
						cnt++
					}
				}
			}
			return true
		})
		if cnt > 0 && block == nil {
			block, inside = ls, cnt
		}
		return true
	})
	if block == nil || inside != assigns {
		return nil
	}
	sw, ok := block.Stmt.(*ast.SwitchStmt)
	if !ok || sw.Tag != nil || len(sw.Body.List) != 1 {
		return nil
	}
	body := sw.Body.List[0].(*ast.CaseClause).Body
	breaks := 0
	ast.Inspect(block, func(n ast.Node) bool {
		if bs, ok := n.(*ast.BranchStmt); ok && bs.Tok == token.BREAK && bs.Label != nil && bs.Label.Name == block.Label.Name {
			breaks++
		}
		return true
	})
	setsFalse := func(list []ast.Stmt) bool {
		found := false
		for _, s := range list {
			as, ok := s.(*ast.AssignStmt)
			if !ok || len(as.Lhs) != len(as.Rhs) {
				continue
			}
			for i, l := range as.Lhs {
				if identObj(info, l) == flag {
					id, isId := ast.Unparen(as.Rhs[i]).(*ast.Ident)
					found = isId && id.Name == "false"
				}
			}
		}
		return found
	}
	var guards []ast.Expr
	for _, s := range body {
		ifs, ok := s.(*ast.IfStmt)
		if !ok || ifs.Else != nil || len(ifs.Body.List) == 0 {
			continue
		}
		last, ok := ifs.Body.List[len(ifs.Body.List)-1].(*ast.BranchStmt)
		if !ok || last.Tok != token.BREAK || last.Label == nil || last.Label.Name != block.Label.Name {
			continue
		}
		if !setsFalse(ifs.Body.List) {
			return nil
		}
		guards = append(guards, ifs.Cond)
	}
	if len(guards) != breaks {
		return nil // an exit that is not a plain top-level guard: nothing is concluded
	}
	return guards
}

func collectFacts(parents map[ast.Node]ast.Node, at ast.Node) []condFact {
	var out []condFact
	add := factAdder(parents, at, &out)
	child := at
	for n := parents[at]; n != nil; child, n = n, parents[n] {
		switch x := n.(type) {
		case *ast.IfStmt:
			if child == ast.Node(x.Body) {
				add(x.Cond, false)
			} else if x.Else != nil && child == x.Else {
				add(x.Cond, true)
			}
		case *ast.BlockStmt, *ast.CaseClause, *ast.CommClause:
			var list []ast.Stmt
			switch b := x.(type) {
			case *ast.BlockStmt:
				list = b.List
			case *ast.CaseClause:
				list = b.Body
			case *ast.CommClause:
				list = b.Body
			}
			for _, s := range list {
				if s == child || s.Pos() >= child.Pos() {
					break
				}
				if c := guardCond(s, 0); c != nil {
					add(c, true)
				}
				// switch { case c1: ...jump; case c2: ...jump; ... }: behind it, every leading clause that ends in a jump is excluded
				if sw, ok := s.(*ast.SwitchStmt); ok && sw.Tag == nil && sw.Init == nil {
					for _, cs := range sw.Body.List {
						cc := cs.(*ast.CaseClause)
						if cc.List == nil || !endsInJump(cc.Body) {
							break
						}
						for _, e := range cc.List {
							add(e, true)
						}
					}
				}
				// for { ...; if C { break }; ... } with that single exit: C holds after the loop
				if fs, ok := s.(*ast.ForStmt); ok && fs.Cond == nil {
					if c := soleBreakCond(fs); c != nil {
						add(c, false)
					}
				}
			}
		case *ast.FuncLit, *ast.FuncDecl:
			return out
		}
	}
	return out
}

// guardCond: the condition under which the statement leaves (return / continue / break / goto / panic) instead of
// falling through: `if C { ...jump }`, and the nested spelling `if A { if B { ...jump } }` (= A && B) whose bodies
// hold nothing else.
func guardCond(s ast.Stmt, depth int) ast.Expr {
	ifs, ok := s.(*ast.IfStmt)
	if !ok || ifs.Else != nil || ifs.Init != nil && depth > 0 {
		return nil
	}
	if endsInJump(ifs.Body.List) {
		return ifs.Cond
	}
	if depth < 3 && len(ifs.Body.List) == 1 {
		if inner := guardCond(ifs.Body.List[0], depth+1); inner != nil {
			return &ast.BinaryExpr{X: ifs.Cond, OpPos: ifs.Cond.End(), Op: token.LAND, Y: inner}
		}
	}
	return nil
}

// boolLocalExpander returns an expander for the single-assignment boolean locals of body.
func boolLocalExpander(info *types.Info, body ast.Node) func(e ast.Expr) ast.Expr {
	defs := localDefs(info, body)
	return func(e ast.Expr) ast.Expr {
		id, ok := e.(*ast.Ident)
		if !ok {
			return nil
		}
		o := info.Uses[id]
		if o == nil {
			return nil
		}
		if b, ok := o.Type().Underlying().(*types.Basic); !ok || b.Kind() != types.Bool {
			return nil
		}
		d, ok := defs[o]
		if !ok || d == nil {
			return nil
		}
		// only comparisons / logical combinations are worth expanding
		switch ast.Unparen(d).(type) {
		case *ast.BinaryExpr, *ast.UnaryExpr:
			return d
		}
		return nil
	}
}

// strictLess: does the fact say a < b strictly (in any accepted spelling)?
func strictLess(info *types.Info, f condFact, a, b types.Object) bool {
	be, ok := f.e.(*ast.BinaryExpr)
	if !ok {
		return false
	}
	xo, yo := identObj(info, be.X), identObj(info, be.Y)
	op := be.Op
	if f.neg {
		switch op {
		case token.GEQ:
			op = token.LSS
		case token.LEQ:
			op = token.GTR
		case token.LSS:
			op = token.GEQ
		case token.GTR:
			op = token.LEQ
		default:
			return false
		}
	}
	switch {
	case op == token.LSS && xo == a && yo == b:
		return true
	case op == token.GTR && xo == b && yo == a:
		return true
	}
	// a+1 <= b
	if op == token.LEQ && yo == b {
		if s, ok := ast.Unparen(be.X).(*ast.BinaryExpr); ok && s.Op == token.ADD && identObj(info, s.X) == a {
			if c, ok := intConst(info, s.Y); ok && c == 1 {
				return true
			}
		}
	}
	return false
}

// strictLessP: like strictLess, with the two sides given as predicates on expressions.
func strictLessP(info *types.Info, f condFact, isA, isB func(ast.Expr) bool) bool {
	be, ok := f.e.(*ast.BinaryExpr)
	if !ok {
		return false
	}
	op := be.Op
	if f.neg {
		switch op {
		case token.GEQ:
			op = token.LSS
		case token.LEQ:
			op = token.GTR
		case token.LSS:
			op = token.GEQ
		case token.GTR:
			op = token.LEQ
		default:
			return false
		}
	}
	switch {
	case op == token.LSS && isA(be.X) && isB(be.Y):
		return true
	case op == token.GTR && isB(be.X) && isA(be.Y):
		return true
	}
	if op == token.LEQ && isB(be.Y) {
		if s, ok := ast.Unparen(be.X).(*ast.BinaryExpr); ok && s.Op == token.ADD && isA(s.X) {
			if c, ok := intConst(info, s.Y); ok && c == 1 {
				return true
			}
		}
	}
	return false
}

// definedByCall: local object defined as X.<method>("key" ...)
func definedByCall(info *types.Info, body ast.Node, method, key string) types.Object {
	var res types.Object
	ast.Inspect(body, func(n ast.Node) bool {
		as, ok := n.(*ast.AssignStmt)
		if !ok || len(as.Lhs) != 1 || len(as.Rhs) != 1 {
			return true
		}
		call, ok := ast.Unparen(as.Rhs[0]).(*ast.CallExpr)
		if !ok || methodName(call) != method || len(call.Args) < 1 {
			return true
		}
		if lit, ok := ast.Unparen(call.Args[0]).(*ast.BasicLit); ok && lit.Value == `"`+key+`"` {
			res = identObj(info, as.Lhs[0])
		}
		return true
	})
	return res
}

func ruleG1(r *Run) {
	p := r.P
	fd, pkg := p.DeclOf("rpc/plugins/cluster", "Cluster.Handler")
	if fd == nil {
		r.Undec("cluster handler", 0, "Cluster.Handler not found")
		return
	}
	info := pkg.TypesInfo
	self, _ := info.Defs[fd.Name].(*types.Func)
	parents := parentMap(fd)
	factExpand = boolLocalExpander(info, fd.Body)
	defer func() { factExpand = nil }()
	// roles, not variables: "the idempotent flag" is a call X.GetBool("idempotent", ..) or a local
	// defined by one, in the handler or in a boolean helper the gate was moved into
	isItemCall := func(e ast.Expr, method, key string) bool {
		call, ok := ast.Unparen(e).(*ast.CallExpr)
		if !ok || methodName(call) != method || len(call.Args) < 1 {
			return false
		}
		lit, ok := ast.Unparen(call.Args[0]).(*ast.BasicLit)
		return ok && lit.Value == `"`+key+`"`
	}
	hdefs := localDefs(info, fd.Body)
	role := func(method, key string) func(ast.Expr) bool {
		return func(e ast.Expr) bool {
			e = ast.Unparen(e)
			if isItemCall(e, method, key) {
				return true
			}
			if o := identObj(info, e); o != nil {
				if d := hdefs[o]; d != nil && isItemCall(d, method, key) {
					return true
				}
			}
			return false
		}
	}
	isIdem, isRetry, isRetried := role("GetBool", "idempotent"), role("GetInt", "retry"), role("GetInt", "retried")
	seenRole := map[string]bool{}
	p.deepInspect(info, fd.Body, 2, func(_ *types.Info, n ast.Node) bool {
		if e, ok := n.(ast.Expr); ok {
			for k, m := range map[string]string{"idempotent": "GetBool", "retry": "GetInt", "retried": "GetInt"} {
				if isItemCall(e, m, k) {
					seenRole[k] = true
				}
			}
		}
		return true
	})
	if !seenRole["idempotent"] || !seenRole["retry"] || !seenRole["retried"] {
		r.Undec("retry gate variables", fd.Pos(), "idempotent/retry/retried are not read from the call context with GetBool/GetInt")
		return
	}
	// per-call override must default to the configured value
	okDefaults := true
	p.deepInspect(info, fd.Body, 2, func(info *types.Info, n ast.Node) bool {
		call, ok := n.(*ast.CallExpr)
		if !ok || len(call.Args) != 2 {
			return true
		}
		lit, ok := ast.Unparen(call.Args[0]).(*ast.BasicLit)
		if !ok {
			return true
		}
		fv := fieldOf(info, call.Args[1])
		switch lit.Value {
		case `"idempotent"`:
			if fv == nil || fv.Name() != "Idempotent" {
				okDefaults = false
			}
		case `"retry"`:
			if fv == nil || fv.Name() != "Retry" {
				okDefaults = false
			}
		}
		return true
	})
	r.Check(okDefaults, "retry gate defaults", fd.Pos(), "per-call items default to c.Idempotent / c.Retry", "the per-call idempotent/retry items no longer default to the configured Idempotent/Retry")
	var recalls, nexts []*ast.CallExpr
	ast.Inspect(fd.Body, func(n ast.Node) bool {
		if call, ok := n.(*ast.CallExpr); ok {
			if Callee(info, call) == self {
				recalls = append(recalls, call)
			}
			x := &r2{p: p}
			if h := x.hazardCall(info, call); strings.HasPrefix(h, "request-path callback") {
				nexts = append(nexts, call)
			}
		}
		return true
	})
	if len(recalls) != 1 {
		r.Viol("single re-invocation site", fd.Pos(), fmt.Sprintf("%d re-invocations of the handler (expected exactly one, in the deferred section)", len(recalls)))
	} else {
		rc := recalls[0]
		inDeferred := false
		for y := parents[rc]; y != nil; y = parents[y] {
			if fl, ok := y.(*ast.FuncLit); ok {
				if pc, ok := parents[fl].(*ast.CallExpr); ok {
					if _, ok := parents[pc].(*ast.DeferStmt); ok {
						inDeferred = true
					}
				}
			}
		}
		facts := collectFacts(parents, rc)
		hasIdem, hasBudget := false, false
		var rendered []string
		for _, f := range facts {
			s := types.ExprString(f.e)
			if f.neg {
				s = "!(" + s + ")"
			}
			rendered = append(rendered, s)
			if !f.neg && isIdem(f.e) {
				hasIdem = true
			}
			if be, ok := f.e.(*ast.BinaryExpr); ok && !f.neg && be.Op == token.EQL && isIdem(be.X) {
				if id, ok := ast.Unparen(be.Y).(*ast.Ident); ok && id.Name == "true" {
					hasIdem = true
				}
			}
			if strictLessP(info, f, isRetried, isRetry) {
				hasBudget = true
			}
		}
		r.Check(inDeferred, "re-invocation in the deferred section", rc.Pos(), "inside the deferred literal", "the handler is re-invoked outside the deferred section")
		r.Check(hasIdem, "retry requires idempotent", rc.Pos(), "gate {"+strings.Join(rendered, " && ")+"}", "the re-invocation is not control-dependent on the idempotent flag (gate: "+strings.Join(rendered, " && ")+"): a failed non-idempotent call is sent again")
		r.Check(hasBudget, "retry requires retried < retry", rc.Pos(), "strict budget comparison", "the re-invocation is not guarded by a strict `retried < retry` comparison (gate: "+strings.Join(rendered, " && ")+"): an idempotent call is attempted more than retry+1 times (or the budget is ignored)")
		// same request and next are passed on
		sameArgs := len(rc.Args) == 3
		if sameArgs {
			params := paramsOf(info, fd.Type)
			for i, a := range rc.Args {
				if identObj(info, a) != types.Object(params[i]) {
					sameArgs = false
				}
			}
		}
		r.Check(sameArgs, "retry passes the same request", rc.Pos(), "c.Handler(ctx, request, next)", "the retry does not pass on the original ctx/request/next")
	}
	// exactly one next call outside the deferred section, not in a loop
	outside := 0
	for _, c := range nexts {
		inLoop, inDef := false, false
		for y := parents[c]; y != nil; y = parents[y] {
			switch y.(type) {
			case *ast.ForStmt, *ast.RangeStmt:
				inLoop = true
			case *ast.FuncLit:
				inDef = true
			}
		}
		if !inDef {
			outside++
			if inLoop {
				outside += 10
			}
		}
	}
	r.Check(outside == 1, "one attempt per activation", fd.Pos(), "next called once on the main path", fmt.Sprintf("next is called %d times per activation of Cluster.Handler (expected once): a call is duplicated even without a failure", outside))
}

// ---------------------------------------------------------------------------------------
// G2

func ruleG2(r *Run) {
	p := r.P
	fd, pkg := p.DeclOf("rpc/plugins/circuitbreaker", "CircuitBreaker.IOHandler")
	if fd == nil {
		r.Undec("breaker handler", 0, "CircuitBreaker.IOHandler not found")
		return
	}
	info := pkg.TypesInfo
	parents := parentMap(fd)
	factExpand = boolLocalExpander(info, fd.Body)
	defer func() { factExpand = nil }()
	errBreaker := p.LookupObj("rpc/plugins/circuitbreaker", "ErrBreaker")
	// the rejecting return
	var rej *ast.ReturnStmt
	ast.Inspect(fd.Body, func(n ast.Node) bool {
		if ret, ok := n.(*ast.ReturnStmt); ok {
			for _, res := range ret.Results {
				if objOf(info, res) == errBreaker && errBreaker != nil {
					rej = ret
				}
			}
		}
		return true
	})
	if rej == nil {
		r.Viol("open gate", fd.Pos(), "IOHandler never returns ErrBreaker: the breaker no longer rejects while open")
		return
	}
	// a rejected call is not a failure of the downstream service: no defer that counts failures or
	// stamps lastFailTime may be pending when the rejecting return runs
	{
		var pending ast.Node
		ast.Inspect(fd.Body, func(n ast.Node) bool {
			d, ok := n.(*ast.DeferStmt)
			if !ok || d.Pos() > rej.Pos() {
				return true
			}
			excludesRejection := false
			ast.Inspect(d, func(m ast.Node) bool {
				if id, ok := m.(*ast.Ident); ok && info.Uses[id] == errBreaker && errBreaker != nil {
					excludesRejection = true // the literal tells the breaker's own error apart
				}
				return true
			})
			if excludesRejection {
				return true
			}
			p.deepInspect(info, d, 2, func(_ *types.Info, m ast.Node) bool {
				if c, ok := m.(*ast.CallExpr); ok {
					s := types.ExprString(c.Fun)
					if (strings.HasPrefix(s, "atomic.Add") || strings.HasPrefix(s, "atomic.Store")) && len(c.Args) > 0 {
						a := types.ExprString(c.Args[0])
						if strings.HasSuffix(a, ".failCount") || strings.HasSuffix(a, ".lastFailTime") {
							pending = d
						}
					}
				}
				return true
			})
			return true
		})
		r.Check(pending == nil, "rejected calls are not counted as failures", rej.Pos(), "the failure-accounting defer is registered after the open gate", "the defer that counts a failure and stamps lastFailTime is registered before the open gate, so it also runs for a call the breaker itself rejects (err = ErrBreaker): every rejected call refreshes lastFailTime and the breaker never recovers under steady traffic although the service is healthy")
	}
	isLoadOf := func(e ast.Expr, field string) bool {
		e = stripConv(info, e)
		call, ok := e.(*ast.CallExpr)
		if !ok {
			return false
		}
		f := Callee(info, call)
		if f == nil || f.Pkg() == nil || f.Pkg().Path() != "sync/atomic" || !strings.HasPrefix(f.Name(), "Load") {
			return false
		}
		if u, ok := ast.Unparen(call.Args[0]).(*ast.UnaryExpr); ok {
			if fv := fieldOf(info, u.X); fv != nil && fv.Name() == field {
				return true
			}
		}
		return false
	}
	isField := func(e ast.Expr, field string) bool {
		fv := fieldOf(info, stripConv(info, e))
		return fv != nil && fv.Name() == field
	}
	defs := localDefs(info, fd.Body)
	isInterval := func(e ast.Expr) bool {
		// now - lastFailTime, possibly through a local
		e = stripConv(info, e)
		if o := identObj(info, e); o != nil {
			if d, ok := defs[o]; ok && d != nil {
				e = stripConv(info, d)
			}
		}
		be, ok := e.(*ast.BinaryExpr)
		return ok && be.Op == token.SUB && isLoadOf(be.Y, "lastFailTime")
	}
	facts := collectFacts(parents, rej)
	countGate, timeGate := false, false
	var rendered []string
	for _, f := range facts {
		s := types.ExprString(f.e)
		if f.neg {
			s = "!(" + s + ")"
		}
		rendered = append(rendered, s)
		be, ok := f.e.(*ast.BinaryExpr)
		if !ok {
			continue
		}
		op := be.Op
		if f.neg {
			switch op {
			case token.LEQ:
				op = token.GTR
			case token.GEQ:
				op = token.LSS
			default:
				continue
			}
		}
		if (op == token.GTR && isLoadOf(be.X, "failCount") && isField(be.Y, "threshold")) || (op == token.LSS && isField(be.X, "threshold") && isLoadOf(be.Y, "failCount")) {
			countGate = true
		}
		if (op == token.LSS && isInterval(be.X) && isField(be.Y, "recoverTime")) || (op == token.GTR && isField(be.X, "recoverTime") && isInterval(be.Y)) {
			timeGate = true
		}
	}
	gate := strings.Join(rendered, " && ")
	r.Check(countGate, "breaker opens after MORE than threshold failures", rej.Pos(), "failCount > threshold", "the rejection is not gated by `failCount > threshold` (gate: "+gate+"): the breaker opens one failure early, late, or regardless of the count")
	r.Check(timeGate, "breaker stays open only while the recovery time has not elapsed", rej.Pos(), "now - lastFailTime < recoverTime", "the rejection is not gated by `now - lastFailTime < recoverTime` (gate: "+gate+"): the breaker never recovers or never holds")
	// nothing that calls next dominates / precedes the rejection
	var nextCall *ast.CallExpr
	ast.Inspect(fd.Body, func(n ast.Node) bool {
		if call, ok := n.(*ast.CallExpr); ok && nextCall == nil {
			x := &r2{p: p}
			if h := x.hazardCall(info, call); strings.HasPrefix(h, "request-path callback") {
				nextCall = call
			}
		}
		return true
	})
	r.Check(nextCall != nil && nextCall.Pos() > rej.Pos(), "open breaker does not forward", rej.Pos(), "rejection precedes the call of next", "next is called before the open-gate test: calls are forwarded while the breaker should be open")
	// success resets the count: Store(&failCount, 0) under err == nil after next
	reset := false
	ast.Inspect(fd.Body, func(n ast.Node) bool {
		call, ok := n.(*ast.CallExpr)
		if !ok {
			return true
		}
		f := Callee(info, call)
		if f == nil || f.Pkg() == nil || f.Pkg().Path() != "sync/atomic" || !strings.HasPrefix(f.Name(), "Store") || len(call.Args) != 2 {
			return true
		}
		u, ok := ast.Unparen(call.Args[0]).(*ast.UnaryExpr)
		if !ok {
			return true
		}
		if fv := fieldOf(info, u.X); fv == nil || fv.Name() != "failCount" {
			return true
		}
		if c, ok := intConst(info, call.Args[1]); ok && c == 0 && nextCall != nil && call.Pos() > nextCall.Pos() {
			for _, f := range collectFacts(parents, call) {
				// err == nil holds: as a positive test, or as the failed test of `if err != nil { return }`
				if be, ok := f.e.(*ast.BinaryExpr); ok && (!f.neg && be.Op == token.EQL || f.neg && be.Op == token.NEQ) {
					if id, ok := ast.Unparen(be.Y).(*ast.Ident); ok && id.Name == "nil" {
						reset = true
					}
				}
			}
		}
		return true
	})
	r.Check(reset, "success resets the failure count", fd.Pos(), "StoreUint64(&failCount, 0) under err == nil", "a successful forwarded call no longer resets failCount to 0: non-consecutive failures accumulate and open the breaker")
	// failure accounting: Add(&failCount,1) and Store(&lastFailTime, now) under err != nil in the deferred literal
	acct := 0
	var posAdd, posStamp token.Pos
	ast.Inspect(fd.Body, func(n ast.Node) bool {
		d, ok := n.(*ast.DeferStmt)
		if !ok {
			return true
		}
		// in the deferred function and in the repository helpers it calls (cb.fail())
		p.deepInspect(info, d, 2, func(info *types.Info, m ast.Node) bool {
			call, ok := m.(*ast.CallExpr)
			if !ok {
				return true
			}
			f := Callee(info, call)
			if f == nil || f.Pkg() == nil || f.Pkg().Path() != "sync/atomic" || len(call.Args) < 2 {
				return true
			}
			u, ok := ast.Unparen(call.Args[0]).(*ast.UnaryExpr)
			if !ok {
				return true
			}
			fv := fieldOf(info, u.X)
			if fv == nil {
				return true
			}
			if fv.Name() == "failCount" && strings.HasPrefix(f.Name(), "Add") {
				if c, ok := intConst(info, call.Args[1]); ok && c == 1 {
					acct++
					posAdd = call.Pos()
				}
			}
			if fv.Name() == "lastFailTime" && strings.HasPrefix(f.Name(), "Store") {
				posStamp = call.Pos()
			}
			if fv.Name() == "lastFailTime" && strings.HasPrefix(f.Name(), "Store") {
				// the time of the FAILURE: a fresh time.Now() taken in the deferred section, not a
				// timestamp captured when the call started
				fresh := false
				ast.Inspect(call.Args[1], func(k ast.Node) bool {
					if c, ok := k.(*ast.CallExpr); ok {
						if tf := Callee(info, c); tf != nil && FullName(tf) == "time.Now" {
							fresh = true
						}
					}
					return true
				})
				if fresh {
					acct++
				}
			}
			return true
		})
		return true
	})
	if posAdd.IsValid() && posStamp.IsValid() && p.Fset.File(posAdd) == p.Fset.File(posStamp) {
		r.Check(posStamp < posAdd, "the failure time is stored before the failure is counted", posAdd, "Store(lastFailTime) precedes Add(failCount)", "the failure count is raised before the time of the failure is stored: a concurrent call that already sees the count above the threshold still reads the time of an EARLIER failure, finds the recovery time elapsed, resets the count to threshold/2 and is forwarded - the failure that should have opened the breaker is lost")
	}
	r.Check(acct == 2, "failure accounting in the deferred section", fd.Pos(), "failCount+1 and lastFailTime=now", "a failed call no longer adds exactly 1 to failCount and records lastFailTime = time.Now() (taken when the failure is observed, in the deferred section): slow failures are dated at their start and the breaker re-closes at once")
	// InvokeHandler: mock only when err == ErrBreaker
	ifd, _ := p.DeclOf("rpc/plugins/circuitbreaker", "CircuitBreaker.InvokeHandler")
	if ifd == nil {
		r.Undec("mock fallback", 0, "InvokeHandler not found")
		return
	}
	iparents := parentMap(ifd)
	okMock, nMock := true, 0
	ast.Inspect(ifd.Body, func(n ast.Node) bool {
		call, ok := n.(*ast.CallExpr)
		if !ok {
			return true
		}
		if fv := fieldOf(info, call.Fun); fv != nil && fv.Name() == "mockService" {
			nMock++
			gated := false
			for _, f := range collectFacts(iparents, call) {
				if be, ok := f.e.(*ast.BinaryExpr); ok && !f.neg && be.Op == token.EQL && (objOf(info, be.Y) == errBreaker || objOf(info, be.X) == errBreaker) {
					gated = true
				}
			}
			if !gated {
				okMock = false
			}
		}
		return true
	})
	r.Check(nMock == 1 && okMock, "mock service only on the break error", ifd.Pos(), "mockService called under err == ErrBreaker", "the mock service is called on a path not gated by err == ErrBreaker: ordinary failures (or successes) are replaced by mock results")
}

// ---------------------------------------------------------------------------------------
// G3

func ruleG3(r *Run) {
	p := r.P
	fd, pkg := p.DeclOf("rpc/core", "pluginManager.rebuildHandler")
	if fd == nil {
		r.Undec("rebuildHandler", 0, "not found")
		return
	}
	info := pkg.TypesInfo
	// next := pm.defaultHandler ; for i := n-1; i >= 0; i-- { next = pm.getNextHandler(pm.handlers[i], next) } ; pm.handler = next
	var loop *ast.ForStmt
	for _, s := range fd.Body.List {
		if fs, ok := s.(*ast.ForStmt); ok {
			loop = fs
		}
	}
	defs := localDefs(info, fd.Body)
	// the list that is folded: the field pm.handlers, or a []PluginHandler parameter of rebuildHandler (checked at its call sites)
	var listParam types.Object
	for _, pv := range paramsOf(info, fd.Type) {
		if sl, ok := pv.Type().Underlying().(*types.Slice); ok {
			if it, ok := sl.Elem().Underlying().(*types.Interface); ok && it.Empty() {
				listParam = pv
			}
		}
	}
	isList := func(e ast.Expr) bool {
		if fv := fieldOf(info, e); fv != nil && fv.Name() == "handlers" {
			return true
		}
		return listParam != nil && identObj(info, e) == listParam
	}
	startsDefault := false
	ast.Inspect(fd.Body, func(n ast.Node) bool {
		if as, ok := n.(*ast.AssignStmt); ok && len(as.Rhs) == 1 && as.Tok == token.DEFINE {
			if fv := fieldOf(info, as.Rhs[0]); fv != nil && fv.Name() == "defaultHandler" {
				startsDefault = true
			}
		}
		return true
	})
	r.Check(startsDefault, "fold starts from the default handler", fd.Pos(), "next := pm.defaultHandler", "the chain is no longer built starting from the default (built-in) handler: calls never reach it or pass a stale chain")
	if loop == nil {
		r.Undec("fold loop", fd.Pos(), "no loop in rebuildHandler")
		return
	}
	// descending over every index: the first index used is len-1, the last one 0 (any spelling: i from len-1 down to 0
	// with list[i], i from len down to 1 with list[i-1], ...)
	desc := false
	var foldIdx ast.Expr
	ast.Inspect(loop.Body, func(n ast.Node) bool {
		if ie, ok := n.(*ast.IndexExpr); ok && isList(ie.X) {
			foldIdx = ie.Index
		}
		return true
	})
	if as, ok := loop.Init.(*ast.AssignStmt); ok && len(as.Lhs) == 1 && len(as.Rhs) == 1 && foldIdx != nil {
		iv := identObj(info, as.Lhs[0])
		if cb, ok := loop.Cond.(*ast.BinaryExpr); ok && iv != nil && identObj(info, cb.X) == iv && (cb.Op == token.GEQ || cb.Op == token.GTR) {
			if inc, ok := loop.Post.(*ast.IncDecStmt); ok && inc.Tok == token.DEC && identObj(info, inc.X) == iv {
				// normalise: len(list) (directly or through a local n := len(list)) -> symbol LEN, the loop variable -> symbol I
				norm := func(e ast.Expr) lin {
					var conv func(e ast.Expr) lin
					conv = func(e ast.Expr) lin {
						e = ast.Unparen(e)
						if k, ok := intConst(info, e); ok {
							return linConst(k)
						}
						if o := identObj(info, e); o != nil {
							if o == iv {
								return linSym("I")
							}
							if d, ok := defs[o]; ok && d != nil {
								return conv(d)
							}
						}
						if lc, ok := e.(*ast.CallExpr); ok && IsBuiltin(info, lc, "len") && len(lc.Args) == 1 && isList(lc.Args[0]) {
							return linSym("LEN")
						}
						if be, ok := e.(*ast.BinaryExpr); ok {
							switch be.Op {
							case token.ADD:
								return conv(be.X).add(conv(be.Y))
							case token.SUB:
								return conv(be.X).sub(conv(be.Y))
							}
						}
						return linSym(types.ExprString(e))
					}
					return conv(e)
				}
				first := norm(foldIdx).subst(map[string]lin{"I": norm(as.Rhs[0])})
				lastI := norm(cb.Y)
				if cb.Op == token.GTR {
					lastI = lastI.add(linConst(1))
				}
				last := norm(foldIdx).subst(map[string]lin{"I": lastI})
				if first.sub(linSym("LEN")).add(linConst(1)).isZero() && last.isZero() {
					desc = true
				}
			}
		}
	}
	r.Check(desc, "fold runs from the last handler down to the first", loop.Pos(), "for i := len(handlers)-1; i >= 0; i--", "the fold over the handler list is not the descending loop len-1..0: the first added handler is no longer outermost, or a handler is skipped")
	// body: next = getNextHandler(handlers[i], next)
	bodyOK := false
	if len(loop.Body.List) == 1 {
		if as, ok := loop.Body.List[0].(*ast.AssignStmt); ok && len(as.Rhs) == 1 && as.Tok == token.ASSIGN {
			if call, ok := as.Rhs[0].(*ast.CallExpr); ok && len(call.Args) == 2 {
				if fv := fieldOf(info, call.Fun); fv != nil && fv.Name() == "getNextHandler" {
					if ie, ok := ast.Unparen(call.Args[0]).(*ast.IndexExpr); ok {
						if isList(ie.X) && identObj(info, call.Args[1]) == identObj(info, as.Lhs[0]) {
							bodyOK = true
						}
					}
				}
			}
		}
	}
	r.Check(bodyOK, "each handler wraps the chain built so far", loop.Pos(), "next = getNextHandler(handlers[i], next)", "the loop body is not `next = getNextHandler(handlers[i], next)`: a handler is applied twice, dropped, or wraps the wrong continuation")
	// result stored
	stored := false
	ast.Inspect(fd.Body, func(n ast.Node) bool {
		if as, ok := n.(*ast.AssignStmt); ok && len(as.Lhs) == 1 {
			if fv := fieldOf(info, as.Lhs[0]); fv != nil && fv.Name() == "handler" && as.Pos() > loop.End() {
				stored = true
			}
		}
		return true
	})
	r.Check(stored, "rebuilt chain is published", fd.Pos(), "pm.handler = next after the loop", "the rebuilt chain is not stored into pm.handler after the fold")
	// Use appends (not prepends) and rebuilds; Unuse rebuilds when something was removed
	ufd, _ := p.DeclOf("rpc/core", "pluginManager.Use")
	appendOK, rebuilds := false, false
	if ufd != nil {
		ast.Inspect(ufd.Body, func(n ast.Node) bool {
			if as, ok := n.(*ast.AssignStmt); ok && len(as.Rhs) == 1 {
				if call, ok := as.Rhs[0].(*ast.CallExpr); ok && IsBuiltin(info, call, "append") && len(call.Args) == 2 {
					if a0 := fieldOf(info, call.Args[0]); a0 != nil && a0.Name() == "handlers" && fieldOf(info, as.Lhs[0]) == a0 {
						appendOK = true
					}
				}
			}
			if c, ok := n.(*ast.CallExpr); ok && methodName(c) == "rebuildHandler" {
				rebuilds = true
			}
			return true
		})
	}
	r.Check(appendOK && rebuilds, "Use appends to the list and rebuilds", 0, "handlers = append(handlers, new...) ; rebuildHandler()", "Use no longer appends the new handlers at the END of the list followed by a rebuild: insertion order (first added outermost) is lost or the chain is stale")
	// the list the chain is rebuilt from is the list Use and Unuse maintain: when rebuildHandler takes the list as a
	// parameter, every call passes pm.handlers or a local that the same function stores into pm.handlers
	if listParam != nil {
		okSites, nSites, badSite := true, 0, ""
		p.EachFunc(func(pk *packages.Package, cfd *ast.FuncDecl) {
			if pk != pkg {
				return
			}
			ast.Inspect(cfd.Body, func(n ast.Node) bool {
				c, ok := n.(*ast.CallExpr)
				if !ok || Callee(info, c) == nil || p.Decl(Callee(info, c)) != fd || len(c.Args) == 0 {
					return true
				}
				nSites++
				arg := ast.Unparen(c.Args[len(c.Args)-1])
				if fv := fieldOf(info, arg); fv != nil && fv.Name() == "handlers" {
					return true
				}
				stored := false
				if o := identObj(info, arg); o != nil {
					ast.Inspect(cfd.Body, func(m ast.Node) bool {
						if as, ok := m.(*ast.AssignStmt); ok && len(as.Lhs) == 1 && len(as.Rhs) == 1 {
							if fv := fieldOf(info, as.Lhs[0]); fv != nil && fv.Name() == "handlers" && identObj(info, as.Rhs[0]) == o {
								stored = true
							}
						}
						return true
					})
				}
				if !stored {
					okSites, badSite = false, p.DeclName(cfd)
				}
				return true
			})
		})
		r.Check(okSites && nSites > 0, "the chain is rebuilt from the maintained list", fd.Pos(), "every rebuildHandler(list) is given pm.handlers", "rebuildHandler is called in "+badSite+" with a list that is not (and is not stored into) pm.handlers: the active chain and the list that the next Use/Unuse starts from disagree - a removed handler comes back, or an added one disappears, with the next change")
	}
	// Unuse: the filtered list replaces the maintained list, and the scan visits every installed handler
	if nfd, _ := p.DeclOf("rpc/core", "pluginManager.Unuse"); nfd != nil {
		storesBack := false
		ast.Inspect(nfd.Body, func(n ast.Node) bool {
			if as, ok := n.(*ast.AssignStmt); ok && len(as.Lhs) == 1 {
				if fv := fieldOf(info, as.Lhs[0]); fv != nil && fv.Name() == "handlers" {
					storesBack = true
				}
			}
			return true
		})
		r.Check(storesBack, "Unuse stores the filtered list", nfd.Pos(), "pm.handlers = filtered", "Unuse never assigns the filtered list to pm.handlers: the removed handler is gone from the chain built now, but the next Use or Unuse rebuilds from the old list and silently puts it back")
		// the outer loop over the installed handlers has no early exit
		var outer ast.Stmt
		ast.Inspect(nfd.Body, func(n ast.Node) bool {
			if outer != nil {
				return false
			}
			switch x := n.(type) {
			case *ast.RangeStmt:
				if fv := fieldOf(info, x.X); fv != nil && fv.Name() == "handlers" {
					outer = x
				}
			case *ast.ForStmt:
				if x.Cond != nil {
					ast.Inspect(x.Cond, func(k ast.Node) bool {
						if fv := fieldOf(info, exprOrNil(k)); fv != nil && fv.Name() == "handlers" {
							outer = x
						}
						return true
					})
				}
			}
			return true
		})
		if outer == nil {
			r.Undec("Unuse scans every installed handler", nfd.Pos(), "no loop over pm.handlers found in Unuse")
		} else {
			nparents := parentMap(nfd.Body)
			var outerLabel string
			if ls, ok := nparents[outer].(*ast.LabeledStmt); ok {
				outerLabel = ls.Label.Name
			}
			early := ""
			ast.Inspect(outer, func(n ast.Node) bool {
				switch x := n.(type) {
				case *ast.FuncLit:
					return false
				case *ast.ReturnStmt:
					early = "return"
				case *ast.BranchStmt:
					if x.Tok != token.BREAK && x.Tok != token.GOTO {
						return true
					}
					if x.Tok == token.GOTO {
						early = "goto"
						return true
					}
					if x.Label != nil {
						if x.Label.Name == outerLabel {
							early = "break " + outerLabel
						}
						return true
					}
					// unlabelled break: leaves the innermost loop/switch/select around it
					for y := nparents[x]; y != nil; y = nparents[y] {
						switch y.(type) {
						case *ast.ForStmt, *ast.RangeStmt, *ast.SwitchStmt, *ast.SelectStmt, *ast.TypeSwitchStmt:
							if y == ast.Node(outer) {
								early = "break"
							}
							return true
						}
					}
				}
				return true
			})
			r.Check(early == "", "Unuse scans every installed handler", outer.Pos(), "the loop over pm.handlers runs to its end", "the scan over the installed handlers can be left early ("+early+"): every handler installed after the first match is dropped from the chain together with the one that was to be removed")
		}
	}
}

// ---------------------------------------------------------------------------------------
// G4

func ruleG4(r *Run) {
	p := r.P
	pkg := p.Pkg("rpc/core")
	if pkg == nil {
		return
	}
	info := pkg.TypesInfo
	methodsField := p.LookupField("rpc/core", "methodManager", "methods")
	if methodsField == nil {
		r.Undec("registry field", 0, "methodManager.methods not found")
		return
	}
	p.EachFunc(func(pk *packages.Package, fd *ast.FuncDecl) {
		if pk != pkg {
			return
		}
		n := 0
		ast.Inspect(fd.Body, func(m ast.Node) bool {
			call, ok := m.(*ast.CallExpr)
			if !ok {
				return true
			}
			se, ok := ast.Unparen(call.Fun).(*ast.SelectorExpr)
			if !ok || fieldOf(info, se.X) != methodsField {
				return true
			}
			switch se.Sel.Name {
			case "Load", "Store", "Delete", "LoadOrStore", "LoadAndDelete":
			default:
				return true
			}
			n++
			key := fmt.Sprintf("registry key %s in %s #%d", se.Sel.Name, p.DeclName(fd), n)
			k := ast.Unparen(call.Args[0])
			if lit, ok := k.(*ast.BasicLit); ok && lit.Value == `"*"` {
				r.Ok(key, call.Pos(), `literal "*"`)
				return true
			}
			if kc, ok := k.(*ast.CallExpr); ok {
				if f := Callee(info, kc); f != nil && FullName(f) == "strings.ToLower" {
					r.Ok(key, call.Pos(), "strings.ToLower(name)")
					return true
				}
			}
			r.Viol(key, call.Pos(), "the method registry is accessed with a key that is not strings.ToLower(name): registration and lookup disagree on case and a published function is not found (or the wrong one is)")
			return true
		})
	})
	// Get: exact key first, then "*"
	gfd, _ := p.DeclOf("rpc/core", "methodManager.Get")
	if gfd == nil {
		r.Undec("lookup order", 0, "methodManager.Get not found")
		return
	}
	var order []string
	ast.Inspect(gfd.Body, func(m ast.Node) bool {
		if call, ok := m.(*ast.CallExpr); ok && methodName(call) == "Load" && len(call.Args) == 1 {
			if lit, ok := ast.Unparen(call.Args[0]).(*ast.BasicLit); ok {
				order = append(order, lit.Value)
			} else {
				order = append(order, "name")
			}
		}
		return true
	})
	r.Check(len(order) == 2 && order[0] == "name" && order[1] == `"*"`, "exact name before the missing-method fallback", gfd.Pos(), "Load(name) then Load(\"*\")", fmt.Sprintf("Get looks up %v: the missing-method handler must only be used after the exact (lower-cased) name was not found", order))
}

// ---------------------------------------------------------------------------------------
// G8

type g8State struct{ calls int }

func (s *g8State) Key() string  { return fmt.Sprint(s.calls) }
func (s *g8State) Copy() PState { n := *s; return &n }

func ruleG8(r *Run) {
	p := r.P
	fd, pkg := p.DeclOf("rpc/core", "Service.Execute")
	if fd == nil {
		r.Undec("Execute", 0, "Service.Execute not found")
		return
	}
	info := pkg.TypesInfo
	counts := map[int]bool{}
	w := &Walk{Info: info}
	w.Event = func(w *Walk, ps PState, n ast.Node) []PState {
		call, ok := n.(*ast.CallExpr)
		if !ok {
			return nil
		}
		invoke := false
		if f := Callee(info, call); f != nil && FullName(f) == "reflect.Value.Call" {
			invoke = true
		}
		// missing-method handlers: method.(missingMethod)(name, args)
		if ta, ok := ast.Unparen(call.Fun).(*ast.TypeAssertExpr); ok {
			if t := info.TypeOf(ta.Type); t != nil && strings.Contains(strings.ToLower(typeKey(t)), "missingmethod") {
				invoke = true
			}
		}
		if invoke {
			return []PState{&g8State{calls: ps.(*g8State).calls + 1}}
		}
		return nil
	}
	w.Exit = func(w *Walk, ps PState, kind flowKind, at ast.Node) {
		if kind != fPanic {
			counts[ps.(*g8State).calls] = true
		}
	}
	w.Run(fd.Body, &g8State{})
	var cs []int
	for c := range counts {
		cs = append(cs, c)
	}
	sort.Ints(cs)
	if len(w.Undecided) > 0 {
		r.Undec("one invocation per request in Service.Execute", fd.Pos(), strings.Join(w.Undecided, "; "))
	} else {
		r.Check(len(cs) == 1 && cs[0] == 1, "one invocation per request in Service.Execute", fd.Pos(), "exactly one call of the published function on every path", fmt.Sprintf("paths through Execute invoke the published function %v times: a request runs the function twice or not at all", cs))
	}
	// Process: err from the invoke chain is returned
	pfd, _ := p.DeclOf("rpc/core", "Service.Process")
	if pfd == nil {
		r.Undec("Process error path", 0, "Service.Process not found")
		return
	}
	// the error result of the invoke chain call reaches Process's own error result, whatever the
	// variables are called and whether or not the guarded call was split off into a helper:
	//   results, e := <chain>(ctx, name, args); ... err = e ... return nil, err
	errFlows := func(ci *types.Info, f *ast.FuncDecl, isSource func(call *ast.CallExpr) bool) bool {
		taint := map[types.Object]bool{}
		for pass := 0; pass < 4; pass++ {
			ast.Inspect(f.Body, func(n ast.Node) bool {
				as, ok := n.(*ast.AssignStmt)
				if !ok {
					return true
				}
				if len(as.Rhs) == 1 && len(as.Lhs) >= 1 {
					if c, ok := ast.Unparen(as.Rhs[0]).(*ast.CallExpr); ok && isSource(c) {
						if o := identObj(ci, as.Lhs[len(as.Lhs)-1]); o != nil {
							taint[o] = true
						}
						return true
					}
				}
				if len(as.Lhs) == len(as.Rhs) {
					for k, l := range as.Lhs {
						if ro := identObj(ci, as.Rhs[k]); ro != nil && taint[ro] {
							if lo := identObj(ci, l); lo != nil {
								taint[lo] = true
							}
						}
					}
				}
				return true
			})
		}
		// named error result tainted, or a tainted variable returned in the last position
		if f.Type.Results != nil {
			for _, fl := range f.Type.Results.List {
				for _, nm := range fl.Names {
					if taint[ci.Defs[nm]] {
						return true
					}
				}
			}
		}
		found := false
		ast.Inspect(f.Body, func(n ast.Node) bool {
			if ret, ok := n.(*ast.ReturnStmt); ok && len(ret.Results) >= 1 {
				if o := identObj(ci, ret.Results[len(ret.Results)-1]); o != nil && taint[o] {
					found = true
				}
			}
			return true
		})
		return found
	}
	isChain := func(ci *types.Info) func(call *ast.CallExpr) bool {
		return func(call *ast.CallExpr) bool {
			ta, ok := ast.Unparen(call.Fun).(*ast.TypeAssertExpr)
			if !ok {
				return false
			}
			t := ci.TypeOf(ta.Type)
			return t != nil && strings.Contains(typeKey(t), "NextInvokeHandler") || (t != nil && strings.Contains(types.ExprString(ta.Type), "NextInvokeHandler"))
		}
	}
	okFlow := false
	if errFlows(info, pfd, isChain(info)) {
		okFlow = true
	} else {
		// the chain call lives in a helper: the helper must hand the error out, and Process must return it
		ast.Inspect(pfd.Body, func(n ast.Node) bool {
			call, ok := n.(*ast.CallExpr)
			if !ok {
				return true
			}
			d, cpkg := p.calleeDecl(info, call)
			if d == nil {
				return true
			}
			if errFlows(cpkg.TypesInfo, d, isChain(cpkg.TypesInfo)) {
				helper := Callee(info, call)
				if errFlows(info, pfd, func(c *ast.CallExpr) bool { return Callee(info, c) == helper }) {
					okFlow = true
				}
			}
			return true
		})
	}
	r.Check(okFlow, "error of the invoke chain is returned by Process", pfd.Pos(), "the chain's error result flows to the returned error", "an error returned by the invoke chain is no longer propagated out of Service.Process: the caller receives a successful (nil) result for a failed call")
	// Handle encodes the error into the response when the chain produced none
	hfd, _ := p.DeclOf("rpc/core", "Service.Handle")
	encErr := false
	if hfd != nil {
		ast.Inspect(hfd.Body, func(n ast.Node) bool {
			if call, ok := n.(*ast.CallExpr); ok && methodName(call) == "Encode" && len(call.Args) == 2 {
				if o := identObj(info, call.Args[0]); o != nil && o.Name() == "err" {
					encErr = true
				}
			}
			return true
		})
	}
	r.Check(encErr, "Handle encodes the error for the caller", 0, "Codec.Encode(err, ctx)", "Service.Handle no longer encodes the error into the response: the caller cannot see the function's error message")
}

// ---------------------------------------------------------------------------------------
// G9 (P6 of the design)

func ruleG9(r *Run) {
	p := r.P
	fd, pkg := p.DeclOf("rpc/plugins/cluster", "Broadcast")
	if fd == nil {
		r.Undec("Broadcast", 0, "not found")
	} else {
		info := pkg.TypesInfo
		var addArg types.Object
		deferDone := false
		var loopBound types.Object
		ast.Inspect(fd.Body, func(n ast.Node) bool {
			switch x := n.(type) {
			case *ast.CallExpr:
				if methodName(x) == "Add" && len(x.Args) == 1 {
					if t := info.TypeOf(x.Fun.(*ast.SelectorExpr).X); t != nil && isSyncType(t, "WaitGroup") {
						addArg = identObj(info, x.Args[0])
					}
				}
			case *ast.ForStmt:
				if _, nv, ok := countedLoop(info, x); ok {
					loopBound = nv
				}
			case *ast.DeferStmt:
				ast.Inspect(x, func(m ast.Node) bool {
					if c, ok := m.(*ast.CallExpr); ok && methodName(c) == "Done" {
						deferDone = true
					}
					return true
				})
			}
			return true
		})
		// the same count: one variable (wg.Add(n); for i := 0; i < n; i++), or the length of the
		// collection the loop ranges over / counts up to (wg.Add(len(urls)); for i := range urls)
		sameCount := addArg != nil && addArg == loopBound
		if !sameCount {
			bdefs := localDefs(info, fd.Body)
			var addColl, loopColl types.Object
			ast.Inspect(fd.Body, func(n ast.Node) bool {
				switch x := n.(type) {
				case *ast.CallExpr:
					if methodName(x) == "Add" && len(x.Args) == 1 {
						if t := info.TypeOf(x.Fun.(*ast.SelectorExpr).X); t != nil && isSyncType(t, "WaitGroup") {
							addColl = rootOfLen(info, bdefs, x.Args[0], 0)
						}
					}
				case *ast.RangeStmt:
					hasGo := false
					ast.Inspect(x.Body, func(m ast.Node) bool {
						if _, ok := m.(*ast.GoStmt); ok {
							hasGo = true
						}
						return true
					})
					if hasGo {
						loopColl = rootObj(info, bdefs, x.X, 0)
					}
				case *ast.ForStmt:
					if _, nv, ok := countedLoop(info, x); ok {
						if d := bdefs[nv]; d != nil {
							loopColl = rootOfLen(info, bdefs, d, 0)
						}
					} else if be, ok := x.Cond.(*ast.BinaryExpr); ok && be.Op == token.LSS {
						loopColl = rootOfLen(info, bdefs, be.Y, 0)
					}
				}
				return true
			})
			sameCount = addColl != nil && addColl == loopColl
		}
		r.Check(sameCount, "Broadcast waits for exactly n goroutines", fd.Pos(), "wg.Add(n) with n goroutines", "wg.Add's count is not the number of goroutines started: Broadcast returns before every server was invoked, or never")
		r.Check(deferDone, "Broadcast goroutines signal by defer", fd.Pos(), "defer ... wg.Done()", "wg.Done is not deferred in the fan-out goroutine: a panicking call leaves Broadcast waiting for ever")
	}
	ffd, fpkg := p.DeclOf("rpc/plugins/cluster", "Forking")
	if ffd == nil {
		r.Undec("Forking", 0, "not found")
		return
	}
	info := fpkg.TypesInfo
	closes, closesUnderOnce := 0, 0
	parents := parentMap(ffd)
	ast.Inspect(ffd.Body, func(n ast.Node) bool {
		c, ok := n.(*ast.CallExpr)
		if !ok || !IsBuiltin(info, c, "close") {
			return true
		}
		closes++
		for y := parents[c]; y != nil; y = parents[y] {
			if pc, ok := y.(*ast.CallExpr); ok && methodName(pc) == "Do" {
				if t := info.TypeOf(pc.Fun.(*ast.SelectorExpr).X); t != nil && isSyncType(t, "Once") {
					closesUnderOnce++
					break
				}
			}
		}
		return true
	})
	r.Check(closes >= 3 && closes == closesUnderOnce, "Forking closes done once, on every terminal branch", ffd.Pos(), fmt.Sprintf("%d close(done), all under once.Do", closes), fmt.Sprintf("Forking has %d close(done) of which %d under sync.Once (expected the success branch, the all-failed branch and the panic branch, each under once.Do): a double close panics or the caller waits for ever", closes, closesUnderOnce))
	// success takes the first response; a failure ends the call only when the atomic counter of
	// outstanding servers reaches zero: every once.Do that reports an error is control-dependent on
	// `atomic.AddInt64(&count, -1) <= 0`, written in place or behind a local closure / helper
	fdefs := localDefs(info, ffd.Body)
	isLastFailure := func(e ast.Expr) bool {
		var check func(e ast.Expr, depth int) bool
		check = func(e ast.Expr, depth int) bool {
			e = ast.Unparen(e)
			if be, ok := e.(*ast.BinaryExpr); ok && be.Op == token.LEQ {
				if z, ok := intConst(info, be.Y); ok && z == 0 {
					if c, ok := ast.Unparen(be.X).(*ast.CallExpr); ok {
						if f := Callee(info, c); f != nil && FullName(f) == "sync/atomic.AddInt64" && len(c.Args) == 2 {
							if d, ok := intConst(info, c.Args[1]); ok && d == -1 {
								return true
							}
						}
					}
				}
			}
			if c, ok := e.(*ast.CallExpr); ok && depth < 2 {
				// a local closure: lastFailure := func() bool { return atomic.AddInt64(&count, -1) <= 0 }
				if o := identObj(info, c.Fun); o != nil {
					if fl, ok := ast.Unparen(fdefs[o]).(*ast.FuncLit); ok && len(fl.Body.List) == 1 {
						if ret, ok := fl.Body.List[0].(*ast.ReturnStmt); ok && len(ret.Results) == 1 {
							return check(ret.Results[0], depth+1)
						}
					}
				}
				if d, cpkg := p.calleeDecl(info, c); d != nil && cpkg == fpkg && len(d.Body.List) == 1 {
					if ret, ok := d.Body.List[0].(*ast.ReturnStmt); ok && len(ret.Results) == 1 {
						return check(ret.Results[0], depth+1)
					}
				}
			}
			return false
		}
		return check(e, 0)
	}
	errDo, errDoGated := 0, 0
	ast.Inspect(ffd.Body, func(n ast.Node) bool {
		pc, ok := n.(*ast.CallExpr)
		if !ok || methodName(pc) != "Do" || len(pc.Args) != 1 {
			return true
		}
		if t := info.TypeOf(pc.Fun.(*ast.SelectorExpr).X); t == nil || !isSyncType(t, "Once") {
			return true
		}
		fl, ok := ast.Unparen(pc.Args[0]).(*ast.FuncLit)
		if !ok {
			return true
		}
		setsErr := false
		ast.Inspect(fl.Body, func(m ast.Node) bool {
			if as, ok := m.(*ast.AssignStmt); ok {
				for _, l := range as.Lhs {
					if t := info.TypeOf(l); t != nil && types.Identical(t, types.Universe.Lookup("error").Type()) {
						setsErr = true
					}
				}
			}
			return true
		})
		if !setsErr {
			return true
		}
		errDo++
		for _, fc := range collectFacts(parents, pc) {
			if !fc.neg && isLastFailure(fc.e) {
				errDoGated++
				break
			}
		}
		return true
	})
	r.Check(errDo == 2 && errDoGated == errDo, "Forking fails only when every server failed", ffd.Pos(), "atomic.AddInt64(&count,-1) <= 0 on both failure branches", "the all-failed condition is no longer `atomic.AddInt64(&count, -1) <= 0` on the error and the panic branch: Forking fails while a server could still succeed, or never returns")
}

// ---------------------------------------------------------------------------------------
// G10 rotating index (C16 failover rotation, C18 round robin)

func init() {
	register("G10", "a rotating index obtained with atomic.Add is only returned under `i < n`, every other return is the constant 0 (the index is always in range), and the overflow path resets the shared counter to 0 so that rotation continues", 1, ruleG10)
}

func ruleG10(r *Run) {
	p := r.P
	p.EachFunc(func(pkg *packages.Package, fd *ast.FuncDecl) {
		info := pkg.TypesInfo
		// i := atomic.AddInt64(P, 1)
		var iObj types.Object
		var ptr string
		var addPos token.Pos
		ast.Inspect(fd.Body, func(n ast.Node) bool {
			as, ok := n.(*ast.AssignStmt)
			if !ok || len(as.Lhs) != 1 || len(as.Rhs) != 1 {
				return true
			}
			call, ok := ast.Unparen(as.Rhs[0]).(*ast.CallExpr)
			if !ok {
				return true
			}
			if f := Callee(info, call); f != nil && FullName(f) == "sync/atomic.AddInt64" && len(call.Args) == 2 {
				if c, ok := intConst(info, call.Args[1]); ok && c == 1 {
					iObj, ptr, addPos = identObj(info, as.Lhs[0]), types.ExprString(call.Args[0]), call.Pos()
				}
			}
			return true
		})
		if iObj == nil || fd.Type.Results == nil || len(fd.Type.Results.List) != 1 {
			return
		}
		// is i compared with a bound?
		var cmp *ast.IfStmt
		ast.Inspect(fd.Body, func(n ast.Node) bool {
			if ifs, ok := n.(*ast.IfStmt); ok {
				if be, ok := ifs.Cond.(*ast.BinaryExpr); ok && be.Op == token.LSS && identObj(info, be.X) == iObj {
					cmp = ifs
				}
			}
			return true
		})
		if cmp == nil {
			return
		}
		key := "rotating index " + p.DeclName(fd)
		parents := parentMap(fd.Body)
		bad := ""
		ast.Inspect(fd.Body, func(n ast.Node) bool {
			ret, ok := n.(*ast.ReturnStmt)
			if !ok || len(ret.Results) != 1 {
				return true
			}
			if identObj(info, ret.Results[0]) == iObj {
				inThen := false
				for y := parents[ret]; y != nil; y = parents[y] {
					if y == ast.Node(cmp.Body) {
						inThen = true
					}
				}
				if !inThen {
					bad = "the incremented counter is returned outside the `i < n` branch: an out-of-range server index"
				}
			} else if c, ok := intConst(info, ret.Results[0]); !ok || c != 0 {
				bad = "a return value other than the in-range counter or 0"
			}
			return true
		})
		reset := false
		ast.Inspect(fd.Body, func(n ast.Node) bool {
			call, ok := n.(*ast.CallExpr)
			if !ok || call.Pos() < cmp.End() {
				return true
			}
			if f := Callee(info, call); f != nil && FullName(f) == "sync/atomic.StoreInt64" && len(call.Args) == 2 && types.ExprString(call.Args[0]) == ptr {
				if c, ok := intConst(info, call.Args[1]); ok && c == 0 {
					reset = true
				}
			}
			return true
		})
		switch {
		case bad != "":
			r.Viol(key, addPos, bad)
		case !reset:
			r.Viol(key, addPos, "on the overflow path (counter >= n) the shared counter is not reset to 0: after n increments the function returns 0 for ever and rotation stops (failover keeps retrying the first server, round robin serves only one)")
		default:
			r.Ok(key, addPos, "in-range returns and wrap-around reset")
		}
	})
}

// ---------------------------------------------------------------------------------------
// G11 rate limiter: clamp and timeout gate (C17)

func init() {
	register("G11", "RateLimiter.Acquire clamps the stored permits to maxPermits unconditionally (the clamp's only condition is permits > maxPermits, for every configured burst including 0) and rejects with ErrTimeout only under timeout > 0 AND delay > timeout (strict)", 2, ruleG11)
}

func ruleG11(r *Run) {
	p := r.P
	fd, pkg := p.DeclOf("rpc/plugins/limiter", "RateLimiter.Acquire")
	if fd == nil {
		r.Undec("rate limiter", 0, "RateLimiter.Acquire not found")
		return
	}
	info := pkg.TypesInfo
	parents := parentMap(fd)
	// clamp: if permits > l.maxPermits { permits = l.maxPermits } - in Acquire, or in the helper of the
	// same package that the reservation loop was moved into
	clampOK, clampSeen := false, false
	var cpos token.Pos
	clampFn := fd
	hasClampAssign := func(f *ast.FuncDecl) bool {
		found := false
		ast.Inspect(f.Body, func(n ast.Node) bool {
			if as, ok := n.(*ast.AssignStmt); ok && len(as.Lhs) == 1 && len(as.Rhs) == 1 {
				if fv := fieldOf(info, as.Rhs[0]); fv != nil && fv.Name() == "maxPermits" {
					found = true
				}
			}
			return true
		})
		return found
	}
	if !hasClampAssign(fd) {
		ast.Inspect(fd.Body, func(n ast.Node) bool {
			if call, ok := n.(*ast.CallExpr); ok {
				if d, cpkg := p.calleeDecl(info, call); d != nil && cpkg == pkg && hasClampAssign(d) {
					clampFn = d
				}
			}
			return true
		})
	}
	cparents := parentMap(clampFn)
	ast.Inspect(clampFn.Body, func(n ast.Node) bool {
		as, ok := n.(*ast.AssignStmt)
		if !ok || len(as.Lhs) != 1 || len(as.Rhs) != 1 {
			return true
		}
		fv := fieldOf(info, as.Rhs[0])
		if fv == nil || fv.Name() != "maxPermits" {
			return true
		}
		clampSeen = true
		cpos = as.Pos()
		pobj := identObj(info, as.Lhs[0])
		facts := collectFacts(cparents, as)
		// exactly one fact, inside the retry loop's body: permits > maxPermits
		rel := 0
		exact := false
		for _, f := range facts {
			mentions := false
			ast.Inspect(f.e, func(m ast.Node) bool {
				if id, ok := m.(*ast.Ident); ok && info.Uses[id] == pobj {
					mentions = true
				}
				if fv2 := fieldOf(info, exprOrNil(m)); fv2 != nil && fv2.Name() == "maxPermits" {
					mentions = true
				}
				return true
			})
			if !mentions {
				continue
			}
			rel++
			if be, ok := f.e.(*ast.BinaryExpr); ok && !f.neg {
				if (be.Op == token.GTR && identObj(info, be.X) == pobj && fieldOf(info, be.Y) != nil && fieldOf(info, be.Y).Name() == "maxPermits") ||
					(be.Op == token.LSS && identObj(info, be.Y) == pobj && fieldOf(info, be.X) != nil && fieldOf(info, be.X).Name() == "maxPermits") {
					exact = true
				}
			}
		}
		if rel == 1 && exact {
			clampOK = true
		}
		return true
	})
	switch {
	case !clampSeen:
		r.Viol("burst clamp", fd.Pos(), "the stored permits are no longer clamped to maxPermits: after an idle period the limiter admits rate x idle-time requests at once")
	case !clampOK:
		r.Viol("burst clamp", cpos, "the clamp `permits = maxPermits` is guarded by more (or other) conditions than `permits > maxPermits`: for some configured burst the cap is skipped and the limiter admits more than burst + rate x elapsed")
	default:
		r.Ok("burst clamp", cpos, "if permits > maxPermits { permits = maxPermits }")
	}
	// timeout gate
	errTimeout := p.LookupObj("rpc/core", "ErrTimeout")
	var ret *ast.ReturnStmt
	ast.Inspect(fd.Body, func(n ast.Node) bool {
		if rs, ok := n.(*ast.ReturnStmt); ok {
			for _, res := range rs.Results {
				if objOf(info, res) == errTimeout && errTimeout != nil {
					ret = rs
				}
			}
		}
		return true
	})
	if ret == nil {
		r.Viol("timeout rejection gate", fd.Pos(), "Acquire never returns ErrTimeout: callers wait arbitrarily long")
		return
	}
	strict, enabled := false, false
	for _, f := range collectFacts(parents, ret) {
		be, ok := f.e.(*ast.BinaryExpr)
		if !ok || f.neg {
			continue
		}
		isTimeout := func(e ast.Expr) bool { fv := fieldOf(info, e); return fv != nil && fv.Name() == "timeout" }
		if be.Op == token.GTR && isTimeout(be.Y) && !isTimeout(be.X) {
			strict = true
		}
		if be.Op == token.LSS && isTimeout(be.X) {
			strict = true
		}
		if be.Op == token.GTR && isTimeout(be.X) {
			if z, ok := intConst(info, be.Y); ok && z == 0 {
				enabled = true
			}
		}
	}
	r.Check(strict && enabled, "timeout rejection gate", ret.Pos(), "timeout > 0 && delay > timeout", "ErrTimeout is not returned exactly under `timeout > 0 && delay > timeout`: callers are rejected although the wait they need does not exceed the configured timeout (or never rejected)")
	// a rejected caller admits nothing: the rejection comes before the reservation (the compare-and-swap on next)
	var cas *ast.CallExpr
	p.deepInspect(info, fd.Body, 1, func(ci *types.Info, n ast.Node) bool {
		if c, ok := n.(*ast.CallExpr); ok {
			if f := Callee(ci, c); f != nil && f.Pkg() != nil && f.Pkg().Path() == "sync/atomic" && strings.HasPrefix(f.Name(), "CompareAndSwap") && cas == nil {
				cas = c
			}
		}
		return true
	})
	if cas != nil && p.Fset.File(cas.Pos()) == p.Fset.File(ret.Pos()) && clampFn == fd {
		r.Check(ret.Pos() < cas.Pos(), "a rejected caller is not charged", ret.Pos(), "ErrTimeout is returned before the reservation", "Acquire moves `next` forward (the compare-and-swap) and only then finds that the caller would wait longer than the timeout: the rejected caller has consumed its permits all the same, so callers after it are delayed or rejected although nothing was admitted")
	}
	// the burst is capped BEFORE the call is charged: at the clamp the permits do not yet include the tokens of this call
	var tokens types.Object
	for _, pv := range paramsOf(info, fd.Type) {
		if b, ok := pv.Type().Underlying().(*types.Basic); ok && b.Info()&types.IsInteger != 0 {
			tokens = pv
		}
	}
	if tokens != nil && clampSeen && clampFn == fd {
		chargedBefore, chargedAfter := false, false
		ast.Inspect(fd.Body, func(n ast.Node) bool {
			if id, ok := n.(*ast.Ident); ok && info.Uses[id] == tokens {
				if id.Pos() < cpos {
					chargedBefore = true
				} else {
					chargedAfter = true
				}
			}
			return true
		})
		r.Check(!chargedBefore && chargedAfter, "the burst is capped before the call is charged", cpos, "tokens subtracted after the clamp", "the tokens of the call are subtracted before the accumulated permits are capped to maxPermits: after an idle period the cap restores the full burst and the call itself was free - a 200-token call plus the burst are admitted at once")
	}
	// after the wait the caller's own context decides: a caller whose context ended while it waited is not admitted
	waited := false
	var last *ast.ReturnStmt
	callerErr := func(e ast.Expr) bool {
		if c, ok := ast.Unparen(e).(*ast.CallExpr); ok && methodName(c) == "Err" {
			if se, ok := ast.Unparen(c.Fun).(*ast.SelectorExpr); ok {
				if o := identObj(info, se.X); o != nil {
					for _, pv := range paramsOf(info, fd.Type) {
						if pv == o {
							return true
						}
					}
				}
			}
		}
		return false
	}
	// the statement list the wait stands in (the function body, or the branch `if last > now { ... }`)
	waitList := fd.Body.List
	var findWait func(list []ast.Stmt) bool
	findWait = func(list []ast.Stmt) bool {
		for _, st := range list {
			direct := false
			ast.Inspect(st, func(n ast.Node) bool {
				switch x := n.(type) {
				case *ast.BlockStmt, *ast.FuncLit:
					return false
				case *ast.UnaryExpr:
					if c, ok := ast.Unparen(x.X).(*ast.CallExpr); ok && x.Op == token.ARROW && methodName(c) == "Done" {
						direct = true
					}
				}
				return true
			})
			if direct {
				waitList = list
				return true
			}
			if ifs, ok := st.(*ast.IfStmt); ok && ifs.Else == nil && findWait(ifs.Body.List) {
				return true
			}
		}
		return false
	}
	findWait(fd.Body.List)
	var setRes types.Object
	setPos := token.NoPos
	for _, st := range waitList {
		ast.Inspect(st, func(n ast.Node) bool {
			if u, ok := n.(*ast.UnaryExpr); ok && u.Op == token.ARROW {
				if c, ok := ast.Unparen(u.X).(*ast.CallExpr); ok && methodName(c) == "Done" {
					waited = true
				}
			}
			return true
		})
		if rs, ok := st.(*ast.ReturnStmt); ok && waited {
			last = rs
		}
		// err = ctx.Err() into the named result, the function then returns it
		if as, ok := st.(*ast.AssignStmt); ok && waited && as.Tok == token.ASSIGN && len(as.Lhs) == 1 && len(as.Rhs) == 1 && callerErr(as.Rhs[0]) {
			if o := identObj(info, as.Lhs[0]); o != nil && isParamOrResult(info, fd, o) {
				setRes, setPos = o, as.End()
			}
		}
	}
	if waited {
		okErr := last != nil && len(last.Results) == 1 && callerErr(last.Results[0])
		if !okErr && last == nil && setRes != nil {
			// nothing writes the result after that, and what returns after it returns the result
			okErr = true
			ast.Inspect(fd.Body, func(n ast.Node) bool {
				switch x := n.(type) {
				case *ast.FuncLit:
					return false
				case *ast.AssignStmt:
					for _, l := range x.Lhs {
						if x.Pos() > setPos && identObj(info, l) == setRes {
							okErr = false
						}
					}
				case *ast.ReturnStmt:
					if x.Pos() > setPos && !(len(x.Results) == 0 || len(x.Results) == 1 && identObj(info, x.Results[0]) == setRes) {
						okErr = false
					}
				}
				return true
			})
		}
		pos := fd.Pos()
		if last != nil {
			pos = last.Pos()
		}
		r.Check(okErr, "a caller whose context ended while waiting is not admitted", pos, "return ctx.Err() of the caller's context after the wait", "after waiting on the derived context Acquire returns nil whatever ended the wait: when the caller's own context is cancelled or expires the wait ends at once and the call is admitted immediately - a thousand cancelled callers pass a 10/s limiter in a millisecond")
	}
}

func exprOrNil(n ast.Node) ast.Expr {
	if e, ok := n.(ast.Expr); ok {
		return e
	}
	return nil
}

// ---------------------------------------------------------------------------------------
// G12 per-request service context (C08)

func init() {
	register("G12", "every dispatch of a request from a connection's receive loop gets its own ServiceContext: the context handed to run/task is built (getServiceContext / NewServiceContext) inside the loop iteration that dispatches, never hoisted out of the loop, because the decoded method and headers are stored in it", 6, ruleG12)
}

func ruleG12(r *Run) {
	p := r.P
	for _, tr := range []string{"rpc/socket", "rpc/udp", "rpc/websocket"} {
		fds, pkg := p.directDispatchers(tr)
		if len(fds) == 0 {
			r.Undec("per-request context "+tr, 0, "no function dispatches requests (calls Handler.run / Handler.task)")
			continue
		}
		info := pkg.TypesInfo
		n := 0
		for _, fd := range fds {
			parents := parentMap(fd)
			ast.Inspect(fd.Body, func(m ast.Node) bool {
				call, ok := m.(*ast.CallExpr)
				if !ok {
					return true
				}
				f := Callee(info, call)
				if f == nil || !p.InRepo(f) {
					return true
				}
				name := p.FuncName(f)
				if !strings.HasSuffix(name, ".Handler.run") && !strings.HasSuffix(name, ".Handler.task") {
					return true
				}
				n++
				key := fmt.Sprintf("per-request context %s.Handler.receive -> %s #%d", tr, f.Name(), n)
				if fd.Name.Name != "receive" {
					key = fmt.Sprintf("per-request context %s -> %s #%d", p.DeclName(fd), f.Name(), n)
				}
				if len(call.Args) == 0 {
					r.Undec(key, call.Pos(), "dispatch without arguments")
					return true
				}
				// innermost enclosing loop
				var loop ast.Node
				for y := parents[call]; y != nil; y = parents[y] {
					if _, ok := y.(*ast.ForStmt); ok {
						loop = y
						break
					}
				}
				builds := func(e ast.Node) bool {
					found := false
					ast.Inspect(e, func(k ast.Node) bool {
						if c, ok := k.(*ast.CallExpr); ok {
							if g := Callee(info, c); g != nil && (refName(g.Name()) == "getServiceContext" || g.Name() == "NewServiceContext") {
								found = true
							}
						}
						return true
					})
					return found
				}
				arg := call.Args[0]
				okCtx := builds(arg)
				if !okCtx {
					if loop == nil && fd.Name.Name != "receive" {
						loop = fd.Body // a per-frame helper: its body is the iteration
					}
					if o := identObj(info, arg); o != nil && loop != nil && o.Pos() > loop.Pos() && o.Pos() < loop.End() {
						// a local defined inside the loop: its definition must build the context
						ast.Inspect(loop, func(k ast.Node) bool {
							if as, ok := k.(*ast.AssignStmt); ok {
								for i, l := range as.Lhs {
									if identObj(info, l) == o && i < len(as.Rhs) && builds(as.Rhs[i]) {
										okCtx = true
									}
								}
							}
							return true
						})
					}
				}
				if okCtx {
					r.Ok(key, call.Pos(), "context built in the dispatching iteration")
				} else {
					r.Viol(key, call.Pos(), "the context handed to the dispatch is not built inside the iteration that dispatches: one mutable ServiceContext (method, headers, items) is shared by all requests of the connection, so a concurrent request's arguments reach the wrong function")
				}
				return true
			})
		}
	}
}

// dispatchSet: for a transport package, the dispatch targets (Service.Handle, Handler.run,
// Handler.task), the forwarders (functions that merely pass their own []byte parameter on to a
// target or another forwarder - a dispatch tail split off from the receive loop) and the entries
// (functions that hand bytes which are NOT their own parameter to a target or forwarder: the
// receive loop, or the per-frame helper split off from it).
type dispatchSet struct {
	pkg     *packages.Package
	targets map[*types.Func]bool // targets and forwarders
	entries []*ast.FuncDecl
}

func isByteSlice(t types.Type) bool {
	if t == nil {
		return false
	}
	sl, ok := t.Underlying().(*types.Slice)
	if !ok {
		return false
	}
	b, ok := sl.Elem().Underlying().(*types.Basic)
	return ok && b.Kind() == types.Uint8
}

func (p *Prog) dispatchSetOf(tr string) *dispatchSet {
	pkg := p.Pkg(tr)
	if pkg == nil {
		return nil
	}
	info := pkg.TypesInfo
	ds := &dispatchSet{pkg: pkg, targets: map[*types.Func]bool{}}
	isBaseTarget := func(f *types.Func) bool {
		if f == nil || !p.InRepo(f) {
			return false
		}
		name := p.FuncName(f)
		return name == "rpc/core.Service.Handle" || strings.HasSuffix(name, ".Handler.run") || strings.HasSuffix(name, ".Handler.task")
	}
	var decls []*ast.FuncDecl
	for _, file := range pkg.Syntax {
		for _, d := range file.Decls {
			if fd, ok := d.(*ast.FuncDecl); ok && fd.Body != nil {
				decls = append(decls, fd)
			}
		}
	}
	isTarget := func(f *types.Func) bool { return f != nil && (isBaseTarget(f) || ds.targets[f]) }
	bytesArg := func(call *ast.CallExpr) ast.Expr {
		for i := len(call.Args) - 1; i >= 0; i-- {
			if isByteSlice(info.TypeOf(call.Args[i])) {
				return call.Args[i]
			}
		}
		return nil
	}
	for changed := true; changed; {
		changed = false
		for _, fd := range decls {
			fobj, _ := info.Defs[fd.Name].(*types.Func)
			if fobj == nil || isTarget(fobj) {
				continue
			}
			params := map[types.Object]bool{}
			for _, pv := range paramsOf(info, fd.Type) {
				if pv != nil {
					params[pv] = true
				}
			}
			forwards, other := false, false
			ast.Inspect(fd.Body, func(n ast.Node) bool {
				call, ok := n.(*ast.CallExpr)
				if !ok || !isTarget(Callee(info, call)) {
					return true
				}
				if a := bytesArg(call); a != nil && params[identObj(info, a)] {
					forwards = true
				} else {
					other = true
				}
				return true
			})
			if forwards && !other {
				ds.targets[fobj] = true
				changed = true
			}
		}
	}
	// a forwarder is called by a function of the package; one that is only handed out as a value
	// (the mock handler registered as a callback) receives bytes from outside: it is an entry
	called := map[*types.Func]bool{}
	for _, fd := range decls {
		ast.Inspect(fd.Body, func(n ast.Node) bool {
			if call, ok := n.(*ast.CallExpr); ok {
				if f := Callee(info, call); f != nil {
					called[f] = true
				}
			}
			return true
		})
	}
	for f := range ds.targets {
		if !called[f] {
			delete(ds.targets, f)
		}
	}
	for _, fd := range decls {
		fobj, _ := info.Defs[fd.Name].(*types.Func)
		if fobj == nil || isTarget(fobj) {
			continue
		}
		has := false
		ast.Inspect(fd.Body, func(n ast.Node) bool {
			if call, ok := n.(*ast.CallExpr); ok && isTarget(Callee(info, call)) {
				has = true
			}
			return true
		})
		if has {
			ds.entries = append(ds.entries, fd)
		}
	}
	for _, fd := range decls {
		if fobj, _ := info.Defs[fd.Name].(*types.Func); fobj != nil && isBaseTarget(fobj) {
			ds.targets[fobj] = true
		}
	}
	if f := p.LookupFunc("rpc/core", "Service.Handle"); f != nil {
		ds.targets[f] = true
	}
	return ds
}

// dispatchers: the entry functions of a transport package (see dispatchSet).
func (p *Prog) dispatchers(tr string) ([]*ast.FuncDecl, *packages.Package) {
	ds := p.dispatchSetOf(tr)
	if ds == nil {
		return nil, nil
	}
	return ds.entries, ds.pkg
}

// directDispatchers: the functions of a transport package that hand a request to Handler.run /
// Handler.task (the receive loop, or the per-frame helper split off from it).
func (p *Prog) directDispatchers(tr string) ([]*ast.FuncDecl, *packages.Package) {
	pkg := p.Pkg(tr)
	if pkg == nil {
		return nil, nil
	}
	var out []*ast.FuncDecl
	for _, file := range pkg.Syntax {
		for _, d := range file.Decls {
			fd, ok := d.(*ast.FuncDecl)
			if !ok || fd.Body == nil || fd.Name.Name == "run" || fd.Name.Name == "task" {
				continue
			}
			has := false
			ast.Inspect(fd.Body, func(n ast.Node) bool {
				if call, ok := n.(*ast.CallExpr); ok {
					if f := Callee(pkg.TypesInfo, call); f != nil && p.InRepo(f) {
						name := p.FuncName(f)
						if strings.HasSuffix(name, ".Handler.run") || strings.HasSuffix(name, ".Handler.task") {
							has = true
						}
					}
				}
				return true
			})
			if has {
				out = append(out, fd)
			}
		}
	}
	return out, pkg
}

// ---------------------------------------------------------------------------------------
// G7 request id identity end to end (C09)

func init() {
	register("G7", "the request id is one value end to end: conn.Transport registers, sends and withdraws the same index; the handler passes the index parsed from a frame, with that frame's body, to run/task, run passes it to sendResponse, send writes response.Index into the header; the client looks up the index parsed from the response frame", 15, ruleG7)
	register("L5", "package-level maps and slices (dispatch tables, converter maps) are written only during package initialisation (init functions / initialisers) or are sync.Map: they are read concurrently without a lock", 6, ruleL5)
}

func ruleG7(r *Run) {
	p := r.P
	for _, tr := range []string{"rpc/socket", "rpc/udp", "rpc/websocket"} {
		pkg := p.Pkg(tr)
		if pkg == nil {
			continue
		}
		info := pkg.TypesInfo
		// (1) conn.Transport: store(index,..), data{Index: index}, delete(index) use one object
		if fd, _ := p.DeclOf(tr, "conn.Transport"); fd != nil {
			var objs []types.Object
			ast.Inspect(fd.Body, func(n ast.Node) bool {
				switch x := n.(type) {
				case *ast.CallExpr:
					if m := methodName(x); (m == "store" || m == "delete") && len(x.Args) >= 1 {
						objs = append(objs, identObj(info, x.Args[0]))
					}
				case *ast.KeyValueExpr:
					if id, ok := x.Key.(*ast.Ident); ok && id.Name == "Index" {
						objs = append(objs, identObj(info, x.Value))
					}
				}
				return true
			})
			same := len(objs) >= 4
			for _, o := range objs {
				if o == nil || o != objs[0] {
					same = false
				}
			}
			r.Check(same, "one id registered, sent and withdrawn in "+tr+".conn.Transport", fd.Pos(), fmt.Sprintf("%d uses of the same index variable", len(objs)), "conn.Transport registers, sends and withdraws different index values: a response is matched to another call's entry, or entries are never withdrawn")
		} else {
			r.Undec("conn.Transport "+tr, 0, "not found")
		}
		// (2) Handler.receive: the index from parseHeader is the one dispatched
		dsG7 := p.dispatchSetOf(tr)
		var fdsD []*ast.FuncDecl
		if dsG7 != nil {
			fdsD = dsG7.entries
		}
		for _, fd := range fdsD {
			var parsed types.Object
			ast.Inspect(fd.Body, func(n ast.Node) bool {
				if as, ok := n.(*ast.AssignStmt); ok && len(as.Rhs) == 1 {
					if call, ok := ast.Unparen(as.Rhs[0]).(*ast.CallExpr); ok {
						if f := Callee(info, call); f != nil && refName(f.Name()) == "parseHeader" {
							for i, l := range as.Lhs {
								// index is the result named index
								if f.Type().(*types.Signature).Results().At(i).Name() == "index" {
									parsed = identObj(info, l)
								}
							}
						}
					}
				}
				return true
			})
			okAll, n := parsed != nil, 0
			ast.Inspect(fd.Body, func(m ast.Node) bool {
				call, ok := m.(*ast.CallExpr)
				if !ok {
					return true
				}
				f := Callee(info, call)
				if f == nil || !p.InRepo(f) {
					return true
				}
				// the id parameter of a callee: the one named index, else its only int parameter
				idParam := func(f *types.Func) int {
					sig := f.Type().(*types.Signature)
					only, cnt := -1, 0
					for i := 0; i < sig.Params().Len(); i++ {
						if sig.Params().At(i).Name() == "index" {
							return i
						}
						if b, ok := sig.Params().At(i).Type().Underlying().(*types.Basic); ok && b.Kind() == types.Int {
							only = i
							cnt++
						}
					}
					if cnt == 1 {
						return only
					}
					return -1
				}
				switch {
				case refName(f.Name()) == "run" || refName(f.Name()) == "task" || refName(f.Name()) == "sendResponse":
					if i := idParam(f); i >= 0 && i < len(call.Args) {
						n++
						if identObj(info, call.Args[i]) != parsed {
							okAll = false
						}
					}
				case dsG7 != nil && dsG7.targets[f]:
					// a forwarder (the dispatch tail split off): it gets the parsed id and passes its own parameter on
					i := idParam(f)
					if i < 0 || i >= len(call.Args) || identObj(info, call.Args[i]) != parsed {
						okAll = false
						break
					}
					if d := p.Decl(f); d != nil {
						params := paramsOf(info, d.Type)
						ast.Inspect(d.Body, func(k ast.Node) bool {
							c2, ok := k.(*ast.CallExpr)
							if !ok {
								return true
							}
							f2 := Callee(info, c2)
							if f2 == nil || !dsG7.targets[f2] {
								return true
							}
							if j := idParam(f2); j >= 0 && j < len(c2.Args) {
								n++
								if i >= len(params) || identObj(info, c2.Args[j]) != types.Object(params[i]) {
									okAll = false
								}
							}
							return true
						})
					}
				}
				return true
			})
			k7 := "frame's own id dispatched in " + tr + ".Handler.receive"
			if fd.Name.Name != "receive" {
				k7 = "frame's own id dispatched in " + p.DeclName(fd)
			}
			r.Check(okAll && n >= 3, k7, fd.Pos(), fmt.Sprintf("%d dispatches use the parsed index", n), "the index passed to run/task/sendResponse is not the one parsed from the frame being processed: the response carries another request's id")
		}
		// (3) Handler.run passes its index on; Handler.send writes response.Index into the header
		if fd, _ := p.DeclOf(tr, "Handler.run"); fd != nil {
			params := paramsOf(info, fd.Type)
			var idx types.Object
			for _, pv := range params {
				if pv != nil && pv.Name() == "index" {
					idx = pv
				}
			}
			ok := false
			ast.Inspect(fd.Body, func(m ast.Node) bool {
				if call, isC := m.(*ast.CallExpr); isC && methodName(call) == "sendResponse" {
					for _, a := range call.Args {
						if identObj(info, a) == idx && idx != nil {
							ok = true
						}
					}
				}
				return true
			})
			r.Check(ok, "run answers with the id it was given in "+tr+".Handler.run", fd.Pos(), "sendResponse(.., index, ..)", "Handler.run does not pass its own index to sendResponse")
		}
		if fd, _ := p.DeclOf(tr, "Handler.send"); fd != nil {
			// the local that holds response.Index (whatever it is called) ...
			var idx types.Object
			ast.Inspect(fd.Body, func(m ast.Node) bool {
				if as, isA := m.(*ast.AssignStmt); isA {
					for i, l := range as.Lhs {
						if i < len(as.Rhs) {
							if fv := fieldOf(info, as.Rhs[i]); fv != nil && fv.Name() == "Index" {
								if o := identObj(info, l); o != nil {
									idx = o
								}
							}
						}
					}
				}
				return true
			})
			// ... reaches makeHeader, directly or through a helper that passes its parameter on
			var reaches func(info2 *types.Info, body ast.Node, o types.Object, depth int) bool
			reaches = func(info2 *types.Info, body ast.Node, o types.Object, depth int) bool {
				found := false
				ast.Inspect(body, func(m ast.Node) bool {
					call, isC := m.(*ast.CallExpr)
					if !isC || found {
						return true
					}
					f := Callee(info2, call)
					if f == nil {
						return true
					}
					for ai, a := range call.Args {
						isID := identObj(info2, a) == o && o != nil
						if depth == 0 {
							// response.Index handed over directly, without a local
							if fv := fieldOf(info2, a); fv != nil && fv.Name() == "Index" {
								isID = true
							}
						}
						if !isID {
							continue
						}
						if refName(f.Name()) == "makeHeader" {
							found = true
							return true
						}
						if d, cpkg := p.calleeDecl(info2, call); d != nil && depth < 2 {
							params := paramsOf(cpkg.TypesInfo, d.Type)
							if ai < len(params) && params[ai] != nil && reaches(cpkg.TypesInfo, d.Body, params[ai], depth+1) {
								found = true
							}
						}
					}
					return true
				})
				return found
			}
			ok := reaches(info, fd.Body, idx, 0)
			r.Check(ok, "response header carries the response's id in "+tr+".Handler.send", fd.Pos(), "index := response.Index ... makeHeader(.., index)", "Handler.send does not write response.Index into the frame header")
		}
		// (4) client: the index parsed from the response frame is the one looked up
		if fd, _ := p.DeclOf(tr, "conn.receive"); fd != nil {
			var parsed types.Object
			ast.Inspect(fd.Body, func(n ast.Node) bool {
				if as, ok := n.(*ast.AssignStmt); ok && len(as.Rhs) == 1 {
					if call, ok := ast.Unparen(as.Rhs[0]).(*ast.CallExpr); ok {
						if f := Callee(info, call); f != nil && refName(f.Name()) == "parseHeader" {
							for i, l := range as.Lhs {
								if f.Type().(*types.Signature).Results().At(i).Name() == "index" {
									parsed = identObj(info, l)
								}
							}
						}
					}
				}
				return true
			})
			ok := false
			ast.Inspect(fd.Body, func(m ast.Node) bool {
				if call, isC := m.(*ast.CallExpr); isC && methodName(call) == "loadAndDelete" && len(call.Args) == 1 {
					if identObj(info, call.Args[0]) == parsed && parsed != nil {
						ok = true
					}
					// result.Index with `result := data{Index: index, ...}` (a delivery helper takes the whole result)
					if v := fieldOfLiteral(info, fd.Body, call.Args[0]); v != nil && identObj(info, v) == parsed && parsed != nil {
						ok = true
					}
				}
				return true
			})
			r.Check(ok, "response matched by its own id in "+tr+".conn.receive", fd.Pos(), "loadAndDelete(index parsed from the frame)", "the pending call is not looked up by the index parsed from the response frame")
		}
	}
}

func ruleL5(r *Run) {
	p := r.P
	for _, pkg := range p.Pkgs {
		info := pkg.TypesInfo
		// package-level map/slice variables
		vars := map[types.Object]bool{}
		sc := pkg.Types.Scope()
		for _, name := range sc.Names() {
			v, ok := sc.Lookup(name).(*types.Var)
			if !ok {
				continue
			}
			switch v.Type().Underlying().(type) {
			case *types.Map, *types.Slice:
				vars[v] = true
			}
		}
		if len(vars) == 0 {
			continue
		}
		writes := map[types.Object][]string{}
		for _, file := range pkg.Syntax {
			for _, d := range file.Decls {
				fd, ok := d.(*ast.FuncDecl)
				if !ok || fd.Body == nil {
					continue
				}
				isInit := fd.Recv == nil && fd.Name.Name == "init"
				mark := func(e ast.Expr, pos token.Pos) {
					for {
						e = ast.Unparen(e)
						if ie, ok := e.(*ast.IndexExpr); ok {
							e = ie.X
							continue
						}
						break
					}
					if o := identObj(info, e); o != nil && vars[o] && !isInit {
						writes[o] = append(writes[o], p.DeclName(fd)+" at "+p.Rel(pos))
					}
				}
				ast.Inspect(fd.Body, func(n ast.Node) bool {
					switch x := n.(type) {
					case *ast.AssignStmt:
						for _, l := range x.Lhs {
							mark(l, x.Pos())
						}
					case *ast.IncDecStmt:
						mark(x.X, x.Pos())
					case *ast.CallExpr:
						if IsBuiltin(info, x, "delete") && len(x.Args) == 2 {
							mark(x.Args[0], x.Pos())
						}
					}
					return true
				})
			}
		}
		var names []string
		for o := range vars {
			names = append(names, o.Name())
		}
		sort.Strings(names)
		for _, nme := range names {
			o := sc.Lookup(nme)
			key := fmt.Sprintf("package-level table %s.%s", p.RelPkg(pkg.Types), nme)
			if w := writes[o]; len(w) > 0 {
				r.Viol(key, o.Pos(), fmt.Sprintf("the package-level %s is written outside init (%s) although it is read concurrently without a lock: first use of a type from several goroutines races on it", nme, strings.Join(w, "; ")))
			} else {
				r.Ok(key, o.Pos(), "written only during package initialisation")
			}
		}
	}
}

// endsInJump: the statement list ends by leaving the enclosing block (return, continue, break, goto, panic).
func endsInJump(body []ast.Stmt) bool {
	if len(body) == 0 {
		return false
	}
	switch x := body[len(body)-1].(type) {
	case *ast.ReturnStmt:
		return true
	case *ast.BranchStmt:
		return x.Tok != token.FALLTHROUGH
	case *ast.ExprStmt:
		if c, ok := x.X.(*ast.CallExpr); ok {
			if id, ok := c.Fun.(*ast.Ident); ok && id.Name == "panic" {
				return true
			}
		}
	}
	return false
}

// soleBreakCond: the condition C of the only `if C { break }` that leaves the condition-less loop fs
// (returns inside the loop are fine; any other break, labelled jump or goto gives nil).
func soleBreakCond(fs *ast.ForStmt) ast.Expr {
	var cond ast.Expr
	n, bad := 0, false
	var walk func(node ast.Node, inner bool)
	walk = func(node ast.Node, inner bool) {
		ast.Inspect(node, func(m ast.Node) bool {
			if m == node {
				return true
			}
			switch x := m.(type) {
			case *ast.FuncLit:
				return false
			case *ast.ForStmt, *ast.RangeStmt, *ast.SwitchStmt, *ast.TypeSwitchStmt, *ast.SelectStmt:
				walk(x, true)
				return false
			case *ast.BranchStmt:
				if x.Label != nil || x.Tok == token.GOTO {
					bad = true
				} else if x.Tok == token.BREAK && !inner {
					n++
				}
			case *ast.IfStmt:
				if !inner && x.Else == nil && len(x.Body.List) == 1 {
					if b, ok := x.Body.List[0].(*ast.BranchStmt); ok && b.Tok == token.BREAK && b.Label == nil {
						cond = x.Cond
					}
				}
			}
			return true
		})
	}
	walk(fs.Body, false)
	if bad || n != 1 {
		return nil
	}
	return cond
}

// fieldOfLiteral: for `x.F` where x is a local defined once by a composite literal with a keyed element F: that element's value
func fieldOfLiteral(info *types.Info, body ast.Node, e ast.Expr) ast.Expr {
	sel, ok := ast.Unparen(e).(*ast.SelectorExpr)
	if !ok {
		return nil
	}
	var lit *ast.CompositeLit
	switch x := ast.Unparen(sel.X).(type) {
	case *ast.CompositeLit:
		lit = x
	case *ast.Ident:
		o := info.Uses[x]
		if o == nil {
			return nil
		}
		n := 0
		ast.Inspect(body, func(m ast.Node) bool {
			switch d := m.(type) {
			case *ast.AssignStmt:
				for i, l := range d.Lhs {
					if identObj(info, l) == o && i < len(d.Rhs) {
						n++
						lit, _ = ast.Unparen(d.Rhs[i]).(*ast.CompositeLit)
					}
				}
			case *ast.ValueSpec:
				for i, nm := range d.Names {
					if info.Defs[nm] == o && i < len(d.Values) {
						n++
						lit, _ = ast.Unparen(d.Values[i]).(*ast.CompositeLit)
					}
				}
			}
			return true
		})
		if n != 1 {
			return nil
		}
	}
	if lit == nil {
		return nil
	}
	for _, el := range lit.Elts {
		if kv, ok := el.(*ast.KeyValueExpr); ok {
			if id, ok := kv.Key.(*ast.Ident); ok && id.Name == sel.Sel.Name {
				return kv.Value
			}
		}
	}
	return nil
}
