package main

import (
	"fmt"
	"go/ast"
	"go/token"
	"go/types"
	"sort"
	"strings"

	"golang.org/x/tools/go/packages"
)

// W1: wire-controlled integers reaching an index, slice bound, allocation size, growth, map
// hint or loop bound pass a guard on the needed side(s). Typed-AST taint, flow-insensitive
// inside a function, parameters tainted through call sites (fixpoint over the repository).
// The rule decides the PRESENCE of a guard tied to the value, not that its constant is adequate.

func init() {
	register("W1", "every integer read from the wire (Decoder.ReadInt.. / readUint64 and what is computed from them, through parameters too) that reaches a slice/array index, a slice bound, a make size, UnsafeGrow/UnsafeMakeMap/UnsafeMakeSlice or the bound of a loop that does not stop on a decoder error is dominated by comparisons bounding it on the side(s) that sink needs (index/bound/size: below and above; loop: above or error exit)", 25, ruleW1)
}

var wireReaders = map[string]bool{"ReadInt": true, "ReadInt8": true, "ReadInt16": true, "ReadInt32": true, "ReadInt64": true,
	"ReadUint": true, "ReadUint8": true, "ReadUint16": true, "ReadUint32": true, "ReadUint64": true, "readUint64": true}

type w1 struct {
	p       *Prog
	tainted map[types.Object]bool // locals and parameters carrying a wire integer
	raw     map[types.Object]bool // ... that did NOT pass through the ReadCount sanitiser
	// strictLen: the sink is an INDEX - an upper bound against len(..) has to be strict (i < len(a)); i <= len(a) lets the
	// index one past the end through
	strictLen bool
}

// isCounted: e is a call of the sanitiser Decoder.ReadCount
func (w *w1) isCounted(info *types.Info, e ast.Expr) bool {
	call, ok := ast.Unparen(e).(*ast.CallExpr)
	if !ok {
		return false
	}
	f := Callee(info, call)
	return f != nil && w.p.InRepo(f) && w.p.FuncName(f) == "io.Decoder.ReadCount"
}

// exprRaw: e carries a wire integer that bypassed the sanitiser
func (w *w1) exprRaw(info *types.Info, e ast.Expr) bool {
	e = ast.Unparen(e)
	if w.isSource(info, e) {
		return true
	}
	switch x := e.(type) {
	case *ast.Ident:
		return w.raw[info.Uses[x]]
	case *ast.CallExpr:
		if _, ok := isConversion(info, x); ok {
			return w.exprRaw(info, x.Args[0])
		}
	case *ast.BinaryExpr:
		return w.exprRaw(info, x.X) || w.exprRaw(info, x.Y)
	case *ast.UnaryExpr:
		return w.exprRaw(info, x.X)
	}
	return false
}

func (w *w1) isSource(info *types.Info, e ast.Expr) bool {
	call, ok := ast.Unparen(e).(*ast.CallExpr)
	if !ok {
		return false
	}
	f := Callee(info, call)
	return f != nil && w.p.InRepo(f) && w.p.namedIO(recvType(f), "Decoder") && wireReaders[f.Name()]
}

// exprTainted: e is computed from a wire integer (conversions and arithmetic keep the taint;
// len(), comparisons and calls other than readers do not)
func (w *w1) exprTainted(info *types.Info, e ast.Expr) bool {
	e = ast.Unparen(e)
	if w.isSource(info, e) || w.isCounted(info, e) {
		return true
	}
	switch x := e.(type) {
	case *ast.Ident:
		return w.tainted[info.Uses[x]]
	case *ast.CallExpr:
		if _, ok := isConversion(info, x); ok {
			return w.exprTainted(info, x.Args[0])
		}
		return false
	case *ast.BinaryExpr:
		switch x.Op {
		case token.ADD, token.SUB, token.MUL, token.SHL:
			return w.exprTainted(info, x.X) || w.exprTainted(info, x.Y)
		}
	case *ast.UnaryExpr:
		if x.Op == token.SUB {
			return w.exprTainted(info, x.X)
		}
	}
	return false
}

func isIntType(t types.Type) bool {
	b, ok := t.Underlying().(*types.Basic)
	return ok && b.Info()&types.IsInteger != 0
}

// propagate computes the tainted set over the whole repository.
func (w *w1) propagate() {
	p := w.p
	for iter := 0; iter < 8; iter++ {
		changed := false
		p.EachFunc(func(pkg *packages.Package, fd *ast.FuncDecl) {
			info := pkg.TypesInfo
			ast.Inspect(fd.Body, func(n ast.Node) bool {
				switch x := n.(type) {
				case *ast.AssignStmt:
					if len(x.Lhs) == len(x.Rhs) {
						for i, rhs := range x.Rhs {
							if w.exprTainted(info, rhs) {
								if o := identObj(info, x.Lhs[i]); o != nil && isIntType(o.Type()) {
									if !w.tainted[o] {
										w.tainted[o] = true
										changed = true
									}
									if w.exprRaw(info, rhs) && !w.raw[o] {
										w.raw[o] = true
										changed = true
									}
								}
							}
						}
					}
				case *ast.ValueSpec:
					for i, id := range x.Names {
						if i < len(x.Values) && w.exprTainted(info, x.Values[i]) {
							if o := info.Defs[id]; o != nil && !w.tainted[o] {
								w.tainted[o] = true
								changed = true
							}
						}
					}
				case *ast.CallExpr:
					g := Callee(info, x)
					if g == nil || !p.InRepo(g) {
						return true
					}
					gd := p.Decl(g)
					if gd == nil {
						return true
					}
					params := paramsOf(p.PkgOfDecl(gd).TypesInfo, gd.Type)
					for i, a := range x.Args {
						if i < len(params) && params[i] != nil && isIntType(params[i].Type()) && w.exprTainted(info, a) {
							if !w.tainted[params[i]] {
								w.tainted[params[i]] = true
								changed = true
							}
							if w.exprRaw(info, a) && !w.raw[params[i]] {
								w.raw[params[i]] = true
								changed = true
							}
						}
					}
				}
				return true
			})
		})
		if !changed {
			break
		}
	}
}

// factsWithSwitch: collectFacts plus earlier clauses of an enclosing tagless switch (negated)
// and `if cond { continue/break }` guards
func factsWithSwitch(parents map[ast.Node]ast.Node, at ast.Node) []condFact {
	out := collectFacts(parents, at)
	add := factAdder(parents, at, &out)
	child := at
	for n := parents[at]; n != nil; child, n = n, parents[n] {
		switch x := n.(type) {
		case *ast.CaseClause:
			if sw, ok := parents[parents[x]].(*ast.SwitchStmt); ok && sw.Tag == nil {
				for _, cs := range sw.Body.List {
					cc := cs.(*ast.CaseClause)
					if cc == x {
						if len(cc.List) == 1 {
							add(cc.List[0], false)
						} else {
							for _, e := range cc.List {
								out = append(out, condFact{ast.Unparen(e), false})
							}
						}
						break
					}
					for _, e := range cc.List {
						add(e, true)
					}
				}
			}
		case *ast.BlockStmt:
			for _, s := range x.List {
				if s == child || s.Pos() >= child.Pos() {
					break
				}
				if ifs, ok := s.(*ast.IfStmt); ok && ifs.Else == nil && len(ifs.Body.List) > 0 {
					if br, ok := ifs.Body.List[len(ifs.Body.List)-1].(*ast.BranchStmt); ok && (br.Tok == token.CONTINUE || br.Tok == token.BREAK) {
						add(ifs.Cond, true)
					}
				}
			}
		case *ast.ForStmt:
			if x.Cond != nil && child == ast.Node(x.Body) {
				add(x.Cond, false)
			}
		case *ast.FuncLit, *ast.FuncDecl:
			return out
		}
	}
	return out
}

// bounds: which sides of v do the facts bound?
func (w *w1) bounds(info *types.Info, facts []condFact, v types.Object, body ast.Node, at token.Pos) (lower, upper bool) {
	mentionsV := func(e ast.Expr) bool {
		found := false
		ast.Inspect(e, func(n ast.Node) bool {
			if id, ok := n.(*ast.Ident); ok && info.Uses[id] == v {
				found = true
			}
			return true
		})
		return found
	}
	var flat []condFact
	var add func(e ast.Expr, neg bool)
	add = func(e ast.Expr, neg bool) {
		e = ast.Unparen(e)
		if u, ok := e.(*ast.UnaryExpr); ok && u.Op == token.NOT {
			add(u.X, !neg)
			return
		}
		if b, ok := e.(*ast.BinaryExpr); ok && ((b.Op == token.LAND && !neg) || (b.Op == token.LOR && neg)) {
			add(b.X, neg)
			add(b.Y, neg)
			return
		}
		flat = append(flat, condFact{e, neg})
	}
	for _, f := range facts {
		add(f.e, f.neg)
	}
	for _, f := range flat {
		be, ok := f.e.(*ast.BinaryExpr)
		if !ok {
			continue
		}
		op := be.Op
		if f.neg {
			switch op {
			case token.LSS:
				op = token.GEQ
			case token.LEQ:
				op = token.GTR
			case token.GTR:
				op = token.LEQ
			case token.GEQ:
				op = token.LSS
			case token.EQL:
				op = token.NEQ
			case token.NEQ:
				op = token.EQL
			default:
				continue
			}
		}
		vLeft, vRight := mentionsV(be.X), mentionsV(be.Y)
		if vLeft == vRight {
			continue
		}
		if vRight { // mirror so that v is on the left
			switch op {
			case token.LSS:
				op = token.GTR
			case token.LEQ:
				op = token.GEQ
			case token.GTR:
				op = token.LSS
			case token.GEQ:
				op = token.LEQ
			}
		}
		switch op {
		case token.LSS, token.LEQ:
			if op == token.LEQ && w.strictLen {
				other := be.Y
				if vRight {
					other = be.X
				}
				if lc, ok := ast.Unparen(other).(*ast.CallExpr); ok && IsBuiltin(info, lc, "len") {
					continue // v <= len(a) does not bound an index
				}
			}
			upper = true
		case token.GTR, token.GEQ:
			lower = true
		case token.EQL:
			lower, upper = true, true
		}
	}
	// clamp idiom before the sink: if v > E { v = E }  /  if v < E { v = E }
	ast.Inspect(body, func(n ast.Node) bool {
		ifs, ok := n.(*ast.IfStmt)
		if !ok || ifs.Pos() > at || ifs.Else != nil || len(ifs.Body.List) != 1 {
			return true
		}
		as, ok := ifs.Body.List[0].(*ast.AssignStmt)
		if !ok || len(as.Lhs) != 1 || identObj(info, as.Lhs[0]) != v {
			return true
		}
		if be, ok := ifs.Cond.(*ast.BinaryExpr); ok && identObj(info, be.X) == v {
			switch be.Op {
			case token.GTR, token.GEQ:
				upper = true
			case token.LSS, token.LEQ:
				lower = true
			}
		} else if ok && len(as.Rhs) == 1 {
			// min/max idiom: v := K; if x < v { v = x }  (v never exceeds K)  /  if x > v { v = x }
			xo := identObj(info, as.Rhs[0])
			if xo != nil && xo != v {
				l, rr := identObj(info, be.X), identObj(info, be.Y)
				switch {
				case l == xo && rr == v && (be.Op == token.LSS || be.Op == token.LEQ),
					l == v && rr == xo && (be.Op == token.GTR || be.Op == token.GEQ):
					if w.initUntainted(info, body, v) {
						upper = true
					}
				case l == xo && rr == v && (be.Op == token.GTR || be.Op == token.GEQ),
					l == v && rr == xo && (be.Op == token.LSS || be.Op == token.LEQ):
					if w.initUntainted(info, body, v) {
						lower = true
					}
				}
			}
		}
		return true
	})
	// unsigned values cannot be negative
	if b, ok := v.Type().Underlying().(*types.Basic); ok && b.Info()&types.IsUnsigned != 0 {
		lower = true
	}
	return
}

// initUntainted: v is defined (v := E / var v = E) from an expression that carries no wire value.
func (w *w1) initUntainted(info *types.Info, body ast.Node, v types.Object) bool {
	ok := false
	ast.Inspect(body, func(n ast.Node) bool {
		switch x := n.(type) {
		case *ast.AssignStmt:
			if x.Tok == token.DEFINE {
				for i, l := range x.Lhs {
					if id, isID := l.(*ast.Ident); isID && info.Defs[id] == v && i < len(x.Rhs) && len(x.Lhs) == len(x.Rhs) {
						ok = !w.exprTainted(info, x.Rhs[i])
					}
				}
			}
		case *ast.ValueSpec:
			for i, id := range x.Names {
				if info.Defs[id] == v && i < len(x.Values) {
					ok = !w.exprTainted(info, x.Values[i])
				}
			}
		}
		return true
	})
	return ok
}

func ruleW1(r *Run) {
	p := r.P
	w := &w1{p: p, tainted: map[types.Object]bool{}, raw: map[types.Object]bool{}}
	w.propagate()
	// the sanitiser: Decoder.ReadCount returns the wire integer only after rejecting negative
	// values and (for in-memory input) values above the number of bytes left
	if fd, pkg := p.DeclOf("io", "Decoder.ReadCount"); fd != nil {
		info := pkg.TypesInfo
		parents := parentMap(fd)
		okLower, okUpper := false, false
		ast.Inspect(fd.Body, func(n ast.Node) bool {
			ret, ok := n.(*ast.ReturnStmt)
			if !ok || len(ret.Results) != 1 {
				return true
			}
			v := identObj(info, ret.Results[0])
			if v == nil || !w.tainted[v] {
				return true
			}
			lo, up := w.bounds(info, factsWithSwitch(parents, ret), v, fd.Body, ret.Pos())
			okLower = lo
			okUpper = up
			// the upper bound may sit inside a disjunction with the reader-mode test: reader != nil || n <= tail-head
			for _, fc := range factsWithSwitch(parents, ret) {
				if fc.neg {
					continue
				}
				ast.Inspect(fc.e, func(k ast.Node) bool {
					if be, ok := k.(*ast.BinaryExpr); ok {
						if (be.Op == token.LEQ || be.Op == token.LSS) && identObj(info, be.X) == v || (be.Op == token.GEQ || be.Op == token.GTR) && identObj(info, be.Y) == v {
							okUpper = true
						}
					}
					return true
				})
			}
			// the upper bound is conditional on in-memory input: accept a comparison n > E in an
			// early-return guard
			ast.Inspect(fd.Body, func(m ast.Node) bool {
				if ifs, ok := m.(*ast.IfStmt); ok && endsInReturn(ifs.Body.List) {
					ast.Inspect(ifs.Cond, func(k ast.Node) bool {
						if be, ok := k.(*ast.BinaryExpr); ok && be.Op == token.GTR && identObj(info, be.X) == v {
							okUpper = true
						}
						return true
					})
				}
				return true
			})
			// ... or the same comparison inside a boolean helper that is called with the count:
			// a comparison of the helper's corresponding parameter with the bytes left (tail - head)
			tailF := p.LookupField("io", "Decoder", "tail")
			ast.Inspect(fd.Body, func(m ast.Node) bool {
				call, ok := m.(*ast.CallExpr)
				if !ok {
					return true
				}
				d, cpkg := p.calleeDecl(info, call)
				if d == nil {
					return true
				}
				cinfo := cpkg.TypesInfo
				var pv types.Object
				params := paramsOf(cinfo, d.Type)
				for i, a := range call.Args {
					if identObj(info, a) == v && i < len(params) {
						pv = params[i]
					}
				}
				if pv == nil {
					return true
				}
				defs := localDefs(cinfo, d.Body)
				mentionsTail := func(e ast.Expr) bool {
					found := false
					var visit func(e ast.Node, depth int)
					visit = func(e ast.Node, depth int) {
						ast.Inspect(e, func(k ast.Node) bool {
							if se, ok := k.(*ast.SelectorExpr); ok && fieldOf(cinfo, se) == tailF && tailF != nil {
								found = true
							}
							if id, ok := k.(*ast.Ident); ok && depth < 3 {
								if dd := defs[cinfo.Uses[id]]; dd != nil {
									visit(dd, depth+1)
								}
							}
							return true
						})
					}
					visit(e, 0)
					return found
				}
				ast.Inspect(d.Body, func(k ast.Node) bool {
					be, ok := k.(*ast.BinaryExpr)
					if !ok {
						return true
					}
					switch be.Op {
					case token.GTR, token.LEQ, token.LSS, token.GEQ:
						if (identObj(cinfo, be.X) == pv && mentionsTail(be.Y)) || (identObj(cinfo, be.Y) == pv && mentionsTail(be.X)) {
							okUpper = true
						}
					}
					return true
				})
				return true
			})
			return true
		})
		r.Check(okLower && okUpper, "sanitiser io.Decoder.ReadCount bounds the count on both sides", fd.Pos(), "negative and (in-memory) oversized counts are rejected before the value is returned", "ReadCount no longer rejects negative counts and counts above the bytes left before returning the value: every list, map, string and argument count in the decoder is unchecked again")
		r.Assumption("W1: ReadCount's upper bound applies when the whole input is in memory (the RPC case); in reader mode the remaining input is unknown and counts are only bounded below - allocation in reader mode is not decided")
	} else {
		r.Undec("sanitiser io.Decoder.ReadCount", 0, "ReadCount not found: element counts are read unchecked")
	}
	r.Extra["w1_tainted_variables"] = len(w.tainted)
	p.EachFunc(func(pkg *packages.Package, fd *ast.FuncDecl) {
		info := pkg.TypesInfo
		fname := p.DeclName(fd)
		parents := parentMap(fd)
		count := map[string]int{}
		// the tainted value of an expression: the variable (if a plain or converted identifier)
		taintedVar := func(e ast.Expr) types.Object {
			e = stripConv(info, e)
			if o := identObj(info, e); o != nil && w.tainted[o] {
				return o
			}
			return nil
		}
		directSource := func(e ast.Expr) bool { return w.exprRaw(info, e) && taintedVar(e) == nil }
		check := func(kind string, at ast.Node, e ast.Expr, needLower, needUpper bool) {
			if e == nil {
				return
			}
			v := taintedVar(e)
			if v == nil && !directSource(e) {
				return
			}
			name := types.ExprString(stripConv(info, e))
			count[kind+name]++
			key := fmt.Sprintf("%s by %s in %s #%d", kind, name, fname, count[kind+name])
			if v == nil {
				r.Viol(key, at.Pos(), fmt.Sprintf("a value read from the wire (%s) is used directly as %s with no check at all: a crafted stream makes the decoder panic or allocate without bound", name, kind))
				return
			}
			if !w.raw[v] {
				r.Ok(key, at.Pos(), "count obtained through the ReadCount sanitiser (non-negative, bounded by the bytes left for in-memory input)")
				return
			}
			w.strictLen = kind == "index"
			lo, up := w.bounds(info, factsWithSwitch(parents, at), v, fd.Body, at.Pos())
			w.strictLen = false
			var missing []string
			if needLower && !lo {
				missing = append(missing, "a lower bound (negative values)")
			}
			if needUpper && !up {
				missing = append(missing, "an upper bound")
			}
			if len(missing) == 0 {
				r.Ok(key, at.Pos(), "guarded")
			} else {
				r.Viol(key, at.Pos(), fmt.Sprintf("the wire-controlled integer %s reaches %s without %s: a crafted stream makes the decoder panic or allocate/iterate out of proportion to its input", name, kind, strings.Join(missing, " and ")))
			}
		}
		ast.Inspect(fd.Body, func(n ast.Node) bool {
			switch x := n.(type) {
			case *ast.IndexExpr:
				if t := info.TypeOf(x.X); t != nil {
					switch t.Underlying().(type) {
					case *types.Slice, *types.Array, *types.Pointer:
						check("index", x, x.Index, true, true)
					}
				}
			case *ast.SliceExpr:
				for _, b := range []ast.Expr{x.Low, x.High, x.Max} {
					if b != nil {
						// head+n style bounds: look at the tainted operand
						tb := b
						if be, ok := ast.Unparen(b).(*ast.BinaryExpr); ok && (be.Op == token.ADD || be.Op == token.SUB) {
							if taintedVar(be.Y) != nil {
								tb = be.Y
							} else {
								tb = be.X
							}
						}
						check("slice bound", x, tb, true, true)
					}
				}
			case *ast.CallExpr:
				if IsBuiltin(info, x, "make") {
					for _, a := range x.Args[1:] {
						ta := a
						if be, ok := ast.Unparen(a).(*ast.BinaryExpr); ok {
							if taintedVar(be.X) != nil {
								ta = be.X
							} else if taintedVar(be.Y) != nil {
								ta = be.Y
							}
						}
						check("make size", x, ta, true, true)
					}
					return true
				}
				switch methodName(x) {
				case "UnsafeGrow":
					if len(x.Args) == 2 {
						check("UnsafeGrow", x, x.Args[1], true, true)
					}
				case "UnsafeMakeMap":
					if len(x.Args) == 1 {
						check("UnsafeMakeMap hint", x, x.Args[0], true, true)
					}
				case "UnsafeMakeSlice":
					for _, a := range x.Args {
						check("UnsafeMakeSlice", x, a, true, true)
					}
				}
			case *ast.BinaryExpr:
				// count*k: ReadCount bounds a count only for in-memory input; read from an io.Reader it can be
				// anything up to the int range, and the product wraps around
				if x.Op == token.MUL || x.Op == token.SHL {
					for _, opnd := range []ast.Expr{x.X, x.Y} {
						if x.Op == token.SHL && opnd == x.Y {
							continue
						}
						v := taintedVar(opnd)
						if v == nil {
							continue
						}
						name := v.Name()
						count["mul"+name]++
						key := fmt.Sprintf("product of the count %s in %s #%d", name, fname, count["mul"+name])
						_, up := w.bounds(info, factsWithSwitch(parents, x), v, fd.Body, x.Pos())
						if up {
							r.Ok(key, x.Pos(), "the count has an upper bound here")
						} else {
							r.Viol(key, x.Pos(), fmt.Sprintf("`%s` multiplies the wire count %s, which has no upper bound here (ReadCount bounds a count only against in-memory input; from an io.Reader it can be anything up to the int range): the product wraps around, a comparison against it selects the wrong path or a make() gets a negative size - a panic from a two dozen byte input", types.ExprString(x), name))
						}
					}
				}
			case *ast.ForStmt:
				w.loopIndexSinks(r, info, fd, fname, x, count)
				if be, ok := x.Cond.(*ast.BinaryExpr); ok && (be.Op == token.LSS || be.Op == token.LEQ) {
					if v := taintedVar(be.Y); v != nil {
						// a loop that stops when the decoder reports an error is bounded by the input
						stops := false
						ast.Inspect(x.Body, func(m ast.Node) bool {
							if fv := fieldOf(info, exprOrNil(m)); fv != nil && fv.Name() == "Error" {
								if _, ok := parents[m].(*ast.BinaryExpr); ok {
									stops = true
								}
							}
							return true
						})
						name := v.Name()
						count["loop"+name]++
						key := fmt.Sprintf("loop bound by %s in %s #%d", name, fname, count["loop"+name])
						_, up := w.bounds(info, factsWithSwitch(parents, x), v, fd.Body, x.Pos())
						if !w.raw[v] {
							up = true
						}
						if up || stops {
							r.Ok(key, x.Pos(), "bounded or stops on decoder error")
						} else {
							r.Viol(key, x.Pos(), fmt.Sprintf("the loop runs %s times where %s comes from the wire, has no upper bound and does not stop when the decoder reports an error: a dozen bytes announcing 10^11 elements keep the decoder busy (and appending) long after the input ended", name, name))
						}
					}
				}
			}
			return true
		})
	})
	var tv []string
	for o := range w.tainted {
		tv = append(tv, o.Name())
	}
	sort.Strings(tv)
	_ = tv
}

// loopIndexSinks: a loop variable whose only upper bound is a wire count indexes a slice: the
// slice must have been allocated with that very count, or the loop must also be bounded by an
// untainted expression (i < n && i < count).
func (w *w1) loopIndexSinks(r *Run, info *types.Info, fd *ast.FuncDecl, fname string, fs *ast.ForStmt, count map[string]int) {
	if fs.Cond == nil {
		return
	}
	var conj []ast.Expr
	var flat func(e ast.Expr)
	flat = func(e ast.Expr) {
		e = ast.Unparen(e)
		if b, ok := e.(*ast.BinaryExpr); ok && b.Op == token.LAND {
			flat(b.X)
			flat(b.Y)
			return
		}
		conj = append(conj, e)
	}
	flat(fs.Cond)
	var iv, bound types.Object
	cleanBound := false
	for _, c := range conj {
		be, ok := c.(*ast.BinaryExpr)
		if !ok || (be.Op != token.LSS && be.Op != token.LEQ) {
			continue
		}
		lhs := identObj(info, be.X)
		if lhs == nil {
			continue
		}
		if o := identObj(info, stripConv(info, be.Y)); o != nil && w.tainted[o] {
			iv, bound = lhs, o
		} else if iv == nil || lhs == iv {
			if !w.exprTainted(info, be.Y) {
				cleanBound = true
				if iv == nil {
					iv = lhs
				}
			}
		}
	}
	if bound == nil || iv == nil {
		return
	}
	defs := localDefs(info, fd.Body)
	ast.Inspect(fs.Body, func(n ast.Node) bool {
		ie, ok := n.(*ast.IndexExpr)
		if !ok || identObj(info, ie.Index) != iv {
			return true
		}
		t := info.TypeOf(ie.X)
		if t == nil {
			return true
		}
		if _, isSlice := t.Underlying().(*types.Slice); !isSlice {
			return true
		}
		name := types.ExprString(ie.X)
		count["li"+name]++
		key := fmt.Sprintf("index of %s by loop variable bounded by %s in %s #%d", name, bound.Name(), fname, count["li"+name])
		if cleanBound {
			r.Ok(key, ie.Pos(), "the loop is also bounded by a value that does not come from the wire")
			return true
		}
		// allocated with the same count?
		if so := identObj(info, ie.X); so != nil {
			if d, ok := defs[so]; ok && d != nil {
				if mk, ok := ast.Unparen(d).(*ast.CallExpr); ok && IsBuiltin(info, mk, "make") && len(mk.Args) >= 2 && identObj(info, stripConv(info, mk.Args[1])) == bound {
					r.Ok(key, ie.Pos(), "the slice was allocated with the same count")
					return true
				}
			}
		}
		r.Viol(key, ie.Pos(), fmt.Sprintf("%s is indexed by a loop variable whose only upper bound is the wire count %s, but %s was not allocated with that count: a message announcing more elements than expected indexes past the end (panic in the caller's goroutine)", name, bound.Name(), name))
		return true
	})
}

// ---------------------------------------------------------------------------------------
// W2: checked-then-used reflect.Type (Engler-style contradiction)

func init() {
	register("W2", "a reflect.Type variable that the function itself compares with nil (so it may be nil) reaches reflect.SliceOf/MapOf/PtrTo/ArrayOf/New/Zero/ChanOf only where a dominating test excludes nil: those constructors panic on a nil type", 1, ruleW2)
}

var reflectCtors = map[string]bool{"SliceOf": true, "MapOf": true, "PtrTo": true, "PointerTo": true, "ArrayOf": true, "New": true, "Zero": true, "ChanOf": true, "Type2": true}

func ruleW2(r *Run) {
	p := r.P
	p.EachFunc(func(pkg *packages.Package, fd *ast.FuncDecl) {
		info := pkg.TypesInfo
		// reflect.Type variables compared with nil
		maybeNil := map[types.Object]bool{}
		ast.Inspect(fd.Body, func(n ast.Node) bool {
			be, ok := n.(*ast.BinaryExpr)
			if !ok || (be.Op != token.EQL && be.Op != token.NEQ) {
				return true
			}
			if id, ok := ast.Unparen(be.Y).(*ast.Ident); ok && id.Name == "nil" {
				if o := identObj(info, be.X); o != nil && isNamed(o.Type(), "reflect", "Type") {
					maybeNil[o] = true
				}
			}
			return true
		})
		if len(maybeNil) == 0 {
			return
		}
		parents := parentMap(fd)
		n := 0
		ast.Inspect(fd.Body, func(m ast.Node) bool {
			call, ok := m.(*ast.CallExpr)
			if !ok {
				return true
			}
			f := Callee(info, call)
			if f == nil || f.Pkg() == nil || (f.Pkg().Path() != "reflect" && f.Pkg().Path() != "github.com/modern-go/reflect2") || !reflectCtors[f.Name()] {
				return true
			}
			for _, a := range call.Args {
				o := identObj(info, a)
				if o == nil || !maybeNil[o] {
					continue
				}
				n++
				key := fmt.Sprintf("nil-able type %s reaches %s.%s in %s #%d", o.Name(), f.Pkg().Name(), f.Name(), p.DeclName(fd), n)
				nonNil := false
				for _, fc := range factsWithSwitch(parents, call) {
					be, ok := fc.e.(*ast.BinaryExpr)
					if !ok || identObj(info, be.X) != o {
						continue
					}
					if id, ok := ast.Unparen(be.Y).(*ast.Ident); ok && id.Name == "nil" {
						if (be.Op == token.NEQ && !fc.neg) || (be.Op == token.EQL && fc.neg) {
							nonNil = true
						}
					}
				}
				if nonNil {
					r.Ok(key, call.Pos(), "dominated by a test that excludes nil")
				} else {
					r.Viol(key, call.Pos(), fmt.Sprintf("the function itself tests %s against nil, yet passes it to %s.%s on a path where nil is not excluded: a (well-formed) input that leaves the type undetermined panics the decoder", o.Name(), f.Pkg().Name(), f.Name()))
				}
			}
			return true
		})
	})
}
