package main

import (
	"fmt"
	"go/ast"
	"go/token"
	"go/types"
	"strings"

	"golang.org/x/tools/go/packages"
)

// B3 own reference precedes nested transfer, B4 class metadata link, B1n nil guards.

func init() {
	register("B3", "in every container writer/reader the container's own reference is registered before the first nested value is written/read (otherwise indices shift for self-referential graphs)", 18, ruleB3)
	register("B4", "class definition: newNamedStructEncoder writes exactly one field-name string per field into the metadata, structEncoder.Write counts exactly len(fields) references inside the WriteStructType callback that emits the metadata, and the class definition precedes the object head", 5, ruleB4)
	register("B1n", "every call of the container writers (WriteSlice/WriteMap/WriteArray, slcenc/mapenc/arrayenc/ptrenc .Write/.Encode) is dominated by a nil test of the value whose nil edge writes WriteNil (the precondition B1 relies on)", 7, ruleB1n)
}

// ---- shared classification -----------------------------------------------------------

func (p *Prog) namedIO(t types.Type, name string) bool { return isNamed(t, p.ModPath+"/io", name) }

// isDynamicCoderCall: call through EncodeHandler/DecodeHandler values, ValueEncoder/ValueDecoder
// interface methods, or a func-typed parameter taking a ValueEncoder (the `encode` callbacks).
func (p *Prog) isDynamicCoderCall(info *types.Info, call *ast.CallExpr) bool {
	if Callee(info, call) != nil {
		return false
	}
	if m := IfaceCallee(info, call); m != nil {
		if recv := m.Type().(*types.Signature).Recv(); recv != nil {
			if p.namedIO(recv.Type(), "ValueEncoder") || p.namedIO(recv.Type(), "ValueDecoder") {
				return true
			}
		}
		// method of an interface embedded/declared in io with these names
		if p.InRepo(m) && (m.Name() == "Encode" || m.Name() == "Write" || m.Name() == "Decode") {
			return true
		}
		return false
	}
	ft := info.TypeOf(call.Fun)
	if ft == nil {
		return false
	}
	if p.namedIO(ft, "EncodeHandler") || p.namedIO(ft, "DecodeHandler") {
		return true
	}
	if sig, ok := ft.Underlying().(*types.Signature); ok {
		for i := 0; i < sig.Params().Len(); i++ {
			if p.namedIO(sig.Params().At(i).Type(), "ValueEncoder") {
				return true
			}
		}
	}
	return false
}

var encOwnRef = map[string]bool{"SetReference": true, "setReference": true, "AddReferenceCount": true, "SetStringReference": true}

// mayTransferEnc: does calling f (transitively, static repo calls) write a nested value?
func (p *Prog) mayTransferEnc(f *types.Func, memo map[*types.Func]int, depth int) bool {
	if v, ok := memo[f]; ok {
		return v == 1
	}
	memo[f] = 0
	fd := p.Decl(f)
	if fd == nil || fd.Body == nil || depth > 12 {
		return false
	}
	info := p.PkgOfDecl(fd).TypesInfo
	res := false
	ast.Inspect(fd.Body, func(n ast.Node) bool {
		if res {
			return false
		}
		if _, ok := n.(*ast.FuncLit); ok {
			return false
		}
		call, ok := n.(*ast.CallExpr)
		if !ok {
			return true
		}
		if p.isDynamicCoderCall(info, call) {
			res = true
			return false
		}
		if g := Callee(info, call); g != nil && p.InRepo(g) {
			switch p.FuncName(g) {
			case "io.Encoder.encode", "io.Encoder.write", "io.Encoder.writeValue", "io.Encoder.writePtr":
				res = true
				return false
			}
			if p.mayTransferEnc(g, memo, depth+1) {
				res = true
				return false
			}
		}
		return true
	})
	if res {
		memo[f] = 1
	}
	return res
}

type b3State struct {
	own bool
	bad string
}

func (s *b3State) Key() string  { return fmt.Sprintf("%v|%s", s.own, s.bad) }
func (s *b3State) Copy() PState { n := *s; return &n }

func ruleB3(r *Run) {
	p := r.P
	pkg := p.Pkg("io")
	memo := map[*types.Func]int{}
	// ---- encoder side
	for _, file := range pkg.Syntax {
		for _, d := range file.Decls {
			fd, ok := d.(*ast.FuncDecl)
			if !ok || fd.Body == nil {
				continue
			}
			info := pkg.TypesInfo
			// does the body contain an own-reference call (outside literals) ?
			hasOwn, hasNested := false, false
			ast.Inspect(fd.Body, func(n ast.Node) bool {
				if _, ok := n.(*ast.FuncLit); ok {
					return false
				}
				if call, ok := n.(*ast.CallExpr); ok {
					if g := Callee(info, call); g != nil && p.InRepo(g) && p.namedIO(recvType(g), "Encoder") && encOwnRef[g.Name()] {
						hasOwn = true
					} else if p.isDynamicCoderCall(info, call) || (g != nil && p.InRepo(g) && p.mayTransferEnc(g, memo, 0)) {
						hasNested = true
					}
				}
				return true
			})
			if !hasOwn || !hasNested {
				continue
			}
			fname := p.DeclName(fd)
			key := "encoder order " + fname
			w := &Walk{Info: info}
			var firstBad string
			var badPos token.Pos
			w.Event = func(w *Walk, ps PState, n ast.Node) []PState {
				st := ps.(*b3State)
				call, ok := n.(*ast.CallExpr)
				if !ok {
					return nil
				}
				g := Callee(info, call)
				if g != nil && p.InRepo(g) && p.namedIO(recvType(g), "Encoder") && encOwnRef[g.Name()] {
					ns := st.Copy().(*b3State)
					ns.own = true
					return []PState{ns}
				}
				nested := p.isDynamicCoderCall(info, call) || (g != nil && p.InRepo(g) && p.mayTransferEnc(g, memo, 0))
				if nested && !st.own && firstBad == "" {
					firstBad = types.ExprString(call.Fun)
					badPos = call.Pos()
				}
				return nil
			}
			w.Branch = func(w *Walk, ps PState, cond ast.Expr, val bool) (PState, bool) {
				if call, ok := cond.(*ast.CallExpr); ok {
					if f := Callee(info, call); f != nil && p.InRepo(f) && p.FuncName(f) == "io.Encoder.IsSimple" {
						return nil, !val
					}
				}
				return nil, true
			}
			w.Run(fd.Body, &b3State{})
			if len(w.Undecided) > 0 {
				r.Undec(key, fd.Pos(), strings.Join(w.Undecided, "; "))
			} else if firstBad != "" {
				r.Viol(key, badPos, fmt.Sprintf("nested value written by %s before the container's own reference is registered: a self-referential graph numbers its parts differently on the two sides", firstBad))
			} else {
				r.Ok(key, fd.Pos(), "own reference first")
			}
		}
	}
	// ---- decoder side: for every function that registers a reference itself and decodes nested values
	p.EachFunc(func(pk *packages.Package, fd *ast.FuncDecl) {
		info := pk.TypesInfo
		isAdd := func(call *ast.CallExpr) bool {
			g := Callee(info, call)
			if g == nil || !p.InRepo(g) {
				return false
			}
			n := p.FuncName(g)
			return n == "io.Decoder.AddReference" || n == "io.decoderRefer.Add"
		}
		isNested := func(call *ast.CallExpr) bool {
			if p.isDynamicCoderCall(info, call) {
				return true
			}
			g := Callee(info, call)
			if g == nil || !p.InRepo(g) {
				return false
			}
			if _, has := tagParamIndex(g); has {
				// given a fresh tag (a call, not a variable named tag)
				idx, _ := tagParamIndex(g)
				if idx < len(call.Args) {
					if _, isCall := ast.Unparen(call.Args[idx]).(*ast.CallExpr); isCall {
						return true
					}
					return false
				}
				return true // variadic tag omitted: reads its own tag
			}
			return false
		}
		hasAdd, hasNested := false, false
		ast.Inspect(fd.Body, func(n ast.Node) bool {
			if call, ok := n.(*ast.CallExpr); ok {
				if isAdd(call) {
					hasAdd = true
				}
				if isNested(call) {
					hasNested = true
				}
			}
			return true
		})
		if !hasAdd || !hasNested {
			return
		}
		fname := p.DeclName(fd)
		if fname == "io.Decoder.AddReference" {
			return
		}
		key := "decoder order " + fname
		w := &Walk{Info: info}
		var firstBad string
		var badPos token.Pos
		// the own reference of a container is registered in the clause that also decodes the
		// elements; nested decodes on paths that never register (scalar clauses, class
		// definitions) are not instances. Track per path: nested-before-add only matters if an
		// add follows on the same path.
		type st3 struct{ b3State }
		w.Event = func(w *Walk, ps PState, n ast.Node) []PState {
			st := ps.(*b3State)
			call, ok := n.(*ast.CallExpr)
			if !ok {
				return nil
			}
			if g := Callee(info, call); g != nil && p.InRepo(g) && (p.FuncName(g) == "io.Decoder.Reset" || p.FuncName(g) == "io.Decoder.Simple") {
				return []PState{&b3State{}} // a new reference scope (RPC segment) starts here
			}
			if isAdd(call) {
				ns := st.Copy().(*b3State)
				if !st.own && st.bad != "" && firstBad == "" {
					firstBad = st.bad
					badPos = call.Pos()
				}
				ns.own = true
				return []PState{ns}
			}
			if isNested(call) && !st.own && st.bad == "" {
				ns := st.Copy().(*b3State)
				ns.bad = types.ExprString(call.Fun)
				return []PState{ns}
			}
			return nil
		}
		w.Branch = func(w *Walk, ps PState, cond ast.Expr, val bool) (PState, bool) {
			if call, ok := cond.(*ast.CallExpr); ok {
				if f := Callee(info, call); f != nil && p.InRepo(f) && p.FuncName(f) == "io.Decoder.IsSimple" {
					return nil, !val
				}
			}
			return nil, true
		}
		w.Run(fd.Body, &b3State{})
		if len(w.Undecided) > 0 {
			r.Undec(key, fd.Pos(), strings.Join(w.Undecided, "; "))
		} else if firstBad != "" {
			r.Viol(key, badPos, fmt.Sprintf("a nested value is decoded by %s before the container registers its own reference on the same path: back-references inside the container resolve to shifted indices", firstBad))
		} else {
			r.Ok(key, fd.Pos(), "own reference first")
		}
	})
}

func recvType(f *types.Func) types.Type {
	if sig, ok := f.Type().(*types.Signature); ok && sig.Recv() != nil {
		return sig.Recv().Type()
	}
	return types.Typ[types.Invalid]
}

// ---------------------------------------------------------------------------------------
// B4

func ruleB4(r *Run) {
	p := r.P
	// the function that builds the class definition: the one that appends the class tag to a byte
	// slice (newNamedStructEncoder on the reference tree; a helper extracted from it is the same thing)
	var fd *ast.FuncDecl
	pkg := p.Pkg("io")
	if pkg != nil {
		for _, file := range pkg.Syntax {
			for _, d := range file.Decls {
				cand, ok := d.(*ast.FuncDecl)
				if !ok || cand.Body == nil {
					continue
				}
				ast.Inspect(cand.Body, func(m ast.Node) bool {
					if call, ok := m.(*ast.CallExpr); ok && IsBuiltin(pkg.TypesInfo, call, "append") {
						for _, a := range call.Args[1:] {
							if k := constOf(pkg.TypesInfo, a); k != nil && k.Name() == "TagClass" {
								fd = cand
							}
						}
					}
					return true
				})
			}
		}
	}
	if fd == nil {
		r.Undec("class definition builder", 0, "no function appends TagClass to a byte slice")
		return
	}
	info := pkg.TypesInfo
	// (1) metadata: exactly one TagString per iteration of a counted loop over n == len(fields);
	//     one TagClass before, none elsewhere.
	var fieldsObj, nObj types.Object
	defs := localDefs(info, fd.Body)
	for o, e := range defs {
		if call, ok := ast.Unparen(e).(*ast.CallExpr); ok {
			if IsBuiltin(info, call, "len") {
				nObj = o
				fieldsObj = identObj(info, call.Args[0])
			}
		}
	}
	if fieldsObj == nil || nObj == nil {
		r.Undec("metadata count variable", fd.Pos(), "no `n := len(fields)` in the function that builds the class definition")
	} else {
		if g, ok := defs[fieldsObj]; ok {
			if call, ok := ast.Unparen(g).(*ast.CallExpr); ok {
				if f := Callee(info, call); f == nil || f.Name() != "getFields" {
					r.Undec("metadata fields source", g.Pos(), "fields not obtained from getFields")
				}
			}
		}
		countIn := func(n ast.Node, tag string) int {
			c := 0
			ast.Inspect(n, func(m ast.Node) bool {
				if call, ok := m.(*ast.CallExpr); ok && IsBuiltin(info, call, "append") {
					for _, a := range call.Args[1:] {
						if k := constOf(info, a); k != nil && k.Name() == tag {
							c++
						}
					}
				}
				return true
			})
			return c
		}
		var loop *ast.ForStmt
		nLoops := 0
		for _, s := range fd.Body.List {
			if fs, ok := s.(*ast.ForStmt); ok {
				loop = fs
				nLoops++
			}
		}
		total := countIn(fd.Body, "TagString")
		switch {
		case loop == nil || nLoops != 1:
			r.Undec("metadata loop", fd.Pos(), "expected exactly one loop over the fields")
		default:
			_, nv, ok := countedLoop(info, loop)
			inLoop := countIn(loop.Body, "TagString")
			names := 0
			ast.Inspect(loop.Body, func(m ast.Node) bool {
				if call, ok := m.(*ast.CallExpr); ok {
					if f := Callee(info, call); f != nil && refName(f.Name()) == "appendName" {
						names++
					}
				}
				return true
			})
			r.Check(ok && nv == nObj, "metadata loop runs len(fields) times", loop.Pos(), "for i := 0; i < n; i++ with n = len(fields)", "the loop writing field names is not the canonical counted loop over n = len(fields): the class definition declares a different number of names than fields written")
			r.Check(inLoop == 1 && total == 1 && names == 1, "metadata one string item per field", loop.Pos(), "one TagString + one name per iteration", fmt.Sprintf("field-name loop emits %d TagString heads and %d names per iteration (%d TagString in the whole function); each field name is exactly one string item", inLoop, names, total))
		}
		r.Check(countIn(fd.Body, "TagClass") == 1, "metadata one class head", fd.Pos(), "one TagClass", "class metadata does not contain exactly one class head")
		// the count written into the metadata is n
		okCount := false
		ast.Inspect(fd.Body, func(m ast.Node) bool {
			if call, ok := m.(*ast.CallExpr); ok {
				if f := Callee(info, call); f != nil && f.Name() == "AppendUint64" && len(call.Args) == 2 {
					if conv, ok := ast.Unparen(call.Args[1]).(*ast.CallExpr); ok && len(conv.Args) == 1 && identObj(info, conv.Args[0]) == nObj {
						okCount = true
					}
				}
			}
			return true
		})
		r.Check(okCount, "metadata declares n fields", fd.Pos(), "AppendUint64(metadata, uint64(n))", "the field count written into the class definition is not n = len(fields)")
	}
	// (2) structEncoder.Write: callback adds len(valenc.fields) and appends valenc.metadata; class before object head
	wd, wpkg := p.DeclOf("io", "structEncoder.Write")
	if wd == nil {
		r.Undec("structEncoder.Write", 0, "function not found")
		return
	}
	winfo := wpkg.TypesInfo
	wdefs := localDefs(winfo, wd.Body)
	var cb *ast.FuncLit
	var wst *ast.CallExpr
	var headPos token.Pos
	ast.Inspect(wd.Body, func(m ast.Node) bool {
		if call, ok := m.(*ast.CallExpr); ok {
			if f := Callee(winfo, call); f != nil && p.InRepo(f) {
				switch p.FuncName(f) {
				case "io.Encoder.WriteStructType":
					wst = call
					if len(call.Args) == 2 {
						cb, _ = call.Args[1].(*ast.FuncLit)
					}
				case "io.Encoder.WriteObjectHead":
					headPos = call.Pos()
				}
			}
		}
		return true
	})
	if wst == nil || cb == nil {
		r.Undec("structEncoder.Write callback", wd.Pos(), "WriteStructType(st, func(){...}) not found")
		return
	}
	r.Check(headPos.IsValid() && wst.Pos() < headPos, "class definition precedes object head", wst.Pos(), "WriteStructType before WriteObjectHead", "the object head is written before (or without) the class definition")
	// callback contents
	addsN, appendsMeta, other := false, false, 0
	for _, s := range cb.Body.List {
		okStmt := false
		ast.Inspect(s, func(m ast.Node) bool {
			call, ok := m.(*ast.CallExpr)
			if !ok {
				return true
			}
			if f := Callee(winfo, call); f != nil && p.InRepo(f) && p.FuncName(f) == "io.Encoder.AddReferenceCount" && len(call.Args) == 1 {
				// argument must be len(valenc.fields) (through n := len(fields); fields := valenc.fields)
				if isLenOfField(winfo, wdefs, call.Args[0], "fields", 0) {
					addsN = true
					okStmt = true
				}
			}
			if IsBuiltin(winfo, call, "append") && len(call.Args) == 2 && call.Ellipsis.IsValid() {
				if fv, ok := rootObj(winfo, wdefs, call.Args[1], 0).(*types.Var); ok && fv.IsField() && fv.Name() == "metadata" {
					appendsMeta = true
					okStmt = true
				}
			}
			return true
		})
		if !okStmt {
			other++
		}
	}
	r.Check(addsN && appendsMeta && other == 0, "class callback counts one reference per field name", cb.Pos(), "AddReferenceCount(len(fields)) + metadata", "the WriteStructType callback must add exactly len(valenc.fields) references and append valenc.metadata (field names are referable strings)")
}

// isLenOfField: e evaluates to len(x.<field>) through single-assignment locals.
func isLenOfField(info *types.Info, defs map[types.Object]ast.Expr, e ast.Expr, field string, depth int) bool {
	if depth > 4 {
		return false
	}
	e = ast.Unparen(e)
	if id, ok := e.(*ast.Ident); ok {
		if d, ok := defs[info.Uses[id]]; ok {
			return isLenOfField(info, defs, d, field, depth+1)
		}
		return false
	}
	if call, ok := e.(*ast.CallExpr); ok && IsBuiltin(info, call, "len") {
		a := ast.Unparen(call.Args[0])
		if fv := fieldOf(info, a); fv != nil && fv.Name() == field {
			return true
		}
		if id, ok := a.(*ast.Ident); ok {
			if d, ok := defs[info.Uses[id]]; ok {
				if fv := fieldOf(info, d); fv != nil && fv.Name() == field {
					return true
				}
			}
		}
		// through a helper that hands the field out (fields, metadata := valenc.snapshot())
		if fv, ok := rootObj(info, defs, a, 0).(*types.Var); ok && fv.IsField() && fv.Name() == field {
			return true
		}
	}
	return false
}

// ---------------------------------------------------------------------------------------
// B1n

func ruleB1n(r *Run) {
	p := r.P
	pkg := p.Pkg("io")
	info := pkg.TypesInfo
	targets := map[string]bool{
		"io.Encoder.WriteSlice": true, "io.Encoder.WriteMap": true,
		"io.sliceEncoder.Write": true, "io.sliceEncoder.Encode": true, "io.mapEncoder.Write": true, "io.mapEncoder.Encode": true,
		"io.ptrEncoder.Write": true, "io.ptrEncoder.Encode": true, "io.arrayEncoder.Write": true, "io.arrayEncoder.Encode": true,
	}
	// values of these coder singletons passed to the `encode` callbacks count as calls too
	singletons := map[string]bool{"slcenc": true, "mapenc": true, "ptrenc": true, "arrayenc": true}
	for _, file := range pkg.Syntax {
		for _, d := range file.Decls {
			fd, ok := d.(*ast.FuncDecl)
			if !ok || fd.Body == nil {
				continue
			}
			fname := p.DeclName(fd)
			if targets[fname] {
				continue // the coders' own Encode -> Write forwarding
			}
			parents := parentMap(fd.Body)
			n := 0
			ast.Inspect(fd.Body, func(m ast.Node) bool {
				call, ok := m.(*ast.CallExpr)
				if !ok {
					return true
				}
				hit := ""
				if f := Callee(info, call); f != nil && p.InRepo(f) && targets[p.FuncName(f)] {
					hit = p.FuncName(f)
				} else if p.isDynamicCoderCall(info, call) {
					for _, a := range call.Args {
						if id, ok := ast.Unparen(a).(*ast.Ident); ok && singletons[id.Name] {
							if v, ok := info.Uses[id].(*types.Var); ok && v.Parent() == pkg.Types.Scope() {
								hit = id.Name
							}
						}
					}
				}
				if hit == "" {
					return true
				}
				n++
				key := fmt.Sprintf("nil guard %s -> %s", fname, hit)
				if p.nilGuarded(info, fd, parents, call) {
					r.Ok(key, call.Pos(), "dominated by a nil test that writes WriteNil")
				} else {
					r.Viol(key, call.Pos(), "container writer called without a dominating nil test: a nil slice/map/pointer would be written as an item (or dereferenced) while the reference counter is advanced")
				}
				return true
			})
		}
	}
}

// nilGuarded: the call lies in the else/after part of an `if <nil test> { WriteNil; [return] }`,
// or the enclosing function is writeValue/writePtr whose prologue tests IsNil for nullable kinds.
func (p *Prog) nilGuarded(info *types.Info, fd *ast.FuncDecl, parents map[ast.Node]ast.Node, call *ast.CallExpr) bool {
	writesNil := func(b *ast.BlockStmt) bool {
		found := false
		ast.Inspect(b, func(n ast.Node) bool {
			if c, ok := n.(*ast.CallExpr); ok {
				if f := Callee(info, c); f != nil && p.InRepo(f) && p.FuncName(f) == "io.Encoder.WriteNil" {
					found = true
				}
			}
			return true
		})
		return found
	}
	isNilTest := func(e ast.Expr) bool {
		found := false
		ast.Inspect(e, func(n ast.Node) bool {
			switch x := n.(type) {
			case *ast.CallExpr:
				if f := Callee(info, x); f != nil && (f.Name() == "IsNil" || f.Name() == "isNil") {
					found = true
				}
			case *ast.BinaryExpr:
				if id, ok := ast.Unparen(x.Y).(*ast.Ident); ok && id.Name == "nil" && (x.Op == token.EQL || x.Op == token.NEQ) {
					found = true
				}
			}
			return true
		})
		return found
	}
	// (c) the path conditions say so: `!v.IsNil()` / `x != nil` holds at the call (then-branch of the positive form,
	//     whatever the other branch looks like)
	for _, f := range factsWithSwitch(parents, call) {
		switch x := ast.Unparen(f.e).(type) {
		case *ast.CallExpr:
			if g := Callee(info, x); g != nil && (g.Name() == "IsNil" || g.Name() == "isNil") && f.neg {
				return true
			}
		case *ast.BinaryExpr:
			if id, ok := ast.Unparen(x.Y).(*ast.Ident); ok && id.Name == "nil" {
				if (x.Op == token.NEQ && !f.neg) || (x.Op == token.EQL && f.neg) {
					return true
				}
			}
		}
	}
	// (a) call inside the else branch of a nil test whose then-branch writes nil
	for n := ast.Node(call); n != nil; n = parents[n] {
		if ifs, ok := parents[n].(*ast.IfStmt); ok && ifs.Else == n && isNilTest(ifs.Cond) && writesNil(ifs.Body) {
			return true
		}
	}
	// (b) an earlier statement of an enclosing block is `if nil-test { WriteNil; return }`
	//     (possibly wrapped in a switch over nullable kinds, as in writeValue/writePtr)
	for n := ast.Node(call); n != nil; n = parents[n] {
		blk, ok := parents[n].(*ast.BlockStmt)
		if !ok {
			continue
		}
		for _, s := range blk.List {
			if s.Pos() >= n.Pos() {
				break
			}
			guard := false
			ast.Inspect(s, func(m ast.Node) bool {
				if ifs, ok := m.(*ast.IfStmt); ok && isNilTest(ifs.Cond) && writesNil(ifs.Body) && endsInReturn(ifs.Body.List) {
					guard = true
				}
				return true
			})
			if guard {
				return true
			}
		}
	}
	return false
}
