package main

import (
	"fmt"
	"go/ast"
	"go/token"
	"go/types"
	"strings"

	"golang.org/x/tools/go/packages"
)

// rules written after the sixth round of independent seeding

func init() {
	register("F10", "the float writer of package io takes a value for infinite only when it is BEYOND the largest finite double: every comparison of the value with math.MaxFloat64 (or its negation) in a function that appends TagInfinity is strict (> / <). With >= exactly ±MaxFloat64, a finite number, is written as I+ / I- and comes back as ±Inf without an error", 2, ruleF10)
	register("V12", "where a reader of package io appends a piece of the window to its result and counts down what is still wanted (data = append(data, buf[a:b]...); n -= e, in one statement list), the count goes down by exactly the length of the piece: e and b - a are the same linear expression. A count that goes down by something else - the size of an EARLIER piece - makes a bytes or GUID item that needs several refills swallow what follows it or end early, and the rest of the stream is out of step (only from a reader whose reads differ in size; from a slice the loop is never entered)", 1, ruleV12)
	register("F11", "both time readers of package io (the functions that decide the zone by comparing the terminator with TagUTC) build their result with time.Date(..., loc), loc being the variable that comparison sets: the digits of the item are a WALL CLOCK in that zone. Built as an offset from the epoch and moved into the zone afterwards (time.Unix(..).In(loc)) a local time-only item is shifted by the zone's offset, while the long spelling of the same value still decodes correctly", 2, ruleF11)
	register("T20", "the struct type built for a class of the wire is the one REGISTERED under the class name when there is one: in the function of package io that makes the per-message class entry (it calls GetStructType), the registry is asked unconditionally - before anything is derived from the destination's type, not only when the destination is not a struct. A destination that happens to be a narrower view type must not decide what later objects of the class become at untyped places (interface{} elements): they would silently lose every field the view lacks", 1, ruleT20)
	register("G52", "call numbers only move forward: every sync/atomic Add on the request counter of a client connection (the field the call index is drawn from: conn.counter in rpc/socket, rpc/udp, rpc/websocket) adds the constant 1. Handing a number back (Add(-1) on a cancelled call) lets the NEXT call draw a number that an earlier call, still pending, already holds: its table entry is overwritten, one caller gets the other's answer and the other times out", 3, ruleG52)
	register("L15", "a Clone method of rpc/core gives the clone its own maps: where the clone's dictionary field is built from the original's, it is a fresh dictionary (NewDict(nil) / make) filled by a copying call (CopyTo, a range loop) - the constructor is not handed a map taken out of the original (NewDict(c.requestHeaders.ToMap()) wraps the SAME map). Clones are made so that concurrent branches (cluster.Broadcast, Forking) can each write their own headers: a shared, unsynchronised map is a data race, and the simple-mode flag one branch sets is seen by its siblings and by the original context", 3, ruleL15)
}

func ruleF10(r *Run) {
	p := r.P
	pkg := p.Pkg("io")
	if pkg == nil {
		r.Undec("package io", 0, "not found")
		return
	}
	info := pkg.TypesInfo
	for _, file := range pkg.Syntax {
		for _, d := range file.Decls {
			fd, ok := d.(*ast.FuncDecl)
			if !ok || fd.Body == nil {
				continue
			}
			writesInf := false
			ast.Inspect(fd.Body, func(m ast.Node) bool {
				if id, ok := m.(*ast.Ident); ok {
					if o := info.Uses[id]; o != nil && o.Name() == "TagInfinity" {
						writesInf = true
					}
				}
				return true
			})
			if !writesInf {
				continue
			}
			n := 0
			ast.Inspect(fd.Body, func(m ast.Node) bool {
				b, ok := m.(*ast.BinaryExpr)
				if !ok {
					return true
				}
				switch b.Op {
				case token.LSS, token.GTR, token.LEQ, token.GEQ:
				default:
					return true
				}
				isMax := func(e ast.Expr) bool {
					found := false
					ast.Inspect(e, func(q ast.Node) bool {
						if o := qualObj(info, exprOf(q)); o != nil && o.Pkg() != nil && o.Pkg().Path() == "math" && strings.HasPrefix(o.Name(), "MaxFloat") {
							found = true
						}
						return true
					})
					return found
				}
				if !isMax(b.X) && !isMax(b.Y) {
					return true
				}
				n++
				r.Check(b.Op == token.LSS || b.Op == token.GTR, fmt.Sprintf("infinity test in %s #%d", p.DeclName(fd), n), b.Pos(), "strict comparison with the largest finite value", "`"+types.ExprString(b)+"` also holds for the largest finite value itself: ±MaxFloat is written as an infinity")
				return true
			})
		}
	}
}

func exprOf(n ast.Node) ast.Expr {
	if e, ok := n.(ast.Expr); ok {
		return e
	}
	return &ast.BadExpr{}
}

func ruleV12(r *Run) {
	p := r.P
	pkg := p.Pkg("io")
	if pkg == nil {
		r.Undec("package io", 0, "not found")
		return
	}
	info := pkg.TypesInfo
	bufF := p.LookupField("io", "Decoder", "buf")
	if bufF == nil {
		r.Undec("io.Decoder.buf", 0, "not found")
		return
	}
	total := 0
	for _, file := range pkg.Syntax {
		for _, d := range file.Decls {
			fd, ok := d.(*ast.FuncDecl)
			if !ok || fd.Body == nil {
				continue
			}
			n := 0
			var walk func(list []ast.Stmt)
			check := func(list []ast.Stmt) {
				for i, s := range list {
					as, ok := s.(*ast.AssignStmt)
					if !ok || len(as.Rhs) != 1 {
						continue
					}
					c, ok := ast.Unparen(as.Rhs[0]).(*ast.CallExpr)
					if !ok || !IsBuiltin(info, c, "append") || len(c.Args) != 2 || !c.Ellipsis.IsValid() {
						continue
					}
					pieceExpr := ast.Unparen(c.Args[1])
					if o := identObj(info, pieceExpr); o != nil {
						if def, ok := localDefs(info, fd.Body)[o]; ok && def != nil {
							pieceExpr = ast.Unparen(def) // piece := buf[a:b]; data = append(data, piece...)
						}
					}
					se, ok := pieceExpr.(*ast.SliceExpr)
					if !ok || fieldOf(info, se.X) != bufF {
						continue
					}
					// the count-down that follows in the same list
					for _, t := range list[i+1:] {
						cd, ok := t.(*ast.AssignStmt)
						if !ok || cd.Tok != token.SUB_ASSIGN || len(cd.Lhs) != 1 || len(cd.Rhs) != 1 {
							continue
						}
						if _, isVar := identObj(info, cd.Lhs[0]).(*types.Var); !isVar {
							continue
						}
						n++
						total++
						key := fmt.Sprintf("count-down after a piece of the window in %s #%d", p.DeclName(fd), n)
						var length lin
						hi, lo := se.High, se.Low
						if hi == nil {
							r.Undec(key, cd.Pos(), "the piece has no upper bound")
							break
						}
						length = linOfExpr(info, hi)
						if lo != nil {
							length = length.sub(linOfExpr(info, lo))
						}
						// n -= len(piece) with the very expression that was appended
						if lc, ok := ast.Unparen(cd.Rhs[0]).(*ast.CallExpr); ok && IsBuiltin(info, lc, "len") && len(lc.Args) == 1 && types.ExprString(lc.Args[0]) == types.ExprString(c.Args[1]) {
							r.Ok(key, cd.Pos(), "goes down by len() of the piece")
							break
						}
						r.Check(linOfExpr(info, cd.Rhs[0]).sub(length).isZero(), key, cd.Pos(), "goes down by the length of the piece", fmt.Sprintf("the piece `%s` is appended and the count goes down by `%s`, which is not its length: what is still wanted is miscounted, the item swallows the bytes behind it or ends early", types.ExprString(se), types.ExprString(cd.Rhs[0])))
						break
					}
				}
			}
			walk = func(list []ast.Stmt) {
				check(list)
				for _, s := range list {
					ast.Inspect(s, func(m ast.Node) bool {
						switch x := m.(type) {
						case *ast.BlockStmt:
							check(x.List)
						case *ast.CaseClause:
							check(x.Body)
						}
						return true
					})
				}
			}
			walk(fd.Body.List)
		}
	}
	if total == 0 {
		r.Undec("count-down after a piece of the window in package io", 0, "no append of a window piece followed by a count-down found")
	}
}

func ruleF11(r *Run) {
	p := r.P
	pkg := p.Pkg("io")
	if pkg == nil {
		r.Undec("package io", 0, "not found")
		return
	}
	info := pkg.TypesInfo
	n := 0
	for _, file := range pkg.Syntax {
		for _, d := range file.Decls {
			fd, ok := d.(*ast.FuncDecl)
			if !ok || fd.Body == nil {
				continue
			}
			// the zone variable: assigned time.UTC under a comparison with TagUTC
			var loc types.Object
			ast.Inspect(fd.Body, func(m ast.Node) bool {
				ifs, ok := m.(*ast.IfStmt)
				if !ok {
					return true
				}
				mentionsUTCTag := false
				ast.Inspect(ifs.Cond, func(q ast.Node) bool {
					if id, ok := q.(*ast.Ident); ok {
						if o := info.Uses[id]; o != nil && o.Name() == "TagUTC" {
							mentionsUTCTag = true
						}
					}
					return true
				})
				if !mentionsUTCTag {
					return true
				}
				for _, s := range ifs.Body.List {
					if as, ok := s.(*ast.AssignStmt); ok && len(as.Lhs) == 1 && len(as.Rhs) == 1 {
						if o := qualObj(info, as.Rhs[0]); o != nil && o.Pkg() != nil && o.Pkg().Path() == "time" && o.Name() == "UTC" {
							loc = identObj(info, as.Lhs[0])
						}
					}
				}
				return true
			})
			if loc == nil {
				continue
			}
			// a decoder: stores through a *time.Time
			var store *ast.AssignStmt
			ast.Inspect(fd.Body, func(m ast.Node) bool {
				if as, ok := m.(*ast.AssignStmt); ok && len(as.Lhs) == 1 && len(as.Rhs) == 1 {
					if st, ok := ast.Unparen(as.Lhs[0]).(*ast.StarExpr); ok {
						if tv, ok := info.Types[st.X]; ok && tv.Type != nil && tv.Type.String() == "*time.Time" {
							store = as
						}
					}
				}
				return true
			})
			if store == nil {
				continue
			}
			n++
			key := "wall clock built in its zone by " + p.DeclName(fd)
			val := ast.Unparen(store.Rhs[0])
			if o := identObj(info, val); o != nil {
				if def, ok := localDefs(info, fd.Body)[o]; ok && def != nil {
					val = ast.Unparen(def)
				}
			}
			c, ok := val.(*ast.CallExpr)
			good := ok && FullNameOf(info, c) == "time.Date" && len(c.Args) == 8 && identObj(info, c.Args[7]) == loc
			r.Check(good, key, store.Pos(), "time.Date(..., "+loc.Name()+")", "the result is not `time.Date(..., "+loc.Name()+")` but `"+types.ExprString(store.Rhs[0])+"`: the digits are no longer taken as a wall clock in the zone the terminator names")
		}
	}
	if n == 0 {
		r.Undec("time readers of package io", 0, "no function that sets a zone variable under a TagUTC comparison and stores a time found")
	}
}

func ruleT20(r *Run) {
	p := r.P
	pkg := p.Pkg("io")
	if pkg == nil {
		r.Undec("package io", 0, "not found")
		return
	}
	info := pkg.TypesInfo
	gst := p.LookupFunc("io", "GetStructType")
	if gst == nil {
		r.Undec("io.GetStructType", 0, "not found")
		return
	}
	n := 0
	for _, file := range pkg.Syntax {
		for _, d := range file.Decls {
			fd, ok := d.(*ast.FuncDecl)
			if !ok || fd.Body == nil || fd.Name.IsExported() {
				continue
			}
			// takes a reflect.Type (the destination) and returns a struct (the class entry)
			hasT := false
			for _, pv := range paramsOf(info, fd.Type) {
				if pv.Type().String() == "reflect.Type" {
					hasT = true
				}
			}
			if !hasT {
				continue
			}
			parents := parentMap(fd.Body)
			ast.Inspect(fd.Body, func(m ast.Node) bool {
				c, ok := m.(*ast.CallExpr)
				if !ok || Callee(info, c) != gst {
					return true
				}
				n++
				key := "registered type asked first in " + p.DeclName(fd)
				// unconditional: no enclosing if / switch / loop
				cond := ""
				for q := parents[c]; q != nil && q != ast.Node(fd.Body); q = parents[q] {
					switch x := q.(type) {
					case *ast.IfStmt:
						if x.Init == nil || !containsNode(x.Init, c) {
							cond = "inside `if " + types.ExprString(x.Cond) + "`"
						}
					case *ast.SwitchStmt, *ast.TypeSwitchStmt, *ast.ForStmt, *ast.RangeStmt, *ast.CaseClause:
						cond = "inside a conditional statement"
					}
				}
				r.Check(cond == "", key, c.Pos(), "GetStructType(name) is called unconditionally", "the registry is asked only "+cond+": when the condition does not hold the type of the class is taken from the destination, and later objects of that class at untyped places are built as that (possibly narrower) type instead of the registered one")
				return true
			})
		}
	}
	if n == 0 {
		r.Undec("class entry construction in package io", 0, "no unexported function with a reflect.Type parameter calls GetStructType")
	}
}

func containsNode(root ast.Node, n ast.Node) bool {
	found := false
	ast.Inspect(root, func(m ast.Node) bool {
		if m == n {
			found = true
		}
		return !found
	})
	return found
}

func ruleG52(r *Run) {
	p := r.P
	for _, tr := range []string{"rpc/socket", "rpc/udp", "rpc/websocket"} {
		pkg := p.Pkg(tr)
		if pkg == nil {
			r.Undec("call counter of "+tr, 0, "package not found")
			continue
		}
		info := pkg.TypesInfo
		cf := p.LookupField(tr, "conn", "counter")
		if cf == nil {
			r.Undec("call counter of "+tr, 0, "conn.counter not found")
			continue
		}
		n := 0
		for _, file := range pkg.Syntax {
			for _, d := range file.Decls {
				fd, ok := d.(*ast.FuncDecl)
				if !ok || fd.Body == nil {
					continue
				}
				ast.Inspect(fd.Body, func(m ast.Node) bool {
					c, ok := m.(*ast.CallExpr)
					if !ok || len(c.Args) != 2 || !strings.HasPrefix(FullNameOf(info, c), "sync/atomic.Add") {
						return true
					}
					u, ok := ast.Unparen(c.Args[0]).(*ast.UnaryExpr)
					if !ok || u.Op != token.AND || fieldOf(info, u.X) != cf {
						return true
					}
					n++
					v, isConst := intConst(info, c.Args[1])
					r.Check(isConst && v == 1, fmt.Sprintf("call counter advanced in %s #%d", p.DeclName(fd), n), c.Pos(), "+1", "the call counter is changed by `"+types.ExprString(c.Args[1])+"`: a number can be drawn a second time while the call that holds it is still pending")
					return true
				})
			}
		}
		if n == 0 {
			r.Undec("call counter of "+tr, cf.Pos(), "no atomic add on conn.counter found")
		}
	}
}

func ruleL15(r *Run) {
	p := r.P
	pkg := p.Pkg("rpc/core")
	if pkg == nil {
		r.Undec("package rpc/core", 0, "not found")
		return
	}
	info := pkg.TypesInfo
	n := 0
	for _, file := range pkg.Syntax {
		for _, d := range file.Decls {
			fd, ok := d.(*ast.FuncDecl)
			if !ok || fd.Body == nil || fd.Recv == nil || fd.Name.Name != "Clone" || len(fd.Recv.List) != 1 || len(fd.Recv.List[0].Names) != 1 {
				continue
			}
			recv := info.Defs[fd.Recv.List[0].Names[0]]
			k := 0
			ast.Inspect(fd.Body, func(m ast.Node) bool {
				as, ok := m.(*ast.AssignStmt)
				if !ok || len(as.Lhs) != len(as.Rhs) {
					return true
				}
				for i, l := range as.Lhs {
					fv := fieldOf(info, l)
					if fv == nil {
						continue
					}
					sel, ok := ast.Unparen(l).(*ast.SelectorExpr)
					if !ok || identObj(info, sel.X) == recv {
						continue // not a field of the clone
					}
					// dictionary / map / slice typed fields
					ts := fv.Type().String()
					if _, isMap := fv.Type().Underlying().(*types.Map); !isMap && !strings.HasSuffix(ts, "core.Dict") {
						continue
					}
					n++
					k++
					key := fmt.Sprintf("clone's own %s in %s #%d", fv.Name(), p.DeclName(fd), k)
					// the value must not be built from anything taken out of the original
					usesOrig := false
					ast.Inspect(as.Rhs[i], func(q ast.Node) bool {
						if id, ok := q.(*ast.Ident); ok && info.Uses[id] == recv {
							usesOrig = true
						}
						return true
					})
					// clone.items = copyDict(c.items): a helper of the package that hands back a container of its own making
					if c, isCall := ast.Unparen(as.Rhs[i]).(*ast.CallExpr); isCall && usesOrig {
						if d, cpkg := p.calleeDecl(info, c); d != nil && cpkg == pkg && d.Body != nil {
							params := map[types.Object]bool{}
							for _, pv := range paramsOf(info, d.Type) {
								if pv != nil {
									params[pv] = true
								}
							}
							defs := localDefs(info, d.Body)
							fresh, nRet := true, 0
							ast.Inspect(d.Body, func(q ast.Node) bool {
								if _, isLit := q.(*ast.FuncLit); isLit {
									return false
								}
								ret, ok := q.(*ast.ReturnStmt)
								if !ok {
									return true
								}
								nRet++
								if len(ret.Results) != 1 {
									fresh = false
									return true
								}
								e := ast.Unparen(ret.Results[0])
								if id, ok := e.(*ast.Ident); ok && id.Name == "nil" {
									return true
								}
								if o := identObj(info, e); o != nil && !params[o] {
									if def, ok := defs[o]; ok && def != nil {
										e = ast.Unparen(def)
									}
								}
								made := false
								switch x := e.(type) {
								case *ast.CompositeLit:
									made = true
								case *ast.CallExpr:
									made = true // a constructor: none of its arguments may be the helper's input
									ast.Inspect(x, func(k ast.Node) bool {
										if id, ok := k.(*ast.Ident); ok && params[info.Uses[id]] {
											made = false
										}
										return true
									})
								}
								if !made {
									fresh = false
								}
								return true
							})
							if fresh && nRet > 0 {
								usesOrig = false
							}
						}
					}
					r.Check(!usesOrig, key, as.Pos(), "a fresh container (filled by a copying call)", "the clone's "+fv.Name()+" is built from `"+types.ExprString(as.Rhs[i])+"`, an expression over the original: the two share one unsynchronised map - concurrent branches race on it and see each other's headers")
				}
				return true
			})
		}
	}
	if n == 0 {
		r.Undec("Clone methods of rpc/core", 0, "no assignment of a dictionary field of a clone found")
	}
}

// ---------------------------------------------------------------------------------------------------
// V13 an index is not a count

func init() {
	register("V13", "Decoder.ReadCount is the reader for COUNTS and lengths: when the whole input is in memory it refuses a number larger than the bytes that are left, because every counted element takes at least a byte. A number that indexes a table - the class index of an object item (the argument of getStructInfo), the index of a reference item (the argument of the reference table's Read) - is not a count and is read with ReadInt: read with ReadCount, a valid `o4{..}` near the end of an in-memory input is refused (`invalid count 4`) and decoded as class 0, while any reader decodes it correctly - the in-memory decode and the streaming decode of the same bytes differ", 3, ruleV13)
}

func ruleV13(r *Run) {
	p := r.P
	pkg := p.Pkg("io")
	if pkg == nil {
		r.Undec("package io", 0, "not found")
		return
	}
	info := pkg.TypesInfo
	rc := p.LookupFunc("io", "Decoder.ReadCount")
	if rc == nil {
		r.Undec("io.Decoder.ReadCount", 0, "not found")
		return
	}
	isLookup := func(c *ast.CallExpr) bool {
		f := Callee(info, c)
		if f == nil || f.Pkg() != pkg.Types {
			return false
		}
		switch refName(f.Name()) {
		case "getStructInfo":
			return true
		case "Read":
			if sig := f.Type().(*types.Signature); sig.Recv() != nil && strings.Contains(sig.Recv().Type().String(), "decoderRefer") {
				return true
			}
		}
		return false
	}
	n := 0
	for _, file := range pkg.Syntax {
		for _, d := range file.Decls {
			fd, ok := d.(*ast.FuncDecl)
			if !ok || fd.Body == nil {
				continue
			}
			defs := localDefs(info, fd.Body)
			k := 0
			ast.Inspect(fd.Body, func(m ast.Node) bool {
				c, ok := m.(*ast.CallExpr)
				if !ok || !isLookup(c) || len(c.Args) == 0 {
					return true
				}
				// the index argument: the first integer-typed argument
				var arg ast.Expr
				for _, a := range c.Args {
					if tv, ok := info.Types[a]; ok && tv.Type != nil {
						if b, ok := tv.Type.Underlying().(*types.Basic); ok && b.Info()&types.IsInteger != 0 {
							arg = a
							break
						}
					}
				}
				if arg == nil {
					return true
				}
				n++
				k++
				key := fmt.Sprintf("table index of %s in %s #%d", methodName(c)+types.ExprString(c.Fun)[:0], p.DeclName(fd), k)
				src := ast.Unparen(arg)
				if o := identObj(info, src); o != nil {
					if def, ok := defs[o]; ok && def != nil {
						src = ast.Unparen(def)
					}
				}
				bad := false
				if sc, ok := src.(*ast.CallExpr); ok && Callee(info, sc) == rc {
					bad = true
				}
				r.Check(!bad, key, c.Pos(), "not read with the count reader", "the table index `"+types.ExprString(arg)+"` is read with ReadCount: in memory a valid index larger than the number of bytes left is refused as an `invalid count`, from a reader it is accepted")
				return true
			})
		}
	}
	if n == 0 {
		r.Undec("table lookups by wire index in package io", 0, "none found")
	}
}

// ---------------------------------------------------------------------------------------------------
// G53 every entry point of the Formatter honours its mode

func init() {
	register("G53", "every method of io.Formatter that encodes or decodes (it obtains an Encoder or a Decoder) hands the Formatter's own Simple setting to that coder: the method contains a call of the coder's Simple method whose argument is the receiver's Simple field. A reader entry point that builds its decoder another way (NewDecoderFromReader, which starts in simple mode) decodes a reference-mode stream - shared and cyclic graphs that Marshal wrote and Unmarshal reads - without a reference table and fails at the first back-reference", 3, ruleG53)
}

func ruleG53(r *Run) {
	p := r.P
	pkg := p.Pkg("io")
	if pkg == nil {
		r.Undec("package io", 0, "not found")
		return
	}
	info := pkg.TypesInfo
	simpleF := p.LookupField("io", "Formatter", "Simple")
	if simpleF == nil {
		r.Undec("io.Formatter.Simple", 0, "not found")
		return
	}
	for _, file := range pkg.Syntax {
		for _, d := range file.Decls {
			fd, ok := d.(*ast.FuncDecl)
			if !ok || fd.Body == nil || fd.Recv == nil {
				continue
			}
			f, _ := info.Defs[fd.Name].(*types.Func)
			if f == nil {
				continue
			}
			rt := f.Type().(*types.Signature).Recv().Type()
			if pt, ok := rt.(*types.Pointer); ok {
				rt = pt.Elem()
			}
			if nt, ok := rt.(*types.Named); !ok || nt.Obj().Name() != "Formatter" {
				continue
			}
			usesCoder, handsMode := false, false
			p.deepInspect(info, fd.Body, 1, func(iinfo *types.Info, m ast.Node) bool {
				c, ok := m.(*ast.CallExpr)
				if !ok {
					return true
				}
				if tv, ok := iinfo.Types[c]; ok && tv.Type != nil {
					ts := tv.Type.String()
					if strings.HasSuffix(ts, "io.Encoder") || strings.HasSuffix(ts, "io.Decoder") {
						usesCoder = true
					}
				}
				if methodName(c) == "Simple" && len(c.Args) == 1 && fieldOf(iinfo, c.Args[0]) == simpleF {
					handsMode = true
				}
				return true
			})
			if !usesCoder {
				continue
			}
			r.Check(handsMode, "mode handed to the coder in "+p.DeclName(fd), fd.Pos(), ".Simple(f.Simple)", p.DeclName(fd)+" obtains a coder but never calls its Simple method with the Formatter's Simple field: this entry point works in the coder's default mode whatever the Formatter says")
		}
	}
}

// ---------------------------------------------------------------------------------------------------
// G54 weights stay paired with their servers; L16 a private random generator is not shared unlocked

func init() {
	register("G54", "the weighted balancers' table is built pair by pair: in rpc/plugins/loadbalance the function that turns the caller's map of addresses to weights into the parallel lists (it ranges over a map parameter and fills a Weights field) takes each weight from the VALUE of the same range iteration that yields the address, not from a second lookup under a re-serialised key - url.Parse(key).String() is not always key (an upper-case scheme, a default port), and a missed lookup silently gives the server weight 0: it is never picked by any weighted policy", 1, ruleG54)
	register("L16", "a *math/rand.Rand is not safe for concurrent use: in rpc/plugins, whose handlers run on every calling goroutine at once, a method of a *rand.Rand held in a field is called only in a function that takes a mutex first - or the package-level functions of math/rand (which lock) are used. An unlocked private generator races in its state and Intn returns values out of range (index out of range [-1] in the caller's goroutine, about once in 10^5 calls under load)", 0, ruleL16)
}

func ruleG54(r *Run) {
	p := r.P
	pkg := p.Pkg("rpc/plugins/loadbalance")
	if pkg == nil {
		r.Undec("package rpc/plugins/loadbalance", 0, "not found")
		return
	}
	info := pkg.TypesInfo
	n := 0
	for _, file := range pkg.Syntax {
		for _, d := range file.Decls {
			fd, ok := d.(*ast.FuncDecl)
			if !ok || fd.Body == nil {
				continue
			}
			// a map[string]int parameter
			var mp *types.Var
			for _, pv := range paramsOf(info, fd.Type) {
				if m, ok := pv.Type().Underlying().(*types.Map); ok {
					if b, ok := m.Key().Underlying().(*types.Basic); ok && b.Kind() == types.String {
						mp = pv
					}
				}
			}
			if mp == nil {
				continue
			}
			// the range over it
			var rs *ast.RangeStmt
			ast.Inspect(fd.Body, func(m ast.Node) bool {
				if x, ok := m.(*ast.RangeStmt); ok && identObj(info, x.X) == types.Object(mp) {
					rs = x
				}
				return true
			})
			// assignments to elements of a field named Weights
			var stores []*ast.AssignStmt
			ast.Inspect(fd.Body, func(m ast.Node) bool {
				if as, ok := m.(*ast.AssignStmt); ok && len(as.Lhs) == 1 && len(as.Rhs) == 1 {
					if ix, ok := ast.Unparen(as.Lhs[0]).(*ast.IndexExpr); ok {
						if fv := fieldOf(info, ix.X); fv != nil && refName(fv.Name()) == "Weights" {
							stores = append(stores, as)
						}
					}
				}
				return true
			})
			if rs == nil || len(stores) == 0 {
				continue
			}
			val := identObj(info, rs.Value)
			for i, as := range stores {
				n++
				key := fmt.Sprintf("weight paired with its server in %s #%d", p.DeclName(fd), i+1)
				inLoop := as.Pos() > rs.Body.Pos() && as.End() < rs.Body.End()
				fromValue := val != nil && mentionsObj(info, as.Rhs[0], val)
				r.Check(inLoop && fromValue, key, as.Pos(), "taken from the value of the iteration that yields the address", "the weight is `"+types.ExprString(as.Rhs[0])+"`, not the value of the range iteration over "+mp.Name()+": a lookup under anything but the caller's own key can miss, and the server gets weight 0")
			}
		}
	}
	if n == 0 {
		r.Undec("weight table construction in rpc/plugins/loadbalance", 0, "no function that ranges over a map parameter and fills Weights found")
	}
}

func ruleL16(r *Run) {
	p := r.P
	n := 0
	for _, pkg := range p.Pkgs {
		if !strings.Contains(pkg.PkgPath, "/rpc/plugins/") {
			continue
		}
		info := pkg.TypesInfo
		for _, file := range pkg.Syntax {
			for _, d := range file.Decls {
				fd, ok := d.(*ast.FuncDecl)
				if !ok || fd.Body == nil {
					continue
				}
				k := 0
				ast.Inspect(fd.Body, func(m ast.Node) bool {
					c, ok := m.(*ast.CallExpr)
					if !ok {
						return true
					}
					sel, ok := ast.Unparen(c.Fun).(*ast.SelectorExpr)
					if !ok {
						return true
					}
					tv, ok := info.Types[sel.X]
					if !ok || tv.Type == nil || tv.Type.String() != "*math/rand.Rand" || fieldOf(info, sel.X) == nil {
						return true
					}
					n++
					k++
					key := fmt.Sprintf("private random generator used in %s #%d", p.DeclName(fd), k)
					locked := false
					ast.Inspect(fd.Body, func(q ast.Node) bool {
						if lc, ok := q.(*ast.CallExpr); ok && lc.Pos() < c.Pos() {
							if mv, op := lockOp(info, lc); mv != nil && op == "Lock" {
								locked = true
							}
						}
						return true
					})
					r.Check(locked, key, c.Pos(), "under a mutex", "`"+types.ExprString(c)+"` calls a *rand.Rand that is shared by every goroutine passing through the handler, without a lock: the generator's state is corrupted by concurrent use and it returns values outside [0, n)")
					return true
				})
			}
		}
	}
	if n == 0 {
		r.Ok("no private *rand.Rand in the plugins", 0, "the package-level functions of math/rand lock")
	}
}

// ---------------------------------------------------------------------------------------------------
// S17 only a 200 carries a response

func init() {
	register("S17", "the HTTP client transports (rpc/http, rpc/http/fasthttp) hand the body of the HTTP response to the caller as the RPC response only when the status is 200 OK: the return that yields the body is reached under an equality of the status code with http.StatusOK (fasthttp.StatusOK) - a switch case that lists only that constant, or an == test. Any other status, 2xx included (a 202 or 204 from a gateway whose upstream is gone), is an error of the exchange: returned as (body, nil) it is a SUCCESS for every plugin above the transport - a circuit breaker resets its count on it and never opens - while the caller gets a decoding error", 1, ruleS17)
}

func ruleS17(r *Run) {
	p := r.P
	n := 0
	for _, rel := range []string{"rpc/http", "rpc/http/fasthttp"} {
		fd, pkg := p.DeclOf(rel, "Transport.Transport")
		if fd == nil {
			continue
		}
		info := pkg.TypesInfo
		parents := parentMap(fd.Body)
		isStatusOK := func(e ast.Expr) bool {
			o := qualObj(info, e)
			return o != nil && o.Name() == "StatusOK"
		}
		mentionsStatus := func(e ast.Expr) bool {
			found := false
			ast.Inspect(e, func(q ast.Node) bool {
				if c, ok := q.(*ast.CallExpr); ok && methodName(c) == "StatusCode" {
					found = true
				}
				if sel, ok := q.(*ast.SelectorExpr); ok && sel.Sel.Name == "StatusCode" {
					found = true
				}
				return true
			})
			return found
		}
		k := 0
		ast.Inspect(fd.Body, func(m ast.Node) bool {
			ret, ok := m.(*ast.ReturnStmt)
			if !ok || len(ret.Results) == 0 {
				return true
			}
			// a return that yields the body: its first result mentions Body (resp.Body, resp.Body())
			yields := false
			ast.Inspect(ret.Results[0], func(q ast.Node) bool {
				if sel, ok := q.(*ast.SelectorExpr); ok && sel.Sel.Name == "Body" {
					yields = true
				}
				return true
			})
			if !yields {
				return true
			}
			// the status must have been looked at somewhere in the function for this to be the status-dependent return
			n++
			k++
			key := fmt.Sprintf("body returned only for 200 in %s.Transport.Transport #%d", rel, k)
			good := false
			for _, f := range factsWithSwitch(parents, ret) {
				if b, ok := ast.Unparen(f.e).(*ast.BinaryExpr); ok && ((b.Op == token.EQL && !f.neg) || (b.Op == token.NEQ && f.neg)) {
					if (mentionsStatus(b.X) && isStatusOK(b.Y)) || (mentionsStatus(b.Y) && isStatusOK(b.X)) {
						good = true
					}
				}
			}
			for q := parents[ret]; q != nil && !good; q = parents[q] {
				if cc, ok := q.(*ast.CaseClause); ok {
					if blk, ok := parents[cc].(*ast.BlockStmt); ok {
						if sw, ok := parents[blk].(*ast.SwitchStmt); ok && sw.Tag != nil && mentionsStatus(sw.Tag) {
							all := len(cc.List) > 0
							for _, e := range cc.List {
								if !isStatusOK(e) {
									all = false
								}
							}
							good = all
						}
					}
				}
			}
			r.Check(good, key, ret.Pos(), "under status == StatusOK", "the response body is returned as the result of the exchange on a path that is not limited to status 200: another status - a 202 or 204 of an intermediary - counts as a successful call for the plugins above (the breaker resets), and its body is decoded as an RPC response")
			return true
		})
	}
	if n == 0 {
		r.Undec("HTTP client transports", 0, "no return of a response body found in rpc/http(.fasthttp).Transport.Transport")
	}
}

// ---------------------------------------------------------------------------------------------------
// G55 a clause of a type switch that lists several types does not compare its variable with a constant

func init() {
	register("G55", "Go gives the variable of a type switch (`switch v := x.(type)`) the type of the CLAUSE only when the clause lists one type; in a clause that lists several (`case int, int64, uint8:`) v keeps the interface type of x, and `v != 0` compares an interface with the int constant 0 - true for int64(0), uint8(0), float64(0), every zero but int(0). No such clause in the repository compares the switch variable with a constant (== / !=): Dict.GetBool would read a not-idempotent mark stored as int64(0) as TRUE, and the cluster plugin would re-send the call", 0, ruleG55)
}

func ruleG55(r *Run) {
	p := r.P
	n := 0
	p.EachFunc(func(pkg *packages.Package, fd *ast.FuncDecl) {
		if fd.Body == nil {
			return
		}
		info := pkg.TypesInfo
		k := 0
		ast.Inspect(fd.Body, func(m ast.Node) bool {
			ts, ok := m.(*ast.TypeSwitchStmt)
			if !ok {
				return true
			}
			if _, bound := ts.Assign.(*ast.AssignStmt); !bound {
				return true
			}
			for _, cs := range ts.Body.List {
				cc := cs.(*ast.CaseClause)
				if len(cc.List) < 2 {
					continue
				}
				v := info.Implicits[cc]
				if v == nil {
					continue
				}
				if _, isIface := v.Type().Underlying().(*types.Interface); !isIface {
					continue
				}
				n++
				k++
				key := fmt.Sprintf("multi-type clause #%d in %s", k, p.DeclName(fd))
				bad := ""
				for _, s := range cc.Body {
					ast.Inspect(s, func(q ast.Node) bool {
						b, ok := q.(*ast.BinaryExpr)
						if !ok || (b.Op != token.EQL && b.Op != token.NEQ) {
							return true
						}
						for _, pr := range [][2]ast.Expr{{b.X, b.Y}, {b.Y, b.X}} {
							if identObj(info, pr[0]) == v {
								if tv, ok := info.Types[pr[1]]; ok && tv.Value != nil {
									bad = types.ExprString(b)
								}
							}
						}
						return true
					})
				}
				r.Check(bad == "", key, cc.Pos(), "the interface-typed variable is not compared with a constant", "in a clause that lists several types `"+bad+"` compares an interface value with a constant: it is decided by the dynamic TYPE as much as by the value (int64(0) != 0 is true)")
			}
			return true
		})
	})
	if n == 0 {
		r.Ok("no multi-type clause binds an interface-typed switch variable", 0, "nothing to compare")
	}
}

// ---------------------------------------------------------------------------------------------------
// G56 a plugin hands its caller's context on

func init() {
	register("G56", "a plugin handler of rpc/plugins (a function with a context parameter and a `next` parameter) calls next on the context it was given, or on one derived from it (context.With*, core.WithContext with that context as parent) - and where it assigns its context parameter, the new value is derived from the old one. The context carries the caller's deadline and cancellation; a plugin that goes on with a context built on context.Background() (the oneway plugin 'because nobody waits') detaches everything behind it: a oneway call that waits for a limiter permit past its caller's deadline stays queued, takes a permit later and is sent", 10, ruleG56)
}

func ruleG56(r *Run) {
	p := r.P
	for _, pkg := range p.Pkgs {
		if !strings.Contains(pkg.PkgPath, "/rpc/plugins/") {
			continue
		}
		info := pkg.TypesInfo
		for _, file := range pkg.Syntax {
			for _, d := range file.Decls {
				fd, ok := d.(*ast.FuncDecl)
				if !ok || fd.Body == nil {
					continue
				}
				var ctxP, nextP *types.Var
				for _, pv := range paramsOf(info, fd.Type) {
					if pv.Type().String() == "context.Context" && ctxP == nil {
						ctxP = pv
					}
					if _, isSig := pv.Type().Underlying().(*types.Signature); isSig && pv.Name() == "next" {
						nextP = pv
					}
				}
				if ctxP == nil || nextP == nil {
					continue
				}
				var derived func(e ast.Expr, depth int) bool
				derived = func(e ast.Expr, depth int) bool {
					e = ast.Unparen(e)
					if depth > 5 {
						return false
					}
					if c, ok := e.(*ast.CallExpr); ok && len(c.Args) >= 1 {
						if f := Callee(info, c); f != nil && f.Pkg() != nil && strings.HasPrefix(f.Name(), "With") && (f.Pkg().Path() == "context" || strings.HasSuffix(f.Pkg().Path(), "/rpc/core")) {
							return derived(c.Args[0], depth+1)
						}
						return false
					}
					o := identObj(info, e)
					if o == nil {
						return false
					}
					if o == types.Object(ctxP) {
						return true
					}
					// a local: every definition derived
					defs, all := 0, true
					ast.Inspect(fd.Body, func(m ast.Node) bool {
						if as, ok := m.(*ast.AssignStmt); ok {
							for i, l := range as.Lhs {
								if identObj(info, l) == o {
									defs++
									var rhs ast.Expr
									if len(as.Rhs) == len(as.Lhs) {
										rhs = as.Rhs[i]
									} else if len(as.Rhs) == 1 {
										rhs = as.Rhs[0] // ctx, cancel := context.WithTimeout(...)
									}
									if rhs == nil || !derived(rhs, depth+1) {
										all = false
									}
								}
							}
						}
						return true
					})
					return defs > 0 && all
				}
				key := "context handed on by " + p.DeclName(fd)
				bad := ""
				// (1) assignments to the parameter itself
				ast.Inspect(fd.Body, func(m ast.Node) bool {
					if as, ok := m.(*ast.AssignStmt); ok && as.Tok == token.ASSIGN {
						for i, l := range as.Lhs {
							if identObj(info, l) == types.Object(ctxP) {
								var rhs ast.Expr
								if len(as.Rhs) == len(as.Lhs) {
									rhs = as.Rhs[i]
								} else if len(as.Rhs) == 1 {
									rhs = as.Rhs[0]
								}
								if rhs == nil || !derived(rhs, 0) {
									bad = "the context parameter is replaced by `" + types.ExprString(as.Rhs[0]) + "` at " + p.Rel(as.Pos())
								}
							}
						}
					}
					return true
				})
				// (2) what next is called with
				nCalls := 0
				ast.Inspect(fd.Body, func(m ast.Node) bool {
					c, ok := m.(*ast.CallExpr)
					if !ok || identObj(info, c.Fun) != types.Object(nextP) || len(c.Args) == 0 {
						return true
					}
					nCalls++
					// inside a literal with its own ctx parameter (go func(ctx context.Context) {...}(derived)) the argument of
					// the literal's call is what counts
					arg := c.Args[0]
					if o := identObj(info, arg); o != nil && o != types.Object(ctxP) {
						if v, ok := o.(*types.Var); ok && v.Type().String() == "context.Context" {
							// a parameter of an enclosing function literal?
							found := false
							ast.Inspect(fd.Body, func(q ast.Node) bool {
								ce, ok := q.(*ast.CallExpr)
								if !ok {
									return true
								}
								fl, ok := ast.Unparen(ce.Fun).(*ast.FuncLit)
								if !ok {
									return true
								}
								for i, pv := range paramsOf(info, fl.Type) {
									if types.Object(pv) == o && i < len(ce.Args) {
										found = true
										if !derived(ce.Args[i], 0) {
											bad = "next is called with `" + types.ExprString(ce.Args[i]) + "`"
										}
									}
								}
								return true
							})
							if found {
								return true
							}
						}
					}
					if !derived(arg, 0) {
						bad = "next is called with `" + types.ExprString(arg) + "`"
					}
					return true
				})
				if nCalls == 0 {
					continue
				}
				r.Check(bad == "", key, fd.Pos(), "next runs on the handler's own context or one derived from it", bad+", which is not derived from the context the handler was given: the caller's deadline and cancellation do not reach what runs behind this plugin")
			}
		}
	}
}

// ---------------------------------------------------------------------------------------------------
// G57 the rpc context of a context.Context is narrowed with comma-ok

func init() {
	register("G57", "one context.Context can carry the rpc context of either side under the same key: a service method that calls another service through a client proxy hands on its own context, which holds a *ServiceContext. The accessors of rpc/core that narrow what FromContext returns to *ClientContext or *ServiceContext (and every other assertion on the result of FromContext in rpc/) use the comma-ok form or a type switch - a single-value assertion panics, and the nested call fails with `interface conversion: core.Context is *core.ServiceContext, not *core.ClientContext`", 2, ruleG57)
}

func ruleG57(r *Run) {
	p := r.P
	fc := p.LookupFunc("rpc/core", "FromContext")
	if fc == nil {
		r.Undec("rpc/core.FromContext", 0, "not found")
		return
	}
	p.EachFunc(func(pkg *packages.Package, fd *ast.FuncDecl) {
		if fd.Body == nil || !strings.Contains(pkg.PkgPath, "/rpc") {
			return
		}
		info := pkg.TypesInfo
		// locals that hold the result of FromContext
		holders := map[types.Object]bool{}
		ast.Inspect(fd.Body, func(m ast.Node) bool {
			if as, ok := m.(*ast.AssignStmt); ok && len(as.Rhs) == 1 {
				if c, ok := ast.Unparen(as.Rhs[0]).(*ast.CallExpr); ok && Callee(info, c) == fc && len(as.Lhs) >= 1 {
					if o := identObj(info, as.Lhs[0]); o != nil {
						holders[o] = true
					}
				}
			}
			return true
		})
		if len(holders) == 0 {
			return
		}
		parents := parentMap(fd.Body)
		k := 0
		ast.Inspect(fd.Body, func(m ast.Node) bool {
			ta, ok := m.(*ast.TypeAssertExpr)
			if !ok || ta.Type == nil || !holders[identObj(info, ta.X)] {
				return true
			}
			k++
			key := fmt.Sprintf("rpc context narrowed in %s #%d", p.DeclName(fd), k)
			commaOK := false
			switch par := parents[ta].(type) {
			case *ast.AssignStmt:
				commaOK = len(par.Lhs) == 2 && len(par.Rhs) == 1
			case *ast.ValueSpec:
				commaOK = len(par.Names) == 2 && len(par.Values) == 1
			}
			r.Check(commaOK, key, ta.Pos(), "comma-ok", "`"+types.ExprString(ta)+"` is a single-value assertion on what FromContext returned: when the context carries the context of the other side it panics")
			return true
		})
	})
}

// ---------------------------------------------------------------------------------------------------
// U7 no converter means an error

func init() {
	register("U7", "GetConverter answers nil when a referenced value cannot be converted to the destination type; every function of package io that asks it and tests the answer for nil reports the nil case: the function has an else branch (or a tail behind the early return of the non-nil case) that assigns the decoder's Error, returns an error, or falls back on another conversion (io.Convert re-encodes). A caller that simply does nothing for nil (ptrConverter did) leaves the destination empty without an error - C06: a destination that cannot accept the value yields an error, not a wrong value", 3, ruleU7)
}

func ruleU7(r *Run) {
	p := r.P
	pkg := p.Pkg("io")
	if pkg == nil {
		r.Undec("package io", 0, "not found")
		return
	}
	info := pkg.TypesInfo
	gc := p.LookupFunc("io", "GetConverter")
	errF := p.LookupField("io", "Decoder", "Error")
	if gc == nil || errF == nil {
		r.Undec("io.GetConverter / io.Decoder.Error", 0, "not found")
		return
	}
	for _, file := range pkg.Syntax {
		for _, d := range file.Decls {
			fd, ok := d.(*ast.FuncDecl)
			if !ok || fd.Body == nil {
				continue
			}
			parents := parentMap(fd.Body)
			k := 0
			ast.Inspect(fd.Body, func(m ast.Node) bool {
				c, ok := m.(*ast.CallExpr)
				if !ok || Callee(info, c) != gc {
					return true
				}
				// if conv := GetConverter(..); conv != nil { ... } [else ...]
				var ifs *ast.IfStmt
				for q := parents[c]; q != nil; q = parents[q] {
					if x, ok := q.(*ast.IfStmt); ok && x.Init != nil && containsNode(x.Init, c) {
						ifs = x
						break
					}
					if _, ok := q.(ast.Stmt); ok {
						if _, isAssign := q.(*ast.AssignStmt); !isAssign {
							break
						}
					}
				}
				if ifs == nil {
					// conv := GetConverter(..) as a statement of its own, tested by a later if
					if as, ok := parents[c].(*ast.AssignStmt); ok && len(as.Lhs) == 1 {
						if lo := identObj(info, as.Lhs[0]); lo != nil {
							ast.Inspect(fd.Body, func(q ast.Node) bool {
								if x, ok := q.(*ast.IfStmt); ok && ifs == nil && x.Pos() > as.Pos() {
									if b, ok := ast.Unparen(x.Cond).(*ast.BinaryExpr); ok && (b.Op == token.NEQ || b.Op == token.EQL) && identObj(info, b.X) == lo {
										if id, ok := ast.Unparen(b.Y).(*ast.Ident); ok && id.Name == "nil" {
											ifs = x
										}
									}
								}
								return true
							})
						}
					}
				}
				if ifs == nil {
					return true // returned or stored: the caller of THIS function decides
				}
				k++
				key := fmt.Sprintf("missing converter reported in %s #%d", p.DeclName(fd), k)
				reports := func(n ast.Node) bool {
					found := false
					ast.Inspect(n, func(q ast.Node) bool {
						switch x := q.(type) {
						case *ast.AssignStmt:
							for _, l := range x.Lhs {
								if fieldOf(info, l) == errF {
									found = true
								}
							}
						case *ast.ReturnStmt:
							for _, e := range x.Results {
								if tv, ok := info.Types[e]; ok && tv.Type != nil && isErrorType(tv.Type) {
									if id, ok := ast.Unparen(e).(*ast.Ident); !ok || id.Name != "nil" {
										found = true
									}
								}
							}
						case *ast.CallExpr:
							// a fall-back conversion: Marshal / Unmarshal / decodeError
							switch methodName(x) {
							case "Marshal", "Unmarshal", "decodeError", "decodeStringError":
								found = true
							}
						}
						return true
					})
					return found
				}
				good := false
				if ifs.Else != nil && reports(ifs.Else) {
					good = true
				}
				if !good {
					// the tail of the enclosing block behind the if
					if blk, ok := parents[ifs].(*ast.BlockStmt); ok {
						after := false
						for _, s := range blk.List {
							if s == ast.Stmt(ifs) {
								after = true
								continue
							}
							if after && reports(s) {
								good = true
							}
						}
					}
				}
				r.Check(good, key, c.Pos(), "the nil answer leads to an error (or a fall-back conversion)", "when GetConverter answers nil the function does nothing: the destination keeps whatever it held (an empty value) and no error is reported - a reference that cannot be converted is accepted silently")
				return true
			})
		}
	}
}

// ---------------------------------------------------------------------------------------------------
// G58 what the timeout plugin abandons, it cancels

func init() {
	register("G58", "the ExecuteTimeout plugin runs the downstream call on the SAME context whose expiry makes it give up: the context handed to next (inside the goroutine it starts) is the variable that context.WithTimeout assigned in that handler. If next runs on the handler's original context while the select waits on a separate timeout context, the plugin answers ErrTimeout but the abandoned call goes on, never told to stop: a push long poll abandoned this way stays parked in the broker and the next message accepted for that subscriber is handed to a request nobody waits for any more - accepted, reported as delivered, lost", 1, ruleG58)
}

func ruleG58(r *Run) {
	p := r.P
	pkg := p.Pkg("rpc/plugins/timeout")
	if pkg == nil {
		r.Undec("package rpc/plugins/timeout", 0, "not found")
		return
	}
	info := pkg.TypesInfo
	n := 0
	for _, file := range pkg.Syntax {
		for _, d := range file.Decls {
			fd, ok := d.(*ast.FuncDecl)
			if !ok || fd.Body == nil {
				continue
			}
			var nextP *types.Var
			for _, pv := range paramsOf(info, fd.Type) {
				if _, isSig := pv.Type().Underlying().(*types.Signature); isSig && pv.Name() == "next" {
					nextP = pv
				}
			}
			if nextP == nil {
				continue
			}
			// the context created with a deadline in this handler
			var tctx types.Object
			var wt *ast.CallExpr
			ast.Inspect(fd.Body, func(m ast.Node) bool {
				if as, ok := m.(*ast.AssignStmt); ok && len(as.Rhs) == 1 && len(as.Lhs) == 2 {
					if c, ok := ast.Unparen(as.Rhs[0]).(*ast.CallExpr); ok {
						switch FullNameOf(info, c) {
						case "context.WithTimeout", "context.WithDeadline":
							tctx = identObj(info, as.Lhs[0])
							wt = c
						}
					}
				}
				return true
			})
			if tctx == nil {
				continue
			}
			n++
			key := "abandoned call cancelled in " + p.DeclName(fd)
			bad := ""
			ast.Inspect(fd.Body, func(m ast.Node) bool {
				c, ok := m.(*ast.CallExpr)
				if !ok || identObj(info, c.Fun) != types.Object(nextP) || len(c.Args) == 0 || c.Pos() < wt.Pos() {
					return true
				}
				if identObj(info, c.Args[0]) != tctx {
					bad = types.ExprString(c.Args[0])
				}
				return true
			})
			r.Check(bad == "", key, wt.Pos(), "next runs on the context that carries the plugin's deadline", "behind context.WithTimeout the downstream call is started on `"+bad+"`, not on the context that expires at the plugin's deadline ("+tctx.Name()+"): the plugin returns ErrTimeout and the call it abandoned runs on, uncancelled")
		}
	}
	if n == 0 {
		r.Undec("timeout plugin", 0, "no handler with context.WithTimeout and a call of next found")
	}
}

// ---------------------------------------------------------------------------------------------------
// P22 one malformed element does not cost the rest of a wire batch

func init() {
	register("P22", "where the reverse plugin walks a batch that came from the peer (a range over a slice of the wire tuple types returnValue / call - named types over [3]interface{} or []interface{}), the loop body neither asserts an element of the tuple in the single-value form nor indexes it unchecked, directly or through a method of the tuple type that does (Index() is r[0].(int)): the panic is caught by the recover of Service.Process, but it ends the LOOP - the answers behind the malformed tuple are never delivered and those callers run into their time-outs (C09: each caller receives the response to its own request)", 1, ruleP22)
}

func ruleP22(r *Run) {
	p := r.P
	pkg := p.Pkg("rpc/plugins/reverse")
	if pkg == nil {
		r.Undec("package rpc/plugins/reverse", 0, "not found")
		return
	}
	info := pkg.TypesInfo
	isTuple := func(t types.Type) bool {
		nt, ok := t.(*types.Named)
		if !ok || nt.Obj().Pkg() != pkg.Types {
			return false
		}
		var et types.Type
		switch u := nt.Underlying().(type) {
		case *types.Slice:
			et = u.Elem()
		case *types.Array:
			et = u.Elem()
		default:
			return false
		}
		it, ok := et.Underlying().(*types.Interface)
		return ok && it.Empty()
	}
	// methods of tuple types that assert / index without a check
	unsafeMethod := map[*types.Func]string{}
	for _, file := range pkg.Syntax {
		for _, d := range file.Decls {
			fd, ok := d.(*ast.FuncDecl)
			if !ok || fd.Body == nil || fd.Recv == nil || len(fd.Recv.List) != 1 || len(fd.Recv.List[0].Names) != 1 {
				continue
			}
			f, _ := info.Defs[fd.Name].(*types.Func)
			recv := info.Defs[fd.Recv.List[0].Names[0]]
			if f == nil || recv == nil || !isTuple(recv.Type()) {
				continue
			}
			parents := parentMap(fd.Body)
			ast.Inspect(fd.Body, func(m ast.Node) bool {
				if ta, ok := m.(*ast.TypeAssertExpr); ok && ta.Type != nil {
					if ix, ok := ast.Unparen(ta.X).(*ast.IndexExpr); ok && identObj(info, ix.X) == recv {
						commaOK := false
						switch par := parents[ta].(type) {
						case *ast.AssignStmt:
							commaOK = len(par.Lhs) == 2 && len(par.Rhs) == 1
						case *ast.ValueSpec:
							commaOK = len(par.Names) == 2 && len(par.Values) == 1
						}
						if !commaOK {
							unsafeMethod[f] = types.ExprString(ta)
						}
					}
				}
				return true
			})
		}
	}
	n := 0
	for _, file := range pkg.Syntax {
		for _, d := range file.Decls {
			fd, ok := d.(*ast.FuncDecl)
			if !ok || fd.Body == nil {
				continue
			}
			parents := parentMap(fd.Body)
			ast.Inspect(fd.Body, func(m ast.Node) bool {
				rs, ok := m.(*ast.RangeStmt)
				if !ok || rs.Value == nil {
					return true
				}
				tv, ok := info.Types[rs.X]
				if !ok || tv.Type == nil {
					return true
				}
				sl, ok := tv.Type.Underlying().(*types.Slice)
				if !ok || !isTuple(sl.Elem()) {
					return true
				}
				elem := identObj(info, rs.Value)
				if elem == nil {
					return true
				}
				n++
				key := fmt.Sprintf("batch walked in %s #%d", p.DeclName(fd), n)
				bad := ""
				ast.Inspect(rs.Body, func(q ast.Node) bool {
					switch x := q.(type) {
					case *ast.FuncLit:
						return false // a goroutine of its own per element has its own fate
					case *ast.CallExpr:
						if sel, ok := ast.Unparen(x.Fun).(*ast.SelectorExpr); ok && identObj(info, sel.X) == elem {
							if f := Callee(info, x); f != nil && unsafeMethod[f] != "" {
								bad = elem.Name() + "." + f.Name() + "() does `" + unsafeMethod[f] + "`"
							}
						}
					case *ast.TypeAssertExpr:
						if x.Type == nil {
							return true
						}
						if ix, ok := ast.Unparen(x.X).(*ast.IndexExpr); ok && identObj(info, ix.X) == elem {
							commaOK := false
							if par, ok := parents[x].(*ast.AssignStmt); ok {
								commaOK = len(par.Lhs) == 2 && len(par.Rhs) == 1
							}
							if !commaOK {
								bad = "`" + types.ExprString(x) + "`"
							}
						}
					}
					return true
				})
				r.Check(bad == "", key, rs.Pos(), "no unchecked assertion on a tuple inside the loop", "inside the loop over the batch "+bad+": a tuple of another shape panics, the loop ends there and the elements behind it are dropped")
				return true
			})
		}
	}
	if n == 0 {
		r.Undec("wire batches in rpc/plugins/reverse", 0, "no range over a slice of tuples found")
	}
}

// ---------------------------------------------------------------------------------------------------
// P23 consecutive poll replies reach the callbacks in order

func init() {
	register("P23", "the push consumer hands what it polls to the callbacks in the order it polled it: in rpc/plugins/push the loop that polls the broker (it calls the proxy's message function inside a for) does not start the delivery of a reply with `go` - a goroutine per reply lets a later reply overtake an earlier one whose callback is still busy, so the messages of one topic arrive out of acceptance order ([m1 m0] with a slow callback on m0; C19 promises acceptance order per topic). On the unchanged tree the one such statement (`go p.dispatch(topics)` in Prosumer.message) is a KNOWN FINDING: run-confirmed by two independent seeding agents; not repaired because every repair trades the order against something else the callers may rely on (a single ordered dispatcher makes a slow callback delay the next poll, and with it the heartbeat) - a design decision for the maintainers", 1, ruleP23)
}

func ruleP23(r *Run) {
	p := r.P
	pkg := p.Pkg("rpc/plugins/push")
	if pkg == nil {
		r.Undec("package rpc/plugins/push", 0, "not found")
		return
	}
	info := pkg.TypesInfo
	n := 0
	for _, file := range pkg.Syntax {
		for _, d := range file.Decls {
			fd, ok := d.(*ast.FuncDecl)
			if !ok || fd.Body == nil {
				continue
			}
			ast.Inspect(fd.Body, func(m ast.Node) bool {
				fs, ok := m.(*ast.ForStmt)
				if !ok {
					return true
				}
				// the poll: a call of a function-typed field named message inside the loop
				var reply types.Object
				ast.Inspect(fs.Body, func(q ast.Node) bool {
					if as, ok := q.(*ast.AssignStmt); ok && len(as.Rhs) == 1 {
						if c, ok := ast.Unparen(as.Rhs[0]).(*ast.CallExpr); ok {
							if fv := fieldOf(info, c.Fun); fv != nil && refName(fv.Name()) == "message" {
								reply = identObj(info, as.Lhs[0])
							}
						}
					}
					return true
				})
				if reply == nil {
					return true
				}
				n++
				key := "poll replies delivered in order by " + p.DeclName(fd)
				bad := token.NoPos
				ast.Inspect(fs.Body, func(q ast.Node) bool {
					if g, ok := q.(*ast.GoStmt); ok {
						for _, a := range g.Call.Args {
							if identObj(info, a) == reply {
								bad = g.Pos()
							}
						}
						if fl, ok := ast.Unparen(g.Call.Fun).(*ast.FuncLit); ok && mentionsObj(info, fl.Body, reply) {
							bad = g.Pos()
						}
					}
					return true
				})
				if bad == token.NoPos {
					r.Ok(key, fs.Pos(), "no goroutine per reply")
				} else {
					r.Viol(key, bad, "every reply of the broker is handed to a goroutine of its own: a later reply overtakes an earlier one whose callback is still running, and the messages of a topic reach the subscriber out of acceptance order")
				}
				return false
			})
		}
	}
	if n == 0 {
		r.Undec("poll loop of rpc/plugins/push", 0, "no for loop that polls through the proxy's message function found")
	}
}
