package main

import (
	"bytes"
	"encoding/json"
	"fmt"
	"os"
	"os/exec"
	"path/filepath"
	"sort"
	"strings"
	"sync"
)

// Mutant is one entry of the self-validation corpus (/verif/mutants/*.json): a one-instance
// edit of the repository that still compiles. It is applied IN MEMORY (go/packages Overlay);
// nothing is written under /repo and no scratch copy is made.
type Mutant struct {
	ID     string   `json:"id"`
	Rules  []string `json:"rules"`  // rules to run on the mutated tree
	File   string   `json:"file"`   // path relative to the repo root
	Old    string   `json:"old"`    // text that must occur exactly once in File
	New    string   `json:"new"`    // replacement
	Expect string   `json:"expect"` // "fire" | "silent"
	Rule   string   `json:"rule"`   // for fire: rule that must report ...
	Key    string   `json:"key"`    // ... an obligation whose key contains this
	Why    string   `json:"why"`
	Edits  []struct {
		File string `json:"file"`
		Old  string `json:"old"`
		New  string `json:"new"`
	} `json:"edits,omitempty"` // additional edits (cooperating sites)
}

func loadMutants(dir string) ([]Mutant, error) {
	files, _ := filepath.Glob(filepath.Join(dir, "*.json"))
	sort.Strings(files)
	var out []Mutant
	for _, f := range files {
		b, err := os.ReadFile(f)
		if err != nil {
			return nil, err
		}
		var ms []Mutant
		if err := json.Unmarshal(b, &ms); err != nil {
			return nil, fmt.Errorf("%s: %v", f, err)
		}
		out = append(out, ms...)
	}
	return out, nil
}

func (m *Mutant) overlay(repo string) (map[string][]byte, error) {
	ov := map[string][]byte{}
	apply := func(file, old, nw string) error {
		path := filepath.Join(repo, file)
		src, ok := ov[path]
		if !ok {
			b, err := os.ReadFile(path)
			if err != nil {
				return err
			}
			src = b
		}
		if n := bytes.Count(src, []byte(old)); n == 0 {
			return fmt.Errorf("anchor occurs 0 times in %s", file)
		} else if n != 1 {
			return fmt.Errorf("AMBIGUOUS anchor occurs %d times in %s", n, file)
		}
		ov[path] = bytes.Replace(src, []byte(old), []byte(nw), 1)
		return nil
	}
	if m.File != "" {
		if err := apply(m.File, m.Old, m.New); err != nil {
			return nil, err
		}
	} else if len(m.Edits) == 0 {
		return nil, fmt.Errorf("AMBIGUOUS corpus entry without any edit")
	}
	for _, e := range m.Edits {
		if err := apply(e.File, e.Old, e.New); err != nil {
			return nil, err
		}
	}
	return ov, nil
}

// runMutant (child process): analyse the mutated tree and print non-discharged obligations.
func runMutant(repo, spec string) int {
	var m Mutant
	if err := json.Unmarshal([]byte(spec), &m); err != nil {
		fmt.Println("MUTANT-ERROR bad spec:", err)
		return 2
	}
	ov, err := m.overlay(repo)
	if err != nil {
		if strings.Contains(err.Error(), "occurs 0 times") {
			fmt.Println("MUTANT-SKIP", err)
		} else {
			// an unreadable file, an anchor that is not unique: the corpus entry is broken, not stale
			fmt.Println("MUTANT-NOCOMPILE", err)
		}
		return 0
	}
	p, err := Load(repo, "", ov)
	if err != nil {
		fmt.Println("MUTANT-NOCOMPILE", strings.ReplaceAll(err.Error(), "\n", " "))
		return 0
	}
	r := NewRun(p, "mutant", "quick")
	runRules(r, m.Rules)
	for _, o := range r.Obs {
		if o.st != OK {
			fmt.Printf("MUTANT-OB %s|%s|%s\n", o.Rule, o.Key, o.Status)
		}
	}
	fmt.Println("MUTANT-DONE")
	return 0
}

// runSelfValidation (thorough tier): every corpus entry whose rules serve this property.
func runSelfValidation(repo, verif, property string, names []string, seed int64) *selfValResult {
	res := &selfValResult{}
	dir := filepath.Join(verif, "mutants")
	if _, err := os.Stat(dir); err != nil {
		dir = "/verif/mutants"
	}
	ms, err := loadMutants(dir)
	if err != nil {
		res.Failed = append(res.Failed, "cannot load corpus: "+err.Error())
		return res
	}
	serves := map[string]bool{}
	scoped := map[string]string{}
	for _, n := range names {
		if i := strings.Index(n, "@"); i > 0 {
			scoped[n[:i]] = n[i+1:]
			continue
		}
		serves[n] = true
	}
	var todo []Mutant
	for _, m := range ms {
		use := false
		for _, rn := range m.Rules {
			if serves[rn] {
				use = true
			}
			if sc, ok := scoped[rn]; ok && strings.HasPrefix(m.File, sc+"/") {
				use = true
			}
		}
		if use {
			todo = append(todo, m)
		}
	}
	if len(todo) == 0 {
		return res
	}
	// baseline: non-discharged obligations of those rules on the unmutated tree
	base := map[string]bool{}
	{
		ruleSet := map[string]bool{}
		for _, m := range todo {
			for _, rn := range m.Rules {
				ruleSet[rn] = true
			}
		}
		var rl []string
		for rn := range ruleSet {
			rl = append(rl, rn)
		}
		sort.Strings(rl)
		p, err := Load(repo, "", nil)
		if err != nil {
			res.Failed = append(res.Failed, "baseline load: "+err.Error())
			return res
		}
		r := NewRun(p, "baseline", "quick")
		runRules(r, rl)
		for _, o := range r.Obs {
			if o.st != OK {
				base[o.Rule+"|"+o.Key] = true
			}
		}
	}
	self, _ := os.Executable()
	type out struct {
		m   Mutant
		txt string
		err error
	}
	outs := make([]out, len(todo))
	sem := make(chan struct{}, 6)
	var wg sync.WaitGroup
	for i := range todo {
		wg.Add(1)
		go func(i int) {
			defer wg.Done()
			sem <- struct{}{}
			defer func() { <-sem }()
			spec, _ := json.Marshal(todo[i])
			cmd := exec.Command(self, "-mutant", string(spec), "-repo", repo)
			b, err := cmd.CombinedOutput()
			outs[i] = out{todo[i], string(b), err}
		}(i)
	}
	wg.Wait()
	for _, o := range outs {
		res.Programs++
		m := o.m
		if strings.Contains(o.txt, "MUTANT-SKIP") {
			res.Skipped++
			res.SkippedIDs = append(res.SkippedIDs, m.ID)
			continue
		}
		if strings.Contains(o.txt, "MUTANT-NOCOMPILE") {
			res.Failed = append(res.Failed, m.ID+": mutant does not type-check: "+firstLines(o.txt, 2))
			continue
		}
		if !strings.Contains(o.txt, "MUTANT-DONE") {
			res.Failed = append(res.Failed, fmt.Sprintf("%s: analysis did not complete: %s", m.ID, firstLines(o.txt, 3)))
			continue
		}
		var fresh []string
		for _, ln := range strings.Split(o.txt, "\n") {
			if strings.HasPrefix(ln, "MUTANT-OB ") {
				f := strings.SplitN(strings.TrimPrefix(ln, "MUTANT-OB "), "|", 3)
				if len(f) == 3 && !base[f[0]+"|"+f[1]] {
					fresh = append(fresh, f[0]+"|"+f[1])
				}
			}
		}
		switch m.Expect {
		case "fire":
			hit := false
			for _, f := range fresh {
				if strings.HasPrefix(f, m.Rule+"|") && strings.Contains(f, m.Key) {
					hit = true
				}
			}
			if hit {
				res.Fired++
			} else {
				res.Failed = append(res.Failed, fmt.Sprintf("%s: expected %s to report an instance matching %q, new reports: %v", m.ID, m.Rule, m.Key, fresh))
			}
		case "silent":
			if len(fresh) == 0 {
				res.Silent++
			} else {
				res.Failed = append(res.Failed, fmt.Sprintf("%s: benign variant raised %v", m.ID, fresh))
			}
		default:
			res.Failed = append(res.Failed, m.ID+": bad expect")
		}
	}
	return res
}

func firstLines(s string, n int) string {
	l := strings.Split(strings.TrimSpace(s), "\n")
	if len(l) > n {
		l = l[:n]
	}
	return strings.Join(l, " / ")
}
