package main

import (
	"fmt"
	"go/ast"
	"go/token"
	"go/types"
	"sort"
	"strings"

	"golang.org/x/tools/go/packages"
)

// Rules added after the third round of independent seeding.
//   B7  who may call Encoder.write (C02)
//   T12 decodeError always leaves an error (C06)
//   T13 single-field struct values are boxed before their address is used (C01)
//   V5e loadMore: bytes delivered together with an error are a success (C05) - clause of V5

func init() {
	register("B7", "the reference-blind entry Encoder.write (it writes a value without looking it up in the reference table) is called only from methods named Write - the ValueEncoder.Write contract under which the caller has already dealt with the reference; every other transfer of a nested value goes through encode/Encode, otherwise a shared or cyclic pointer stored in that position is written in full each time", 3, ruleB7)
	register("T12", "Decoder.decodeError, the error sink of every decode routine, leaves the decoder in the error state on every path: each path from entry to exit either found Error already set or assigns it (a path that returns without an error makes an impossible conversion succeed silently with a zero value)", 1, ruleT12)
	register("T13", "a struct value with exactly one serialized field is copied to the heap (toPtr) before its address is taken, and that boxing is not narrowed by a further condition (other than reflect2's own LikePtr): Go keeps every pointer-shaped single-field struct directly in the interface word, so a value that is not boxed is read through a garbage address", 2, ruleT13)
}

func ruleB7(r *Run) {
	p := r.P
	w := p.LookupFunc("io", "Encoder.write")
	if w == nil {
		r.Undec("io.Encoder.write", 0, "not found")
		return
	}
	n := 0
	p.EachFunc(func(pkg *packages.Package, fd *ast.FuncDecl) {
		info := pkg.TypesInfo
		perFn := 0
		ast.Inspect(fd.Body, func(m ast.Node) bool {
			call, ok := m.(*ast.CallExpr)
			if !ok || Callee(info, call) != w {
				return true
			}
			n++
			perFn++
			key := fmt.Sprintf("caller of Encoder.write: %s #%d", p.DeclName(fd), perFn)
			r.Check(fd.Name.Name == "Write" && fd.Recv != nil, key, call.Pos(), "a Write method (reference handled by its caller)", fmt.Sprintf("%s transfers a nested value with Encoder.write, which skips the reference table: a pointer, map or string that occurs twice in that position is written in full each time (decoded as separate copies) and a cycle through it recurses until the stack overflows", p.DeclName(fd)))
			return true
		})
	})
	if n == 0 {
		r.Undec("callers of Encoder.write", 0, "no call of Encoder.write found")
	}
}

type t12State struct{ set bool }

func (s *t12State) Key() string  { return fmt.Sprint(s.set) }
func (s *t12State) Copy() PState { n := *s; return &n }

func ruleT12(r *Run) {
	p := r.P
	fd, pkg := p.DeclOf("io", "Decoder.decodeError")
	key := "io.Decoder.decodeError sets an error on every path"
	if fd == nil {
		r.Undec(key, 0, "not found")
		return
	}
	info := pkg.TypesInfo
	errF := p.LookupField("io", "Decoder", "Error")
	if errF == nil {
		r.Undec(key, fd.Pos(), "Decoder.Error not found")
		return
	}
	isNil := func(e ast.Expr) bool {
		id, ok := ast.Unparen(e).(*ast.Ident)
		return ok && id.Name == "nil"
	}
	var bad []string
	w := &Walk{Info: info}
	w.Event = func(w *Walk, ps PState, n ast.Node) []PState {
		as, ok := n.(*ast.AssignStmt)
		if !ok {
			return nil
		}
		for i, l := range as.Lhs {
			if fieldOf(info, l) == errF && i < len(as.Rhs) && !isNil(as.Rhs[i]) {
				return []PState{&t12State{set: true}}
			}
		}
		return nil
	}
	w.Branch = func(w *Walk, ps PState, cond ast.Expr, val bool) (PState, bool) {
		be, ok := ast.Unparen(cond).(*ast.BinaryExpr)
		if !ok || fieldOf(info, be.X) != errF || !isNil(be.Y) {
			return ps, true
		}
		// Error != nil holds on: (== nil, false) and (!= nil, true)
		if (be.Op == token.EQL && !val) || (be.Op == token.NEQ && val) {
			return &t12State{set: true}, true
		}
		return ps, true
	}
	w.Exit = func(w *Walk, ps PState, kind flowKind, at ast.Node) {
		if kind == fPanic || ps.(*t12State).set {
			return
		}
		where := "the end of the function"
		if at != nil {
			where = p.Rel(at.Pos())
		}
		bad = append(bad, where)
	}
	w.Run(fd.Body, &t12State{})
	if len(w.Undecided) > 0 {
		r.Undec(key, fd.Pos(), strings.Join(w.Undecided, "; "))
		return
	}
	sort.Strings(bad)
	r.Check(len(bad) == 0, key, fd.Pos(), "every exit has Error set", fmt.Sprintf("decodeError can return without an error (exit at %s): the decode routines call it for a wire item their destination cannot hold, so that item is accepted silently and the destination keeps its zero value", strings.Join(bad, ", ")))
}

func ruleT13(r *Run) {
	p := r.P
	pkg := p.Pkg("io")
	if pkg == nil {
		r.Undec("package io", 0, "not found")
		return
	}
	info := pkg.TypesInfo
	toPtr := p.LookupFunc("io", "toPtr")
	if toPtr == nil {
		r.Undec("io.toPtr", 0, "the boxing helper was not found")
		return
	}
	n := 0
	for _, file := range pkg.Syntax {
		for _, d := range file.Decls {
			fd, ok := d.(*ast.FuncDecl)
			if !ok || fd.Body == nil {
				continue
			}
			parents := parentMap(fd.Body)
			ast.Inspect(fd.Body, func(m ast.Node) bool {
				call, ok := m.(*ast.CallExpr)
				if !ok || Callee(info, call) != toPtr {
					return true
				}
				n++
				key := "boxing of single-field struct values in " + p.DeclName(fd)
				var extra []string
				for _, fc := range factsWithSwitch(parents, call) {
					s := types.ExprString(fc.e)
					okFact := false
					ast.Inspect(fc.e, func(k ast.Node) bool {
						if c, ok := k.(*ast.CallExpr); ok {
							switch methodName(c) {
							case "Kind", "LikePtr":
								// of the value's own type (an identifier or TypeOf(v)), not of a field's
								if se, ok := ast.Unparen(c.Fun).(*ast.SelectorExpr); ok {
									switch x := ast.Unparen(se.X).(type) {
									case *ast.Ident:
										okFact = true
									case *ast.CallExpr:
										okFact = strings.HasSuffix(types.ExprString(x.Fun), "TypeOf") || strings.HasSuffix(types.ExprString(x.Fun), "Type2")
									}
								}
							}
						}
						return true
					})
					if be, ok := fc.e.(*ast.BinaryExpr); ok {
						// n == 1 / len(fields) == 1 (also as a switch case); and any other comparison of the field count with a
						// constant that n == 1 satisfies (the negated `n == 0` of an earlier early return narrows nothing)
						isCount := false
						switch cx := ast.Unparen(be.X).(type) {
						case *ast.Ident:
							isCount = true
						case *ast.CallExpr:
							isCount = IsBuiltin(info, cx, "len")
						}
						if c, ok := intConst(info, be.Y); ok && isCount && info.TypeOf(be.X) != nil {
							if b, isB := info.TypeOf(be.X).Underlying().(*types.Basic); isB && b.Info()&types.IsInteger != 0 {
								var holds, known bool
								switch be.Op {
								case token.EQL:
									holds, known = 1 == c, true
								case token.NEQ:
									holds, known = 1 != c, true
								case token.LSS:
									holds, known = 1 < c, true
								case token.LEQ:
									holds, known = 1 <= c, true
								case token.GTR:
									holds, known = 1 > c, true
								case token.GEQ:
									holds, known = 1 >= c, true
								}
								if known && holds != fc.neg {
									okFact = true
								}
							}
						}
					}
					if !okFact {
						extra = append(extra, s)
					}
				}
				// the switch-case form: `switch n { case 1: ... }`
				r.Check(len(extra) == 0, key, call.Pos(), "boxed whenever the value is a struct with one field", fmt.Sprintf("the copy to the heap is skipped unless %s: Go stores every pointer-shaped single-field struct (also one whose field is itself a single-field struct or [1]T around a pointer) directly in the interface word; such a value that is not boxed is taken for the address of the struct and the encoder dereferences garbage", strings.Join(extra, " && ")))
				return true
			})
		}
	}
	if n == 0 {
		r.Undec("boxing sites", 0, "no call of toPtr found")
	}
}

// ---- F3: the short forms of the date/time item drop only components that are proven default ----

func init() {
	register("F3", "the short forms of the date/time item are chosen only when what they leave out is the value the grammar gives it: the date-only form D<date> (defined as 00:00:00.000) where hour, minute, second and nanosecond are all compared equal to zero, the time-only form T<time> (defined as 1970-01-01) where year, month and day are compared equal to 1970, 1, 1 - a dropped conjunct keeps the stream well-formed but makes it denote another instant", 2, ruleF3)
}

func ruleF3(r *Run) {
	p := r.P
	pkg := p.Pkg("io")
	dateF, timeF := p.LookupFunc("io", "Encoder.writeDatePart"), p.LookupFunc("io", "Encoder.writeTimePart")
	if pkg == nil || dateF == nil || timeF == nil {
		r.Undec("io.Encoder.writeDatePart / writeTimePart", 0, "not found")
		return
	}
	info := pkg.TypesInfo
	want := map[string]int64{"hour": 0, "min": 0, "sec": 0, "nsec": 0, "year": 1970, "month": 1, "day": 1}
	direct := map[string]string{"Hour": "hour", "Minute": "min", "Second": "sec", "Nanosecond": "nsec", "Year": "year", "Month": "month", "Day": "day"}
	tuple := map[string][]string{"Clock": {"hour", "min", "sec"}, "Date": {"year", "month", "day"}}
	n := 0
	for _, file := range pkg.Syntax {
		for _, d := range file.Decls {
			fd, ok := d.(*ast.FuncDecl)
			if !ok || fd.Body == nil {
				continue
			}
			var dateCalls, timeCalls []*ast.CallExpr
			ast.Inspect(fd.Body, func(m ast.Node) bool {
				if c, ok := m.(*ast.CallExpr); ok {
					switch Callee(info, c) {
					case dateF:
						dateCalls = append(dateCalls, c)
					case timeF:
						timeCalls = append(timeCalls, c)
					}
				}
				return true
			})
			if len(dateCalls) == 0 || len(timeCalls) == 0 {
				continue // only the function that chooses between the forms
			}
			// which local holds which component
			comp := map[types.Object]string{}
			ast.Inspect(fd.Body, func(m ast.Node) bool {
				as, ok := m.(*ast.AssignStmt)
				if !ok || len(as.Rhs) != 1 {
					return true
				}
				c, ok := ast.Unparen(as.Rhs[0]).(*ast.CallExpr)
				if !ok || !isTimeMethod(info, c) {
					return true
				}
				name := methodName(c)
				if names, ok := tuple[name]; ok && len(as.Lhs) == len(names) {
					for i, l := range as.Lhs {
						if o := identObj(info, l); o != nil {
							comp[o] = names[i]
						}
					}
				} else if cn, ok := direct[name]; ok && len(as.Lhs) == 1 {
					if o := identObj(info, as.Lhs[0]); o != nil {
						comp[o] = cn
					}
				}
				return true
			})
			parents := parentMap(fd.Body)
			blockOf := func(c ast.Node) ast.Node {
				for x := parents[c]; x != nil; x = parents[x] {
					switch x.(type) {
					case *ast.BlockStmt, *ast.CaseClause:
						return x
					}
				}
				return nil
			}
			proven := func(at ast.Node) map[string]bool {
				out := map[string]bool{}
				for _, fc := range factsWithSwitch(parents, at) {
					be, ok := fc.e.(*ast.BinaryExpr)
					if !ok || fc.neg || be.Op != token.EQL {
						continue
					}
					x, y := ast.Unparen(be.X), ast.Unparen(be.Y)
					if info.Types[x].Value != nil {
						x, y = y, x
					}
					k, ok := intConst(info, y)
					if !ok {
						continue
					}
					// int(month) == 1
					if cv, ok := x.(*ast.CallExpr); ok && len(cv.Args) == 1 && info.Types[cv.Fun].IsType() {
						x = ast.Unparen(cv.Args[0])
					}
					cn := ""
					if o := identObj(info, x); o != nil {
						cn = comp[o]
					} else if c, ok := x.(*ast.CallExpr); ok && isTimeMethod(info, c) {
						cn = direct[methodName(c)]
					}
					if cn != "" && want[cn] == k {
						out[cn] = true
					}
				}
				return out
			}
			check := func(calls, others []*ast.CallExpr, form string, need []string, dropped string) {
				for _, c := range calls {
					b := blockOf(c)
					paired := false
					for _, o := range others {
						if blockOf(o) == b {
							paired = true
						}
					}
					if paired {
						continue
					}
					n++
					pr := proven(c)
					var missing []string
					for _, cn := range need {
						if !pr[cn] {
							missing = append(missing, fmt.Sprintf("%s == %d", cn, want[cn]))
						}
					}
					r.Check(len(missing) == 0, form+" short form in "+p.DeclName(fd), c.Pos(), "every dropped component compared with its default", fmt.Sprintf("the %s form is written without %s being established: the grammar defines the missing %s part as its default, so a value that differs there is written as a well-formed item that denotes another instant (an independent reader gets a different time)", form, strings.Join(missing, ", "), dropped))
				}
			}
			check(dateCalls, timeCalls, "date-only", []string{"hour", "min", "sec", "nsec"}, "time")
			check(timeCalls, dateCalls, "time-only", []string{"year", "month", "day"}, "date")
		}
	}
	if n == 0 {
		r.Undec("date/time short forms", 0, "no function choosing between writeDatePart and writeTimePart found")
	}
}

func isTimeMethod(info *types.Info, c *ast.CallExpr) bool {
	se, ok := ast.Unparen(c.Fun).(*ast.SelectorExpr)
	if !ok {
		return false
	}
	t := info.TypeOf(se.X)
	if t == nil {
		return false
	}
	if pt, ok := t.(*types.Pointer); ok {
		t = pt.Elem()
	}
	nt, ok := t.(*types.Named)
	return ok && nt.Obj().Name() == "Time" && nt.Obj().Pkg() != nil && nt.Obj().Pkg().Path() == "time"
}

// ---- W5 gate: the recover around a wire-keyed insertion covers every key type that can hold an interface ----

// recoverGate decides whether the deferred recover d in fd is installed for every key type whose
// values can be unhashable (kinds Interface, Struct, Array). ok=false comes with the reason.
func (p *Prog) recoverGate(info *types.Info, fd *ast.FuncDecl, d *ast.DeferStmt) (ok bool, why string) {
	parents := parentMap(fd.Body)
	needKinds := []string{"Interface", "Struct", "Array"}
	kindsOf := func(list []ast.Expr) map[string]bool {
		out := map[string]bool{}
		for _, e := range list {
			if se, ok := ast.Unparen(e).(*ast.SelectorExpr); ok {
				out[se.Sel.Name] = true
			}
		}
		return out
	}
	isKindCall := func(e ast.Expr) bool {
		c, ok := ast.Unparen(e).(*ast.CallExpr)
		return ok && methodName(c) == "Kind"
	}
	var child ast.Node = d
	for x := parents[d]; x != nil; child, x = x, parents[x] {
		switch x := x.(type) {
		case *ast.CaseClause:
			sw, isSw := parents[parents[x]].(*ast.SwitchStmt)
			if !isSw || sw.Tag == nil || !isKindCall(sw.Tag) {
				return false, "installed under a switch the analysis cannot relate to the key type's kind"
			}
			have := kindsOf(x.List)
			if x.List == nil { // default: every kind not listed elsewhere
				have = map[string]bool{"Interface": true, "Struct": true, "Array": true}
				for _, cs := range sw.Body.List {
					for k := range kindsOf(cs.(*ast.CaseClause).List) {
						delete(have, k)
					}
				}
			}
			for _, k := range needKinds {
				if !have[k] {
					return false, "not installed for key types of kind " + k + ", whose values can hold an unhashable dynamic value"
				}
			}
		case *ast.IfStmt:
			if child != ast.Node(x.Body) {
				return false, "installed on the else side of a condition"
			}
			var conj []ast.Expr
			var split func(e ast.Expr)
			split = func(e ast.Expr) {
				e = ast.Unparen(e)
				if b, ok := e.(*ast.BinaryExpr); ok && b.Op == token.LAND {
					split(b.X)
					split(b.Y)
					return
				}
				conj = append(conj, e)
			}
			split(x.Cond)
			for _, c := range conj {
				if ok, why := p.gateCovers(info, fd, c, 0); !ok {
					return false, why
				}
			}
		}
	}
	return true, ""
}

// gateCovers: is the boolean expression c true for every key type of kind Interface, Struct or Array?
func (p *Prog) gateCovers(info *types.Info, fd *ast.FuncDecl, c ast.Expr, depth int) (bool, string) {
	c = ast.Unparen(c)
	if depth > 3 {
		return false, "gate too deep to follow"
	}
	if tv, ok := info.Types[c]; ok && tv.Value != nil && tv.Value.String() == "true" {
		return true, ""
	}
	switch x := c.(type) {
	case *ast.BinaryExpr:
		if x.Op == token.LOR {
			// k == Interface || k == Struct || k == Array
			have := map[string]bool{}
			var walk func(e ast.Expr) bool
			walk = func(e ast.Expr) bool {
				e = ast.Unparen(e)
				b, ok := e.(*ast.BinaryExpr)
				if !ok {
					return false
				}
				if b.Op == token.LOR {
					return walk(b.X) && walk(b.Y)
				}
				if b.Op == token.EQL {
					if se, ok := ast.Unparen(b.Y).(*ast.SelectorExpr); ok {
						have[se.Sel.Name] = true
						return true
					}
				}
				return false
			}
			if walk(x) {
				for _, k := range []string{"Interface", "Struct", "Array"} {
					if !have[k] {
						return false, "not installed for key types of kind " + k
					}
				}
				return true, ""
			}
		}
	case *ast.CallExpr:
		f := Callee(info, x)
		if f == nil || !p.InRepo(f) {
			break
		}
		hd := p.Decl(f)
		if hd == nil || hd.Body == nil {
			break
		}
		hinfo := p.PkgOfDecl(hd).TypesInfo
		return p.kindPredicateCovers(hinfo, f, hd)
	case *ast.Ident, *ast.SelectorExpr:
		// a boolean field or local: every value it is given must cover
		var obj types.Object
		if id, ok := x.(*ast.Ident); ok {
			obj = info.Uses[id]
		} else {
			obj = fieldOf(info, x)
		}
		v, ok := obj.(*types.Var)
		if !ok {
			break
		}
		vals := p.valuesGiven(v)
		if len(vals) == 0 {
			return false, "the flag " + v.Name() + " that gates the recover is never set"
		}
		for _, gv := range vals {
			if ok, why := p.gateCovers(gv.info, gv.fd, gv.e, depth+1); !ok {
				return false, "gated by " + v.Name() + ": " + why
			}
		}
		return true, ""
	}
	return false, "gated by `" + types.ExprString(c) + "`, which the analysis cannot show to hold for every key type of kind Interface, Struct or Array"
}

type givenVal struct {
	e    ast.Expr
	info *types.Info
	fd   *ast.FuncDecl
}

// valuesGiven: the expressions assigned to a variable or struct field anywhere in its package
// (assignments, definitions, keyed and positional composite literals).
func (p *Prog) valuesGiven(v *types.Var) []givenVal {
	var out []givenVal
	p.EachFunc(func(pkg *packages.Package, fd *ast.FuncDecl) {
		if pkg.Types != v.Pkg() {
			return
		}
		info := pkg.TypesInfo
		ast.Inspect(fd.Body, func(n ast.Node) bool {
			switch x := n.(type) {
			case *ast.AssignStmt:
				if len(x.Lhs) != len(x.Rhs) {
					return true
				}
				for i, l := range x.Lhs {
					var o types.Object
					if id, ok := ast.Unparen(l).(*ast.Ident); ok {
						o = info.ObjectOf(id)
					} else {
						o = fieldOf(info, l)
					}
					if o == v {
						out = append(out, givenVal{x.Rhs[i], info, fd})
					}
				}
			case *ast.CompositeLit:
				if !v.IsField() {
					return true
				}
				t := info.TypeOf(x)
				if t == nil {
					return true
				}
				st, ok := t.Underlying().(*types.Struct)
				if !ok {
					return true
				}
				idx := -1
				for i := 0; i < st.NumFields(); i++ {
					if st.Field(i) == v {
						idx = i
					}
				}
				if idx < 0 {
					return true
				}
				keyed := false
				for i, el := range x.Elts {
					if kv, ok := el.(*ast.KeyValueExpr); ok {
						keyed = true
						if id, ok := kv.Key.(*ast.Ident); ok && info.Uses[id] == v {
							out = append(out, givenVal{kv.Value, info, fd})
						}
					} else if i == idx {
						out = append(out, givenVal{el, info, fd})
					}
				}
				_ = keyed
			}
			return true
		})
	})
	return out
}

// kindPredicateCovers: a predicate over reflect types written as a switch on t.Kind(): it must
// answer true for Interface, and for Struct and Array either true or by recursion into itself
// (a struct or array is unhashable when anything nested in it is).
func (p *Prog) kindPredicateCovers(info *types.Info, f *types.Func, hd *ast.FuncDecl) (bool, string) {
	var sw *ast.SwitchStmt
	ast.Inspect(hd.Body, func(n ast.Node) bool {
		if s, ok := n.(*ast.SwitchStmt); ok && sw == nil && s.Tag != nil {
			if c, ok := ast.Unparen(s.Tag).(*ast.CallExpr); ok && methodName(c) == "Kind" {
				sw = s
			}
		}
		return true
	})
	name := f.Name()
	if sw == nil {
		return false, "the predicate " + name + " that gates the recover is not a switch over the type's kind; the analysis cannot show that it holds for every key type that can contain an interface"
	}
	returnsTrue := func(body []ast.Stmt) bool {
		for _, s := range body {
			if rs, ok := s.(*ast.ReturnStmt); ok && len(rs.Results) == 1 {
				if tv, ok := info.Types[rs.Results[0]]; ok && tv.Value != nil && tv.Value.String() == "true" {
					return true
				}
			}
		}
		return false
	}
	recurses := func(body []ast.Stmt) bool {
		found := false
		for _, s := range body {
			ast.Inspect(s, func(n ast.Node) bool {
				if c, ok := n.(*ast.CallExpr); ok && Callee(info, c) == f {
					found = true
				}
				return true
			})
		}
		return found
	}
	for _, k := range []string{"Interface", "Struct", "Array"} {
		var clause *ast.CaseClause
		var def *ast.CaseClause
		for _, cs := range sw.Body.List {
			cc := cs.(*ast.CaseClause)
			if cc.List == nil {
				def = cc
			}
			for _, e := range cc.List {
				if se, ok := ast.Unparen(e).(*ast.SelectorExpr); ok && se.Sel.Name == k {
					clause = cc
				}
			}
		}
		if clause == nil {
			clause = def
		}
		if clause == nil {
			return false, "the predicate " + name + " answers false for key types of kind " + k
		}
		if returnsTrue(clause.Body) {
			continue
		}
		if k != "Interface" && recurses(clause.Body) {
			continue
		}
		return false, fmt.Sprintf("the predicate %s neither answers true nor recurses into itself for kind %s: a key type that holds an interface deeper inside (an [N]interface{} field, a nested struct) gets no recover", name, k)
	}
	return true, ""
}

// ---- V9: the string reader asks for more input only while the string is incomplete ----

func init() {
	register("V9", "Decoder.readStringAsBytes refills the read window (loadMore) inside its loop only on a path on which the remaining unit count has been compared with zero: a string whose last character ends exactly at the end of the window is complete, and asking for more at the end of the input reports io.EOF for a value that decoded correctly (Unmarshal(Marshal(\"a\")) returned an error)", 1, ruleV9)
}

func ruleV9(r *Run) {
	p := r.P
	fd, pkg := p.DeclOf("io", "Decoder.readStringAsBytes")
	lm := p.LookupFunc("io", "Decoder.loadMore")
	if fd == nil || lm == nil {
		r.Undec("io.Decoder.readStringAsBytes / loadMore", 0, "not found")
		return
	}
	info := pkg.TypesInfo
	params := paramsOf(info, fd.Type)
	if len(params) == 0 {
		r.Undec("io.Decoder.readStringAsBytes", fd.Pos(), "no count parameter")
		return
	}
	cnt := params[0]
	parents := parentMap(fd.Body)
	n := 0
	ast.Inspect(fd.Body, func(m ast.Node) bool {
		c, ok := m.(*ast.CallExpr)
		if !ok || Callee(info, c) != lm {
			return true
		}
		inLoop := false
		for x := parents[c]; x != nil; x = parents[x] {
			if _, ok := x.(*ast.ForStmt); ok {
				inLoop = true
			}
		}
		if !inLoop {
			return true
		}
		n++
		key := fmt.Sprintf("refill in the string reader #%d", n)
		seen := false
		// the outermost loop around the call: the count changes in it, a comparison made before it says nothing
		var outer ast.Node
		for x := parents[c]; x != nil; x = parents[x] {
			if _, ok := x.(*ast.ForStmt); ok {
				outer = x
			}
		}
		for _, fc := range factsWithSwitch(parents, c) {
			if fc.e.Pos() < outer.Pos() {
				continue
			}
			ast.Inspect(fc.e, func(x ast.Node) bool {
				be, ok := x.(*ast.BinaryExpr)
				if !ok {
					return true
				}
				switch be.Op {
				case token.EQL, token.NEQ, token.GTR, token.LEQ, token.LSS, token.GEQ:
					if identObj(info, be.X) == cnt {
						if k, ok := intConst(info, be.Y); ok && (k == 0 || k == 1) {
							seen = true
						}
					}
				}
				return true
			})
		}
		r.Check(seen, key, c.Pos(), "only after the remaining count was compared with zero", "the window is refilled although nothing on this path has asked whether units of the string remain: when the last character ends exactly at the end of the window the string is complete, and at the end of the input loadMore records io.EOF - a top-level one-character string, or any string that ends the stream without a closing quote in the window, decodes correctly but reports an error")
		return true
	})
	if n == 0 {
		r.Undec("refill in the string reader", fd.Pos(), "no loadMore call inside the loop of readStringAsBytes")
	}
}
