package main

import (
	"encoding/json"
	"fmt"
	"go/ast"
	"go/token"
	"os"
	"path/filepath"
	"sort"
	"strings"
	"time"
)

type Status int

const (
	OK Status = iota
	VIOL
	UNDEC
)

func (s Status) String() string { return [...]string{"discharged", "violated", "undecided"}[s] }

// Ob is one obligation: a rule applied to one instance of a construct in the source.
// Key never contains a line number, so moving code does not change it.
type Ob struct {
	Rule   string   `json:"rule"`
	Key    string   `json:"key"`
	Where  string   `json:"where"` // file:line today (informational)
	Status string   `json:"status"`
	Msg    string   `json:"msg,omitempty"`
	Trace  []string `json:"trace,omitempty"`
	st     Status
}

type RuleStat struct {
	Rule       string `json:"rule"`
	Doc        string `json:"doc"`
	Instances  int    `json:"instances"`
	Floor      int    `json:"floor"`
	Violated   int    `json:"violated"`
	Undecided  int    `json:"undecided"`
	Discharged int    `json:"discharged"`
}

// Run collects the obligations of one invocation.
type Run struct {
	P        *Prog
	Property string
	Tier     string
	Obs      []*Ob
	cur      string // current rule
	Assume   map[string]bool
	Extra    map[string]interface{}
	seen     map[string]bool
}

func NewRun(p *Prog, property, tier string) *Run {
	curProg = p
	autoExpanders = map[ast.Node]func(e ast.Expr) ast.Expr{}
	p.resolveAliases()
	factCallExpand = func(call *ast.CallExpr, val bool) []condFact {
		info := p.InfoAt(call.Pos())
		if info == nil {
			return nil
		}
		return p.expandBoolFact(info, call, val)
	}

	run := &Run{P: p, Property: property, Tier: tier, Assume: map[string]bool{}, Extra: map[string]interface{}{}, seen: map[string]bool{}}
	if len(p.Inlined) > 0 {
		run.Extra["inlined_helpers"] = p.Inlined
	}
	if len(p.Renamed) > 0 {
		run.Extra["canonicalised_renames"] = p.Renamed
	}
	return run
}

func (r *Run) add(st Status, key string, pos token.Pos, msg string, trace []string) {
	where := ""
	if pos.IsValid() {
		where = r.P.Rel(pos)
	}
	k := r.cur + "|" + key
	if r.seen[k] {
		// same construct reported twice on different paths: keep the worst verdict
		for _, o := range r.Obs {
			if o.Rule == r.cur && o.Key == key {
				if st > o.st {
					o.st, o.Status, o.Msg, o.Trace, o.Where = st, st.String(), msg, trace, where
				}
				return
			}
		}
	}
	r.seen[k] = true
	r.Obs = append(r.Obs, &Ob{Rule: r.cur, Key: key, Where: where, Status: st.String(), Msg: msg, Trace: trace, st: st})
}

func (r *Run) Ok(key string, pos token.Pos, msg string)   { r.add(OK, key, pos, msg, nil) }
func (r *Run) Viol(key string, pos token.Pos, msg string) { r.add(VIOL, key, pos, msg, nil) }
func (r *Run) ViolT(key string, pos token.Pos, msg string, trace []string) {
	r.add(VIOL, key, pos, msg, trace)
}
func (r *Run) Undec(key string, pos token.Pos, msg string) { r.add(UNDEC, key, pos, msg, nil) }
func (r *Run) Check(cond bool, key string, pos token.Pos, okmsg, badmsg string) {
	if cond {
		r.Ok(key, pos, okmsg)
	} else {
		r.Viol(key, pos, badmsg)
	}
}
func (r *Run) Assumption(s string) { r.Assume[s] = true }

// ---------------------------------------------------------------------------------
// known findings

type Known struct {
	Property string `json:"property"`
	Rule     string `json:"rule"`
	Key      string `json:"key"`
	What     string `json:"what"`
	Status   string `json:"status"` // "known" | "fixed"
	Commit   string `json:"commit,omitempty"`
}

func loadKnown(path string) ([]Known, error) {
	b, err := os.ReadFile(path)
	if err != nil {
		if os.IsNotExist(err) {
			return nil, nil
		}
		return nil, err
	}
	var f struct {
		Findings []Known `json:"findings"`
	}
	if err := json.Unmarshal(b, &f); err != nil {
		return nil, fmt.Errorf("%s: %v", path, err)
	}
	return f.Findings, nil
}

// ---------------------------------------------------------------------------------
// finishing a run: verdict lines, replay files, evidence

type ruleInfo struct {
	Name  string
	Doc   string
	Floor int
	Fn    func(r *Run)
	// Thorough is an optional deeper variant run in addition in the thorough tier.
	Thorough func(r *Run)
}

func (r *Run) Finish(verifDir string, rules []*ruleInfo, started time.Time, seed int64, extraPrograms int, selfval *selfValResult) int {
	known, err := loadKnown(filepath.Join(verifDir, "known_findings.json"))
	if err != nil {
		fmt.Printf("BROKEN: cannot read known_findings.json: %v\n", err)
		return 2
	}
	knownSet := map[string]Known{}
	for _, k := range known {
		if k.Status == "known" {
			knownSet[k.Rule+"|"+k.Key] = k
		}
	}
	stats := map[string]*RuleStat{}
	var order []string
	for _, ri := range rules {
		stats[ri.Name] = &RuleStat{Rule: ri.Name, Doc: ri.Doc, Floor: ri.Floor}
		order = append(order, ri.Name)
	}
	sort.SliceStable(r.Obs, func(i, j int) bool {
		if r.Obs[i].Rule != r.Obs[j].Rule {
			return r.Obs[i].Rule < r.Obs[j].Rule
		}
		return r.Obs[i].Key < r.Obs[j].Key
	})
	var bad []*Ob
	nKnown := 0
	usedKnown := map[string]bool{}
	discharged := 0
	for _, o := range r.Obs {
		s := stats[o.Rule]
		if s == nil {
			s = &RuleStat{Rule: o.Rule}
			stats[o.Rule] = s
			order = append(order, o.Rule)
		}
		s.Instances++
		switch o.st {
		case OK:
			s.Discharged++
			discharged++
		case VIOL, UNDEC:
			if o.st == VIOL {
				s.Violated++
			} else {
				s.Undecided++
			}
			if k, ok := knownSet[o.Rule+"|"+o.Key]; ok && o.st == VIOL {
				nKnown++
				usedKnown[o.Rule+"|"+o.Key] = true
				o.Status = "known-finding"
				fmt.Printf("KNOWN-FINDING: property=%s %s %s (%s) %s\n", r.Property, o.Rule, o.Key, o.Where, k.What)
				continue
			}
			bad = append(bad, o)
		}
	}
	// instance floors: a rule that matched fewer instances than were confirmed by hand
	// has lost sight of its subject and must not pass vacuously.
	for _, ri := range rules {
		s := stats[ri.Name]
		if s.Instances < ri.Floor {
			o := &Ob{Rule: ri.Name, Key: "instance-floor", Status: UNDEC.String(), st: UNDEC,
				Msg: fmt.Sprintf("rule %s matched %d instances, fewer than the %d confirmed by hand on the reference tree: the rule no longer sees its subject (refactored or removed?) and cannot decide", ri.Name, s.Instances, ri.Floor)}
			bad = append(bad, o)
			r.Obs = append(r.Obs, o)
			s.Undecided++
		}
	}
	vdir := filepath.Join(verifDir, "evidence", r.Property+".violations")
	os.RemoveAll(vdir)
	for i, o := range bad {
		os.MkdirAll(vdir, 0o755)
		path := filepath.Join(vdir, fmt.Sprintf("%d.json", i+1))
		rep := map[string]interface{}{
			"property": r.Property, "rule": o.Rule, "key": o.Key, "where": o.Where, "status": o.Status,
			"message": o.Msg, "trace": o.Trace,
			"rerun": fmt.Sprintf("/verif/bin/hpcheck -property %s -tier %s -only %s", r.Property, r.Tier, o.Rule),
		}
		b, _ := json.MarshalIndent(rep, "", " ")
		os.WriteFile(path, b, 0o644)
		fmt.Printf("%s: [%s %s] %s: %s\n", o.Where, o.Rule, o.Status, o.Key, o.Msg)
		for _, t := range o.Trace {
			fmt.Printf("      %s\n", t)
		}
		fmt.Printf("VIOLATION property=%s replay=%s\n", r.Property, path)
	}

	// evidence
	var rs []*RuleStat
	for _, n := range order {
		rs = append(rs, stats[n])
	}
	var samples []interface{}
	perRule := map[string]int{}
	for _, o := range r.Obs {
		lim := 3
		if o.st != OK {
			lim = 50
		}
		if perRule[o.Rule+o.Status] < lim {
			perRule[o.Rule+o.Status]++
			samples = append(samples, o)
		}
	}
	assume := []string{"the Go toolchain's parser and type checker (go/packages, go/types) resolve the program as the compiler does; third-party packages (reflect2, cmap, fasthttp, websocket, net/http) behave as documented and are not analysed",
		"guard facts (conditions that dominate a site) are collected syntactically and are not invalidated by an assignment to a variable they mention between the guard and the site; rules for which that matters accept only facts established after the last such assignment (V9) or use the path engine (walk.go) instead"}
	for a := range r.Assume {
		assume = append(assume, a)
	}
	sort.Strings(assume)
	var ruleNames []string
	for _, ri := range rules {
		ruleNames = append(ruleNames, ri.Name)
	}
	cov := map[string]interface{}{
		"explanation": fmt.Sprintf("Static analysis of /repo's current working tree (go/packages + go/types%s): %d packages, %d function declarations parsed and type-checked; rules %s enumerated %d instances of their constructs from the source and decided one obligation per instance (discharged / violated / undecided; undecided fails). Only structural necessary conditions of the property are decided, not the behaviour itself; see DESIGN.md section for %s.",
			map[bool]string{true: " + go/ssa", false: ""}[r.P.ssaProg != nil], len(r.P.Pkgs), r.P.nFuncs, strings.Join(ruleNames, ","), len(r.Obs), r.Property),
		"obligations":    len(r.Obs),
		"discharged":     discharged,
		"known_findings": nKnown,
		"unsuppressed":   len(bad),
		"rules":          rs,
		"packages":       len(r.P.Pkgs),
		"functions":      r.P.nFuncs,
		"goarch":         r.P.GOARCH,
		"samples":        samples,
		"checker_cmd":    fmt.Sprintf("/verif/bin/hpcheck -property %s -tier %s", r.Property, r.Tier),
		"trusted_base":   []string{"go/types", "go/ssa (x/tools v0.29.0)", "Go language specification (recover, defer, memory model)", "Hprose serialization specification (tags, referable items)"},
		"exhaustive":     false,
	}
	for k, v := range r.Extra {
		cov[k] = v
	}
	if selfval != nil {
		cov["programs"] = selfval.Programs
		cov["selfvalidation"] = selfval
	}
	ev := map[string]interface{}{
		"property_id": r.Property,
		"tier":        r.Tier,
		"seed":        seed,
		"level":       "other",
		"coverage":    cov,
		"assumptions": assume,
		"wall_s":      time.Since(started).Seconds(),
		"violations":  len(bad),
	}
	b, _ := json.MarshalIndent(ev, "", " ")
	os.MkdirAll(filepath.Join(verifDir, "evidence"), 0o755)
	if err := os.WriteFile(filepath.Join(verifDir, "evidence", r.Property+".json"), b, 0o644); err != nil {
		fmt.Printf("BROKEN: cannot write evidence: %v\n", err)
		return 2
	}
	fmt.Printf("%s tier=%s: %d obligations, %d discharged, %d known findings, %d unsuppressed; rules:", r.Property, r.Tier, len(r.Obs), discharged, nKnown, len(bad))
	for _, s := range rs {
		fmt.Printf(" %s=%d/%d", s.Rule, s.Discharged, s.Instances)
	}
	fmt.Println()
	if len(bad) > 0 {
		return 1
	}
	return 0
}

type selfValResult struct {
	Programs   int      `json:"programs"`
	Fired      int      `json:"mutants_fired"`
	Silent     int      `json:"benign_silent"`
	Skipped    int      `json:"skipped_anchor_missing"`
	SkippedIDs []string `json:"skipped_ids,omitempty"`
	Failed     []string `json:"failed,omitempty"`
}
