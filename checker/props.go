package main

// which rules serve which property (DESIGN.md section 4)
func init() {
	serve("C01", "T1", "T2")
	serve("CXX", "T4", "T5", "T6")
	serve("CB", "B1", "B2", "T1", "T2", "T4", "T5", "T6")
	serve("C06", "T1", "T2")
}
