package main

// which rules serve which property (DESIGN.md section 4)
func init() {
	serve("C01", "T1", "T2")
	serve("C06", "T1", "T2")
}
