package main

// which rules serve which property (DESIGN.md section 4)
func init() {
	serve("C01", "T1", "T2", "T3", "T6", "T8", "T9", "T10", "T11", "B1", "B2", "B3", "B3b")
	serve("C02", "B1", "B1n", "B2", "B3", "B3b", "B4", "B6")
	serve("C03", "F1", "F2", "T6", "T9", "B4", "B3b", "G6r", "L1@io")
	serve("C04", "W1", "W2", "W2b", "W3", "V6", "T11", "W5", "W6", "W7", "W8", "W2b", "G15", "G16", "G17", "S7", "S8", "G18", "G19", "G20", "G7r", "P8", "V7", "V8", "L8", "L9", "T5", "T11")
	serve("C05", "V2", "V1", "V4", "V5", "V7")
	serve("C07", "B6", "B6m", "G5", "G6", "G6r", "B2", "B3")
	serve("C08", "G4", "G8", "G12", "G18", "G19", "G6", "R4", "B6", "B6m")
	serve("C09", "L1", "L2", "P3", "P3c", "L6", "S4", "G7", "G7r", "G16", "P8", "L8")
	serve("C10", "P3", "P3w", "P4", "P5", "P7", "L1", "L8", "G15", "G16")
	serve("C11", "R1", "R2", "R3", "R4", "P1", "P2", "G17")
	serve("C12", "S2", "S3", "S4", "S6", "S7", "S8", "V3")
	serve("C13", "S1", "S5", "S7")
	serve("C14", "L4", "L1", "L5", "L8", "G6", "G6r", "V1", "V7", "V8")
	serve("C15", "L1", "L8", "L9", "G3", "G13", "L7")
	serve("C16", "G1", "G1b", "G9", "G10", "G10b", "R4")
	serve("C17", "P1", "L2", "L3", "G11", "G20")
	serve("C18", "L1", "L2", "L6", "P2", "R4", "G10", "G14", "G17", "L8")
	serve("C19", "P3", "P6", "L1", "L6", "L8")
	serve("C20", "G2", "R4", "L2", "L3")
	serve("C06", "T1", "T2", "T3", "T4", "T5", "T8", "T10", "B2", "B3", "V1")
}

func init() {
	// pseudo-property used only to validate the corpus in one run
	serve("ALL", "T1", "T2", "T3", "T4", "T5", "T6", "T8", "T9", "B1", "B1n", "B2", "B3", "B3b", "B4", "B6", "B6m", "F1", "F2", "G1", "G2", "G3", "G4", "G5", "G6", "G6r", "G7", "G8", "G9", "G10", "G11", "G12", "G13", "G14", "G1b", "G10b", "P7", "V5", "T10", "W3", "V6",
		"L1", "L2", "L3", "L4", "L5", "L6", "L7", "P1", "P2", "P3", "P3c", "P3w", "P4", "P5", "P6", "R1", "R2", "R3", "R4", "S1", "S2", "S3", "S4", "S5", "S6", "V1", "V2", "V3", "V4", "W1", "W2")
}
