package main

// which rules serve which property (DESIGN.md section 4)
func init() {
	serve("C01", "T1", "T2", "T3", "T6", "T8")
	serve("C02", "B1", "B1n", "B2", "B3", "B4")
	serve("C03", "F1", "F2", "T6", "B4")
	serve("CXX", "T4", "T5", "T6")
	serve("CL", "L1", "L2", "L3", "L4")
	serve("CB", "T8", "T3", "F1", "F2", "B1", "B2", "B3", "B4", "B1n", "T1", "T2", "T4", "T5", "T6")
	serve("C06", "T1", "T2", "T3", "T4", "T5")
}
