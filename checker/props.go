package main

// which rules serve which property (DESIGN.md section 4)
func init() {
	serve("C01", "T1", "T2", "T3", "T6", "T8", "B3b")
	serve("C02", "B1", "B1n", "B2", "B3", "B3b", "B4")
	serve("C03", "F1", "F2", "T6", "B4", "B3b", "G6r")
	serve("CXX", "T4", "T5", "T6")
	serve("CG", "G6", "G6r", "B3b")
	serve("C11", "R1", "R2", "R4")
	serve("CR", "R1", "R2", "R4")
	serve("CL", "L1", "L2", "L3", "L4")
	serve("CB", "T8", "T3", "F1", "F2", "B1", "B2", "B3", "B4", "B1n", "T1", "T2", "T4", "T5", "T6")
	serve("C06", "T1", "T2", "T3", "T4", "T5", "B2", "B3")
}
