package main

import (
	"sort"
	"strings"
)

// which rules serve which property (DESIGN.md section I.4)
func init() {
	serve("C01", "T1", "T2", "T3", "T6", "T8", "T9", "T10", "T11", "T13", "B1", "B2", "B3", "B3b", "G6", "U1", "V9", "B8", "F1", "F2", "F3", "T14", "F4", "U4", "V10", "F5", "F6", "T17", "T18", "F7", "U5", "U6", "T19")
	serve("C02", "B1", "B1n", "B2", "B3", "B3b", "B4", "B6", "B7", "G6", "T8", "U2", "B8", "T1", "T2", "U3", "W15", "T18", "U6", "G48")
	serve("C03", "F1", "F2", "F3", "T6", "T9", "B4", "B3b", "G6r", "L1@io", "G6", "F4", "F5", "F6", "T1", "T2", "T18", "U6", "T19")
	serve("C04", "W1", "W2", "W2b", "W3", "W5", "W6", "W7", "W8", "W9", "W10", "V6", "T5", "T11", "U1", "U2", "W12", "W13", "U3", "U4", "W14", "W15", "W16", "W17", "T17", "L14", "L4", "U5")
	serve("C05", "V2", "V1", "V4", "V5", "V7", "V9", "V10", "V6", "V11", "G45")
	serve("C06", "T1", "T2", "T3", "T4", "T5", "T8", "T10", "T12", "B2", "B3", "V1", "G6", "T14", "U4", "T15", "T16", "T17", "U5", "T19", "G45")
	serve("C07", "B6", "B6m", "G5", "G6", "G6r", "B2", "B3", "T8", "W9", "W10", "U1", "T1", "T2", "T3", "T6", "T9", "T10", "T11", "T13", "F1", "F2", "F3", "F4", "B1", "B3b", "B4", "V9", "B8", "T14", "U4", "F5", "F6", "T17", "T18", "F7", "U5", "U6", "T19", "G45")
	serve("C08", "G4", "G8", "G12", "G18", "G19", "G6", "R4", "B6", "B6m", "G27", "G16", "G33", "G34", "S2", "S3", "S4", "S9", "S10", "T1", "T2", "T3", "S12", "P16", "G39", "B1", "B2", "B3", "B3b", "G44", "G46", "S14", "G47")
	serve("C09", "L1", "L2", "L8", "P3", "P3c", "P8", "L6", "S4", "G7", "G7r", "G16", "P12", "L11", "G12", "P16", "P17", "P19", "G42", "G46", "S6", "S2")
	serve("C10", "P3", "P3w", "P4", "P5", "P7", "L1", "L8", "G15", "G16", "G21", "P12", "G9", "P1", "P2", "P17", "P18", "P19", "L13", "G2", "S15")
	serve("C11", "R1", "R2", "R3", "R4", "P1", "P2", "G17", "P11", "W5", "P8", "R5", "P7", "W13", "W14", "P16", "W15", "W16", "S6", "S15", "W1", "R6")
	serve("C12", "S2", "S3", "S4", "S6", "S7", "S8", "V3", "G16", "S9", "S10", "S12", "S13", "S14", "P3", "P3c")
	serve("C13", "S1", "S5", "S7", "S4", "S11", "P16", "S13", "S15")
	serve("C14", "L4", "L1", "L5", "L8", "G6", "G6r", "V1", "V7", "V8", "L10", "L11", "L12", "U2", "B6", "B3", "P20", "L14", "G48")
	serve("C15", "L1", "L8", "L9", "G3", "G13", "L7", "G22", "G23", "R4", "G31", "G38", "G41", "G42", "G40")
	serve("C16", "G1", "G1b", "G9", "G10", "G10b", "R4", "G25", "G26", "G3", "G13", "G22", "G23", "G35", "P18", "G40", "G38", "G41", "G44")
	serve("C17", "P1", "L2", "L3", "G11", "G20", "G24", "L12", "G3", "G13", "G22", "G23", "G38", "G40", "G41")
	serve("C18", "L1", "L2", "L6", "L8", "P2", "R4", "G10", "G14", "G17", "L10", "G25", "G29", "G30", "G3", "G13", "G22", "G23", "G37", "G38", "G40", "G41")
	serve("C19", "P3", "P6", "P9", "P10", "G21", "L1", "L6", "L8", "P12", "P13", "G3", "G13", "G22", "G23", "G36", "P14", "P15", "G38", "G40", "G41", "G46", "P21", "T8")
	serve("C20", "G2", "R4", "L2", "L3", "L10", "G32", "G3", "G13", "G22", "G23", "L12", "G43", "G33", "G38", "G40", "G41")
}

func init() {
	// pseudo-property used only to validate the whole corpus in one run: every rule that serves
	// some property, unscoped
	seen := map[string]bool{}
	for p, names := range propRules {
		if p == "ALL" {
			continue
		}
		for _, n := range names {
			if i := strings.Index(n, "@"); i > 0 {
				n = n[:i]
			}
			seen[n] = true
		}
	}
	var all []string
	for n := range seen {
		all = append(all, n)
	}
	sort.Strings(all)
	serve("ALL", all...)
}
