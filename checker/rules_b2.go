package main

import (
	"fmt"
	"go/ast"
	"go/token"
	"go/types"
	"sort"
	"strings"

	"golang.org/x/tools/go/packages"
)

// B2: decoder reference balance per referable clause.
//
// Every clause that consumes a referable head tag (case/== on s b g a m o D T) must, on every
// path from the clause to the function's exit, either register exactly one reference itself or
// hand the SAME tag on to exactly one other dispatcher and register none.

func init() {
	register("B2", "every decoder clause that consumes a referable head tag (s b g a m o D T) registers exactly one reference on every path, or delegates the same tag to exactly one other dispatcher and registers none; nested values (fresh tag) are balanced by contract", 50, ruleB2)
}

type b2State struct {
	clause string // "" outside a referable clause
	cpos   token.Pos
	adds   int
	deleg  int
	errSet bool
	trace  []string
}

func (s *b2State) Key() string {
	return fmt.Sprintf("%s|%d|%d|%v", s.clause, s.adds, s.deleg, s.errSet)
}
func (s *b2State) Copy() PState {
	n := *s
	n.trace = append([]string(nil), s.trace...)
	return &n
}

type b2 struct {
	p      *Prog
	memo   map[*types.Func][]int
	active map[*types.Func]bool
	undec  []string
}

func (b *b2) isDecoderMethod(f *types.Func, name string) bool {
	return f != nil && b.p.InRepo(f) && b.p.FuncName(f) == "io.Decoder."+name
}

// tagParamIndex: index of a parameter named tag of type byte / ...byte, or -1
func tagParamIndex(f *types.Func) (int, bool) {
	sig := f.Type().(*types.Signature)
	for i := 0; i < sig.Params().Len(); i++ {
		pv := sig.Params().At(i)
		if pv.Name() != "tag" {
			continue
		}
		t := pv.Type()
		if sl, ok := t.(*types.Slice); ok && sig.Variadic() && i == sig.Params().Len()-1 {
			t = sl.Elem()
		}
		if bt, ok := t.Underlying().(*types.Basic); ok && bt.Kind() == types.Uint8 {
			return i, true
		}
	}
	return -1, false
}

// summary: possible numbers of references a tag-less helper registers (ReadString -> {1})
func (b *b2) summary(f *types.Func) []int {
	if r, ok := b.memo[f]; ok {
		return r
	}
	fd := b.p.Decl(f)
	if fd == nil || fd.Body == nil || b.active[f] {
		return []int{0}
	}
	b.active[f] = true
	defer delete(b.active, f)
	info := b.p.PkgOfDecl(fd).TypesInfo
	set := map[int]bool{}
	w := b.walker(info, nil, false)
	w.Exit = func(w *Walk, st PState, kind flowKind, at ast.Node) {
		if kind == fPanic {
			return
		}
		set[st.(*b2State).adds] = true
	}
	w.Run(fd.Body, &b2State{clause: "summary"})
	if len(w.Undecided) > 0 {
		b.undec = append(b.undec, b.p.FuncName(f)+": "+strings.Join(w.Undecided, "; "))
	}
	var out []int
	for k := range set {
		out = append(out, k)
	}
	sort.Ints(out)
	if len(out) == 0 {
		out = []int{0}
	}
	b.memo[f] = out
	return out
}

// tagExprKey identifies the variable an expression of type byte denotes (for "same tag").
func tagVarOf(info *types.Info, e ast.Expr) types.Object {
	if id, ok := ast.Unparen(e).(*ast.Ident); ok {
		return info.Uses[id]
	}
	return nil
}

func (b *b2) walker(info *types.Info, self *types.Func, top bool) *Walk {
	w := &Walk{Info: info}
	var clauseTag types.Object // the variable whose comparison opened the clause (per walker: one function)
	w.Branch = func(w *Walk, ps PState, cond ast.Expr, val bool) (PState, bool) {
		st := ps.(*b2State)
		if call, ok := cond.(*ast.CallExpr); ok {
			if f := Callee(info, call); b.isDecoderMethod(f, "IsSimple") {
				return nil, !val
			}
		}
		if !top {
			return nil, true
		}
		be, ok := cond.(*ast.BinaryExpr)
		if !ok || (be.Op != token.EQL && be.Op != token.NEQ) {
			return nil, true
		}
		eq := val == (be.Op == token.EQL)
		var c *types.Const
		var other ast.Expr
		if c = constOf(info, be.Y); b.p.isTagConst(c) {
			other = be.X
		} else if c = constOf(info, be.X); b.p.isTagConst(c) {
			other = be.Y
		} else {
			return nil, true
		}
		tv := tagVarOf(info, other)
		if tv == nil {
			return nil, true
		}
		if !eq {
			return nil, true
		}
		if !referableTags[c.Name()] {
			return nil, true
		}
		// entering the clause for tag constant c on variable tv
		if st.clause != "" && st.clause != "summary" {
			// already inside a clause: a second comparison of the same variable with another
			// constant is infeasible; with a different variable it is a nested sub-item handled
			// by the frozen date-time exception below.
			if clauseTag == tv {
				return nil, false
			}
			return nil, true
		}
		ns := st.Copy().(*b2State)
		ns.clause = c.Name()
		ns.cpos = be.OpPos
		if !ns.cpos.IsValid() {
			ns.cpos = be.Pos()
		}
		ns.adds, ns.deleg = 0, 0
		clauseTag = tv
		return ns, true
	}
	w.Event = func(w *Walk, ps PState, n ast.Node) []PState {
		st := ps.(*b2State)
		switch x := n.(type) {
		case *ast.AssignStmt:
			for _, l := range x.Lhs {
				if fv := fieldOf(info, l); fv != nil && fv.Name() == "Error" {
					ns := st.Copy().(*b2State)
					ns.errSet = true
					return []PState{ns}
				}
			}
			return nil
		case *ast.CallExpr:
			if st.clause == "" {
				return nil
			}
			f := Callee(info, x)
			passesTag := false
			for _, a := range x.Args {
				if tv := tagVarOf(info, a); tv != nil && tv == clauseTag && clauseTag != nil {
					passesTag = true
				}
			}
			if passesTag {
				ns := st.Copy().(*b2State)
				ns.deleg++
				name := "dynamic call"
				if f != nil {
					name = f.Name()
				}
				ns.trace = append(ns.trace, fmt.Sprintf("delegates tag to %s at %s", name, b.p.Rel(x.Pos())))
				return []PState{ns}
			}
			if f == nil || !b.p.InRepo(f) {
				return nil // dynamic / foreign: nested values are balanced by contract
			}
			if sig := f.Type().(*types.Signature); sig.Recv() != nil && isNamed(sig.Recv().Type(), b.p.ModPath+"/io", "decoderRefer") {
				if f.Name() == "Add" {
					ns := st.Copy().(*b2State)
					ns.adds++
					ns.trace = append(ns.trace, "+1 refer.Add at "+b.p.Rel(x.Pos()))
					return []PState{ns}
				}
				return nil
			}
			if _, has := tagParamIndex(f); has {
				return nil // a decode routine given a fresh tag: nested value
			}
			if b.isDecoderMethod(f, "Decode") || b.isDecoderMethod(f, "Read") || b.isDecoderMethod(f, "decode") {
				return nil
			}
			var out []PState
			for _, k := range b.summary(f) {
				ns := st.Copy().(*b2State)
				ns.adds += k
				if k != 0 {
					ns.trace = append(ns.trace, fmt.Sprintf("+%d via %s at %s", k, f.Name(), b.p.Rel(x.Pos())))
				}
				out = append(out, ns)
			}
			return out
		}
		return nil
	}
	w.Loop = func(w *Walk, ps PState, loop ast.Stmt, body func(PState) []LoopOut) ([]PState, bool) {
		st := ps.(*b2State)
		if st.clause == "" {
			return nil, false
		}
		start := st.Copy().(*b2State)
		base := *start
		start.adds, start.deleg = 0, 0
		outs := body(start)
		after := st.Copy().(*b2State)
		res := []PState{after}
		for _, o := range outs {
			s := o.St.(*b2State)
			if s.adds != 0 || s.deleg != 0 {
				if o.Flow == fReturn {
					continue // handled as an exit by the walker
				}
				bad := st.Copy().(*b2State)
				bad.adds = base.adds + 1000
				bad.trace = append(bad.trace, fmt.Sprintf("loop at %s registers %d reference(s)/delegations per iteration", b.p.Rel(loop.Pos()), s.adds+s.deleg))
				res = append(res, bad)
			}
		}
		return res, true
	}
	return w
}

func ruleB2(r *Run) {
	p := r.P
	b := &b2{p: p, memo: map[*types.Func][]int{}, active: map[*types.Func]bool{}}
	r.Assumption("B2: reference mode (IsSimple() folded to false); decode routines handed a fresh tag, DecodeHandler values and ValueDecoder.Decode calls decode one nested value and are balanced by contract (each is itself analysed); readDateTime's `tag == TagTime` is the time part of the same date-time item, not an item head")
	// functions that compare a byte variable with a referable tag constant
	type site struct {
		fd  *ast.FuncDecl
		pkg *packages.Package
	}
	var sites []site
	p.EachFunc(func(pkg *packages.Package, fd *ast.FuncDecl) {
		info := pkg.TypesInfo
		found := false
		ast.Inspect(fd.Body, func(n ast.Node) bool {
			switch x := n.(type) {
			case *ast.CaseClause:
				for _, e := range x.List {
					if c := constOf(info, e); p.isTagConst(c) && referableTags[c.Name()] {
						found = true
					}
				}
			case *ast.BinaryExpr:
				if x.Op == token.EQL || x.Op == token.NEQ {
					for _, e := range []ast.Expr{x.X, x.Y} {
						if c := constOf(info, e); p.isTagConst(c) && referableTags[c.Name()] {
							found = true
						}
					}
				}
			}
			return true
		})
		if found {
			sites = append(sites, site{fd, pkg})
		}
	})
	for _, s := range sites {
		info := s.pkg.TypesInfo
		fobj, _ := info.Defs[s.fd.Name].(*types.Func)
		fname := p.DeclName(s.fd)
		// frozen exception (one line, DESIGN.md B2): the time part of a date-time item
		if fname == "io.Decoder.readDateTime" || fname == "io.Decoder.ReadDateTime" {
			r.Ok("clause "+fname+" TagTime (time part of the same item)", s.fd.Pos(), "frozen exception: not an item head")
			continue
		}
		type verdict struct {
			ok    bool
			msg   string
			pos   token.Pos
			trace []string
		}
		res := map[string]*verdict{}
		w := b.walker(info, fobj, true)
		w.Exit = func(w *Walk, ps PState, kind flowKind, at ast.Node) {
			st := ps.(*b2State)
			if st.clause == "" || kind == fPanic {
				return
			}
			key := "clause " + fname + " " + st.clause
			good := (st.adds == 1 && st.deleg == 0) || (st.adds == 0 && st.deleg == 1)
			v := res[key]
			if v == nil {
				v = &verdict{ok: true, pos: st.cpos}
				res[key] = v
			}
			if !good {
				v.ok = false
				where := "end of function"
				if at != nil {
					where = p.Rel(at.Pos())
				}
				v.msg = fmt.Sprintf("a path through the %s clause (exit at %s) registers %d reference(s) and delegates the tag %d time(s); a referable item must register exactly one reference, or be handed on exactly once", st.clause, where, st.adds%1000, st.deleg)
				v.trace = st.trace
			}
		}
		w.Run(s.fd.Body, &b2State{})
		if len(w.Undecided) > 0 {
			r.Undec("function "+fname, s.fd.Pos(), strings.Join(w.Undecided, "; "))
		}
		for key, v := range res {
			if v.ok {
				r.Ok(key, v.pos, "every path adds one reference or delegates the tag once")
			} else {
				r.ViolT(key, v.pos, v.msg, v.trace)
			}
		}
	}
	for _, u := range b.undec {
		r.Undec("helper "+u, 0, u)
	}
}
