package main

import (
	"fmt"
	"go/ast"
	"go/types"
	"strings"

	"golang.org/x/tools/go/packages"
)

// P11: the reverse plugin exchanges its calls and results as tuples ([3]interface{}: call,
// returnValue). A tuple that was decoded from the peer has whatever shape the peer gave it.

func init() {
	register("P11", "in rpc/plugins/reverse an element of a wire tuple (a named [N]interface{} type: call, returnValue) is type-asserted in the single-value form only where a panic is contained - in a function that installs a deferred recover, in a function registered as a remote method (it runs under the recover of Service.Process), or in an unexported function all of whose callers are such - or on a tuple that provably never left the process (a field fed only by the tuple's constructor); everywhere else the comma-ok form is required: otherwise a peer that answers with a tuple of another shape panics the goroutine of the application that called Invoke", 3, ruleP11)
}

func ruleP11(r *Run) {
	p := r.P
	pkg := p.Pkg("rpc/plugins/reverse")
	if pkg == nil {
		r.Undec("package rpc/plugins/reverse", 0, "not found")
		return
	}
	info := pkg.TypesInfo
	isTuple := func(t types.Type) bool {
		if t == nil {
			return false
		}
		nt, ok := t.(*types.Named)
		if !ok || nt.Obj().Pkg() != pkg.Types {
			return false
		}
		at, ok := nt.Underlying().(*types.Array)
		if !ok {
			return false
		}
		it, ok := at.Elem().Underlying().(*types.Interface)
		return ok && it.Empty()
	}
	// functions registered as remote methods
	registered := map[*types.Func]bool{}
	// static call sites of every function of the package
	type site struct {
		fd   *ast.FuncDecl
		call *ast.CallExpr
	}
	callers := map[*types.Func][]site{}
	var decls []*ast.FuncDecl
	for _, file := range pkg.Syntax {
		for _, d := range file.Decls {
			fd, ok := d.(*ast.FuncDecl)
			if !ok || fd.Body == nil {
				continue
			}
			decls = append(decls, fd)
			ast.Inspect(fd.Body, func(n ast.Node) bool {
				c, ok := n.(*ast.CallExpr)
				if !ok {
					return true
				}
				if f := Callee(info, c); f != nil && f.Pkg() == pkg.Types {
					callers[f.Origin()] = append(callers[f.Origin()], site{fd, c})
				}
				if strings.HasPrefix(methodName(c), "Add") {
					for _, a := range c.Args {
						var id *ast.Ident
						switch x := ast.Unparen(a).(type) {
						case *ast.SelectorExpr:
							id = x.Sel
						case *ast.Ident:
							id = x
						}
						if id != nil {
							if f, ok := info.Uses[id].(*types.Func); ok && f.Pkg() == pkg.Types {
								registered[f.Origin()] = true
							}
						}
					}
				}
				return true
			})
		}
	}
	// containedAt: is a panic raised at node `at` inside fd contained?
	var containedFn func(fd *ast.FuncDecl, depth int, seen map[*ast.FuncDecl]bool) (bool, string)
	containedAt := func(fd *ast.FuncDecl, at ast.Node, depth int, seen map[*ast.FuncDecl]bool) (bool, string) {
		parents := parentMap(fd.Body)
		// innermost function literal around the site
		for x := parents[at]; x != nil; x = parents[x] {
			fl, ok := x.(*ast.FuncLit)
			if !ok {
				continue
			}
			rec := false
			for _, s := range fl.Body.List {
				if d, ok := s.(*ast.DeferStmt); ok && p.deferRecovers(info, d) {
					rec = true
				}
			}
			if rec {
				return true, ""
			}
			if call, ok := parents[fl].(*ast.CallExpr); ok && call.Fun == ast.Expr(fl) {
				if _, ok := parents[call].(*ast.GoStmt); ok {
					return false, "in a goroutine started by " + p.DeclName(fd) + " without a recover"
				}
			}
		}
		for _, s := range fd.Body.List {
			if d, ok := s.(*ast.DeferStmt); ok && p.deferRecovers(info, d) && d.Pos() < at.Pos() {
				return true, ""
			}
		}
		return containedFn(fd, depth, seen)
	}
	containedFn = func(fd *ast.FuncDecl, depth int, seen map[*ast.FuncDecl]bool) (bool, string) {
		f, _ := info.Defs[fd.Name].(*types.Func)
		if f == nil {
			return false, "unresolved function"
		}
		if registered[f.Origin()] {
			return true, ""
		}
		if depth > 4 || seen[fd] {
			return false, "call chain of " + p.DeclName(fd) + " too deep to follow"
		}
		seen[fd] = true
		defer delete(seen, fd)
		cs := callers[f.Origin()]
		exportedAPI := fd.Name.IsExported()
		if fd.Recv != nil && exportedAPI {
			// a method of an unexported type is reachable only from this package (no interface in the package declares it)
			if rt := recvNamed(info, fd); rt != nil && !rt.Obj().Exported() {
				exportedAPI = false
			}
		}
		if exportedAPI {
			return false, p.DeclName(fd) + " is part of the API: the application calls it on its own goroutine, outside any recover"
		}
		if len(cs) == 0 {
			return false, p.DeclName(fd) + " has no caller the analysis can see"
		}
		for _, s := range cs {
			if ok, why := containedAt(s.fd, s.call, depth+1, seen); !ok {
				if !strings.Contains(why, "called from") {
					why = "called from " + p.DeclName(s.fd) + " (" + p.Rel(s.call.Pos()) + "): " + why
				}
				return false, why
			}
		}
		return true, ""
	}
	// localOnly: the tuple operand is rooted in a struct field that only ever receives tuples built by an
	// in-package constructor (through one unexported adder method whose call sites pass the constructor's result)
	isCtorCall := func(e ast.Expr) bool {
		c, ok := ast.Unparen(e).(*ast.CallExpr)
		if !ok {
			return false
		}
		f := Callee(info, c)
		if f == nil || f.Pkg() != pkg.Types || p.Decl(f) == nil {
			return false
		}
		sig := f.Type().(*types.Signature)
		return sig.Results().Len() == 1 && isTuple(sig.Results().At(0).Type()) && sig.Recv() == nil
	}
	localField := func(fv *types.Var) (bool, string) {
		okAll := true
		why := ""
		fed := 0
		for _, fd := range decls {
			params := map[types.Object]bool{}
			for _, pv := range paramsOf(info, fd.Type) {
				params[pv] = true
			}
			ast.Inspect(fd.Body, func(n ast.Node) bool {
				as, ok := n.(*ast.AssignStmt)
				if !ok || len(as.Lhs) != len(as.Rhs) {
					return true
				}
				for i, l := range as.Lhs {
					if fieldOf(info, l) != fv {
						continue
					}
					rhs := ast.Unparen(as.Rhs[i])
					if id, ok := rhs.(*ast.Ident); ok && id.Name == "nil" {
						continue
					}
					c, ok := rhs.(*ast.CallExpr)
					if !ok || !IsBuiltin(info, c, "append") || len(c.Args) == 0 {
						okAll, why = false, "assigned `"+types.ExprString(rhs)+"` in "+p.DeclName(fd)
						continue
					}
					for k, a := range c.Args {
						a = ast.Unparen(a)
						// pieces of the field itself
						root := a
						for {
							switch x := root.(type) {
							case *ast.SliceExpr:
								root = ast.Unparen(x.X)
								continue
							case *ast.IndexExpr:
								root = ast.Unparen(x.X)
								continue
							}
							break
						}
						if fieldOf(info, root) == fv {
							continue
						}
						if k == 0 {
							okAll, why = false, "appended to another slice in "+p.DeclName(fd)
							continue
						}
						if isCtorCall(a) {
							fed++
							continue
						}
						// a parameter of the adder: every call site passes a constructor result
						if o := identObj(info, a); o != nil && params[o] {
							f, _ := info.Defs[fd.Name].(*types.Func)
							idx := -1
							for pi, pv := range paramsOf(info, fd.Type) {
								if pv == o {
									idx = pi
								}
							}
							if f == nil || fd.Name.IsExported() && recvNamed(info, fd) != nil && recvNamed(info, fd).Obj().Exported() {
								okAll, why = false, p.DeclName(fd)+" can be called from outside the package"
								continue
							}
							cs := callers[f.Origin()]
							if len(cs) == 0 {
								okAll, why = false, p.DeclName(fd)+" has no visible caller"
							}
							for _, s := range cs {
								if idx < len(s.call.Args) && isCtorCall(s.call.Args[idx]) {
									fed++
								} else {
									okAll, why = false, p.DeclName(s.fd)+" passes something other than a freshly built tuple to "+p.DeclName(fd)
								}
							}
							continue
						}
						okAll, why = false, "receives `"+types.ExprString(a)+"` in "+p.DeclName(fd)
					}
				}
				return true
			})
		}
		if okAll && fed == 0 {
			return false, "never fed"
		}
		return okAll, why
	}
	n := 0
	perFn := map[string]int{}
	for _, fd := range decls {
		parents := parentMap(fd.Body)
		ast.Inspect(fd.Body, func(m ast.Node) bool {
			ta, ok := m.(*ast.TypeAssertExpr)
			if !ok || ta.Type == nil {
				return true
			}
			ix, ok := ast.Unparen(ta.X).(*ast.IndexExpr)
			if !ok || !isTuple(info.TypeOf(ix.X)) {
				return true
			}
			n++
			name := p.DeclName(fd)
			perFn[name]++
			key := fmt.Sprintf("assertion on a tuple element in %s #%d", name, perFn[name])
			// comma-ok?
			commaOK := false
			switch par := parents[ta].(type) {
			case *ast.AssignStmt:
				commaOK = len(par.Lhs) == 2 && len(par.Rhs) == 1
			case *ast.ValueSpec:
				commaOK = len(par.Names) == 2 && len(par.Values) == 1
			}
			if commaOK {
				r.Check(true, key, ta.Pos(), "comma-ok form", "")
				return true
			}
			if ok, _ := containedAt(fd, ta, 0, map[*ast.FuncDecl]bool{}); ok {
				r.Check(true, key, ta.Pos(), "a panic here is contained (recover / remote method)", "")
				return true
			}
			// local tuple?
			root := ast.Unparen(ix.X)
			for {
				if x, ok := root.(*ast.IndexExpr); ok {
					root = ast.Unparen(x.X)
					continue
				}
				break
			}
			if fv := fieldOf(info, root); fv != nil && fv.IsField() {
				if ok, _ := localField(fv); ok {
					r.Check(true, key, ta.Pos(), "the tuple comes from a field fed only by the constructor (never decoded)", "")
					return true
				}
			}
			_, why := containedAt(fd, ta, 0, map[*ast.FuncDecl]bool{})
			r.Check(false, key, ta.Pos(), "", fmt.Sprintf("`%s` asserts the type of an element of a tuple that the peer may have sent, in the single-value form, and the panic is not contained: %s; a provider (or caller) that sends a tuple of another shape crashes that goroutine instead of producing an error for the one call", types.ExprString(ta), why))
			return true
		})
	}
	if n == 0 {
		r.Undec("tuple element assertions in rpc/plugins/reverse", 0, "none found")
	}
}

func recvNamed(info *types.Info, fd *ast.FuncDecl) *types.Named {
	if fd.Recv == nil || len(fd.Recv.List) == 0 {
		return nil
	}
	t := info.TypeOf(fd.Recv.List[0].Type)
	if pt, ok := t.(*types.Pointer); ok {
		t = pt.Elem()
	}
	nt, _ := t.(*types.Named)
	return nt
}

var _ = packages.NeedName
