package main

import (
	"fmt"
	"go/ast"
	"go/token"
	"go/types"
	"golang.org/x/tools/go/packages"
	"sort"
	"strings"
)

// G18 per-call return types (C08), G7r reverse reply index (C09), P8 request-local failures (C09),
// V7 the safe flag of the window readers (C14/C05).

func init() {
	register("G18", "invocation.Invoke derives the call's ReturnType from the invoked proxy method on every call: the assignment from method.Type is not conditional on the context's previous ReturnType (a reused ClientContext must not keep the first method's types)", 1, ruleG18)
	register("G7r", "every reply the reverse Provider builds for a call (newReturnValue in Provider.process, including the panic path) carries the index taken from that call's own tuple", 4, ruleG7r)
	register("P8", "a failure that concerns one request only (a body too large for a datagram) is delivered to that request's own result channel and reported as nil to the sender loop, so the shared connection and the other pending calls survive", 1, ruleP8)
	register("V7", "the `safe` result of the window readers (next, until, readStringAsBytes) is false whenever the returned bytes are a slice of the decoder's buffer, in bytes mode too: it is the literal false on every return of a window slice, and after safe becomes true the data is only built by make/append", 5, ruleV7)
}

func ruleG18(r *Run) {
	p := r.P
	fd, pkg := p.DeclOf("rpc/core", "invocation.Invoke")
	if fd == nil {
		r.Undec("invocation.Invoke", 0, "not found")
		return
	}
	info := pkg.TypesInfo
	parents := parentMap(fd.Body)
	var methodParam types.Object
	for _, pv := range paramsOf(info, fd.Type) {
		if pv != nil && pv.Name() == "method" {
			methodParam = pv
		}
	}
	defs := localDefs(info, fd.Body)
	fromMethod := func(e ast.Expr) bool {
		found := false
		var visit func(e ast.Node, depth int)
		visit = func(e ast.Node, depth int) {
			ast.Inspect(e, func(n ast.Node) bool {
				if id, ok := n.(*ast.Ident); ok {
					o := info.Uses[id]
					if o == methodParam && o != nil {
						found = true
					}
					if d := defs[o]; d != nil && depth < 3 {
						visit(d, depth+1)
					}
				}
				return true
			})
		}
		visit(e, 0)
		return found
	}
	n := 0
	var invokePos token.Pos
	ast.Inspect(fd.Body, func(m ast.Node) bool {
		if c, ok := m.(*ast.CallExpr); ok && methodName(c) == "InvokeContext" {
			invokePos = c.Pos()
		}
		return true
	})
	ast.Inspect(fd.Body, func(m ast.Node) bool {
		as, ok := m.(*ast.AssignStmt)
		if !ok || len(as.Lhs) != 1 {
			return true
		}
		se, ok := ast.Unparen(as.Lhs[0]).(*ast.SelectorExpr)
		if !ok || se.Sel.Name != "ReturnType" {
			return true
		}
		// the defining assignment: make(...) sized from the method, or a direct derivation
		if !fromMethod(as.Rhs[0]) {
			return true
		}
		selfRef := false
		ast.Inspect(as.Rhs[0], func(k ast.Node) bool {
			if s2, ok := k.(*ast.SelectorExpr); ok && s2.Sel.Name == "ReturnType" {
				selfRef = true
			}
			return true
		})
		if selfRef {
			return true // a trimming step on the freshly derived list, not its derivation
		}
		n++
		guarded := ""
		for _, fc := range collectFacts(parents, as) {
			ast.Inspect(fc.e, func(k ast.Node) bool {
				if s2, ok := k.(*ast.SelectorExpr); ok && s2.Sel.Name == "ReturnType" {
					guarded = types.ExprString(fc.e)
				}
				return true
			})
		}
		r.Check(guarded == "" && (!invokePos.IsValid() || as.Pos() < invokePos), fmt.Sprintf("ReturnType derived per call #%d", n), as.Pos(), "unconditional, before InvokeContext", fmt.Sprintf("the return types are taken from the invoked method only under the condition %s: a ClientContext reused for a second proxy method keeps the first method's return types, so the result is converted to the wrong types (or dropped) although the function ran correctly", guarded))
		return true
	})
	if n == 0 {
		r.Viol("ReturnType derived per call #1", fd.Pos(), "invocation.Invoke no longer derives ReturnType from the invoked method")
	}
}

func ruleG7r(r *Run) {
	p := r.P
	fd, pkg := p.DeclOf("rpc/plugins/reverse", "Provider.process")
	if fd == nil {
		r.Undec("Provider.process", 0, "not found")
		return
	}
	info := pkg.TypesInfo
	// index := first result of <call>.Value()
	var indexObj types.Object
	ast.Inspect(fd.Body, func(n ast.Node) bool {
		as, ok := n.(*ast.AssignStmt)
		if !ok || len(as.Rhs) != 1 || len(as.Lhs) < 1 {
			return true
		}
		if c, ok := ast.Unparen(as.Rhs[0]).(*ast.CallExpr); ok && methodName(c) == "Value" && indexObj == nil {
			indexObj = identObj(info, as.Lhs[0])
		}
		return true
	})
	if indexObj == nil {
		r.Undec("call index in Provider.process", fd.Pos(), "no `index, ... := c.Value()`")
		return
	}
	// never reassigned
	reassigned := false
	ast.Inspect(fd.Body, func(n ast.Node) bool {
		switch x := n.(type) {
		case *ast.AssignStmt:
			if len(x.Rhs) == 1 {
				if c, ok := ast.Unparen(x.Rhs[0]).(*ast.CallExpr); ok && methodName(c) == "Value" {
					return true // the one assignment from the call's own tuple
				}
			}
			for _, l := range x.Lhs {
				if id, ok := l.(*ast.Ident); ok && info.Uses[id] == indexObj {
					reassigned = true
				}
			}
		case *ast.IncDecStmt:
			if identObj(info, x.X) == indexObj {
				reassigned = true
			}
		}
		return true
	})
	r.Check(!reassigned, "call index is never modified in Provider.process", fd.Pos(), "only assigned from the call's own tuple", "the call's index is modified before the reply is built")
	n := 0
	ast.Inspect(fd.Body, func(m ast.Node) bool {
		c, ok := m.(*ast.CallExpr)
		if !ok || len(c.Args) != 3 {
			return true
		}
		if id, ok := c.Fun.(*ast.Ident); !ok || id.Name != "newReturnValue" {
			return true
		}
		n++
		r.Check(identObj(info, c.Args[0]) == indexObj, fmt.Sprintf("reply index in Provider.process #%d", n), c.Pos(), "the call's own index", fmt.Sprintf("the reply is labelled with %s instead of the call's index: the caller whose call this is never gets its answer (it times out) and a different pending call whose index happens to equal that value receives this result or error as its own", types.ExprString(c.Args[0])))
		return true
	})
	if n == 0 {
		r.Undec("reply index in Provider.process", fd.Pos(), "no newReturnValue calls")
	}
}

func ruleP8(r *Run) {
	p := r.P
	fd, pkg := p.DeclOf("rpc/udp", "conn.send")
	if fd == nil {
		r.Undec("rpc/udp.conn.send", 0, "not found")
		return
	}
	info := pkg.TypesInfo
	var errRes types.Object
	if fd.Type.Results != nil {
		for _, f := range fd.Type.Results.List {
			for _, nm := range f.Names {
				errRes = info.Defs[nm]
			}
		}
	}
	n := 0
	parents := parentMap(fd.Body)
	seen := map[ast.Node]bool{}
	ast.Inspect(fd.Body, func(m ast.Node) bool {
		lc, ok := m.(*ast.CallExpr)
		if !ok || methodName(lc) != "loadAndDelete" {
			return true
		}
		// the region that fails the one oversized request: the body of the enclosing size test (an if without an init
		// statement), or - when the size test is an early return for the GOOD case - the rest of the function body
		var region []ast.Stmt
		var at ast.Node
		var child ast.Node = lc
		for q := parents[lc]; q != nil; child, q = q, parents[q] {
			if ifs, ok := q.(*ast.IfStmt); ok && ifs.Init == nil && child == ast.Node(ifs.Body) {
				region, at = ifs.Body.List, ifs
				break
			}
			if q == ast.Node(fd.Body) {
				for i, st := range fd.Body.List {
					if ast.Node(st) == child {
						region, at = fd.Body.List[i:], st
					}
				}
				break
			}
		}
		if region == nil || seen[at] {
			return true
		}
		seen[at] = true
		n++
		key := fmt.Sprintf("request-local failure in rpc/udp.conn.send #%d", n)
		bad := ""
		for _, st := range region {
			ast.Inspect(st, func(k ast.Node) bool {
				switch x := k.(type) {
				case *ast.AssignStmt:
					for _, l := range x.Lhs {
						if identObj(info, l) == errRes && errRes != nil {
							bad = "assigns the function's error result at " + p.Rel(x.Pos())
						}
					}
				case *ast.ReturnStmt:
					if len(x.Results) == 1 {
						if id, ok := ast.Unparen(x.Results[0]).(*ast.Ident); !ok || id.Name != "nil" {
							bad = "returns " + types.ExprString(x.Results[0]) + " at " + p.Rel(x.Pos())
						}
					}
				}
				return true
			})
		}
		if !endsInJump(region) {
			bad = "falls through to the datagram write"
		}
		r.Check(bad == "", key, at.Pos(), "delivered to the request's own channel; nil returned to the sender loop", "the branch that fails one oversized request "+bad+": the sender loop ends, the shared socket is closed and every other pending call on the connection receives this request's error")
		return true
	})
	if n == 0 {
		r.Undec("request-local failure in rpc/udp.conn.send", fd.Pos(), "no branch delivering to the request's own result channel")
	}
}

func ruleV7(r *Run) {
	p := r.P
	pkg := p.Pkg("io")
	if pkg == nil {
		r.Undec("package io", 0, "not found")
		return
	}
	info := pkg.TypesInfo
	bufF := p.LookupField("io", "Decoder", "buf")
	for _, name := range []string{"Decoder.next", "Decoder.until", "Decoder.readStringAsBytes"} {
		fd, _ := p.DeclOf("io", name)
		if fd == nil {
			r.Undec("safe flag of "+name, 0, "not found")
			continue
		}
		// locals that are window views: x := dec.buf[..]
		viewLocal := map[types.Object]bool{}
		isWindow := func(e ast.Expr) bool {
			e = ast.Unparen(e)
			if se, ok := e.(*ast.SliceExpr); ok {
				if fieldOf(info, se.X) == bufF {
					return true
				}
				if o := identObj(info, se.X); o != nil && viewLocal[o] {
					return true
				}
			}
			if o := identObj(info, e); o != nil && viewLocal[o] {
				return true
			}
			if c, ok := e.(*ast.CallExpr); ok && strings.HasPrefix(methodName(c), "fastRead") {
				return true // view-returning helper
			}
			return false
		}
		ast.Inspect(fd.Body, func(n ast.Node) bool {
			if as, ok := n.(*ast.AssignStmt); ok && len(as.Lhs) == len(as.Rhs) {
				for i, l := range as.Lhs {
					if o := identObj(info, l); o != nil && isWindow(as.Rhs[i]) {
						if id, ok := l.(*ast.Ident); ok && id.Name != "data" {
							viewLocal[o] = true
						}
					}
				}
			}
			return true
		})
		// named results
		var dataRes, safeRes types.Object
		if fd.Type.Results != nil {
			i := 0
			for _, f := range fd.Type.Results.List {
				for _, nm := range f.Names {
					if i == 0 {
						dataRes = info.Defs[nm]
					} else {
						safeRes = info.Defs[nm]
					}
					i++
				}
			}
		}
		if dataRes == nil || safeRes == nil {
			r.Undec("safe flag of "+name, fd.Pos(), "expected named results (data, safe)")
			continue
		}
		isFalse := func(e ast.Expr) bool {
			id, ok := ast.Unparen(e).(*ast.Ident)
			return ok && id.Name == "false"
		}
		// where does safe become true?
		var safeTrue token.Pos
		ast.Inspect(fd.Body, func(n ast.Node) bool {
			if as, ok := n.(*ast.AssignStmt); ok && len(as.Lhs) == 1 && len(as.Rhs) == 1 && identObj(info, as.Lhs[0]) == safeRes {
				if id, ok := ast.Unparen(as.Rhs[0]).(*ast.Ident); ok && id.Name == "true" {
					if !safeTrue.IsValid() {
						safeTrue = as.Pos()
					}
				} else if !isFalse(as.Rhs[0]) {
					r.Viol("safe flag of "+name+" is a constant", as.Pos(), "safe is assigned "+types.ExprString(as.Rhs[0])+": whether the bytes are a view of the buffer does not depend on a run-time condition such as the input mode")
				}
			}
			return true
		})
		n := 0
		// (a) explicit returns
		ast.Inspect(fd.Body, func(m ast.Node) bool {
			ret, ok := m.(*ast.ReturnStmt)
			if !ok || len(ret.Results) != 2 {
				return true
			}
			n++
			key := fmt.Sprintf("safe flag of %s return #%d", name, n)
			first := ret.Results[0]
			// `return data, X` where data was last assigned a window slice before this return (same block scan)
			win := isWindow(first)
			if identObj(info, first) == dataRes {
				// find the nearest preceding assignment to data
				var last ast.Expr
				ast.Inspect(fd.Body, func(k ast.Node) bool {
					if as, ok := k.(*ast.AssignStmt); ok && as.Pos() < ret.Pos() && len(as.Lhs) == len(as.Rhs) {
						for i, l := range as.Lhs {
							if identObj(info, l) == dataRes {
								last = as.Rhs[i]
							}
						}
					}
					return true
				})
				if last != nil && isWindow(last) {
					win = true
				}
			}
			if id, ok := ast.Unparen(first).(*ast.Ident); ok && id.Name == "nil" {
				r.Ok(key, ret.Pos(), "nil data")
				return true
			}
			if win {
				r.Check(isFalse(ret.Results[1]), key, ret.Pos(), "window slice returned with safe == false", fmt.Sprintf("a slice of the decoder's buffer is returned with safe = %s: when that is true the copying callers (Until, Next, readSafeString ...) hand the view out as a decoded value, which aliases the caller's input in bytes mode and the refilled window in stream mode", types.ExprString(ret.Results[1])))
			} else {
				r.Ok(key, ret.Pos(), "owned data")
			}
			return true
		})
		// (b) after safe = true, data is only built by make / append (never re-pointed at the window)
		if safeTrue.IsValid() {
			bad := ""
			ast.Inspect(fd.Body, func(m ast.Node) bool {
				as, ok := m.(*ast.AssignStmt)
				if !ok || as.Pos() < safeTrue || len(as.Lhs) != len(as.Rhs) {
					return true
				}
				for i, l := range as.Lhs {
					if identObj(info, l) != dataRes {
						continue
					}
					c, ok := ast.Unparen(as.Rhs[i]).(*ast.CallExpr)
					if ok && (IsBuiltin(info, c, "make") || IsBuiltin(info, c, "append")) {
						continue
					}
					bad = types.ExprString(as.Rhs[i]) + " at " + p.Rel(as.Pos())
				}
				return true
			})
			n++
			r.Check(bad == "", "after safe becomes true in "+name+" data is owned", safeTrue, "only make/append", "after safe = true the data is assigned "+bad+", which is not freshly allocated memory")
		}
		if n == 0 {
			r.Undec("safe flag of "+name, fd.Pos(), "no returns examined")
		}
	}
}

// G19 (C08): reflect.ValueOf(nil interface) is the zero reflect.Value; a MakeFunc closure that
// returns it, or a Call that receives it, panics.
func init() {
	register("G19", "a reflect.Value that is stored into a []reflect.Value (the results of a reflect.MakeFunc closure, the arguments of a Call) is not reflect.ValueOf of an interface-typed value that may be nil, unless a dominating test excludes nil: a nil result (a function returning a nil interface{}, a null on the wire) otherwise panics the caller's proxy function", 1, ruleG19)
}

func ruleG19(r *Run) {
	p := r.P
	n := 0
	for _, pkg := range p.Pkgs {
		if !strings.HasPrefix(p.RelPkg(pkg.Types), "rpc") {
			continue
		}
		info := pkg.TypesInfo
		for _, file := range pkg.Syntax {
			for _, d := range file.Decls {
				fd, ok := d.(*ast.FuncDecl)
				if !ok || fd.Body == nil {
					continue
				}
				parents := parentMap(fd.Body)
				perFn := 0
				ast.Inspect(fd.Body, func(m ast.Node) bool {
					call, ok := m.(*ast.CallExpr)
					if !ok || len(call.Args) != 1 {
						return true
					}
					f := Callee(info, call)
					if f == nil || FullName(f) != "reflect.ValueOf" {
						return true
					}
					at, ok := info.Types[call.Args[0]]
					if !ok {
						return true
					}
					it, isIface := at.Type.Underlying().(*types.Interface)
					if !isIface || it.NumMethods() != 0 {
						return true // a concrete value, or a typed interface the code never leaves nil (context.Context)
					}
					// where does the Value go: an element of a []reflect.Value, or the function's result
					sink := ""
					switch x := parents[call].(type) {
					case *ast.AssignStmt:
						if len(x.Lhs) == 1 {
							if ie, ok := ast.Unparen(x.Lhs[0]).(*ast.IndexExpr); ok {
								if tv, ok := info.Types[ie.X]; ok && tv.Type.String() == "[]reflect.Value" {
									sink = "stored into the reflect.Value list"
								}
							}
						}
					case *ast.ReturnStmt:
						sink = "returned as the boxed value"
					case *ast.CompositeLit:
						if tv, ok := info.Types[x]; ok && tv.Type.String() == "[]reflect.Value" {
							sink = "placed in the reflect.Value list"
						}
					}
					if sink == "" {
						return true
					}
					n++
					perFn++
					key := fmt.Sprintf("possibly-nil value boxed for reflection in %s #%d", p.DeclName(fd), perFn)
					argS := types.ExprString(ast.Unparen(call.Args[0]))
					guard := false
					for _, fc := range factsWithSwitch(parents, call) {
						be, ok := fc.e.(*ast.BinaryExpr)
						if !ok || types.ExprString(ast.Unparen(be.X)) != argS {
							continue
						}
						if id, ok := ast.Unparen(be.Y).(*ast.Ident); !ok || id.Name != "nil" {
							continue
						}
						if (be.Op == token.NEQ && !fc.neg) || (be.Op == token.EQL && fc.neg) {
							guard = true
						}
					}
					r.Check(guard, key, call.Pos(), "nil excluded on this path", fmt.Sprintf("reflect.ValueOf(%s) is %s although %s is an interface{} that can be nil (a published function that returns a nil interface{}, a null argument or result on the wire): the zero reflect.Value makes reflect.Call / the function created by reflect.MakeFunc panic instead of passing nil on", argS, sink, argS))
					return true
				})
			}
		}
	}
	if n == 0 {
		r.Undec("reflect boxing sites", 0, "no reflect.ValueOf(<interface{} value>) feeding a reflect.Value list found in rpc/core")
	}
}

// G20 (C17): the rate limiter's time per permit is a fraction of a nanosecond for byte rates.
func init() {
	register("G20", "the rate limiter computes its time-per-permit in floating point: no division in rpc/plugins/limiter has integer operands (an integer division truncates the interval to whole nanoseconds, which admits up to twice the configured rate and stops limiting above 10^9 permits/s)", 1, ruleG20)
}

func ruleG20(r *Run) {
	p := r.P
	pkg := p.Pkg("rpc/plugins/limiter")
	if pkg == nil {
		r.Undec("package rpc/plugins/limiter", 0, "not found")
		return
	}
	info := pkg.TypesInfo
	n := 0
	for _, file := range pkg.Syntax {
		for _, d := range file.Decls {
			fd, ok := d.(*ast.FuncDecl)
			if !ok || fd.Body == nil {
				continue
			}
			perFn := 0
			ast.Inspect(fd.Body, func(m ast.Node) bool {
				be, ok := m.(*ast.BinaryExpr)
				if !ok || (be.Op != token.QUO && be.Op != token.REM) {
					return true
				}
				tv, ok := info.Types[be]
				if !ok {
					return true
				}
				n++
				perFn++
				key := fmt.Sprintf("division %s in %s #%d", types.ExprString(be), p.DeclName(fd), perFn)
				b, _ := tv.Type.Underlying().(*types.Basic)
				isFloat := b != nil && b.Info()&types.IsFloat != 0
				if tv.Value != nil {
					r.Ok(key, be.Pos(), "constant expression")
					return true
				}
				r.Check(isFloat, key, be.Pos(), "floating-point division", fmt.Sprintf("the division %s is carried out on %s operands: the time per permit is truncated to whole nanoseconds, so a rate that does not divide 10^9 is exceeded (700 MB/s: interval 1 ns instead of 1.43 ns, +43%%) and above 10^9 the interval is 0 and nothing is limited", types.ExprString(be), tv.Type))
				return true
			})
		}
	}
	if n == 0 {
		r.Undec("rate arithmetic", 0, "no division found in rpc/plugins/limiter")
	}
}

// P9 (C19): a batch is delivered whole.
func init() {
	register("P9", "every loop of the push plugin that walks a batch (range over the topics of a delivery, over the messages of a topic, over the ids of a multicast, sync.Map.Range over the subscribers or topics) visits every element: no return, break or goto leaves a range loop from inside its body, and every Range callback returns true on every path - an item-local condition skips one item (continue), it does not drop the rest of the batch, which the broker has already removed from its cache", 5, ruleP9)
}

func ruleP9(r *Run) {
	p := r.P
	pkg := p.Pkg("rpc/plugins/push")
	if pkg == nil {
		r.Undec("package rpc/plugins/push", 0, "not found")
		return
	}
	info := pkg.TypesInfo
	n := 0
	for _, file := range pkg.Syntax {
		for _, d := range file.Decls {
			fd, ok := d.(*ast.FuncDecl)
			if !ok || fd.Body == nil {
				continue
			}
			perFn := 0
			ast.Inspect(fd.Body, func(m ast.Node) bool {
				switch x := m.(type) {
				case *ast.RangeStmt:
					n++
					perFn++
					key := fmt.Sprintf("batch loop over %s in %s #%d", types.ExprString(x.X), p.DeclName(fd), perFn)
					bad := ""
					var scan func(node ast.Node, depth int)
					scan = func(node ast.Node, depth int) {
						ast.Inspect(node, func(k ast.Node) bool {
							if k == node {
								return true
							}
							switch y := k.(type) {
							case *ast.FuncLit:
								return false
							case *ast.ForStmt, *ast.RangeStmt, *ast.SwitchStmt, *ast.TypeSwitchStmt, *ast.SelectStmt:
								scan(y, depth+1)
								return false
							case *ast.ReturnStmt:
								bad = "return at " + p.Rel(y.Pos())
							case *ast.BranchStmt:
								if y.Tok == token.GOTO || (y.Tok == token.BREAK && (depth == 0 || y.Label != nil)) {
									bad = y.Tok.String() + " at " + p.Rel(y.Pos())
								}
							}
							return true
						})
					}
					scan(x.Body, 0)
					r.Check(bad == "", key, x.Pos(), "no exit from inside the loop body", fmt.Sprintf("the loop over the batch is left by a %s: the elements not yet visited are dropped although the broker accepted them and already removed them from its cache (they are delivered to nobody)", bad))
				case *ast.CallExpr:
					if methodName(x) != "Range" || len(x.Args) != 1 {
						return true
					}
					fl, ok := ast.Unparen(x.Args[0]).(*ast.FuncLit)
					if !ok {
						return true
					}
					if f := Callee(info, x); f == nil || !strings.HasPrefix(FullName(f), "sync.Map.Range") && !strings.Contains(FullName(f), "Map).Range") && FullName(f) != "sync.(*Map).Range" {
						// other Range implementations (cmap) follow the same contract
					}
					n++
					perFn++
					key := fmt.Sprintf("Range callback on %s in %s #%d", types.ExprString(x.Fun.(*ast.SelectorExpr).X), p.DeclName(fd), perFn)
					bad := ""
					ast.Inspect(fl.Body, func(k ast.Node) bool {
						if inner, ok := k.(*ast.FuncLit); ok && inner != fl {
							return false
						}
						if ifs, ok := k.(*ast.IfStmt); ok {
							// `if err != nil { return false }`: stopping on a failure that the caller retries is not a skipped element
							if be, ok := ast.Unparen(ifs.Cond).(*ast.BinaryExpr); ok && be.Op == token.NEQ {
								if tv, ok := info.Types[be.X]; ok && tv.Type.String() == "error" {
									return false
								}
							}
						}
						if ret, ok := k.(*ast.ReturnStmt); ok && len(ret.Results) == 1 {
							// `return err == nil`: stops only on a failure (which the caller retries)
							if be, ok := ast.Unparen(ret.Results[0]).(*ast.BinaryExpr); ok && be.Op == token.EQL {
								if tv, ok := info.Types[be.X]; ok && tv.Type.String() == "error" {
									if id, ok := ast.Unparen(be.Y).(*ast.Ident); ok && id.Name == "nil" {
										return true
									}
								}
							}
							if id, ok := ast.Unparen(ret.Results[0]).(*ast.Ident); !ok || id.Name != "true" {
								bad = "return " + types.ExprString(ret.Results[0]) + " at " + p.Rel(ret.Pos())
							}
						}
						return true
					})
					r.Check(bad == "", key, x.Pos(), "every return continues the iteration", "the Range callback can stop the iteration ("+bad+"): the remaining subscribers/topics are skipped")
				}
				return true
			})
		}
	}
	if n == 0 {
		r.Undec("batch loops", 0, "no range loops / Range callbacks found in rpc/plugins/push")
	}
}

// P10 (C19): the broker marks a withdrawn topic by storing a nil value in the subscriber's topic
// map. A single-value type assertion on a value of that map panics on the nil interface.
func init() {
	register("P10", "in a package that stores nil into a sync.Map (the broker's marker for a withdrawn topic), every value loaded or ranged from a sync.Map is type-asserted to a pointer type only in the comma-ok form or under a dominating != nil test: otherwise the first delivery, heartbeat or unsubscribe after a Deny panics", 2, ruleP10)
}

func ruleP10(r *Run) {
	p := r.P
	pkg := p.Pkg("rpc/plugins/push")
	if pkg == nil {
		r.Undec("package rpc/plugins/push", 0, "not found")
		return
	}
	info := pkg.TypesInfo
	var nilStore token.Pos
	for _, file := range pkg.Syntax {
		ast.Inspect(file, func(n ast.Node) bool {
			c, ok := n.(*ast.CallExpr)
			if !ok || methodName(c) != "Store" || len(c.Args) != 2 {
				return true
			}
			if f := Callee(info, c); f == nil || FullName(f) != "sync.Map.Store" && FullName(f) != "sync.(*Map).Store" && !strings.HasSuffix(FullName(f), "Map.Store") {
				return true
			}
			if id, ok := ast.Unparen(c.Args[1]).(*ast.Ident); ok && id.Name == "nil" {
				nilStore = c.Pos()
			}
			return true
		})
	}
	if !nilStore.IsValid() {
		r.Ok("no nil markers stored", 0, "no Store(key, nil) on a sync.Map in rpc/plugins/push")
		return
	}
	n := 0
	for _, file := range pkg.Syntax {
		for _, d := range file.Decls {
			fd, ok := d.(*ast.FuncDecl)
			if !ok || fd.Body == nil {
				continue
			}
			parents := parentMap(fd.Body)
			perFn := 0
			ast.Inspect(fd.Body, func(m ast.Node) bool {
				ta, ok := m.(*ast.TypeAssertExpr)
				if !ok || ta.Type == nil {
					return true
				}
				tv, ok := info.Types[ta.Type]
				if !ok {
					return true
				}
				pt, isPtr := tv.Type.Underlying().(*types.Pointer)
				if !isPtr {
					return true
				}
				// only the element type that is marked by nil: pointers to structs of this package
				if nn, ok := pt.Elem().(*types.Named); !ok || nn.Obj().Pkg() != pkg.Types {
					return true
				}
				n++
				perFn++
				key := fmt.Sprintf("assertion %s in %s #%d", types.ExprString(ta), p.DeclName(fd), perFn)
				// comma-ok?
				if as, ok := parents[ta].(*ast.AssignStmt); ok && len(as.Lhs) == 2 && len(as.Rhs) == 1 {
					r.Ok(key, ta.Pos(), "comma-ok form")
					return true
				}
				xs := types.ExprString(ast.Unparen(ta.X))
				guard := false
				for _, fc := range factsWithSwitch(parents, ta) {
					be, ok := fc.e.(*ast.BinaryExpr)
					if !ok || types.ExprString(ast.Unparen(be.X)) != xs {
						continue
					}
					if id, ok := ast.Unparen(be.Y).(*ast.Ident); !ok || id.Name != "nil" {
						continue
					}
					if (be.Op == token.NEQ && !fc.neg) || (be.Op == token.EQL && fc.neg) {
						guard = true
					}
				}
				r.Check(guard, key, ta.Pos(), "under a != nil test", fmt.Sprintf("%s is a value of a topic map in which a withdrawn topic is marked by a stored nil (%s): the single-value assertion panics with 'interface conversion: interface {} is nil' on the first delivery, heartbeat or unsubscribe after a Deny", xs, p.Rel(nilStore)))
				return true
			})
		}
	}
	if n == 0 {
		r.Undec("assertions on topic map values", 0, "nil markers are stored but no assertion to a pointer type was found")
	}
}

// G21 (C10/C19): a loop whose condition does not depend on a call can only end if its body changes
// one of the condition's variables itself. A variable that is only assigned inside a function
// literal (a Range callback that does not run for an empty map) leaves the loop spinning.
func init() {
	register("G21", "every for loop whose condition contains no call is able to end by its own body: at least one variable of the condition is assigned (or incremented, or has its address taken) in the loop's post statement or in its body outside function literals - an assignment only inside a callback literal does not count, the callback may never run", 100, ruleG21)
}

func ruleG21(r *Run) {
	p := r.P
	n := 0
	p.EachFunc(func(pkg *packages.Package, fd *ast.FuncDecl) {
		info := pkg.TypesInfo
		perFn := 0
		ast.Inspect(fd.Body, func(m ast.Node) bool {
			fs, ok := m.(*ast.ForStmt)
			if !ok || fs.Cond == nil {
				return true
			}
			hasCall := false
			vars := map[types.Object]bool{}
			ast.Inspect(fs.Cond, func(k ast.Node) bool {
				switch x := k.(type) {
				case *ast.CallExpr:
					if !IsBuiltin(info, x, "len") && !IsBuiltin(info, x, "cap") {
						if _, isConv := isConversion(info, x); !isConv {
							hasCall = true
						}
					}
				case *ast.UnaryExpr:
					if x.Op == token.ARROW {
						hasCall = true
					}
				case *ast.Ident:
					if v, ok := info.Uses[x].(*types.Var); ok {
						vars[v] = true
					}
				case *ast.SelectorExpr:
					if fv := fieldOf(info, x); fv != nil {
						vars[fv] = true
					}
				}
				return true
			})
			n++
			perFn++
			key := fmt.Sprintf("loop on %s in %s #%d", types.ExprString(fs.Cond), p.DeclName(fd), perFn)
			if hasCall || len(vars) == 0 {
				r.Ok(key, fs.Pos(), "condition re-evaluates a call")
				return true
			}
			changed := false
			mark := func(e ast.Expr) {
				e = ast.Unparen(e)
				if o := identObj(info, e); o != nil && vars[o] {
					changed = true
				}
				if fv := fieldOf(info, e); fv != nil && vars[fv] {
					changed = true
				}
				// writes through an element or dereference of a condition variable
				switch x := e.(type) {
				case *ast.IndexExpr:
					if o := identObj(info, x.X); o != nil && vars[o] {
						changed = true
					}
				case *ast.StarExpr:
					if o := identObj(info, x.X); o != nil && vars[o] {
						changed = true
					}
				}
			}
			scan := func(node ast.Node) {
				if node == nil {
					return
				}
				ast.Inspect(node, func(k ast.Node) bool {
					switch x := k.(type) {
					case *ast.FuncLit:
						return false
					case *ast.AssignStmt:
						for _, l := range x.Lhs {
							mark(l)
						}
					case *ast.IncDecStmt:
						mark(x.X)
					case *ast.UnaryExpr:
						if x.Op == token.AND {
							mark(x.X)
						}
					case *ast.RangeStmt:
						if x.Key != nil {
							mark(x.Key)
						}
						if x.Value != nil {
							mark(x.Value)
						}
					}
					return true
				})
			}
			scan(fs.Post)
			scan(fs.Body)
			// leaving by break/return is also a way out, but only if it does not depend on the same stuck variables;
			// accept any unconditional exit statement directly in the body
			if !changed {
				for _, s := range fs.Body.List {
					switch s.(type) {
					case *ast.ReturnStmt, *ast.BranchStmt:
						changed = true
					}
				}
			}
			var names []string
			for v := range vars {
				names = append(names, v.Name())
			}
			sort.Strings(names)
			r.Check(changed, key, fs.Pos(), "a condition variable is updated by the loop itself", fmt.Sprintf("no variable of the condition (%s) is assigned in the loop's post statement or body outside function literals: when the callback that assigns it does not run (an empty map has nothing to Range over) the loop spins forever at full speed", strings.Join(names, ", ")))
			return true
		})
	})
	if n == 0 {
		r.Undec("condition loops", 0, "no for loops with a condition found")
	}
}
