package main

import (
	"fmt"
	"go/ast"
	"go/token"
	"go/types"
)

// T11 (C01/C04/C05): the encoder counts a string's length in UTF-16 units (utf16Length in
// io/encode.go), the decoder consumes that many units (checkUTF8String in io/string_decoder.go).
// Both embody the same table: lead byte class -> bytes in the sequence, UTF-16 units it stands for.

func init() {
	register("T11", "the encoder's and the decoder's UTF-8 lead-byte tables agree: for every lead byte class both sides use the same sequence length in bytes and the same number of UTF-16 units (1,1,1,2 for 1-,2-,3-,4-byte sequences), both reject the same lead bytes, and the decoder takes the second unit of a 4-byte sequence only when two units remain", 17, ruleT11)
}

type utf8Class struct {
	bytes, units int // 0,0 = rejected
}

func ruleT11(r *Run) {
	p := r.P
	encFd, encPkg := p.DeclOf("io", "utf16Length")
	decFd, decPkg := p.DeclOf("io", "Decoder.checkUTF8String")
	if encFd == nil || decFd == nil {
		r.Undec("utf16Length / checkUTF8String", 0, "functions not found")
		return
	}
	// ---- encoder: switch { case (a & M) == V: c = K; n -= D } inside `if c == 0`
	type encCase struct {
		mask, val int64
		cont, dec int
		reject    bool
	}
	var encCases []encCase
	einfo := encPkg.TypesInfo
	var encSwitch *ast.SwitchStmt
	ast.Inspect(encFd.Body, func(n ast.Node) bool {
		if sw, ok := n.(*ast.SwitchStmt); ok && sw.Tag == nil && encSwitch == nil {
			encSwitch = sw
		}
		return true
	})
	if encSwitch == nil {
		r.Undec("encoder lead-byte switch", encFd.Pos(), "no tagless switch in utf16Length")
		return
	}
	for _, cs := range encSwitch.Body.List {
		cc := cs.(*ast.CaseClause)
		if len(cc.List) != 1 {
			r.Undec("encoder lead-byte switch", cc.Pos(), "unrecognised clause")
			return
		}
		be, ok := ast.Unparen(cc.List[0]).(*ast.BinaryExpr)
		if !ok || be.Op != token.EQL {
			r.Undec("encoder lead-byte switch", cc.Pos(), "clause is not (a & mask) == value")
			return
		}
		and, ok := ast.Unparen(be.X).(*ast.BinaryExpr)
		if !ok || and.Op != token.AND {
			r.Undec("encoder lead-byte switch", cc.Pos(), "clause is not (a & mask) == value")
			return
		}
		m, ok1 := intConst(einfo, and.Y)
		v, ok2 := intConst(einfo, be.Y)
		if !ok1 || !ok2 {
			r.Undec("encoder lead-byte switch", cc.Pos(), "non-constant mask/value")
			return
		}
		ec := encCase{mask: m, val: v}
		// roles, not names: the continuation counter is the variable that is ASSIGNED a constant,
		// the unit counter the one that is decremented
		for _, s := range cc.Body {
			switch x := s.(type) {
			case *ast.ReturnStmt:
				ec.reject = true
			case *ast.AssignStmt:
				if len(x.Lhs) == 1 && len(x.Rhs) == 1 {
					k, ok := intConst(einfo, x.Rhs[0])
					if ok && x.Tok == token.ASSIGN {
						ec.cont = int(k)
					}
					if ok && x.Tok == token.SUB_ASSIGN {
						ec.dec += int(k)
					}
				}
			case *ast.IncDecStmt:
				if x.Tok == token.DEC {
					ec.dec++
				}
			}
		}
		encCases = append(encCases, ec)
	}
	encClass := func(b int64) utf8Class {
		for _, ec := range encCases {
			if b&ec.mask == ec.val {
				if ec.reject {
					return utf8Class{}
				}
				return utf8Class{ec.cont + 1, ec.cont + 1 - ec.dec}
			}
		}
		return utf8Class{1, 1} // no clause: a plain byte, n counts it as one unit
	}
	// ---- decoder: switch b >> 4 { case ...: off += K [; utf16Length--] }
	dinfo := decPkg.TypesInfo
	var decSwitch *ast.SwitchStmt
	ast.Inspect(decFd.Body, func(n ast.Node) bool {
		if sw, ok := n.(*ast.SwitchStmt); ok && sw.Tag != nil && decSwitch == nil {
			decSwitch = sw
		}
		return true
	})
	if decSwitch == nil {
		r.Undec("decoder lead-byte switch", decFd.Pos(), "no tagged switch in checkUTF8String")
		return
	}
	shift := int64(-1)
	if be, ok := ast.Unparen(decSwitch.Tag).(*ast.BinaryExpr); ok && be.Op == token.SHR {
		if k, ok := intConst(dinfo, be.Y); ok {
			shift = k
		}
	}
	if shift != 4 {
		r.Undec("decoder lead-byte switch", decSwitch.Pos(), "the switch tag is not b >> 4")
		return
	}
	type decCase struct {
		bytes, units int
		reject       bool
		// an inner `if b&M == V || ... { reject }` refinement
		rejMask, rejVal int64
		hasRej          bool
		unitGuard       bool // the refinement also tests that two units remain
		pos             token.Pos
	}
	decBy := map[int64]*decCase{}
	var decDefault *decCase
	unitParams := map[types.Object]bool{} // int parameters (the byte offset and the UTF-16 unit counter)
	for _, pv := range paramsOf(dinfo, decFd.Type) {
		if pv != nil && pv.Type().String() == "int" {
			unitParams[pv] = true
		}
	}
	for _, cs := range decSwitch.Body.List {
		cc := cs.(*ast.CaseClause)
		dc := &decCase{units: 1, pos: cc.Pos()}
		for _, s := range cc.Body {
			switch x := s.(type) {
			case *ast.IncDecStmt:
				// roles, not names: the byte offset is what is incremented, the unit counter what is decremented
				if x.Tok == token.INC {
					dc.bytes++
				}
				if x.Tok == token.DEC {
					dc.units++
				}
			case *ast.AssignStmt:
				if len(x.Lhs) == 1 && len(x.Rhs) == 1 && x.Tok == token.ADD_ASSIGN {
					if k, ok := intConst(dinfo, x.Rhs[0]); ok {
						dc.bytes += int(k)
					}
				}
			case *ast.ReturnStmt:
				if rejectingReturn(p, dinfo, x) {
					dc.reject = true
				}
			case *ast.IfStmt:
				// if <cond> { ...; return off, n, false }
				rej := false
				ast.Inspect(x.Body, func(m ast.Node) bool {
					if ret, ok := m.(*ast.ReturnStmt); ok && rejectingReturn(p, dinfo, ret) {
						rej = true
					}
					return true
				})
				if !rej {
					continue
				}
				var disj []ast.Expr
				var split func(e ast.Expr)
				split = func(e ast.Expr) {
					e = ast.Unparen(e)
					if be, ok := e.(*ast.BinaryExpr); ok && be.Op == token.LOR {
						split(be.X)
						split(be.Y)
						return
					}
					disj = append(disj, e)
				}
				split(x.Cond)
				for _, d := range disj {
					be, ok := d.(*ast.BinaryExpr)
					if !ok {
						continue
					}
					if and, ok := ast.Unparen(be.X).(*ast.BinaryExpr); ok && and.Op == token.AND && be.Op == token.EQL {
						m, ok1 := intConst(dinfo, and.Y)
						v, ok2 := intConst(dinfo, be.Y)
						if ok1 && ok2 {
							dc.hasRej, dc.rejMask, dc.rejVal = true, m, v
						}
					}
					if o := identObj(dinfo, be.X); o != nil && unitParams[o] {
						if k, ok := intConst(dinfo, be.Y); ok && ((be.Op == token.LSS && k == 2) || (be.Op == token.LEQ && k == 1)) {
							dc.unitGuard = true
						}
					}
				}
			}
		}
		if cc.List == nil {
			decDefault = dc
			continue
		}
		for _, e := range cc.List {
			if k, ok := intConst(dinfo, e); ok {
				decBy[k] = dc
			}
		}
	}
	decClass := func(b int64) (utf8Class, *decCase) {
		dc := decBy[b>>4]
		if dc == nil {
			dc = decDefault
		}
		if dc == nil {
			return utf8Class{1, 1}, nil
		}
		if dc.reject || (dc.hasRej && b&dc.rejMask == dc.rejVal) {
			return utf8Class{}, dc
		}
		return utf8Class{dc.bytes, dc.units}, dc
	}
	// compare for one representative of every lead-byte class (high five bits)
	for hi := int64(0); hi < 32; hi++ {
		b := hi << 3
		e := encClass(b)
		d, dc := decClass(b)
		key := fmt.Sprintf("lead byte class 0x%02x..0x%02x", b, b|7)
		pos := decFd.Pos()
		if dc != nil {
			pos = dc.pos
		}
		// continuation bytes (10xxxxxx) as a lead byte: the encoder rejects them; the decoder must too
		if e == d {
			r.Ok(key, pos, fmt.Sprintf("both sides: %d byte(s), %d unit(s)", e.bytes, e.units))
		} else {
			r.Viol(key, pos, fmt.Sprintf("the encoder treats a sequence starting with 0x%02x as %d byte(s) / %d UTF-16 unit(s) (0/0 = rejected), the decoder as %d / %d: the decoder consumes a different number of bytes than the encoder's length prefix stands for, so the string and everything after it is mis-framed", b, e.bytes, e.units, d.bytes, d.units))
		}
	}
	// the two-unit class is guarded
	for k, dc := range decBy {
		if dc.units == 2 {
			r.Check(dc.unitGuard, fmt.Sprintf("two-unit class %d takes its second unit only when it remains", k), dc.pos, "rejects when fewer than two units remain", "a 4-byte sequence decrements the unit counter twice without checking that two units remain: with a length prefix of 1 (or an odd remainder) the counter becomes -1, the fast path advances head beyond tail and the slow path calls make with a negative capacity (panic on a few bytes of input)")
		}
	}
}

// rejectingReturn: the return yields ok == false: its last result is the literal false, or it
// returns the results of a repository helper all of whose returns end in the literal false.
func rejectingReturn(p *Prog, info *types.Info, ret *ast.ReturnStmt) bool {
	if n := len(ret.Results); n >= 1 {
		if isBoolConst(ret.Results[n-1], false) {
			return true
		}
		if n == 1 {
			if call, ok := ast.Unparen(ret.Results[0]).(*ast.CallExpr); ok {
				if d, pkg := p.calleeDecl(info, call); d != nil {
					all, any := true, false
					ast.Inspect(d.Body, func(m ast.Node) bool {
						if _, ok := m.(*ast.FuncLit); ok {
							return false
						}
						if r2, ok := m.(*ast.ReturnStmt); ok {
							any = true
							if k := len(r2.Results); k == 0 || !isBoolConst(r2.Results[k-1], false) {
								all = false
							}
						}
						return true
					})
					_ = pkg
					return all && any
				}
			}
		}
	}
	return false
}
