package main

import (
	"fmt"
	"go/ast"
	"go/token"
	"go/types"
	"strings"

	"golang.org/x/tools/go/packages"
)

// rules written after the fifth round of independent seeding

func init() {
	register("T17", "numbers of the wire are decimal: every parse of a digit string in package io that takes a base (big.Int.SetString, strconv.ParseInt / ParseUint) is given the constant 10 - base 0 would read a zero-padded digit string as octal (`s4\"0123\"` into *big.Int is 83) and accept 0x1f and 1_000 where the grammar has an error", 2, ruleT17)
	register("T18", "an encode-handler factory of package io (a function that returns an EncodeHandler) that returns method values of value encoders in several branches selects the SAME method in all of them: the branches differ in which encoder serves the type, not in how the value is to be written (Write for a value held in place, Encode - with the reference lookup - for a pointer position); a struct value sent through Encode is looked up in the pointer-keyed reference table and panics with `hash of unhashable type` as soon as it has a slice or map field", 2, ruleT18)
	register("V11", "the only thing that decides whether the decoder gives up for lack of input is the refill itself: every condition in package io that calls loadMore() consists of that call (negated or not), alone or behind a conjunction with the window-empty test (head == tail) - never beside a further disjunct that can end the read while a refill could still deliver (an earlier, non-fatal Error): from a slice that branch is never reached, from a reader a number split by a read boundary is cut at the window end", 8, ruleV11)
	register("F7", "where the time decoders of package io decide the zone (a comparison of the terminator variable with TagUTC), no later statement of the function assigns that variable: the zone is decided from the LAST terminator read - after the optional fraction - so that `T123000.500Z` is UTC and not local time", 2, ruleF7)
}

func ruleT17(r *Run) {
	p := r.P
	pkg := p.Pkg("io")
	if pkg == nil {
		r.Undec("package io", 0, "not found")
		return
	}
	info := pkg.TypesInfo
	for _, file := range pkg.Syntax {
		for _, d := range file.Decls {
			fd, ok := d.(*ast.FuncDecl)
			if !ok || fd.Body == nil {
				continue
			}
			n := 0
			ast.Inspect(fd.Body, func(m ast.Node) bool {
				c, ok := m.(*ast.CallExpr)
				if !ok {
					return true
				}
				var base ast.Expr
				switch FullNameOf(info, c) {
				case "math/big.Int.SetString":
					if len(c.Args) == 2 {
						base = c.Args[1]
					}
				case "strconv.ParseInt", "strconv.ParseUint":
					if len(c.Args) == 3 {
						base = c.Args[1]
					}
				}
				if base == nil {
					return true
				}
				n++
				k, isConst := intConst(info, base)
				r.Check(isConst && k == 10, fmt.Sprintf("base of %s in %s #%d", methodName(c), p.DeclName(fd), n), c.Pos(), "base 10", "the digit string is parsed with base `"+types.ExprString(base)+"`, not 10: a leading zero selects octal, 0x / 0b / _ are accepted - a decimal number of the wire becomes another number or a malformed one is taken")
				return true
			})
		}
	}
}

func ruleT18(r *Run) {
	p := r.P
	pkg := p.Pkg("io")
	if pkg == nil {
		r.Undec("package io", 0, "not found")
		return
	}
	info := pkg.TypesInfo
	for _, file := range pkg.Syntax {
		for _, d := range file.Decls {
			fd, ok := d.(*ast.FuncDecl)
			if !ok || fd.Body == nil || fd.Type.Results == nil || len(fd.Type.Results.List) != 1 {
				continue
			}
			if tv, ok := info.Types[fd.Type.Results.List[0].Type]; !ok || !strings.HasSuffix(tv.Type.String(), "io.EncodeHandler") {
				continue
			}
			var names []string
			var first token.Pos
			ast.Inspect(fd.Body, func(m ast.Node) bool {
				if _, ok := m.(*ast.FuncLit); ok {
					return false
				}
				ret, ok := m.(*ast.ReturnStmt)
				if !ok || len(ret.Results) != 1 {
					return true
				}
				if sel, ok := ast.Unparen(ret.Results[0]).(*ast.SelectorExpr); ok {
					if s := info.Selections[sel]; s != nil && s.Kind() == types.MethodVal {
						names = append(names, s.Obj().Name())
						if first == 0 {
							first = ret.Pos()
						}
					}
				}
				return true
			})
			if len(names) < 1 {
				continue
			}
			// a factory with one such return agrees with itself: it is counted, so that the rule keeps its subject when the
			// choice of the encoder moves into a helper and each factory is left with a single return
			same := true
			for _, nm := range names {
				if nm != names[0] {
					same = false
				}
			}
			r.Check(same, "method values returned by "+p.DeclName(fd), first, "all branches select "+names[0], "the branches return different methods of the value encoders ("+strings.Join(names, ", ")+"): one kind of type is written with the reference lookup and the other without - the position (value or pointer) decides that, not which encoder serves the type")
		}
	}
}

func ruleV11(r *Run) {
	p := r.P
	pkg := p.Pkg("io")
	if pkg == nil {
		r.Undec("package io", 0, "not found")
		return
	}
	info := pkg.TypesInfo
	lm := p.LookupFunc("io", "Decoder.loadMore")
	if lm == nil {
		r.Undec("io.Decoder.loadMore", 0, "not found")
		return
	}
	for _, file := range pkg.Syntax {
		for _, d := range file.Decls {
			fd, ok := d.(*ast.FuncDecl)
			if !ok || fd.Body == nil {
				continue
			}
			parents := parentMap(fd.Body)
			n := 0
			ast.Inspect(fd.Body, func(m ast.Node) bool {
				c, ok := m.(*ast.CallExpr)
				if !ok || Callee(info, c) != lm {
					return true
				}
				n++
				key := fmt.Sprintf("refill decision in %s #%d", p.DeclName(fd), n)
				// climb to the whole condition
				var top ast.Expr = c
				for {
					pe, ok := parents[top].(ast.Expr)
					if !ok {
						break
					}
					top = pe
				}
				// GU, the condition under which the read is GIVEN UP, is the condition itself when the if-body leaves
				// (return / continue / break), its negation when the body does the work (positive guard) or for a loop
				// condition. In GU every disjunct either contains `!loadMore()` (the refill was tried and failed) or is a
				// nothing-is-wanted test (a count compared with a constant); a disjunct that gives up without a failed
				// refill is the defect. Negation is pushed inward (De Morgan).
				bad := ""
				var chk func(e ast.Expr, neg bool, underOr bool)
				containsRefill := func(e ast.Expr) bool { return mentionsCall(info, e, lm) }
				chk = func(e ast.Expr, neg bool, underOr bool) {
					e = ast.Unparen(e)
					switch x := e.(type) {
					case *ast.UnaryExpr:
						if x.Op == token.NOT {
							chk(x.X, !neg, underOr)
							return
						}
					case *ast.BinaryExpr:
						isOr := (x.Op == token.LOR && !neg) || (x.Op == token.LAND && neg)
						isAnd := (x.Op == token.LAND && !neg) || (x.Op == token.LOR && neg)
						if isOr {
							chk(x.X, neg, true)
							chk(x.Y, neg, true)
							return
						}
						if isAnd {
							// a conjunction: fine as a whole if one conjunct is the failed refill
							if containsRefill(x) {
								chk(x.X, neg, false)
								chk(x.Y, neg, false)
								return
							}
						}
					case *ast.CallExpr:
						if Callee(info, x) == lm {
							if !neg {
								bad = "a SUCCESSFUL refill"
							}
							return
						}
					}
					if !underOr {
						return // a conjunct beside the refill, or the whole condition without a refill: restricts, does not add
					}
					// a disjunct without the refill: only a nothing-wanted test
					if b, ok := e.(*ast.BinaryExpr); ok {
						if _, isConst := intConst(info, b.Y); isConst {
							if _, isField := ast.Unparen(b.X).(*ast.SelectorExpr); !isField {
								return
							}
						}
					}
					if neg {
						bad = "!(" + types.ExprString(e) + ")"
					} else {
						bad = types.ExprString(e)
					}
				}
				switch par := parents[top].(type) {
				case *ast.IfStmt:
					if par.Cond == top {
						leaves := endsInJump(par.Body.List)
						chk(top, !leaves, false)
					}
				case *ast.ForStmt:
					if par.Cond == top {
						chk(top, true, false)
					}
				}
				r.Check(bad == "", key, c.Pos(), "the read is given up only when the refill fails", "the condition `"+types.ExprString(top)+"` can end the read through `"+bad+"` without trying to refill: decoding from a reader stops at the end of the window where decoding from a slice goes on")
				return true
			})
		}
	}
}

func mentionsCall(info *types.Info, e ast.Expr, f *types.Func) bool {
	found := false
	ast.Inspect(e, func(n ast.Node) bool {
		if c, ok := n.(*ast.CallExpr); ok && Callee(info, c) == f {
			found = true
		}
		return !found
	})
	return found
}

func isWindowField(info *types.Info, e ast.Expr) bool {
	fv := fieldOf(info, e)
	return fv != nil && (refName(fv.Name()) == "head" || refName(fv.Name()) == "tail")
}

func ruleF7(r *Run) {
	p := r.P
	pkg := p.Pkg("io")
	if pkg == nil {
		r.Undec("package io", 0, "not found")
		return
	}
	info := pkg.TypesInfo
	for _, file := range pkg.Syntax {
		for _, d := range file.Decls {
			fd, ok := d.(*ast.FuncDecl)
			if !ok || fd.Body == nil {
				continue
			}
			n := 0
			ast.Inspect(fd.Body, func(m ast.Node) bool {
				b, ok := m.(*ast.BinaryExpr)
				if !ok || (b.Op != token.EQL && b.Op != token.NEQ) {
					return true
				}
				var v types.Object
				if o := identObj(info, b.Y); o != nil && o.Name() == "TagUTC" {
					v = identObj(info, b.X)
				} else if o := identObj(info, b.X); o != nil && o.Name() == "TagUTC" {
					v = identObj(info, b.Y)
				}
				if _, isVar := v.(*types.Var); !isVar {
					return true
				}
				n++
				key := fmt.Sprintf("zone decided from the last terminator in %s #%d", p.DeclName(fd), n)
				late := token.NoPos
				ast.Inspect(fd.Body, func(k ast.Node) bool {
					if as, ok := k.(*ast.AssignStmt); ok && as.Pos() > b.Pos() {
						for _, l := range as.Lhs {
							if identObj(info, l) == v {
								late = as.Pos()
							}
						}
					}
					return true
				})
				r.Check(late == token.NoPos, key, b.Pos(), "no later assignment of "+v.Name(), v.Name()+" is compared with TagUTC here and assigned again at "+p.Rel(late)+": the zone has been decided from an earlier byte (the one in front of the fraction), the real terminator is ignored and a UTC time with a fraction is taken for local time")
				return true
			})
		}
	}
}

// ---------------------------------------------------------------------------------------------------
// G44 a client transport hands a request on once

func init() {
	register("G44", "the Transport method of every client transport (the types of rpc/* that implement core.Transport) uses its request parameter exactly once, and not inside a loop: the bytes of one call are handed to one connection (or one HTTP exchange) once. Whether a failed call may be sent again is decided above the transport, by the cluster plugin, which knows whether the call is idempotent; a transport that tries again by itself (a fresh connection after ErrClosed) writes a call a second time that the server may already be executing", 5, ruleG44)
}

func ruleG44(r *Run) {
	p := r.P
	trObj, _ := p.LookupObj("rpc/core", "Transport").(*types.TypeName)
	if trObj == nil {
		r.Undec("rpc/core.Transport", 0, "not found")
		return
	}
	iface, _ := trObj.Type().Underlying().(*types.Interface)
	if iface == nil {
		r.Undec("rpc/core.Transport", 0, "not an interface")
		return
	}
	for _, pkg := range p.Pkgs {
		if !strings.Contains(pkg.PkgPath, "/rpc/") {
			continue
		}
		info := pkg.TypesInfo
		for _, file := range pkg.Syntax {
			for _, d := range file.Decls {
				fd, ok := d.(*ast.FuncDecl)
				if !ok || fd.Body == nil || fd.Recv == nil || fd.Name.Name != "Transport" {
					continue
				}
				f, _ := info.Defs[fd.Name].(*types.Func)
				if f == nil {
					continue
				}
				rt := f.Type().(*types.Signature).Recv().Type()
				if !types.Implements(rt, iface) && !types.Implements(types.NewPointer(rt), iface) {
					continue
				}
				if strings.HasSuffix(pkg.PkgPath, "/rpc/core") {
					continue // Client.Transport selects the transport, it is not one
				}
				var req *types.Var
				for _, pv := range paramsOf(info, fd.Type) {
					if pv.Type().String() == "[]byte" {
						req = pv
					}
				}
				if req == nil {
					continue
				}
				key := "request handed on once in " + p.DeclName(fd)
				parents := parentMap(fd.Body)
				uses, inLoop := 0, false
				ast.Inspect(fd.Body, func(m ast.Node) bool {
					id, ok := m.(*ast.Ident)
					if !ok || info.Uses[id] != types.Object(req) {
						return true
					}
					// len(request) is not a use of the bytes
					if c, ok := parents[id].(*ast.CallExpr); ok && IsBuiltin(info, c, "len") {
						return true
					}
					uses++
					for q := parents[id]; q != nil; q = parents[q] {
						switch q.(type) {
						case *ast.ForStmt, *ast.RangeStmt:
							inLoop = true
						}
					}
					return true
				})
				switch {
				case inLoop:
					r.Viol(key, fd.Pos(), "the request is handed on inside a loop: the transport can write one call more than once - a non-idempotent call that the server has already begun to execute is executed again, below the cluster plugin that would have refused the retry")
				case uses != 1:
					r.Viol(key, fd.Pos(), fmt.Sprintf("the request parameter is used %d times: one call must be handed to one connection once", uses))
				default:
					r.Ok(key, fd.Pos(), "one use, outside any loop")
				}
			}
		}
	}
}

// ---------------------------------------------------------------------------------------------------
// P20 a pooled coder is released at most once

func init() {
	register("P20", "a coder taken from the pool is given back at most once on every path: in every function that calls io.FreeEncoder / io.FreeDecoder, no path (deferred calls included, replayed at the exit) releases the same variable twice. A second release puts the same *Encoder into the sync.Pool twice; two goroutines that marshal at the same time later both receive it and write into one buffer - sequential use never shows it", 5, ruleP20)
}

type p20State struct{ freed map[types.Object]int }

func (s *p20State) Key() string {
	var parts []string
	for o, n := range s.freed {
		parts = append(parts, fmt.Sprintf("%s@%d=%d", o.Name(), o.Pos(), n))
	}
	sortStrings(parts)
	return strings.Join(parts, ",")
}
func (s *p20State) Copy() PState {
	n := &p20State{freed: map[types.Object]int{}}
	for k, v := range s.freed {
		n.freed[k] = v
	}
	return n
}

func sortStrings(a []string) {
	for i := 1; i < len(a); i++ {
		for j := i; j > 0 && a[j] < a[j-1]; j-- {
			a[j], a[j-1] = a[j-1], a[j]
		}
	}
}

func ruleP20(r *Run) {
	p := r.P
	free := map[*types.Func]bool{}
	for _, nm := range []string{"FreeEncoder", "FreeDecoder"} {
		if f := p.LookupFunc("io", nm); f != nil {
			free[f] = true
		}
	}
	if len(free) != 2 {
		r.Undec("io.FreeEncoder / io.FreeDecoder", 0, "not found")
		return
	}
	p.EachFunc(func(pkg *packages.Package, fd *ast.FuncDecl) {
		if fd.Body == nil {
			return
		}
		info := pkg.TypesInfo
		has := false
		ast.Inspect(fd.Body, func(m ast.Node) bool {
			if c, ok := m.(*ast.CallExpr); ok && free[Callee(info, c)] {
				has = true
			}
			return !has
		})
		if !has {
			return
		}
		key := "pooled coders released at most once in " + p.DeclName(fd)
		var bad []string
		w := &Walk{Info: info}
		w.Event = func(w *Walk, ps PState, n ast.Node) []PState {
			c, ok := n.(*ast.CallExpr)
			if !ok || !free[Callee(info, c)] || len(c.Args) != 1 {
				return nil
			}
			o := identObj(info, c.Args[0])
			if o == nil {
				return nil
			}
			ns := ps.Copy().(*p20State)
			ns.freed[o]++
			if ns.freed[o] == 2 {
				bad = append(bad, o.Name()+" (second release at "+p.Rel(c.Pos())+")")
			}
			if ns.freed[o] > 2 {
				ns.freed[o] = 2
			}
			return []PState{ns}
		}
		w.Run(fd.Body, &p20State{freed: map[types.Object]int{}})
		if len(w.Undecided) > 0 {
			r.Undec(key, fd.Pos(), strings.Join(w.Undecided, "; "))
			return
		}
		sortStrings(bad)
		r.Check(len(bad) == 0, key, fd.Pos(), "no path releases a coder twice", "a path releases "+strings.Join(dedupStr(bad), ", ")+": the same object is in the pool twice, and two concurrent users will be handed it at the same time")
	})
}

// ---------------------------------------------------------------------------------------------------
// S13 a body that has arrived completely is not a short body

func init() {
	register("S13", "in rpc/http the test that turns a body shorter than its declared length into an error compares the bytes received with the declared length strictly (len(data) < length, or !=): with <= the body that arrived completely is refused as well - every request above the preallocation bound is answered 400 although it is far below MaxRequestLength", 1, ruleS13)
}

func ruleS13(r *Run) {
	p := r.P
	pkg := p.Pkg("rpc/http")
	if pkg == nil {
		r.Undec("package rpc/http", 0, "not found")
		return
	}
	info := pkg.TypesInfo
	n := 0
	for _, file := range pkg.Syntax {
		for _, d := range file.Decls {
			fd, ok := d.(*ast.FuncDecl)
			if !ok || fd.Body == nil {
				continue
			}
			var lens []*types.Var
			for _, pv := range paramsOf(info, fd.Type) {
				if b, ok := pv.Type().Underlying().(*types.Basic); ok && b.Info()&types.IsInteger != 0 {
					lens = append(lens, pv)
				}
			}
			if len(lens) == 0 {
				continue
			}
			k := 0
			ast.Inspect(fd.Body, func(m ast.Node) bool {
				b, ok := m.(*ast.BinaryExpr)
				if !ok {
					return true
				}
				switch b.Op {
				case token.LSS, token.LEQ, token.GTR, token.GEQ, token.NEQ:
				default:
					return true
				}
				hasLen := func(e ast.Expr) bool {
					found := false
					ast.Inspect(e, func(q ast.Node) bool {
						if c, ok := q.(*ast.CallExpr); ok && IsBuiltin(info, c, "len") {
							found = true
						}
						return !found
					})
					return found
				}
				isParam := func(e ast.Expr) bool {
					o := identObj(info, stripConv(info, e))
					for _, pv := range lens {
						if o == types.Object(pv) {
							return true
						}
					}
					return false
				}
				var strict bool
				switch {
				case hasLen(b.X) && isParam(b.Y):
					strict = b.Op == token.LSS || b.Op == token.NEQ
				case isParam(b.X) && hasLen(b.Y):
					strict = b.Op == token.GTR || b.Op == token.NEQ
				default:
					return true
				}
				n++
				k++
				r.Check(strict, fmt.Sprintf("short-body test in %s #%d", p.DeclName(fd), k), b.Pos(), "strict comparison", "`"+types.ExprString(b)+"` also holds for a body that has arrived completely: it is reported as cut short and the request is refused")
				return true
			})
		}
	}
	if n == 0 {
		r.Undec("short-body test in rpc/http", 0, "no comparison of the bytes received with the declared length found")
	}
}

// ---------------------------------------------------------------------------------------------------
// W17 exact parsers that accept an exponent are given wire text only under a bound on the exponent

func init() {
	register("W17", "math/big.Rat.SetString accepts decimal exponents and writes out 10^e digit by digit; package io hands it text from the wire only where the exponent has been bounded: the call is reached under a condition that calls a boolean function of package io on the same string (ratExponentBounded, whose body compares the exponent with a constant). `s9\"1e1000000\"` into *big.Rat became a 3.3 million bit number; the same parser used as a fallback for *big.Int destinations would do it for every long item", 0, ruleW17)
}

func ruleW17(r *Run) {
	p := r.P
	pkg := p.Pkg("io")
	if pkg == nil {
		r.Undec("package io", 0, "not found")
		return
	}
	info := pkg.TypesInfo
	n := 0
	for _, file := range pkg.Syntax {
		for _, d := range file.Decls {
			fd, ok := d.(*ast.FuncDecl)
			if !ok || fd.Body == nil {
				continue
			}
			parents := parentMap(fd.Body)
			k := 0
			ast.Inspect(fd.Body, func(m ast.Node) bool {
				c, ok := m.(*ast.CallExpr)
				if !ok || FullNameOf(info, c) != "math/big.Rat.SetString" || len(c.Args) != 1 {
					return true
				}
				n++
				k++
				key := fmt.Sprintf("big.Rat.SetString in %s #%d", p.DeclName(fd), k)
				arg := identObj(info, c.Args[0])
				guarded := false
				for _, f := range factsWithSwitch(parents, c) {
					if f.neg {
						continue
					}
					ast.Inspect(f.e, func(q ast.Node) bool {
						gc, ok := q.(*ast.CallExpr)
						if !ok {
							return true
						}
						g := Callee(info, gc)
						if g == nil || g.Pkg() != pkg.Types {
							return true
						}
						sig := g.Type().(*types.Signature)
						if sig.Results().Len() != 1 || !types.Identical(sig.Results().At(0).Type(), types.Typ[types.Bool]) {
							return true
						}
						for _, a := range gc.Args {
							if arg != nil && identObj(info, a) == arg {
								// the guard compares something with a constant
								if gd := p.Decl(g); gd != nil && gd.Body != nil {
									ast.Inspect(gd.Body, func(x ast.Node) bool {
										if b, ok := x.(*ast.BinaryExpr); ok {
											switch b.Op {
											case token.LSS, token.LEQ, token.GTR, token.GEQ:
												if _, isC := intConst(info, b.X); isC {
													guarded = true
												}
												if _, isC := intConst(info, b.Y); isC {
													guarded = true
												}
											}
										}
										return true
									})
								}
							}
						}
						return true
					})
				}
				r.Check(guarded, key, c.Pos(), "reached only for text whose exponent has been bounded", "text from the wire is parsed with big.Rat.SetString without a bound on its decimal exponent: a dozen bytes (1e1000000) become a number of millions of bits, time and memory out of all proportion to the input")
				return true
			})
		}
	}
	if n == 0 {
		r.Ok("no big.Rat.SetString in package io", 0, "nothing to bound")
	}
}

// ---------------------------------------------------------------------------------------------------
// L14 a table is complete when it is published in a sync.Map

func init() {
	register("L14", "a map that package io publishes in one of its package-level sync.Map caches (Store / LoadOrStore) is not written afterwards: the function that stores it does not assign an element of it - through the stored variable or through the value that LoadOrStore hands back - after the call. Readers take the map out of the cache without a lock; a map published empty and filled afterwards is read while it is written (the runtime ends the process with `concurrent map read and map write`, which no recover contains) or read before it is filled (every field of the item is dropped)", 4, ruleL14)
}

func ruleL14(r *Run) {
	p := r.P
	pkg := p.Pkg("io")
	if pkg == nil {
		r.Undec("package io", 0, "not found")
		return
	}
	info := pkg.TypesInfo
	for _, file := range pkg.Syntax {
		for _, d := range file.Decls {
			fd, ok := d.(*ast.FuncDecl)
			if !ok || fd.Body == nil {
				continue
			}
			parents := parentMap(fd.Body)
			k := 0
			ast.Inspect(fd.Body, func(m ast.Node) bool {
				c, ok := m.(*ast.CallExpr)
				if !ok {
					return true
				}
				fn := FullNameOf(info, c)
				if fn != "sync.Map.Store" && fn != "sync.Map.LoadOrStore" {
					return true
				}
				k++
				key := fmt.Sprintf("table published by %s in %s #%d", methodName(c), p.DeclName(fd), k)
				// the variables through which the published object can be written
				objs := map[types.Object]bool{}
				if o := identObj(info, c.Args[1]); o != nil {
					objs[o] = true
				}
				if as, ok := parents[c].(*ast.AssignStmt); ok && len(as.Lhs) > 0 {
					if o := identObj(info, as.Lhs[0]); o != nil && o.Name() != "_" {
						objs[o] = true
					}
				}
				// aliases: x := y.(T), x := y
				for changed := true; changed; {
					changed = false
					ast.Inspect(fd.Body, func(q ast.Node) bool {
						as, ok := q.(*ast.AssignStmt)
						if !ok || len(as.Lhs) != len(as.Rhs) {
							return true
						}
						for i, rh := range as.Rhs {
							e := ast.Unparen(rh)
							if ta, ok := e.(*ast.TypeAssertExpr); ok {
								e = ta.X
							}
							if o := identObj(info, e); o != nil && objs[o] {
								if l := identObj(info, as.Lhs[i]); l != nil && !objs[l] {
									objs[l] = true
									changed = true
								}
							}
						}
						return true
					})
				}
				late := token.NoPos
				ast.Inspect(fd.Body, func(q ast.Node) bool {
					as, ok := q.(*ast.AssignStmt)
					if !ok || as.Pos() < c.Pos() {
						return true
					}
					for _, l := range as.Lhs {
						if ix, ok := ast.Unparen(l).(*ast.IndexExpr); ok {
							if o := identObj(info, ix.X); o != nil && objs[o] {
								if _, isMap := o.Type().Underlying().(*types.Map); isMap {
									late = as.Pos()
								}
							}
						}
					}
					return true
				})
				r.Check(late == token.NoPos, key, c.Pos(), "not written after it has been published", "the map is stored in the cache and an element of it is assigned afterwards (at "+p.Rel(late)+"): another goroutine that finds it in the cache reads it while it is being filled - concurrent map read and map write ends the process - or before, and sees an empty table")
				return true
			})
		}
	}
}

// ---------------------------------------------------------------------------------------------------
// U5 a typed slice built from dynamically typed values demands type identity

func init() {
	register("U5", "where package io builds a slice type at run time (reflect.SliceOf(t)) and fills it through UnsafeSetIndex with values whose types are only known dynamically, every value's type has been compared with t for IDENTITY (a == / != between two reflect.Type values, one of them t, whose mismatch leaves the function): the unsafe store copies the value's memory as if it were a t - the same kind is not enough ([]string copied into a [][]int element, *Cat into a []*Dog)", 1, ruleU5)
}

func ruleU5(r *Run) {
	p := r.P
	pkg := p.Pkg("io")
	if pkg == nil {
		r.Undec("package io", 0, "not found")
		return
	}
	info := pkg.TypesInfo
	isReflectType := func(e ast.Expr) bool {
		tv, ok := info.Types[e]
		return ok && tv.Type != nil && tv.Type.String() == "reflect.Type"
	}
	notNil := func(e ast.Expr) bool {
		id, ok := ast.Unparen(e).(*ast.Ident)
		return !ok || id.Name != "nil"
	}
	var decls []*ast.FuncDecl
	for _, file := range pkg.Syntax {
		for _, d := range file.Decls {
			if fd, ok := d.(*ast.FuncDecl); ok && fd.Body != nil {
				decls = append(decls, fd)
			}
		}
	}
	// established: in fd, the type held by t has been compared for identity with the types of the values
	var established func(fd *ast.FuncDecl, t types.Object, before token.Pos, depth int) bool
	established = func(fd *ast.FuncDecl, t types.Object, before token.Pos, depth int) bool {
		if depth > 3 {
			return false
		}
		parents := parentMap(fd.Body)
		ok := false
		// (a) a comparison in this function
		ast.Inspect(fd.Body, func(m ast.Node) bool {
			b, isB := m.(*ast.BinaryExpr)
			if !isB || (b.Op != token.EQL && b.Op != token.NEQ) || (before != token.NoPos && b.Pos() > before) {
				return true
			}
			if !isReflectType(b.X) || !isReflectType(b.Y) || !notNil(b.X) || !notNil(b.Y) {
				return true
			}
			if identObj(info, b.X) != t && identObj(info, b.Y) != t {
				return true
			}
			if ifs, isIf := parents[b].(*ast.IfStmt); isIf && b.Op == token.NEQ && len(ifs.Body.List) > 0 {
				if _, isRet := ifs.Body.List[len(ifs.Body.List)-1].(*ast.ReturnStmt); isRet {
					ok = true
				}
			}
			if b.Op == token.EQL {
				ok = true
			}
			return true
		})
		if ok {
			return true
		}
		// (b) t is worked out by a helper that compares
		if def, has := localDefs(info, fd.Body)[t]; has {
			if hc, isCall := ast.Unparen(def).(*ast.CallExpr); isCall {
				if hd, hpkg := p.calleeDecl(info, hc); hd != nil && hpkg == pkg {
					found := false
					ast.Inspect(hd.Body, func(m ast.Node) bool {
						if b, isB := m.(*ast.BinaryExpr); isB && (b.Op == token.EQL || b.Op == token.NEQ) && isReflectType(b.X) && isReflectType(b.Y) && notNil(b.X) && notNil(b.Y) {
							found = true
						}
						return true
					})
					if found {
						return true
					}
				}
			}
		}
		// (c) t is a parameter of an unexported function: every call site hands over an established type
		if isParamOrResult(info, fd, t) && !fd.Name.IsExported() {
			self, _ := info.Defs[fd.Name].(*types.Func)
			idx := -1
			for i, pv := range paramsOf(info, fd.Type) {
				if types.Object(pv) == t {
					idx = i
				}
			}
			if self == nil || idx < 0 {
				return false
			}
			sites, all := 0, true
			for _, cd := range decls {
				ast.Inspect(cd.Body, func(m ast.Node) bool {
					c, isCall := m.(*ast.CallExpr)
					if !isCall || Callee(info, c) != self || idx >= len(c.Args) {
						return true
					}
					sites++
					ao := identObj(info, c.Args[idx])
					if ao == nil || !established(cd, ao, c.Pos(), depth+1) {
						all = false
					}
					return true
				})
			}
			return sites > 0 && all
		}
		return false
	}
	n := 0
	for _, fd := range decls {
		var sliceOf *ast.CallExpr
		unsafeSet := false
		ast.Inspect(fd.Body, func(m ast.Node) bool {
			if c, ok := m.(*ast.CallExpr); ok {
				if FullNameOf(info, c) == "reflect.SliceOf" && len(c.Args) == 1 {
					sliceOf = c
				}
				if methodName(c) == "UnsafeSetIndex" {
					unsafeSet = true
				}
			}
			return true
		})
		if sliceOf == nil || !unsafeSet {
			continue
		}
		t := identObj(info, sliceOf.Args[0])
		if _, isVar := t.(*types.Var); !isVar {
			continue
		}
		if isParamOrResult(info, fd, t) && fd.Name.IsExported() {
			continue // the element type is given by the caller (a static destination), not inferred from the values
		}
		// the values are dynamically typed: the function fills from []interface{} (or interface{} values)
		dyn := false
		for _, pv := range paramsOf(info, fd.Type) {
			if strings.Contains(pv.Type().String(), "interface{}") || strings.Contains(pv.Type().String(), "interface {}") {
				dyn = true
			}
		}
		ast.Inspect(fd.Body, func(m ast.Node) bool {
			if id, ok := m.(*ast.Ident); ok {
				if v, ok := info.Uses[id].(*types.Var); ok && strings.HasPrefix(v.Type().String(), "[]interface") {
					dyn = true
				}
			}
			return true
		})
		if !dyn {
			continue
		}
		n++
		key := "element type identity in " + p.DeclName(fd)
		r.Check(established(fd, t, sliceOf.Pos(), 0), key, sliceOf.Pos(), "every value's type is compared with the element type by identity before the slice is built", "no identity comparison between the values' types and "+t.Name()+" guards reflect.SliceOf("+t.Name()+") + UnsafeSetIndex: values of another type of the same kind are copied into the typed slice as raw memory")
	}
	if n == 0 {
		r.Undec("run-time slice construction in package io", 0, "no function with reflect.SliceOf of an inferred type and UnsafeSetIndex found")
	}
}

// ---------------------------------------------------------------------------------------------------
// G46 work handed to another goroutine does not share the variables of the loop that produces it

func init() {
	register("G46", "a function literal that is started with `go` or handed to a worker pool (core.WorkerPool.Submit) inside a loop does not refer to a variable that is declared OUTSIDE that loop and assigned inside it: the literal runs later, on another goroutine, and then sees whatever the loop has stored there since - a request handler that waits for a pool worker runs with the identifier and body of the request read LAST on the connection (its own caller never gets an answer, another one gets two). Instances are the asynchronous hand-overs inside loops; values that are to travel with the work are parameters of a named function or of the literal, or are declared inside the loop body", 6, ruleG46)
}

func ruleG46(r *Run) {
	p := r.P
	p.EachFunc(func(pkg *packages.Package, fd *ast.FuncDecl) {
		if fd.Body == nil || !strings.Contains(pkg.PkgPath, "/rpc") {
			return
		}
		info := pkg.TypesInfo
		parents := parentMap(fd.Body)
		k := 0
		ast.Inspect(fd.Body, func(m ast.Node) bool {
			var call *ast.CallExpr
			switch x := m.(type) {
			case *ast.GoStmt:
				call = x.Call
			case *ast.CallExpr:
				if methodName(x) == "Submit" {
					if sel, ok := x.Fun.(*ast.SelectorExpr); ok {
						if s := info.Selections[sel]; s != nil {
							if _, isIface := s.Recv().Underlying().(*types.Interface); isIface {
								call = x
							}
						}
					}
				}
			}
			if call == nil {
				return true
			}
			// the innermost loop around the hand-over (inside this function or literal)
			var loop ast.Node
			for q := parents[m]; q != nil; q = parents[q] {
				if _, ok := q.(*ast.FuncLit); ok {
					break
				}
				switch q.(type) {
				case *ast.ForStmt, *ast.RangeStmt:
					loop = q
				}
				if loop != nil {
					break
				}
			}
			if loop == nil {
				return true
			}
			k++
			key := fmt.Sprintf("asynchronous hand-over in a loop in %s #%d", p.DeclName(fd), k)
			// literals that travel: the function of a go statement, or arguments of the call
			var lits []*ast.FuncLit
			if fl, ok := ast.Unparen(call.Fun).(*ast.FuncLit); ok {
				lits = append(lits, fl)
			}
			for _, a := range call.Args {
				if fl, ok := ast.Unparen(a).(*ast.FuncLit); ok {
					if _, isGo := m.(*ast.GoStmt); !isGo {
						lits = append(lits, fl)
					}
				}
			}
			bad := ""
			for _, fl := range lits {
				ast.Inspect(fl.Body, func(q ast.Node) bool {
					id, ok := q.(*ast.Ident)
					if !ok || bad != "" {
						return true
					}
					v, ok := info.Uses[id].(*types.Var)
					if !ok || v.IsField() || v.Pkg() == nil || v.Parent() == pkg.Types.Scope() {
						return true
					}
					// declared outside the loop (and outside the literal)
					if v.Pos() >= loop.Pos() && v.Pos() < loop.End() {
						return true
					}
					if v.Pos() < fd.Pos() || v.Pos() > fd.End() {
						return true
					}
					// assigned inside the loop, outside the literal
					ast.Inspect(loop, func(u ast.Node) bool {
						if u == ast.Node(fl) {
							return false
						}
						switch as := u.(type) {
						case *ast.AssignStmt:
							for _, l := range as.Lhs {
								if identObj(info, l) == types.Object(v) && as.Tok != token.DEFINE {
									bad = v.Name()
								}
							}
						case *ast.IncDecStmt:
							if identObj(info, as.X) == types.Object(v) {
								bad = v.Name()
							}
						}
						return true
					})
					return true
				})
			}
			r.Check(bad == "", key, m.Pos(), "the work takes its values as arguments or from variables of the loop body", "the literal handed over here reads `"+bad+"`, which is declared outside the loop and assigned in it: when the literal runs, on another goroutine, the loop may already have stored the next value there - the work is done for the wrong request, and the one it was meant for is never answered")
			return true
		})
	})
}

// ---------------------------------------------------------------------------------------------------
// S14 content negotiation is left to net/http; P21 the heartbeat window is the HeartBeat setting

func init() {
	register("S14", "the net/http client transport (rpc/http.Transport.Transport) does not set the Accept-Encoding request header itself: net/http asks for gzip AND undoes it transparently only as long as the caller leaves that header alone - once it is set by hand the body is handed over as it arrived, and behind a compressing front end the caller of the RPC receives the raw 1f 8b 08.. stream as the response, without an error", 1, ruleS14)
	register("P21", "the broker takes a subscriber offline when it has not polled for the HeartBeat setting - for that time exactly: in rpc/plugins/push the context whose expiry leads to Broker.offline is created by context.WithTimeout with the HeartBeat field itself as the duration, not with a local that may have been given another value (the poll time-out, a minimum of the two): a subscriber that polls within the heartbeat but slower than the poll time-out would be unsubscribed and the messages accepted in between never reach it", 1, ruleP21)
}

func ruleS14(r *Run) {
	p := r.P
	fd, pkg := p.DeclOf("rpc/http", "Transport.Transport")
	key := "content negotiation in rpc/http.Transport.Transport"
	if fd == nil {
		r.Undec(key, 0, "not found")
		return
	}
	info := pkg.TypesInfo
	bad := token.NoPos
	p.deepInspect(info, fd.Body, 2, func(iinfo *types.Info, n ast.Node) bool {
		c, ok := n.(*ast.CallExpr)
		if !ok || len(c.Args) < 1 {
			return true
		}
		switch methodName(c) {
		case "Set", "Add":
		default:
			return true
		}
		tv, ok := iinfo.Types[c.Args[0]]
		if ok && tv.Value != nil && strings.EqualFold(strings.Trim(tv.Value.ExactString(), `"`), "Accept-Encoding") {
			bad = c.Pos()
		}
		return true
	})
	r.Check(bad == token.NoPos, key, fd.Pos(), "Accept-Encoding is left to net/http", "the transport sets Accept-Encoding itself (at "+p.Rel(bad)+"): net/http then no longer decompresses the response, and a gzipped answer is returned to the caller as the result bytes")
}

func ruleP21(r *Run) {
	p := r.P
	pkg := p.Pkg("rpc/plugins/push")
	if pkg == nil {
		r.Undec("package rpc/plugins/push", 0, "not found")
		return
	}
	info := pkg.TypesInfo
	off := p.LookupFunc("rpc/plugins/push", "Broker.offline")
	if off == nil {
		r.Undec("rpc/plugins/push.Broker.offline", 0, "not found")
		return
	}
	n := 0
	for _, file := range pkg.Syntax {
		for _, d := range file.Decls {
			fd, ok := d.(*ast.FuncDecl)
			if !ok || fd.Body == nil {
				continue
			}
			callsOffline, hasSelect := false, false
			var wt *ast.CallExpr
			ast.Inspect(fd.Body, func(m ast.Node) bool {
				switch x := m.(type) {
				case *ast.CallExpr:
					if Callee(info, x) == off {
						callsOffline = true
					}
					if FullNameOf(info, x) == "context.WithTimeout" && len(x.Args) == 2 {
						wt = x
					}
				case *ast.SelectStmt:
					hasSelect = true
				}
				return true
			})
			if !callsOffline || !hasSelect || wt == nil {
				continue
			}
			n++
			key := "heartbeat window in " + p.DeclName(fd)
			fv := fieldOf(info, wt.Args[1])
			r.Check(fv != nil && refName(fv.Name()) == "HeartBeat", key, wt.Pos(), "context.WithTimeout(ctx, b.HeartBeat)", "the time after which a silent subscriber is taken offline is `"+types.ExprString(wt.Args[1])+"`, not the HeartBeat field: a subscriber that comes back within the heartbeat can have been unsubscribed already, and what was accepted for it in between is lost")
		}
	}
	if n == 0 {
		r.Undec("heartbeat window in rpc/plugins/push", 0, "no function that waits on a WithTimeout context and calls Broker.offline found")
	}
}

// ---------------------------------------------------------------------------------------------------
// U6 the encoder's class table is keyed by the type itself

func init() {
	register("U6", "the encoder numbers the struct types (classes) it has written by the reflect.Type itself: in Encoder.WriteStructType every access to the table (a map field of Encoder) is indexed by the function's type parameter, not by something derived from it (t.String(), t.Name()): two distinct types that print alike (v1/model.Item and v2/model.Item, two function-local Point types) would share one class entry - the second type's objects are written under the first type's class definition, a typed reader zeroes their fields, and nothing reports an error", 2, ruleU6)
}

func ruleU6(r *Run) {
	p := r.P
	fd, pkg := p.DeclOf("io", "Encoder.WriteStructType")
	if fd == nil {
		r.Undec("io.Encoder.WriteStructType", 0, "not found")
		return
	}
	info := pkg.TypesInfo
	var tparam *types.Var
	for _, pv := range paramsOf(info, fd.Type) {
		if pv.Type().String() == "reflect.Type" {
			tparam = pv
		}
	}
	if tparam == nil {
		r.Undec("io.Encoder.WriteStructType", fd.Pos(), "no reflect.Type parameter")
		return
	}
	n := 0
	ast.Inspect(fd.Body, func(m ast.Node) bool {
		ix, ok := m.(*ast.IndexExpr)
		if !ok {
			return true
		}
		fv := fieldOf(info, ix.X)
		if fv == nil {
			return true
		}
		if _, isMap := fv.Type().Underlying().(*types.Map); !isMap {
			return true
		}
		n++
		r.Check(identObj(info, ix.Index) == types.Object(tparam), fmt.Sprintf("class table access #%d in io.Encoder.WriteStructType", n), ix.Pos(), "indexed by the type itself", "the class table is indexed by `"+types.ExprString(ix.Index)+"`, not by the type "+tparam.Name()+": distinct types with the same printed name share one class entry")
		return true
	})
	if n == 0 {
		r.Undec("class table of io.Encoder.WriteStructType", fd.Pos(), "no map field is indexed in the function")
	}
}

// ---------------------------------------------------------------------------------------------------
// T19 the re-basing field wrapper composes

func init() {
	register("T19", "the wrapper that re-bases the accessor of a flattened field on the enclosing struct (the struct type of package io that embeds reflect2.StructField and carries a base offset) composes over any depth of embedding: (1) it declares ITSELF every method of reflect2.StructField that is relative to the object - Offset and the methods that take the object (UnsafeGet, UnsafeSet, Get, Set) - none of them is left to promotion, which would answer for the inner struct; (2) each of these either delegates to the SAME method of the wrapped field with the base applied, or is built from the wrapper's own methods - so a wrapper around a wrapper adds both offsets; (3) where a wrapper is created and stored into an accessor, it wraps what that accessor held before (the literal's field operand is the expression being assigned), not something unwrapped from it. A field promoted through two levels of embedding, both at a non-zero offset, is otherwise read and written in a sibling's memory", 6, ruleT19)
}

func ruleT19(r *Run) {
	p := r.P
	pkg := p.Pkg("io")
	if pkg == nil {
		r.Undec("package io", 0, "not found")
		return
	}
	info := pkg.TypesInfo
	// the wrapper type
	var wrap *types.Named
	var inner *types.Var
	var ifaceT *types.Interface
	for _, nm := range pkg.Types.Scope().Names() {
		tn, ok := pkg.Types.Scope().Lookup(nm).(*types.TypeName)
		if !ok {
			continue
		}
		st, ok := tn.Type().Underlying().(*types.Struct)
		if !ok {
			continue
		}
		hasBase := false
		var emb *types.Var
		for i := 0; i < st.NumFields(); i++ {
			f := st.Field(i)
			if f.Embedded() && strings.HasSuffix(f.Type().String(), "reflect2.StructField") {
				emb = f
			}
			if b, ok := f.Type().Underlying().(*types.Basic); ok && b.Kind() == types.Uintptr {
				hasBase = true
			}
		}
		if emb != nil && hasBase {
			wrap, _ = tn.Type().(*types.Named)
			inner = emb
			ifaceT, _ = emb.Type().Underlying().(*types.Interface)
		}
	}
	if wrap == nil || ifaceT == nil {
		r.Undec("re-basing wrapper of package io", 0, "no struct type that embeds reflect2.StructField and carries a uintptr offset")
		return
	}
	wname := wrap.Obj().Name()
	// (1) object-relative methods are declared by the wrapper itself
	own := map[string]*ast.FuncDecl{}
	for _, file := range pkg.Syntax {
		for _, d := range file.Decls {
			if fd, ok := d.(*ast.FuncDecl); ok && fd.Recv != nil && fd.Body != nil {
				if f, _ := info.Defs[fd.Name].(*types.Func); f != nil {
					rt := f.Type().(*types.Signature).Recv().Type()
					if pt, ok := rt.(*types.Pointer); ok {
						rt = pt.Elem()
					}
					if rt == types.Type(wrap) {
						own[fd.Name.Name] = fd
					}
				}
			}
		}
	}
	var relative []string
	for i := 0; i < ifaceT.NumMethods(); i++ {
		m := ifaceT.Method(i)
		sig := m.Type().(*types.Signature)
		rel := m.Name() == "Offset"
		for j := 0; j < sig.Params().Len(); j++ {
			pt := sig.Params().At(j).Type()
			if pt.String() == "unsafe.Pointer" {
				rel = true
			}
			if it, ok := pt.Underlying().(*types.Interface); ok && it.Empty() && j == 0 {
				rel = true
			}
		}
		if rel {
			relative = append(relative, m.Name())
		}
	}
	if len(relative) < 3 {
		r.Undec("object-relative methods of reflect2.StructField", wrap.Obj().Pos(), fmt.Sprintf("only %d found", len(relative)))
		return
	}
	for _, m := range relative {
		fd := own[m]
		key := "io." + wname + "." + m + " re-bases"
		if fd == nil {
			r.Viol(key, wrap.Obj().Pos(), wname+" does not declare "+m+" itself: the method is promoted from the wrapped field and answers relative to the EMBEDDED struct, not to the enclosing one - whatever uses it (another wrapper around this one, an offset-based accessor) loses this level's offset")
			continue
		}
		// (2) delegation
		delegates, viaOwn, usesBase := false, false, false
		ast.Inspect(fd.Body, func(q ast.Node) bool {
			switch x := q.(type) {
			case *ast.CallExpr:
				sel, ok := ast.Unparen(x.Fun).(*ast.SelectorExpr)
				if !ok {
					return true
				}
				// f.StructField.M(...)
				if isel, ok := ast.Unparen(sel.X).(*ast.SelectorExpr); ok && fieldOf(info, isel) == inner && sel.Sel.Name == m {
					delegates = true
				}
				// f.Other(...) with Other declared by the wrapper
				if s := info.Selections[sel]; s != nil && s.Kind() == types.MethodVal && len(s.Index()) == 1 {
					if own[sel.Sel.Name] != nil && sel.Sel.Name != m {
						for _, rm := range relative {
							if rm == sel.Sel.Name {
								viaOwn = true
							}
						}
					}
				}
			case *ast.SelectorExpr:
				if fv := fieldOf(info, x); fv != nil {
					if b, ok := fv.Type().Underlying().(*types.Basic); ok && b.Kind() == types.Uintptr {
						usesBase = true
					}
				}
			}
			return true
		})
		switch {
		case delegates && usesBase, viaOwn:
			r.Ok(key, fd.Pos(), "delegates to the wrapped field with the base applied (or to the wrapper's own methods)")
		case delegates:
			r.Viol(key, fd.Pos(), m+" delegates to the wrapped field without applying the base offset")
		default:
			r.Viol(key, fd.Pos(), m+" does not delegate to "+inner.Name()+"."+m+" of the wrapped field: what the wrapped field knows about ITS position (it may be a wrapper itself) is not part of the result, so a field promoted through two levels of embedding is addressed with one offset missing")
		}
	}
	// (3) creation sites wrap what was there
	n := 0
	for _, file := range pkg.Syntax {
		for _, d := range file.Decls {
			fd, ok := d.(*ast.FuncDecl)
			if !ok || fd.Body == nil {
				continue
			}
			parents := parentMap(fd.Body)
			ast.Inspect(fd.Body, func(q ast.Node) bool {
				cl, ok := q.(*ast.CompositeLit)
				if !ok || len(cl.Elts) == 0 {
					return true
				}
				if tv, ok := info.Types[cl]; !ok || tv.Type != types.Type(wrap) {
					return true
				}
				n++
				key := fmt.Sprintf("wrapper created in %s #%d", p.DeclName(fd), n)
				first := cl.Elts[0]
				if kv, ok := first.(*ast.KeyValueExpr); ok {
					first = kv.Value
					for _, e := range cl.Elts {
						if kv, ok := e.(*ast.KeyValueExpr); ok {
							if id, ok := kv.Key.(*ast.Ident); ok && id.Name == inner.Name() {
								first = kv.Value
							}
						}
					}
				}
				as, ok := parents[cl].(*ast.AssignStmt)
				if !ok || len(as.Lhs) != 1 {
					r.Undec(key, cl.Pos(), "the wrapper is not stored by a plain assignment")
					return true
				}
				r.Check(types.ExprString(as.Lhs[0]) == types.ExprString(first), key, cl.Pos(), "wraps the accessor it replaces", "the new wrapper does not wrap `"+types.ExprString(as.Lhs[0])+"` as it stood but `"+types.ExprString(first)+"`: an offset that an inner level of embedding had already applied is dropped")
				return true
			})
		}
	}
	if n == 0 {
		r.Undec("creation sites of io."+wname, wrap.Obj().Pos(), "none found")
	}
}

// ---------------------------------------------------------------------------------------------------
// G45 an option stored into a coder is not reset before the coder is used

func init() {
	register("G45", "where a function configures a Decoder or Encoder it holds in a local variable by assigning one of its option fields (decoder.LongType = f.LongType, ...), no later call in that function on the same variable (chained calls included) is a method that - directly or through the methods it calls - assigns that field again: ResetBuffer also restores the options to their defaults, so `ResetBuffer()` slipped in after the options have been copied silently undoes them for that entry point only (Formatter.UnmarshalFromReader decodes with default MapType / LongType / RealType while Formatter.Unmarshal honours them - the streaming and the in-memory decode of the same bytes differ)", 6, ruleG45)
}

func ruleG45(r *Run) {
	p := r.P
	iop := p.Pkg("io")
	if iop == nil {
		r.Undec("package io", 0, "not found")
		return
	}
	// which fields does each method of Decoder / Encoder assign (transitively through methods of the same type)
	assigns := map[*types.Func]map[*types.Var]bool{}
	mdecl := map[*types.Func]*ast.FuncDecl{}
	ioinfo := iop.TypesInfo
	for _, file := range iop.Syntax {
		for _, d := range file.Decls {
			fd, ok := d.(*ast.FuncDecl)
			if !ok || fd.Body == nil || fd.Recv == nil {
				continue
			}
			f, _ := ioinfo.Defs[fd.Name].(*types.Func)
			if f == nil {
				continue
			}
			rt := f.Type().(*types.Signature).Recv().Type()
			if pt, ok := rt.(*types.Pointer); ok {
				rt = pt.Elem()
			}
			nt, ok := rt.(*types.Named)
			if !ok || (refName(nt.Obj().Name()) != "Decoder" && refName(nt.Obj().Name()) != "Encoder") {
				continue
			}
			mdecl[f] = fd
			assigns[f] = map[*types.Var]bool{}
			ast.Inspect(fd.Body, func(m ast.Node) bool {
				if as, ok := m.(*ast.AssignStmt); ok {
					for _, l := range as.Lhs {
						if fv := fieldOf(ioinfo, l); fv != nil {
							assigns[f][fv] = true
						}
					}
				}
				return true
			})
		}
	}
	for changed := true; changed; {
		changed = false
		for f, fd := range mdecl {
			ast.Inspect(fd.Body, func(m ast.Node) bool {
				if c, ok := m.(*ast.CallExpr); ok {
					if g := Callee(ioinfo, c); g != nil && assigns[g] != nil && g != f {
						for fv := range assigns[g] {
							if !assigns[f][fv] {
								assigns[f][fv] = true
								changed = true
							}
						}
					}
				}
				return true
			})
		}
	}
	p.EachFunc(func(pkg *packages.Package, fd *ast.FuncDecl) {
		if fd.Body == nil {
			return
		}
		info := pkg.TypesInfo
		k := 0
		ast.Inspect(fd.Body, func(m ast.Node) bool {
			as, ok := m.(*ast.AssignStmt)
			if !ok {
				return true
			}
			for _, l := range as.Lhs {
				sel, ok := ast.Unparen(l).(*ast.SelectorExpr)
				if !ok {
					continue
				}
				fv := fieldOf(info, sel)
				v, isVar := identObj(info, sel.X).(*types.Var)
				if fv == nil || !isVar || v.IsField() || isParamOrResult(info, fd, v) || isErrorType(fv.Type()) {
					continue
				}
				if fd.Recv != nil && len(fd.Recv.List) == 1 && len(fd.Recv.List[0].Names) == 1 && info.Defs[fd.Recv.List[0].Names[0]] == types.Object(v) {
					continue // the coder's own methods are not configuration sites
				}
				// a local that holds a *Decoder / *Encoder; an exported option field
				pt, ok := v.Type().(*types.Pointer)
				if !ok || !fv.Exported() {
					continue
				}
				nt, ok := pt.Elem().(*types.Named)
				if !ok || nt.Obj().Pkg() != iop.Types || (refName(nt.Obj().Name()) != "Decoder" && refName(nt.Obj().Name()) != "Encoder") {
					continue
				}
				// the receiver of the function itself is not a configuration site
				k++
				key := fmt.Sprintf("option %s.%s set in %s #%d", v.Name(), fv.Name(), p.DeclName(fd), k)
				bad := ""
				ast.Inspect(fd.Body, func(q ast.Node) bool {
					c, ok := q.(*ast.CallExpr)
					if !ok || c.Pos() < as.End() {
						return true
					}
					g := Callee(info, c)
					if g == nil || assigns[g] == nil || !assigns[g][fv] {
						return true
					}
					// is the call made on v (root of the receiver chain)?
					var e ast.Expr = c
					for {
						switch x := ast.Unparen(e).(type) {
						case *ast.CallExpr:
							e = x.Fun
							continue
						case *ast.SelectorExpr:
							e = x.X
							continue
						}
						break
					}
					if identObj(info, e) == types.Object(v) {
						bad = g.Name()
					}
					return true
				})
				r.Check(bad == "", key, as.Pos(), "no later call on "+v.Name()+" assigns the field again", "after "+v.Name()+"."+fv.Name()+" has been set the function calls "+v.Name()+"."+bad+"(), which assigns "+fv.Name()+" again (to its default): the option is lost on this entry point")
			}
			return true
		})
	})
}

// ---------------------------------------------------------------------------------------------------
// G47 the proxy builder hands the namespace down through embedded structs

func init() {
	register("G47", "in the client proxy builder (the recursive function of rpc/core that walks the fields of the proxy struct and takes the namespace as a parameter) the name handed to the recursion is, for an EMBEDDED field, the namespace the function was given: the variable passed in the namespace position of the recursive call has a definition from the namespace parameter itself that is not conditional on the field being named (not under `!sf.Anonymous`). An embedded struct adds no level of its own; if its functions lose the enclosing prefix, proxy.Admin.Version calls the published function `Version` instead of `Admin_Version` - a different function, silently", 1, ruleG47)
}

func ruleG47(r *Run) {
	p := r.P
	pkg := p.Pkg("rpc/core")
	if pkg == nil {
		r.Undec("package rpc/core", 0, "not found")
		return
	}
	info := pkg.TypesInfo
	n := 0
	for _, file := range pkg.Syntax {
		for _, d := range file.Decls {
			fd, ok := d.(*ast.FuncDecl)
			if !ok || fd.Body == nil {
				continue
			}
			self, _ := info.Defs[fd.Name].(*types.Func)
			params := paramsOf(info, fd.Type)
			// a string parameter and a reflect.Value parameter, and recursion
			nsIdx := -1
			hasValue := false
			for i, pv := range params {
				if b, ok := pv.Type().Underlying().(*types.Basic); ok && b.Kind() == types.String {
					nsIdx = i
				}
				if pv.Type().String() == "reflect.Value" {
					hasValue = true
				}
			}
			if nsIdx < 0 || !hasValue {
				continue
			}
			var rec *ast.CallExpr
			ast.Inspect(fd.Body, func(m ast.Node) bool {
				if c, ok := m.(*ast.CallExpr); ok && Callee(info, c) == self && len(c.Args) == len(params) {
					rec = c
				}
				return true
			})
			if rec == nil {
				continue
			}
			usesAnonymous := false
			ast.Inspect(fd.Body, func(m ast.Node) bool {
				if sel, ok := m.(*ast.SelectorExpr); ok && sel.Sel.Name == "Anonymous" {
					usesAnonymous = true
				}
				return true
			})
			if !usesAnonymous {
				continue
			}
			n++
			key := "namespace handed down through embedded fields in " + p.DeclName(fd)
			ns := params[nsIdx]
			arg := identObj(info, rec.Args[nsIdx])
			if arg == types.Object(ns) {
				r.Ok(key, rec.Pos(), "the parameter itself is handed down")
				continue
			}
			parents := parentMap(fd.Body)
			good := false
			ast.Inspect(fd.Body, func(m ast.Node) bool {
				var lhs []ast.Expr
				var rhs []ast.Expr
				switch x := m.(type) {
				case *ast.AssignStmt:
					lhs, rhs = x.Lhs, x.Rhs
				case *ast.ValueSpec:
					for _, nm := range x.Names {
						lhs = append(lhs, nm)
					}
					rhs = x.Values
				default:
					return true
				}
				for i, l := range lhs {
					if identObj(info, l) != arg || i >= len(rhs) || identObj(info, rhs[i]) != types.Object(ns) {
						continue
					}
					// not conditional on the field being named
					conditional := false
					for _, f := range factsWithSwitch(parents, m) {
						ast.Inspect(f.e, func(q ast.Node) bool {
							if sel, ok := q.(*ast.SelectorExpr); ok && sel.Sel.Name == "Anonymous" && f.neg {
								conditional = true
							}
							return true
						})
					}
					if !conditional {
						good = true
					}
				}
				return true
			})
			r.Check(good, key, rec.Pos(), arg.Name()+" starts as the namespace and is only changed for named fields", "for an embedded field the name handed to the recursion is not the namespace this level was given (no unconditional `"+arg.Name()+" := "+ns.Name()+"`): the functions of an embedded struct inside a named one lose the prefix and call a different published function")
		}
	}
	if n == 0 {
		r.Undec("proxy builder of rpc/core", 0, "no recursive function with a namespace parameter and an Anonymous test found")
	}
}

// ---------------------------------------------------------------------------------------------------
// S15 on a byte stream an error frame is the last frame

func init() {
	register("S15", "the send loop of the stream server (rpc/socket.Handler.send) ends the connection after EVERY error frame: behind the writes there is an `if e != nil` on the response's error - that comparison alone, no further conjunct - whose body reports the error (which makes Serve close the connection) and returns. The receive loop relies on it: it answers an oversized request with an error response and RETURNS without reading the body, so from then on nobody reads the connection; if the send loop keeps it open for one kind of error, every later request of the peer gets neither an answer nor a closed connection, and the server keeps the socket and two goroutines for ever", 1, ruleS15)
}

func ruleS15(r *Run) {
	p := r.P
	fd, pkg := p.DeclOf("rpc/socket", "Handler.send")
	key := "every error frame ends the connection in rpc/socket.Handler.send"
	if fd == nil {
		r.Undec(key, 0, "not found")
		return
	}
	info := pkg.TypesInfo
	// variables that hold the Error field of the response
	errVars := map[types.Object]bool{}
	ast.Inspect(fd.Body, func(m ast.Node) bool {
		as, ok := m.(*ast.AssignStmt)
		if !ok || len(as.Lhs) != len(as.Rhs) {
			return true
		}
		for i, rh := range as.Rhs {
			if fv := fieldOf(info, rh); fv != nil && isErrorType(fv.Type()) {
				if o := identObj(info, as.Lhs[i]); o != nil {
					errVars[o] = true
				}
			}
		}
		return true
	})
	if len(errVars) == 0 {
		r.Undec(key, fd.Pos(), "the error of the response is not bound to a variable")
		return
	}
	lastWrite := token.NoPos
	ast.Inspect(fd.Body, func(m ast.Node) bool {
		if c, ok := m.(*ast.CallExpr); ok && methodName(c) == "Write" {
			lastWrite = c.Pos()
		}
		return true
	})
	// the report of the response's error behind the writes: reached under `e != nil` and nothing else that was
	// decided after the write, and followed by a return
	good := false
	parents := parentMap(fd.Body)
	ast.Inspect(fd.Body, func(m ast.Node) bool {
		c, ok := m.(*ast.CallExpr)
		if !ok || c.Pos() < lastWrite {
			return true
		}
		passes := false
		for _, a := range c.Args {
			if errVars[identObj(info, a)] {
				passes = true
			}
		}
		if !passes {
			return true
		}
		// followed by a return in the same statement list
		returns := false
		var stmt ast.Node = c
		for q := parents[c]; q != nil; q = parents[q] {
			if _, ok := q.(ast.Stmt); ok {
				stmt = q
				break
			}
		}
		var list []ast.Stmt
		switch blk := parents[stmt].(type) {
		case *ast.BlockStmt:
			list = blk.List
		case *ast.CaseClause:
			list = blk.Body
		case *ast.CommClause:
			list = blk.Body
		}
		{
			after := false
			for _, st := range list {
				if ast.Node(st) == stmt {
					after = true
					continue
				}
				if after {
					if _, ok := st.(*ast.ReturnStmt); ok {
						returns = true
					}
				}
			}
		}
		only := true
		has := false
		for _, f := range factsWithSwitch(parents, c) {
			if f.e.Pos() < lastWrite {
				continue
			}
			b, ok := ast.Unparen(f.e).(*ast.BinaryExpr)
			isNilTest := false
			if ok && (b.Op == token.NEQ || b.Op == token.EQL) && errVars[identObj(info, b.X)] {
				if id, ok := ast.Unparen(b.Y).(*ast.Ident); ok && id.Name == "nil" {
					isNilTest = (b.Op == token.NEQ && !f.neg) || (b.Op == token.EQL && f.neg)
				}
			}
			if isNilTest {
				has = true
			} else if mentionsAny(info, f.e, errVars) {
				only = false
			}
		}
		if returns && has && only {
			good = true
		}
		return true
	})
	r.Check(good, key, fd.Pos(), "`if e != nil { report; return }` behind the writes", "behind the writes there is no unconditional `if e != nil { report e; return }`: for some error frame the connection is kept although the receive loop has already given it up - the peer's later requests hang, the socket and its goroutines stay for ever")
}

func mentionsAny(info *types.Info, e ast.Node, objs map[types.Object]bool) bool {
	found := false
	ast.Inspect(e, func(n ast.Node) bool {
		if id, ok := n.(*ast.Ident); ok && objs[info.Uses[id]] {
			found = true
		}
		return !found
	})
	return found
}

// ---------------------------------------------------------------------------------------------------
// R6 what counts as a temporary accept error

func init() {
	register("R6", "core.IsTemporaryError, which the accept loops of the socket and websocket servers ask before they give up, answers from the error's Temporary() method alone: every return of the function is the constant false or contains a call of Temporary(), and none is decided by another method of the error (Timeout()). A transient accept failure - EMFILE, ECONNABORTED - is Temporary but not a Timeout; if it is classed as permanent the accept loop ends, Serve returns and every established connection of the server is cancelled because one client's connect failed", 1, ruleR6)
}

func ruleR6(r *Run) {
	p := r.P
	fd, pkg := p.DeclOf("rpc/core", "IsTemporaryError")
	key := "rpc/core.IsTemporaryError answers from Temporary() alone"
	if fd == nil {
		r.Undec(key, 0, "not found")
		return
	}
	info := pkg.TypesInfo
	bad := ""
	nret := 0
	ast.Inspect(fd.Body, func(m ast.Node) bool {
		ret, ok := m.(*ast.ReturnStmt)
		if !ok || len(ret.Results) != 1 {
			return true
		}
		nret++
		if tv, ok := info.Types[ret.Results[0]]; ok && tv.Value != nil && tv.Value.ExactString() == "false" {
			return true
		}
		hasTemp := false
		other := ""
		ast.Inspect(ret.Results[0], func(q ast.Node) bool {
			if c, ok := q.(*ast.CallExpr); ok {
				switch nm := methodName(c); nm {
				case "Temporary":
					hasTemp = true
				case "":
				default:
					if sel, ok := c.Fun.(*ast.SelectorExpr); ok {
						if s := info.Selections[sel]; s != nil && s.Kind() == types.MethodVal {
							other = nm
						}
					}
				}
			}
			return true
		})
		if !hasTemp || other != "" {
			bad = "the return at " + p.Rel(ret.Pos()) + " is decided by " + other + "() / not by Temporary()"
		}
		return true
	})
	if nret == 0 {
		r.Undec(key, fd.Pos(), "no return with a value")
		return
	}
	r.Check(bad == "", key, fd.Pos(), "every return asks Temporary()", bad+": a transient accept error that is Temporary but not of that other kind ends the accept loop, and with it the server and all its connections")
}

// ---------------------------------------------------------------------------------------------------
// G48 a reset decoder holds no references

func init() {
	register("G48", "Decoder.Reset, which every change of input and of mode goes through, empties the reference table unconditionally: the call that clears it (a Reset of the reference holder) is a statement of the function's own block, not inside a condition on the mode - a decoder that has just been SWITCHED to simple mode otherwise keeps the references of the input it read before, and since the reference item is resolved in simple mode too, `r0;` of the next input yields a value of the previous one (C14: no reference table of one use is visible in the next)", 1, ruleG48)
}

func ruleG48(r *Run) {
	p := r.P
	fd, pkg := p.DeclOf("io", "Decoder.Reset")
	key := "io.Decoder.Reset empties the reference table unconditionally"
	if fd == nil {
		r.Undec(key, 0, "not found")
		return
	}
	info := pkg.TypesInfo
	referF := p.LookupField("io", "Decoder", "refer")
	if referF == nil {
		r.Undec(key, fd.Pos(), "Decoder.refer not found")
		return
	}
	found, uncond := false, false
	parents := parentMap(fd.Body)
	ast.Inspect(fd.Body, func(m ast.Node) bool {
		c, ok := m.(*ast.CallExpr)
		if !ok {
			return true
		}
		sel, ok := ast.Unparen(c.Fun).(*ast.SelectorExpr)
		if !ok || fieldOf(info, sel.X) != referF {
			return true
		}
		found = true
		if es, ok := parents[c].(*ast.ExprStmt); ok && parents[es] == ast.Node(fd.Body) {
			uncond = true
		}
		return true
	})
	// or: dec.refer = decoderRefer{} / dec.refer.ref = dec.refer.ref[:0] as a top-level statement
	for _, s := range fd.Body.List {
		if as, ok := s.(*ast.AssignStmt); ok {
			for _, l := range as.Lhs {
				if fieldOf(info, l) == referF {
					found, uncond = true, true
				}
				if sel, ok := ast.Unparen(l).(*ast.SelectorExpr); ok && fieldOf(info, sel.X) == referF {
					found, uncond = true, true
				}
			}
		}
	}
	if !found {
		r.Viol(key, fd.Pos(), "Reset does not touch the reference table at all")
		return
	}
	r.Check(uncond, key, fd.Pos(), "cleared by a statement of the function's own block", "the reference table is cleared only under a condition: in the other case the references of the previous input stay resolvable")
}

// ---------------------------------------------------------------------------------------------------
// F8 a time is labelled local only when it is; F9 Flush keeps what the writer did not take

func init() {
	register("F8", "the date/time item knows two zones, UTC (`Z`) and the reader's local time (`;`): the writer that chooses the terminator by comparing the time's Location() with time.UTC also consults time.Local - a time in any THIRD location (time.FixedZone, what time.Parse returns for +08:00) must be converted before its fields are taken, or it is written with its foreign wall clock under the label `local` and every reader gets another instant (12:00 +0800 came back as 12:00 local, 8 hours off)", 1, ruleF8)
	register("F9", "Encoder.Flush advances its flush offset by the number of bytes the Writer has TAKEN (the count returned by Write), not to the end of the buffer: after a write that failed half way (a deadline) the unsent tail is still to be sent - otherwise the next value is written right behind a truncated one (`s11\"` followed by `i12345;`) and the values of the stream are no longer individually delimited", 1, ruleF9)
}

func ruleF8(r *Run) {
	p := r.P
	pkg := p.Pkg("io")
	if pkg == nil {
		r.Undec("package io", 0, "not found")
		return
	}
	info := pkg.TypesInfo
	n := 0
	for _, file := range pkg.Syntax {
		for _, d := range file.Decls {
			fd, ok := d.(*ast.FuncDecl)
			if !ok || fd.Body == nil {
				continue
			}
			utc, local := false, false
			var at token.Pos
			ast.Inspect(fd.Body, func(m ast.Node) bool {
				b, ok := m.(*ast.BinaryExpr)
				if !ok || (b.Op != token.EQL && b.Op != token.NEQ) {
					return true
				}
				for _, pr := range [][2]ast.Expr{{b.X, b.Y}, {b.Y, b.X}} {
					o := qualObj(info, pr[1])
					if o == nil || o.Pkg() == nil || o.Pkg().Path() != "time" {
						continue
					}
					// the other side is a Location() call or a local holding one
					isLoc := false
					if c, ok := ast.Unparen(pr[0]).(*ast.CallExpr); ok && methodName(c) == "Location" {
						isLoc = true
					}
					if v := identObj(info, pr[0]); v != nil && strings.HasSuffix(v.Type().String(), "time.Location") {
						isLoc = true
					}
					if !isLoc {
						continue
					}
					switch o.Name() {
					case "UTC":
						utc = true
						at = b.Pos()
					case "Local":
						local = true
					}
				}
				return true
			})
			if !utc {
				continue
			}
			// an encoder: the function appends to the output
			writes := false
			ast.Inspect(fd.Body, func(m ast.Node) bool {
				if c, ok := m.(*ast.CallExpr); ok && IsBuiltin(info, c, "append") {
					writes = true
				}
				return true
			})
			if !writes {
				continue
			}
			n++
			r.Check(local, "zones of the time written by "+p.DeclName(fd), at, "time.UTC and time.Local are both consulted", "the terminator is chosen by comparing Location() with time.UTC only: every other location is labelled as the reader's local time, whatever zone it is - its wall clock is read back as another instant")
		}
	}
	if n == 0 {
		r.Undec("time writer of package io", 0, "no function that compares Location() with time.UTC and appends found")
	}
}

func ruleF9(r *Run) {
	p := r.P
	fd, pkg := p.DeclOf("io", "Encoder.Flush")
	key := "io.Encoder.Flush advances by the bytes taken"
	if fd == nil {
		r.Undec(key, 0, "not found")
		return
	}
	info := pkg.TypesInfo
	offF := p.LookupField("io", "Encoder", "off")
	if offF == nil {
		r.Undec(key, fd.Pos(), "Encoder.off not found")
		return
	}
	// the count returned by Writer.Write
	var nObj types.Object
	ast.Inspect(fd.Body, func(m ast.Node) bool {
		as, ok := m.(*ast.AssignStmt)
		if !ok || len(as.Rhs) != 1 || len(as.Lhs) != 2 {
			return true
		}
		if c, ok := ast.Unparen(as.Rhs[0]).(*ast.CallExpr); ok && methodName(c) == "Write" {
			if o := identObj(info, as.Lhs[0]); o != nil && o.Name() != "_" {
				nObj = o
			}
		}
		return true
	})
	good, found := false, false
	ast.Inspect(fd.Body, func(m ast.Node) bool {
		as, ok := m.(*ast.AssignStmt)
		if !ok || len(as.Lhs) != 1 || fieldOf(info, as.Lhs[0]) != offF {
			return true
		}
		found = true
		if nObj != nil && mentionsObj(info, as.Rhs[0], nObj) {
			good = true
		}
		return true
	})
	if !found {
		r.Undec(key, fd.Pos(), "no assignment to the flush offset")
		return
	}
	r.Check(good, key, fd.Pos(), "off is advanced by the count returned by Write", "the flush offset is set without regard to the count Write returned: after a partial write the bytes the writer did not take are skipped for good, and the next value follows a truncated one")
}

// ---------------------------------------------------------------------------------------------------
// G49 a client without a server address gets an error, not a panic

func init() {
	register("G49", "a client that has no (parsable) server address fails its calls with an error: (1) the bottom of the client's IO chain (the method value handed to NewIOManager: Client.Transport) compares the call's URL with nil before it looks into it - ClientContext.Init leaves the URL nil when the URL list is empty; (2) in rpc/plugins/cluster an element of the client's URL list is taken only where the list is known not to be empty (a test of its length on the path, or an index that is a loop variable bounded by the length): the failover callback runs AFTER the recover of the cluster handler, a panic there leaves the call through the application's goroutine (C10: every call ends with a result or an error)", 3, ruleG49)
}

func ruleG49(r *Run) {
	p := r.P
	core := p.Pkg("rpc/core")
	if core == nil {
		r.Undec("package rpc/core", 0, "not found")
		return
	}
	info := core.TypesInfo
	urlF := p.LookupField("rpc/core", "ClientContext", "URL")
	if urlF == nil {
		r.Undec("rpc/core.ClientContext.URL", 0, "not found")
		return
	}
	// (1) the bottoms of IO chains in rpc/core
	for _, file := range core.Syntax {
		ast.Inspect(file, func(m ast.Node) bool {
			c, ok := m.(*ast.CallExpr)
			if !ok {
				return true
			}
			if f := Callee(info, c); f == nil || refName(f.Name()) != "NewIOManager" {
				return true
			}
			for _, a := range c.Args {
				sel, ok := ast.Unparen(a).(*ast.SelectorExpr)
				if !ok {
					continue
				}
				s := info.Selections[sel]
				if s == nil || s.Kind() != types.MethodVal {
					continue
				}
				bf, _ := s.Obj().(*types.Func)
				fd := p.Decl(bf)
				if fd == nil || fd.Body == nil {
					continue
				}
				// uses of the URL: through a local or directly
				holders := map[types.Object]bool{}
				ast.Inspect(fd.Body, func(q ast.Node) bool {
					if as, ok := q.(*ast.AssignStmt); ok && len(as.Lhs) == len(as.Rhs) {
						for i, rh := range as.Rhs {
							if fieldOf(info, rh) == urlF {
								if o := identObj(info, as.Lhs[i]); o != nil {
									holders[o] = true
								}
							}
						}
					}
					return true
				})
				isURL := func(e ast.Expr) bool {
					return fieldOf(info, e) == urlF || holders[identObj(info, e)]
				}
				parents := parentMap(fd.Body)
				nUse := 0
				ast.Inspect(fd.Body, func(q ast.Node) bool {
					se, ok := q.(*ast.SelectorExpr)
					if !ok || !isURL(se.X) {
						return true
					}
					nUse++
					key := fmt.Sprintf("URL looked into in %s #%d", p.DeclName(fd), nUse)
					guarded := false
					for _, f := range factsWithSwitch(parents, se) {
						if b, ok := ast.Unparen(f.e).(*ast.BinaryExpr); ok && (b.Op == token.EQL || b.Op == token.NEQ) && isURL(b.X) {
							if id, ok := ast.Unparen(b.Y).(*ast.Ident); ok && id.Name == "nil" {
								if (b.Op == token.NEQ && !f.neg) || (b.Op == token.EQL && f.neg) {
									guarded = true
								}
							}
						}
					}
					r.Check(guarded, key, se.Pos(), "under a nil test of the URL", "`"+types.ExprString(se)+"` is evaluated without a nil test of the call's URL: a client whose URL list is empty (no address given, or one that url.Parse rejected) panics with a nil dereference in the goroutine of the application that made the call")
					return true
				})
			}
			return true
		})
	}
	// (2) elements of the URL list in the cluster plugin
	cl := p.Pkg("rpc/plugins/cluster")
	if cl == nil {
		r.Undec("package rpc/plugins/cluster", 0, "not found")
		return
	}
	cinfo := cl.TypesInfo
	for _, file := range cl.Syntax {
		for _, d := range file.Decls {
			fd, ok := d.(*ast.FuncDecl)
			if !ok || fd.Body == nil {
				continue
			}
			parents := parentMap(fd.Body)
			// locals that hold the URL list, and locals that hold its length
			lists := map[types.Object]bool{}
			lens := map[types.Object]bool{}
			isList := func(e ast.Expr) bool {
				if fv := fieldOf(cinfo, e); fv != nil && fv.Name() == "URLs" {
					return true
				}
				return lists[identObj(cinfo, e)]
			}
			isLen := func(e ast.Expr) bool {
				e = stripConv(cinfo, e)
				if c, ok := ast.Unparen(e).(*ast.CallExpr); ok && IsBuiltin(cinfo, c, "len") && len(c.Args) == 1 && isList(c.Args[0]) {
					return true
				}
				return lens[identObj(cinfo, e)]
			}
			for round := 0; round < 2; round++ {
				ast.Inspect(fd.Body, func(q ast.Node) bool {
					if as, ok := q.(*ast.AssignStmt); ok && len(as.Lhs) == len(as.Rhs) {
						for i, rh := range as.Rhs {
							if o := identObj(cinfo, as.Lhs[i]); o != nil {
								if isList(rh) {
									lists[o] = true
								}
								if isLen(rh) {
									lens[o] = true
								}
							}
						}
					}
					return true
				})
			}
			k := 0
			ast.Inspect(fd.Body, func(q ast.Node) bool {
				ix, ok := q.(*ast.IndexExpr)
				if !ok || !isList(ix.X) {
					return true
				}
				k++
				key := fmt.Sprintf("element of the URL list in %s #%d", p.DeclName(fd), k)
				good := false
				for _, f := range factsWithSwitch(parents, ix) {
					ast.Inspect(f.e, func(x ast.Node) bool {
						if b, ok := x.(*ast.BinaryExpr); ok {
							switch b.Op {
							case token.EQL, token.NEQ, token.LSS, token.GTR, token.LEQ, token.GEQ:
								if isLen(b.X) || isLen(b.Y) {
									good = true
								}
							}
						}
						return true
					})
				}
				r.Check(good, key, ix.Pos(), "the length of the list has been tested on the path", "`"+types.ExprString(ix)+"` is evaluated without any test of the length of the URL list: with a client that has no server address the index is out of range - in the failover callback that is a panic AFTER the handler's recover, which leaves through the caller's goroutine")
				return true
			})
		}
	}
}

// ---------------------------------------------------------------------------------------------------
// G50 the caller's context reaches the call; G51 Use only adds

func init() {
	register("G50", "a proxy call made with a leading context.Context runs ON that context: in the function of rpc/core that takes the proxy arguments apart (a type switch over the first argument with a clause for context.Context), that clause assigns the clause variable to the context variable that is later handed to the client's InvokeContext, as a statement of the clause's own list - not inside a condition (on whether the context carries a ClientContext, for example): otherwise such a call runs on context.Background(), ignores the caller's cancel and deadline and ends only with the response or the client's 30 s time-out", 1, ruleG50)
	register("G51", "the Use entry points of rpc/core (Client.Use, Service.Use: the methods named Use of types that hold PluginManager fields) do nothing to their managers but Use: every call they make on a PluginManager is Use - an Unuse slipped in 'so that a handler is not installed twice' removes, by the code-pointer identity of Unuse, every OTHER installed handler of the same method or closure (a second logger replaces the first) and moves a re-used handler from the outermost to the innermost position", 2, ruleG51)
}

func ruleG50(r *Run) {
	p := r.P
	pkg := p.Pkg("rpc/core")
	if pkg == nil {
		r.Undec("package rpc/core", 0, "not found")
		return
	}
	info := pkg.TypesInfo
	n := 0
	for _, file := range pkg.Syntax {
		for _, d := range file.Decls {
			fd, ok := d.(*ast.FuncDecl)
			if !ok || fd.Body == nil {
				continue
			}
			ast.Inspect(fd.Body, func(m ast.Node) bool {
				ts, ok := m.(*ast.TypeSwitchStmt)
				if !ok {
					return true
				}
				// the switch over the first proxy argument: clauses for context.Context AND for *ClientContext
				var ctxClause *ast.CaseClause
				hasCC := false
				for _, cs := range ts.Body.List {
					cc := cs.(*ast.CaseClause)
					for _, e := range cc.List {
						if tv, ok := info.Types[e]; ok && tv.Type != nil {
							switch {
							case tv.Type.String() == "context.Context":
								ctxClause = cc
							case strings.HasSuffix(tv.Type.String(), "core.ClientContext"):
								hasCC = true
							}
						}
					}
				}
				if ctxClause == nil || !hasCC {
					return true
				}
				n++
				key := "context argument of a proxy call in " + p.DeclName(fd)
				cv := info.Implicits[ctxClause]
				uncond := false
				for _, s := range ctxClause.Body {
					if as, ok := s.(*ast.AssignStmt); ok {
						for i, l := range as.Lhs {
							lo := identObj(info, l)
							if lo == nil || i >= len(as.Rhs) || lo.Type().String() != "context.Context" {
								continue
							}
							if cv != nil && identObj(info, as.Rhs[i]) == cv {
								uncond = true
							}
						}
					}
				}
				r.Check(uncond, key, ctxClause.Pos(), "the clause assigns the context unconditionally", "the context.Context clause does not assign the caller's context to the call's context variable as a statement of its own: on some path the call runs on context.Background() and the caller's cancellation and deadline are ignored")
				return true
			})
		}
	}
	if n == 0 {
		r.Undec("proxy argument handling in rpc/core", 0, "no type switch with clauses for context.Context and *ClientContext found")
	}
}

func ruleG51(r *Run) {
	p := r.P
	pkg := p.Pkg("rpc/core")
	if pkg == nil {
		r.Undec("package rpc/core", 0, "not found")
		return
	}
	info := pkg.TypesInfo
	pmObj, _ := p.LookupObj("rpc/core", "PluginManager").(*types.TypeName)
	if pmObj == nil {
		r.Undec("rpc/core.PluginManager", 0, "not found")
		return
	}
	for _, file := range pkg.Syntax {
		for _, d := range file.Decls {
			fd, ok := d.(*ast.FuncDecl)
			if !ok || fd.Body == nil || fd.Recv == nil || fd.Name.Name != "Use" {
				continue
			}
			var calls []string
			ast.Inspect(fd.Body, func(m ast.Node) bool {
				c, ok := m.(*ast.CallExpr)
				if !ok {
					return true
				}
				sel, ok := ast.Unparen(c.Fun).(*ast.SelectorExpr)
				if !ok {
					return true
				}
				if tv, ok := info.Types[sel.X]; ok && tv.Type != nil {
					if nt, ok := tv.Type.(*types.Named); ok && nt.Obj() == pmObj {
						calls = append(calls, sel.Sel.Name)
					}
				}
				return true
			})
			if len(calls) == 0 {
				continue // the manager's own Use
			}
			bad := ""
			for _, c := range calls {
				if c != "Use" {
					bad = c
				}
			}
			r.Check(bad == "", "manager calls of "+p.DeclName(fd), fd.Pos(), "only Use", p.DeclName(fd)+" calls "+bad+" on a plugin manager: installing a handler must not remove or reorder what is installed")
		}
	}
}

// ---------------------------------------------------------------------------------------------------
// S16 one writer per connection

func init() {
	register("S16", "on the server side of the stream and websocket transports (rpc/socket.Handler, rpc/websocket.Handler) only the send loop writes to the connection: no function reachable from Handler.receive (through the package's own functions, the tasks it starts included) calls Write / WriteMessage / NextWriter on the connection. Responses are QUEUED for the single writer; a second goroutine that writes by itself (a refusal sent straight from the receive loop) can put its frame between the header and the body of a response that is being written - that caller receives another frame's header followed by its own body cut short", 2, ruleS16)
}

func ruleS16(r *Run) {
	p := r.P
	for _, tr := range []string{"rpc/socket", "rpc/websocket"} {
		pkg := p.Pkg(tr)
		key := "single writer in " + tr + ".Handler.receive"
		if pkg == nil {
			r.Undec(key, 0, "package not found")
			continue
		}
		info := pkg.TypesInfo
		root, _ := p.DeclOf(tr, "Handler.receive")
		if root == nil {
			r.Undec(key, 0, "Handler.receive not found")
			continue
		}
		seen := map[*ast.FuncDecl]bool{}
		bad := ""
		var visit func(fd *ast.FuncDecl, depth int)
		visit = func(fd *ast.FuncDecl, depth int) {
			if fd == nil || fd.Body == nil || seen[fd] || depth > 6 {
				return
			}
			seen[fd] = true
			ast.Inspect(fd.Body, func(m ast.Node) bool {
				c, ok := m.(*ast.CallExpr)
				if !ok {
					return true
				}
				switch methodName(c) {
				case "Write", "WriteMessage", "NextWriter", "WriteJSON", "WriteControl", "WritePreparedMessage":
					if sel, ok := ast.Unparen(c.Fun).(*ast.SelectorExpr); ok {
						if tv, ok := info.Types[sel.X]; ok && tv.Type != nil {
							ts := tv.Type.String()
							if ts == "net.Conn" || strings.HasSuffix(ts, "websocket.Conn") {
								bad = p.DeclName(fd) + " calls " + methodName(c) + " at " + p.Rel(c.Pos())
							}
						}
					}
				}
				if d, dpkg := p.calleeDecl(info, c); d != nil && dpkg == pkg {
					visit(d, depth+1)
				}
				// method values handed on (h.task(...), go h.run(...))
				for _, a := range c.Args {
					if ac, ok := ast.Unparen(a).(*ast.CallExpr); ok {
						if d, dpkg := p.calleeDecl(info, ac); d != nil && dpkg == pkg {
							visit(d, depth+1)
						}
					}
				}
				return true
			})
			// function literals' bodies are part of fd.Body already
		}
		visit(root, 0)
		r.Check(bad == "", key, root.Pos(), fmt.Sprintf("%d functions reachable from receive, none writes to the connection", len(seen)), "reachable from the receive loop, "+bad+": the connection has two writers, and a frame can be written into the middle of another")
	}
}
