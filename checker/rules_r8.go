package main

import (
	"fmt"
	"go/ast"
	"go/token"
	"go/types"
	"strings"

	"golang.org/x/tools/go/packages"
)

// Rules added after the seventh seeding round.

func init() {
	register("R7", "a deferred function that recovers does so unconditionally: the recover() call is reached on every path of the deferred literal - it is not inside a branch whose condition it is not part of, and no earlier statement of the literal can leave it. A recover() that only runs `while the context is still alive` lets a panic after the deadline kill the process", 25, ruleR7)
	register("R8", "what a deferred recover handler stores reaches the caller: when the handler of a function that returns an error assigns the recovered panic to a captured variable, that variable is a NAMED RESULT of the function (a plain local is dead after the panic unwinds: the function returns its zero results, nil error, and the layers above see a success)", 6, ruleR8)
	register("L17", "a goroutine started by a function that can give up on it (a select with a <-ctx.Done() case that returns) does not write the function's own results: the write happens after the function has returned and races with the caller reading them (result, err = next(...) instead of result, err := next(...) hands the layers above mixed pairs such as ([late], timeout))", 1, ruleL17)
}

// funcNodes: every function body of the repository (declarations and literals) with its type.
func eachFuncNode(p *Prog, fn func(pkg *packages.Package, fd *ast.FuncDecl, ft *ast.FuncType, body *ast.BlockStmt, lit *ast.FuncLit)) {
	p.EachFunc(func(pkg *packages.Package, fd *ast.FuncDecl) {
		fn(pkg, fd, fd.Type, fd.Body, nil)
		ast.Inspect(fd.Body, func(n ast.Node) bool {
			if fl, ok := n.(*ast.FuncLit); ok {
				fn(pkg, fd, fl.Type, fl.Body, fl)
			}
			return true
		})
	})
}

func isRecoverCall(info *types.Info, n ast.Node) bool {
	c, ok := n.(*ast.CallExpr)
	return ok && IsBuiltin(info, c, "recover")
}

func ruleR7(r *Run) {
	p := r.P
	p.EachFunc(func(pkg *packages.Package, fd *ast.FuncDecl) {
		info := pkg.TypesInfo
		n := 0
		ast.Inspect(fd.Body, func(m ast.Node) bool {
			ds, ok := m.(*ast.DeferStmt)
			if !ok {
				return true
			}
			fl, ok := ast.Unparen(ds.Call.Fun).(*ast.FuncLit)
			if !ok {
				return true
			}
			parents := parentMap(fl.Body)
			ast.Inspect(fl.Body, func(q ast.Node) bool {
				if inner, isLit := q.(*ast.FuncLit); isLit && inner != fl {
					return false
				}
				if !isRecoverCall(info, q) {
					return true
				}
				n++
				key := fmt.Sprintf("recover #%d deferred by %s", n, p.DeclName(fd))
				// the chain from the call up to the literal's body
				why := ""
				child := q
				for a := parents[q]; a != nil; child, a = a, parents[a] {
					switch x := a.(type) {
					case *ast.IfStmt:
						if child == ast.Node(x.Body) || x.Else != nil && child == ast.Node(x.Else) {
							if !containsRecover(info, x.Cond) && (x.Init == nil || !containsRecover(info, x.Init)) {
								why = "it stands in a branch of `if " + types.ExprString(x.Cond) + "`"
							}
						}
					case *ast.CaseClause, *ast.CommClause, *ast.ForStmt, *ast.RangeStmt:
						if _, isFor := a.(*ast.ForStmt); !isFor || child == ast.Node(x.(*ast.ForStmt).Body) {
							why = "it stands inside a case or a loop"
						}
					case *ast.BinaryExpr:
						if (x.Op == token.LAND || x.Op == token.LOR) && child == ast.Node(x.Y) {
							why = "it is the right operand of " + x.Op.String() + " and evaluated only when `" + types.ExprString(x.X) + "` allows it"
						}
					case *ast.BlockStmt:
						if a == ast.Node(fl.Body) {
							// statements of the literal in front of the one that recovers: none may leave
							for _, s := range x.List {
								if s == child || s.Pos() >= child.Pos() {
									break
								}
								if c := guardCond(s, 0); c != nil {
									why = "the literal leaves before it when `" + types.ExprString(c) + "`"
								}
								if _, isRet := s.(*ast.ReturnStmt); isRet {
									why = "the literal returns before it"
								}
							}
						}
					}
					if why != "" {
						break
					}
				}
				if why == "" {
					r.Ok(key, q.Pos(), "reached on every path of the deferred literal")
				} else {
					r.Viol(key, q.Pos(), "the recover() is not reached on every path: "+why+"; a panic on the other paths is not contained and ends the process")
				}
				return true
			})
			return true
		})
	})
}

func containsRecover(info *types.Info, n ast.Node) bool {
	found := false
	ast.Inspect(n, func(q ast.Node) bool {
		if isRecoverCall(info, q) {
			found = true
		}
		return !found
	})
	return found
}

func ruleR8(r *Run) {
	p := r.P
	eachFuncNode(p, func(pkg *packages.Package, fd *ast.FuncDecl, ft *ast.FuncType, body *ast.BlockStmt, lit *ast.FuncLit) {
		info := pkg.TypesInfo
		// the function returns an error
		returnsErr := false
		named := map[types.Object]bool{}
		if ft.Results != nil {
			for _, f := range ft.Results.List {
				if isErrorType(info.TypeOf(f.Type)) {
					returnsErr = true
				}
				for _, nm := range f.Names {
					if o := info.Defs[nm]; o != nil {
						named[o] = true
					}
				}
			}
		}
		if !returnsErr {
			return
		}
		n := 0
		for _, s := range body.List {
			ds, ok := s.(*ast.DeferStmt)
			if !ok {
				continue
			}
			fl, ok := ast.Unparen(ds.Call.Fun).(*ast.FuncLit)
			if !ok || !containsRecover(info, fl.Body) {
				continue
			}
			ast.Inspect(fl.Body, func(q ast.Node) bool {
				as, ok := q.(*ast.AssignStmt)
				if !ok || as.Tok != token.ASSIGN {
					return true
				}
				for _, l := range as.Lhs {
					o := identObj(info, l)
					if o == nil || !isErrorType(o.Type()) {
						continue
					}
					// captured from the enclosing function (declared outside the literal, inside the function)
					if o.Pos() >= fl.Pos() && o.Pos() < fl.End() {
						continue
					}
					if o.Pos() < body.Pos() && !named[o] || o.Pos() >= body.End() {
						if !named[o] {
							continue // a variable of an outer function: another rule's business
						}
					}
					// only under the recover's own non-nil test
					parents := parentMap(fl.Body)
					under := false
					for _, f := range collectFacts(parents, as) {
						if be, ok := f.e.(*ast.BinaryExpr); ok && !f.neg && be.Op == token.NEQ {
							if id, ok := ast.Unparen(be.Y).(*ast.Ident); ok && id.Name == "nil" {
								under = true
							}
						}
					}
					if !under {
						continue
					}
					n++
					name := p.DeclName(fd)
					if lit != nil {
						name = "a function literal of " + name
					}
					key := fmt.Sprintf("recovered error #%d stored by %s", n, name)
					if named[o] {
						r.Ok(key, as.Pos(), "assigned to the named result "+o.Name())
					} else {
						r.Viol(key, as.Pos(), "the recovered panic is assigned to `"+o.Name()+"`, a local variable and not a result of the function: after the panic has unwound nothing returns it - the function answers with its zero results and a nil error, and every layer above takes the failed call for a success")
					}
				}
				return true
			})
		}
	})
}

func ruleL17(r *Run) {
	p := r.P
	n := 0
	p.EachFunc(func(pkg *packages.Package, fd *ast.FuncDecl) {
		info := pkg.TypesInfo
		named := map[types.Object]bool{}
		if fd.Type.Results != nil {
			for _, f := range fd.Type.Results.List {
				for _, nm := range f.Names {
					if o := info.Defs[nm]; o != nil {
						named[o] = true
					}
				}
			}
		}
		// gives up: a select (outside literals) with a <-ctx.Done() case whose body returns
		givesUp := false
		ast.Inspect(fd.Body, func(m ast.Node) bool {
			if _, isLit := m.(*ast.FuncLit); isLit {
				return false
			}
			sel, ok := m.(*ast.SelectStmt)
			if !ok {
				return true
			}
			for _, cs := range sel.Body.List {
				cc := cs.(*ast.CommClause)
				es, ok := cc.Comm.(*ast.ExprStmt)
				if !ok || !isCtxDoneRecv(info, es.X) {
					continue
				}
				for _, s := range cc.Body {
					if _, isRet := s.(*ast.ReturnStmt); isRet {
						givesUp = true
					}
				}
			}
			return true
		})
		if !givesUp {
			return
		}
		ast.Inspect(fd.Body, func(m ast.Node) bool {
			gs, ok := m.(*ast.GoStmt)
			if !ok {
				return true
			}
			fl, ok := ast.Unparen(gs.Call.Fun).(*ast.FuncLit)
			if !ok {
				return true
			}
			n++
			key := fmt.Sprintf("goroutine of %s keeps its hands off the results", p.DeclName(fd))
			var bad []string
			ast.Inspect(fl.Body, func(q ast.Node) bool {
				switch x := q.(type) {
				case *ast.AssignStmt:
					for _, l := range x.Lhs {
						if o := identObj(info, l); o != nil && named[o] && !(x.Tok == token.DEFINE && info.Defs[l.(*ast.Ident)] != nil) {
							bad = append(bad, o.Name()+" at "+p.Rel(x.Pos()))
						}
					}
				case *ast.IncDecStmt:
					if o := identObj(info, x.X); o != nil && named[o] {
						bad = append(bad, o.Name()+" at "+p.Rel(x.Pos()))
					}
				}
				return true
			})
			if len(bad) == 0 {
				r.Ok(key, gs.Pos(), "the goroutine writes locals of its own only")
			} else {
				r.Viol(key, gs.Pos(), "the goroutine assigns the function's named result(s) "+strings.Join(dedupStr(bad), ", ")+" while the function returns without it on <-ctx.Done(): the write lands after the return, unsynchronised, and the caller reads a mixture of the give-up answer and the late one")
			}
			return true
		})
	})
	if n == 0 {
		r.Undec("functions that start a goroutine and can give up on it", 0, "none found")
	}
}

// ---------------------------------------------------------------------------------------------------

func init() {
	register("G59", "a coder that goes back to its pool has forgotten its error: wherever a method of io.Decoder / io.Encoder sets the receiver's Error field to nil, it does so by a statement of the function's own block - not in one branch only (ResetBuffer cleared it for reader-fed decoders only: the byte-slice decoders every rpc codec uses kept the error of one call for the next caller who drew that instance)", 2, ruleG59)
	register("G60", "a weighted balancer lowers the effective weight of a server only while it is positive: every decrement of an element of effectiveWeights stands under `element > 0` (strict). With >= 0 a server that fails with calls in flight reaches -1, the total weight reaches 0 although a healthy server exists, and the balancer falls back to a uniform choice that keeps sending to the dead server", 3, ruleG60)
	register("G61", "a list the client hands out is replaced, not recycled: no assignment to Client.URLs re-slices the field itself (c.URLs = c.URLs[:0]; append(c.URLs[:0], ...)) - the application and the balancers hold slices of the old list (a saved pool, a list shared with a second client), and writing the new servers into the old array changes what they select from", 2, ruleG61)
	register("F12", "a float32 is parsed as a float32: in package io a conversion float32(x) of a float64 that was parsed from decimal text takes it from strconv.ParseFloat(..., 32) - not from ParseFloat(..., 64) or a function that parses at 64 bits (ReadFloat64): rounding the decimal to float64 first and to float32 second gives the wrong neighbour next to a float32 midpoint (7.038531e-26 comes back as 7.0385313e-26) and +Inf without an error beyond the float32 range", 1, ruleF12)
	register("S19", "the length a frame header announces is tested against MaxRequestLength before it is used to allocate: in a server handler a make([]byte, length) with the length parsed from the header stands behind the refusal of length > MaxRequestLength - otherwise 12 bytes make the service allocate (and wait for) up to 2 GiB per connection whatever limit is configured", 2, ruleS19)
	register("P24", "a connection that fails its pending calls tells them why: every call of a transport's conn.Close(err error) - which hands data{Error: err} to every pending call - passes an error that is not nil by construction (a package-level error value, a constructed error, or a variable under `!= nil`). Close(nil) answers the pending calls with (nil, nil): a lost connection is reported as a successful empty response", 6, ruleP24)
	register("P25", "a goroutine that reports to a caller who may have left does not wait for them: where a function makes a channel, starts a goroutine that sends on it and can itself return from a select without receiving (a <-ctx.Done() case that returns), the channel is made with a capacity of at least 1 - on an unbuffered channel every call that ends by time-out, cancellation or Abort leaves its goroutine blocked for ever", 2, ruleP25)
}

func ruleG59(r *Run) {
	p := r.P
	pkg := p.Pkg("io")
	if pkg == nil {
		r.Undec("package io", 0, "not found")
		return
	}
	info := pkg.TypesInfo
	p.EachFunc(func(fp *packages.Package, fd *ast.FuncDecl) {
		if fp != pkg || fd.Recv == nil {
			return
		}
		parents := parentMap(fd.Body)
		ast.Inspect(fd.Body, func(m ast.Node) bool {
			if _, isLit := m.(*ast.FuncLit); isLit {
				return false
			}
			as, ok := m.(*ast.AssignStmt)
			if !ok || len(as.Lhs) != 1 || len(as.Rhs) != 1 {
				return true
			}
			fv := fieldOf(info, as.Lhs[0])
			id, isNil := ast.Unparen(as.Rhs[0]).(*ast.Ident)
			if fv == nil || refName(fv.Name()) != "Error" || !isNil || id.Name != "nil" {
				return true
			}
			sel := ast.Unparen(as.Lhs[0]).(*ast.SelectorExpr)
			if o := identObj(info, sel.X); o == nil || len(fd.Recv.List) != 1 || len(fd.Recv.List[0].Names) != 1 || info.Defs[fd.Recv.List[0].Names[0]] != o {
				return true
			}
			key := "error cleared unconditionally by " + p.DeclName(fd)
			r.Check(parents[as] == ast.Node(fd.Body), key, as.Pos(), "a statement of the function's own block", "the error is cleared in one branch only: on the other paths the coder keeps the error of its previous use, and once it has gone back to the pool the next caller who draws it is answered with that error")
			return true
		})
	})
}

func ruleG60(r *Run) {
	p := r.P
	pkg := p.Pkg("rpc/plugins/loadbalance")
	if pkg == nil {
		r.Undec("package rpc/plugins/loadbalance", 0, "not found")
		return
	}
	info := pkg.TypesInfo
	p.EachFunc(func(fp *packages.Package, fd *ast.FuncDecl) {
		if fp != pkg {
			return
		}
		parents := parentMap(fd.Body)
		n := 0
		ast.Inspect(fd.Body, func(m ast.Node) bool {
			var target ast.Expr
			switch x := m.(type) {
			case *ast.IncDecStmt:
				if x.Tok == token.DEC {
					target = x.X
				}
			case *ast.AssignStmt:
				if x.Tok == token.SUB_ASSIGN && len(x.Lhs) == 1 {
					target = x.Lhs[0]
				}
			}
			if target == nil {
				return true
			}
			ie, ok := ast.Unparen(target).(*ast.IndexExpr)
			if !ok {
				return true
			}
			fv := fieldOf(info, ie.X)
			if fv == nil || refName(fv.Name()) != "effectiveWeights" {
				return true
			}
			n++
			key := fmt.Sprintf("effective weight lowered while positive in %s #%d", p.DeclName(fd), n)
			want := types.ExprString(target)
			good := false
			for _, f := range factsWithSwitch(parents, m) {
				be, ok := f.e.(*ast.BinaryExpr)
				if !ok {
					continue
				}
				c, isC := intConst(info, be.Y)
				cx, isCX := intConst(info, be.X)
				switch {
				case !f.neg && be.Op == token.GTR && types.ExprString(be.X) == want && isC && c >= 0,
					!f.neg && be.Op == token.GEQ && types.ExprString(be.X) == want && isC && c >= 1,
					f.neg && be.Op == token.LEQ && types.ExprString(be.X) == want && isC && c >= 0,
					f.neg && be.Op == token.LSS && types.ExprString(be.X) == want && isC && c >= 1,
					!f.neg && be.Op == token.LSS && types.ExprString(be.Y) == want && isCX && cx >= 0,
					!f.neg && be.Op == token.LEQ && types.ExprString(be.Y) == want && isCX && cx >= 1:
					good = true
				}
			}
			r.Check(good, key, m.Pos(), "under "+want+" > 0", "the decrement of "+want+" is not under `"+want+" > 0`: the effective weight of a failing server can go below zero, the sum of the weights reaches zero while a healthy server exists, and the selection degenerates to a uniform choice that includes the dead server")
			return true
		})
	})
}

func ruleG61(r *Run) {
	p := r.P
	urlsF := p.LookupField("rpc/core", "Client", "URLs")
	if urlsF == nil {
		r.Undec("rpc/core.Client.URLs", 0, "not found")
		return
	}
	n := 0
	p.EachFunc(func(pkg *packages.Package, fd *ast.FuncDecl) {
		if p.RelPkg(pkg.Types) != "rpc/core" {
			return
		}
		info := pkg.TypesInfo
		ast.Inspect(fd.Body, func(m ast.Node) bool {
			as, ok := m.(*ast.AssignStmt)
			if !ok || len(as.Lhs) != len(as.Rhs) {
				return true
			}
			for i, l := range as.Lhs {
				if fieldOf(info, l) != urlsF {
					continue
				}
				n++
				key := fmt.Sprintf("server list assigned in %s #%d", p.DeclName(fd), n)
				bad := false
				ast.Inspect(as.Rhs[i], func(q ast.Node) bool {
					if se, ok := q.(*ast.SliceExpr); ok && fieldOf(info, se.X) == urlsF {
						bad = true
					}
					return true
				})
				r.Check(!bad, key, as.Pos(), "no re-slice of the field itself", "the new list is built in the array of the old one (`"+types.ExprString(as.Rhs[i])+"`): slices of the old list that the application or a balancer still holds now show the new servers")
			}
			return true
		})
	})
	if n == 0 {
		r.Undec("assignments to rpc/core.Client.URLs", 0, "none found")
	}
}

func ruleF12(r *Run) {
	p := r.P
	pkg := p.Pkg("io")
	if pkg == nil {
		r.Undec("package io", 0, "not found")
		return
	}
	info := pkg.TypesInfo
	// functions of the package that parse decimal text at 64 bits
	parses64 := map[*types.Func]bool{}
	// the bit size of a ParseFloat call: a constant, a local with one constant definition (what a substituted helper leaves:
	// var bitSize int = 32), or -1 with the parameter that carries it
	paramBits := map[*types.Func]int{}
	var curDefs map[types.Object]ast.Expr
	var curParams []*types.Var
	bitSize := func(c *ast.CallExpr) (int64, bool) {
		if FullNameOf(info, c) != "strconv.ParseFloat" || len(c.Args) != 2 {
			return 0, false
		}
		if v, ok := intConst(info, c.Args[1]); ok {
			return v, true
		}
		if o := identObj(info, c.Args[1]); o != nil {
			if d, ok := curDefs[o]; ok && d != nil {
				if v, ok := intConst(info, d); ok {
					return v, true
				}
			}
			for i, pv := range curParams {
				if pv == o {
					return int64(-1 - i), true
				}
			}
		}
		return 0, true
	}
	p.EachFunc(func(fp *packages.Package, fd *ast.FuncDecl) {
		if fp != pkg {
			return
		}
		curDefs, curParams = localDefs(info, fd.Body), paramsOf(info, fd.Type)
		ast.Inspect(fd.Body, func(m ast.Node) bool {
			if c, ok := m.(*ast.CallExpr); ok {
				if v, isPF := bitSize(c); isPF && v != 32 {
					if f, _ := info.Defs[fd.Name].(*types.Func); f != nil {
						if v < 0 {
							paramBits[f] = int(-1 - v)
						} else {
							parses64[f] = true
						}
					}
				}
			}
			return true
		})
	})
	n := 0
	p.EachFunc(func(fp *packages.Package, fd *ast.FuncDecl) {
		if fp != pkg {
			return
		}
		k := 0
		curDefs, curParams = localDefs(info, fd.Body), paramsOf(info, fd.Type)
		ast.Inspect(fd.Body, func(m ast.Node) bool {
			conv, ok := m.(*ast.CallExpr)
			if !ok {
				return true
			}
			t, isConv := isConversion(info, conv)
			if !isConv {
				return true
			}
			if b, ok := t.Underlying().(*types.Basic); !ok || b.Kind() != types.Float32 {
				return true
			}
			arg := ast.Unparen(conv.Args[0])
			// the parse the operand comes from
			var src *ast.CallExpr
			if c, ok := arg.(*ast.CallExpr); ok {
				src = c
			} else if o := identObj(info, arg); o != nil {
				ast.Inspect(fd.Body, func(q ast.Node) bool {
					as, ok := q.(*ast.AssignStmt)
					if !ok || len(as.Rhs) != 1 || len(as.Lhs) == 0 || identObj(info, as.Lhs[0]) != o {
						return true
					}
					if c, ok := ast.Unparen(as.Rhs[0]).(*ast.CallExpr); ok {
						src = c
					}
					return true
				})
			}
			if src == nil {
				return true
			}
			v, isPF := bitSize(src)
			callee := Callee(info, src)
			if pi, parametric := paramBits[callee]; !isPF && callee != nil && parametric {
				// a helper that parses at the bit size it is given: the argument decides
				if pi < len(src.Args) {
					if av, ok := intConst(info, src.Args[pi]); ok {
						v, isPF = av, true
					}
				}
				if !isPF {
					return true
				}
			}
			if !isPF && (callee == nil || !parses64[callee]) {
				return true
			}
			n++
			k++
			key := fmt.Sprintf("float32 parsed at 32 bits in %s #%d", p.DeclName(fd), k)
			if isPF {
				r.Check(v == 32, key, conv.Pos(), "strconv.ParseFloat(..., 32)", fmt.Sprintf("the text is parsed with bitSize %d and converted to float32 afterwards: two roundings instead of one", v))
			} else {
				r.Viol(key, conv.Pos(), "the float32 is the conversion of what "+p.FuncName(callee)+" parsed at 64 bits: the decimal text is rounded twice (wrong neighbour next to a float32 midpoint, +Inf without an error beyond the float32 range)")
			}
			return true
		})
	})
	if n == 0 {
		r.Undec("float32 conversions of parsed text in package io", 0, "none found")
	}
}

func ruleS19(r *Run) {
	p := r.P
	n := 0
	p.EachFunc(func(pkg *packages.Package, fd *ast.FuncDecl) {
		rel := p.RelPkg(pkg.Types)
		if !strings.HasPrefix(rel, "rpc/") || fd.Recv == nil {
			return
		}
		info := pkg.TypesInfo
		// a server handler: mentions MaxRequestLength or is a method of a type named Handler
		isHandler := false
		if t := info.TypeOf(fd.Recv.List[0].Type); t != nil && strings.HasSuffix(strings.TrimPrefix(t.String(), "*"), ".Handler") {
			isHandler = true
		}
		if !isHandler {
			return
		}
		// lengths parsed from a header
		lens := map[types.Object]bool{}
		ast.Inspect(fd.Body, func(m ast.Node) bool {
			as, ok := m.(*ast.AssignStmt)
			if !ok || len(as.Rhs) != 1 || len(as.Lhs) < 2 {
				return true
			}
			if c, ok := ast.Unparen(as.Rhs[0]).(*ast.CallExpr); ok {
				if f := Callee(info, c); f != nil && refName(f.Name()) == "parseHeader" {
					if o := identObj(info, as.Lhs[0]); o != nil {
						lens[o] = true
					}
				}
			}
			return true
		})
		if len(lens) == 0 {
			return
		}
		parents := parentMap(fd.Body)
		ast.Inspect(fd.Body, func(m ast.Node) bool {
			mk, ok := m.(*ast.CallExpr)
			if !ok || !IsBuiltin(info, mk, "make") || len(mk.Args) < 2 {
				return true
			}
			o := identObj(info, stripConv(info, mk.Args[1]))
			if o == nil || !lens[o] {
				return true
			}
			n++
			key := fmt.Sprintf("announced length tested before allocation in %s #%d", p.DeclName(fd), n)
			good := false
			for _, f := range factsWithSwitch(parents, mk) {
				be, ok := f.e.(*ast.BinaryExpr)
				if !ok {
					continue
				}
				xl, yl := identObj(info, stripConv(info, be.X)) == o, identObj(info, stripConv(info, be.Y)) == o
				xm, ym := isMaxReqLen(info, be.X), isMaxReqLen(info, be.Y)
				switch {
				case f.neg && be.Op == token.GTR && xl && ym, f.neg && be.Op == token.LSS && xm && yl,
					!f.neg && be.Op == token.LEQ && xl && ym, !f.neg && be.Op == token.GEQ && xm && yl:
					good = true
				}
			}
			r.Check(good, key, mk.Pos(), "behind the refusal of length > MaxRequestLength", "the buffer is allocated with the length the header announces before that length has been compared with MaxRequestLength: a 12-byte header makes the service allocate and wait for whatever it announces")
			return true
		})
	})
	if n == 0 {
		r.Undec("allocations from an announced length in server handlers", 0, "none found")
	}
}

func ruleP24(r *Run) {
	p := r.P
	n := 0
	p.EachFunc(func(pkg *packages.Package, fd *ast.FuncDecl) {
		rel := p.RelPkg(pkg.Types)
		if rel != "rpc/socket" && rel != "rpc/websocket" && rel != "rpc/udp" {
			return
		}
		info := pkg.TypesInfo
		parents := parentMap(fd.Body)
		k := 0
		ast.Inspect(fd.Body, func(m ast.Node) bool {
			c, ok := m.(*ast.CallExpr)
			if !ok || len(c.Args) != 1 {
				return true
			}
			f := Callee(info, c)
			if f == nil || !p.InRepo(f) || refName(f.Name()) != "Close" {
				return true
			}
			sig := f.Type().(*types.Signature)
			if sig.Params().Len() != 1 || !isErrorType(sig.Params().At(0).Type()) || sig.Recv() == nil {
				return true
			}
			n++
			k++
			key := fmt.Sprintf("pending calls are failed with an error by %s #%d", p.DeclName(fd), k)
			arg := ast.Unparen(c.Args[0])
			good, how := false, ""
			switch x := arg.(type) {
			case *ast.CompositeLit, *ast.CallExpr:
				good, how = true, "a constructed error"
			case *ast.SelectorExpr:
				if o := info.Uses[x.Sel]; o != nil && o.Parent() == o.Pkg().Scope() {
					good, how = true, "a package-level error value"
				}
			case *ast.Ident:
				if o := info.Uses[x]; o != nil && o.Pkg() != nil && o.Parent() == o.Pkg().Scope() {
					good, how = true, "a package-level error value"
				} else if x.Name != "nil" {
					for _, fc := range collectFacts(parents, c) {
						if be, ok := fc.e.(*ast.BinaryExpr); ok && identObj(info, be.X) == o && o != nil {
							if id, ok := ast.Unparen(be.Y).(*ast.Ident); ok && id.Name == "nil" && (!fc.neg && be.Op == token.NEQ || fc.neg && be.Op == token.EQL) {
								good, how = true, "under "+x.Name+" != nil"
							}
						}
					}
				}
			}
			if good {
				r.Ok(key, c.Pos(), how)
			} else {
				r.Viol(key, c.Pos(), "Close is called with `"+types.ExprString(arg)+"`, which can be nil here: every pending call is answered with (nil, nil) - a lost connection looks like a successful empty response, and what counts failures above (the circuit breaker, the cluster's retry) sees a success")
			}
			return true
		})
	})
	if n == 0 {
		r.Undec("calls of conn.Close(err) in the multiplexing transports", 0, "none found")
	}
}

func ruleP25(r *Run) {
	p := r.P
	n := 0
	p.EachFunc(func(pkg *packages.Package, fd *ast.FuncDecl) {
		if !strings.HasPrefix(p.RelPkg(pkg.Types), "rpc") {
			return
		}
		info := pkg.TypesInfo
		// channels made here
		made := map[types.Object]*ast.CallExpr{}
		ast.Inspect(fd.Body, func(m ast.Node) bool {
			as, ok := m.(*ast.AssignStmt)
			if !ok || len(as.Lhs) != 1 || len(as.Rhs) != 1 {
				return true
			}
			if mk, ok := ast.Unparen(as.Rhs[0]).(*ast.CallExpr); ok && IsBuiltin(info, mk, "make") && len(mk.Args) >= 1 {
				if _, isChan := info.TypeOf(mk.Args[0]).Underlying().(*types.Chan); isChan {
					if o := identObj(info, as.Lhs[0]); o != nil {
						made[o] = mk
					}
				}
			}
			return true
		})
		if len(made) == 0 {
			return
		}
		// sent on by a goroutine literal of this function
		sentByGo := map[types.Object]bool{}
		ast.Inspect(fd.Body, func(m ast.Node) bool {
			gs, ok := m.(*ast.GoStmt)
			if !ok {
				return true
			}
			// go helper(..., ch): the goroutine is a named function that is given the channel to report on
			for _, a := range gs.Call.Args {
				if o := identObj(info, a); o != nil && made[o] != nil {
					sentByGo[o] = true
				}
			}
			fl, ok := ast.Unparen(gs.Call.Fun).(*ast.FuncLit)
			if !ok {
				return true
			}
			ast.Inspect(fl.Body, func(q ast.Node) bool {
				if ss, ok := q.(*ast.SendStmt); ok {
					if o := identObj(info, ss.Chan); o != nil && made[o] != nil {
						sentByGo[o] = true
					}
				}
				return true
			})
			return true
		})
		// the function can leave a select without receiving from the channel
		for o, mk := range made {
			if !sentByGo[o] {
				continue
			}
			givesUp := false
			ast.Inspect(fd.Body, func(m ast.Node) bool {
				if _, isLit := m.(*ast.FuncLit); isLit {
					return false
				}
				sel, ok := m.(*ast.SelectStmt)
				if !ok {
					return true
				}
				receives := false
				other := false
				for _, cs := range sel.Body.List {
					cc := cs.(*ast.CommClause)
					if cc.Comm == nil {
						continue
					}
					mine := false
					ast.Inspect(cc.Comm, func(q ast.Node) bool {
						if u, ok := q.(*ast.UnaryExpr); ok && u.Op == token.ARROW && identObj(info, u.X) == o {
							mine = true
						}
						return true
					})
					if mine {
						receives = true
					} else if endsInJump(cc.Body) {
						other = true
					}
				}
				if receives && other {
					givesUp = true
				}
				return true
			})
			if !givesUp {
				// ... or in a helper of the package that is given the channel and waits on it in such a select - called by the
				// function itself, not started as a goroutine (that one is the other end)
				goCalls := map[*ast.CallExpr]bool{}
				ast.Inspect(fd.Body, func(m ast.Node) bool {
					if gs, ok := m.(*ast.GoStmt); ok {
						goCalls[gs.Call] = true
					}
					return true
				})
				ast.Inspect(fd.Body, func(m ast.Node) bool {
					if _, isLit := m.(*ast.FuncLit); isLit {
						return false
					}
					c, ok := m.(*ast.CallExpr)
					if !ok || goCalls[c] {
						return true
					}
					d, cpkg := p.calleeDecl(info, c)
					if d == nil || cpkg != pkg || d.Body == nil {
						return true
					}
					params := paramsOf(info, d.Type)
					for i, a := range c.Args {
						if identObj(info, a) != o || i >= len(params) || params[i] == nil {
							continue
						}
						pv := params[i]
						ast.Inspect(d.Body, func(q ast.Node) bool {
							sel, ok := q.(*ast.SelectStmt)
							if !ok {
								return true
							}
							receives, other := false, false
							for _, cs := range sel.Body.List {
								cc := cs.(*ast.CommClause)
								if cc.Comm == nil {
									continue
								}
								mine := false
								ast.Inspect(cc.Comm, func(k ast.Node) bool {
									if u, ok := k.(*ast.UnaryExpr); ok && u.Op == token.ARROW && identObj(info, u.X) == types.Object(pv) {
										mine = true
									}
									return true
								})
								if mine {
									receives = true
								} else if endsInJump(cc.Body) {
									other = true
								}
							}
							if receives && other {
								givesUp = true
							}
							return true
						})
					}
					return true
				})
			}
			if !givesUp {
				continue
			}
			n++
			key := "hand-over channel " + o.Name() + " of " + p.DeclName(fd) + " is buffered"
			good := false
			if len(mk.Args) == 2 {
				if v, ok := intConst(info, mk.Args[1]); ok && v >= 1 {
					good = true
				}
			}
			r.Check(good, key, mk.Pos(), "capacity >= 1", "the channel is unbuffered (or its capacity is not a constant >= 1): when the function has left through the other case of its select nobody receives any more, and the goroutine that reports on this channel stays blocked for ever - one leaked goroutine per call that times out, is cancelled or aborted")
		}
	})
	if n == 0 {
		r.Undec("functions that wait for a goroutine of their own on a channel and can give up", 0, "none found")
	}
}

// ---------------------------------------------------------------------------------------------------

func init() {
	register("F13", "the one-character item is chosen by counting characters: in package io an append of TagUTF8Char to the output stands under a test of the value utf16Length returned (case 1 / == 1), never under a test of the byte length - a one-byte string whose byte is >= 0x80 is not a character, and written as `u\\xff` it is an illegal item that makes a reader swallow the bytes that follow", 1, ruleF13)
	register("G62", "what a method's tag says is what the call does: the tag parser of rpc/core stores every item of a `context:` / `header:` tag unconditionally - not only when the key is absent. A ClientContext that is reused keeps the items of the previous method, and an explicit idempotent:false,retry:0 would lose against the idempotent,retry:3 left behind: a call that must be sent once is sent four times", 2, ruleG62)
	register("B9", "the slot a decoded value is registered under is fixed before its elements are read: inside package io the index handed to Decoder.SetReference is a local that was taken from the reference table before any loop of the function (not refer.Last() evaluated after the elements, which by then names the slot of the last element)", 0, ruleB9)
}

func ruleF13(r *Run) {
	p := r.P
	pkg := p.Pkg("io")
	if pkg == nil {
		r.Undec("package io", 0, "not found")
		return
	}
	info := pkg.TypesInfo
	n := 0
	p.EachFunc(func(fp *packages.Package, fd *ast.FuncDecl) {
		if fp != pkg {
			return
		}
		parents := parentMap(fd.Body)
		// values that utf16Length returned
		counted := map[types.Object]bool{}
		ast.Inspect(fd.Body, func(m ast.Node) bool {
			as, ok := m.(*ast.AssignStmt)
			if !ok || len(as.Lhs) != 1 || len(as.Rhs) != 1 {
				return true
			}
			if c, ok := ast.Unparen(as.Rhs[0]).(*ast.CallExpr); ok {
				if f := Callee(info, c); f != nil && refName(f.Name()) == "utf16Length" {
					if o := identObj(info, as.Lhs[0]); o != nil {
						counted[o] = true
					}
				}
			}
			return true
		})
		k := 0
		ast.Inspect(fd.Body, func(m ast.Node) bool {
			c, ok := m.(*ast.CallExpr)
			if !ok || !IsBuiltin(info, c, "append") {
				return true
			}
			has := false
			for _, a := range c.Args[1:] {
				if o := identObj(info, a); o != nil && refName(o.Name()) == "TagUTF8Char" {
					has = true
				}
			}
			if !has {
				return true
			}
			n++
			k++
			key := fmt.Sprintf("one-character item written by %s #%d", p.DeclName(fd), k)
			good := false
			isCounted := func(e ast.Expr) bool {
				e = ast.Unparen(e)
				if o := identObj(info, e); o != nil && counted[o] {
					return true
				}
				if cc, ok := e.(*ast.CallExpr); ok {
					if f := Callee(info, cc); f != nil && refName(f.Name()) == "utf16Length" {
						return true
					}
				}
				return false
			}
			for a := parents[m]; a != nil; a = parents[a] {
				if cc, ok := a.(*ast.CaseClause); ok {
					if sw, ok := parents[parents[cc]].(*ast.SwitchStmt); ok && sw.Tag != nil && isCounted(sw.Tag) {
						for _, e := range cc.List {
							if v, ok := intConst(info, e); ok && v == 1 && len(cc.List) == 1 {
								good = true
							}
						}
					}
				}
			}
			for _, f := range factsWithSwitch(parents, m) {
				if be, ok := f.e.(*ast.BinaryExpr); ok && !f.neg && be.Op == token.EQL {
					if v, ok := intConst(info, be.Y); ok && v == 1 && isCounted(be.X) {
						good = true
					}
				}
			}
			r.Check(good, key, c.Pos(), "under utf16Length(...) == 1", "TagUTF8Char is written without the character count of utf16Length being 1 on this path: a string of one BYTE need not be one character (a byte >= 0x80 is not valid UTF-8), and the item written is malformed")
			return true
		})
	})
	if n == 0 {
		r.Undec("appends of TagUTF8Char in package io", 0, "none found")
	}
}

func ruleG62(r *Run) {
	p := r.P
	n := 0
	p.EachFunc(func(pkg *packages.Package, fd *ast.FuncDecl) {
		if p.RelPkg(pkg.Types) != "rpc/core" {
			return
		}
		info := pkg.TypesInfo
		// a method of the tag parser, or a function that takes a tag's items apart itself (parseHeader / parseContext inlined
		// into ParseTag)
		subject := false
		if fd.Recv != nil {
			if t := info.TypeOf(fd.Recv.List[0].Type); t != nil && strings.HasSuffix(t.String(), ".TagParser") {
				subject = true
			}
		}
		ast.Inspect(fd.Body, func(m ast.Node) bool {
			if c, ok := m.(*ast.CallExpr); ok && refName(methodName(c)) == "parseMap" {
				subject = true
			}
			return true
		})
		if !subject {
			return
		}
		parents := parentMap(fd.Body)
		k := 0
		ast.Inspect(fd.Body, func(m ast.Node) bool {
			c, ok := m.(*ast.CallExpr)
			if !ok || refName(methodName(c)) != "Set" || len(c.Args) != 2 {
				return true
			}
			sel, ok := ast.Unparen(c.Fun).(*ast.SelectorExpr)
			if !ok {
				return true
			}
			box := identObj(info, sel.X)
			if box == nil {
				return true
			}
			n++
			k++
			key := fmt.Sprintf("tag item stored unconditionally by %s #%d", p.DeclName(fd), k)
			why := ""
			for a := parents[m]; a != nil; a = parents[a] {
				ifs, ok := a.(*ast.IfStmt)
				if !ok {
					continue
				}
				for _, part := range []ast.Node{ifs.Init, ifs.Cond} {
					if part == nil || (ast.Node(ifs.Init) == nil && part == ast.Node(ifs.Init)) {
						continue
					}
					ast.Inspect(part, func(q ast.Node) bool {
						if id, ok := q.(*ast.Ident); ok && info.Uses[id] == box {
							why = "`" + types.ExprString(ifs.Cond) + "`"
						}
						return true
					})
				}
			}
			r.Check(why == "", key, c.Pos(), "no test of the container in front of the Set", "the item is stored only under "+why+", a test of what the context already holds: items left in a reused context by an earlier method win over the tag of this one")
			return true
		})
	})
	if n == 0 {
		r.Undec("Set calls of the tag parser", 0, "none found")
	}
}

func ruleB9(r *Run) {
	p := r.P
	pkg := p.Pkg("io")
	if pkg == nil {
		r.Undec("package io", 0, "not found")
		return
	}
	info := pkg.TypesInfo
	setRef := p.LookupFunc("io", "Decoder.SetReference")
	if setRef == nil {
		r.Undec("io.Decoder.SetReference", 0, "not found")
		return
	}
	n := 0
	p.EachFunc(func(fp *packages.Package, fd *ast.FuncDecl) {
		if fp != pkg {
			return
		}
		defs := localDefs(info, fd.Body)
		firstLoop := token.NoPos
		ast.Inspect(fd.Body, func(m ast.Node) bool {
			switch m.(type) {
			case *ast.ForStmt, *ast.RangeStmt:
				if firstLoop == token.NoPos {
					firstLoop = m.Pos()
				}
			}
			return true
		})
		k := 0
		ast.Inspect(fd.Body, func(m ast.Node) bool {
			c, ok := m.(*ast.CallExpr)
			if !ok || Callee(info, c) != setRef || len(c.Args) != 2 {
				return true
			}
			n++
			k++
			key := fmt.Sprintf("slot fixed before the elements in %s #%d", p.DeclName(fd), k)
			o := identObj(info, c.Args[0])
			d, single := defs[o]
			switch {
			case o == nil:
				r.Viol(key, c.Pos(), "the slot is computed at the call (`"+types.ExprString(c.Args[0])+"`): after the elements have been read the last slot of the table belongs to the last element, and the container is stored over it - a later reference to that element yields the whole container")
			case isParamOrResult(info, fd, o):
				r.Ok(key, c.Pos(), "the caller's slot")
			case !single || d == nil:
				r.Undec(key, c.Pos(), "the slot variable is assigned more than once")
			case firstLoop != token.NoPos && d.Pos() > firstLoop:
				r.Viol(key, c.Pos(), "the slot is taken from the table after the elements have been read: it names the slot of the last element, not of the container")
			default:
				r.Ok(key, c.Pos(), "taken before the elements")
			}
			return true
		})
	})
	if n == 0 {
		r.Ok("calls of Decoder.SetReference inside package io", 0, "none: the containers are registered by AddReference before their elements and never re-registered")
	}
}

// ---------------------------------------------------------------------------------------------------

func init() {
	register("S20", "the refusal of an oversized websocket message is hprose's own: the websocket transport does not give the library a read limit (Conn.SetReadLimit with anything but 0) - above such a limit the library cuts the connection itself (close 1009) before the handler can answer with the request-too-large error, so the caller of an oversized request gets a reset instead of the refusal the property promises", 0, ruleS20)
}

func ruleS20(r *Run) {
	p := r.P
	pkg := p.Pkg("rpc/websocket")
	if pkg == nil {
		r.Undec("package rpc/websocket", 0, "not found")
		return
	}
	info := pkg.TypesInfo
	n := 0
	p.EachFunc(func(fp *packages.Package, fd *ast.FuncDecl) {
		if fp != pkg {
			return
		}
		k := 0
		ast.Inspect(fd.Body, func(m ast.Node) bool {
			c, ok := m.(*ast.CallExpr)
			if !ok || methodName(c) != "SetReadLimit" || len(c.Args) != 1 {
				return true
			}
			f := Callee(info, c)
			if f == nil || f.Pkg() == nil || !strings.Contains(f.Pkg().Path(), "websocket") {
				return true
			}
			n++
			k++
			key := fmt.Sprintf("no library read limit set by %s #%d", p.DeclName(fd), k)
			v, isConst := intConst(info, c.Args[0])
			r.Check(isConst && v == 0, key, c.Pos(), "SetReadLimit(0): no limit", "the library is told to cut every message above `"+types.ExprString(c.Args[0])+"` itself: for such a message the peer gets close 1009 / a reset instead of the request-too-large answer")
			return true
		})
	})
	if n == 0 {
		r.Ok("calls of Conn.SetReadLimit in rpc/websocket", 0, "none: every message reaches the handler's own length test")
	}
}

// ---------------------------------------------------------------------------------------------------

func init() {
	register("G63", "a pending call keeps its slot: where a multiplexing transport numbers its requests with fewer than 31 bits (the UDP datagram header has 15), the number comes round while calls are still pending, and the insertion into the table of pending calls stands under a test that the slot is free - otherwise the new call takes the slot of the waiting one, receives ITS response, and the old call never returns (32768 calls while one is held: caller B got \"held:A\"). With 31 bits the number space cannot come round within the life of a call", 3, ruleG63)
}

func ruleG63(r *Run) {
	p := r.P
	for _, rel := range []string{"rpc/socket", "rpc/websocket", "rpc/udp"} {
		pkg := p.Pkg(rel)
		if pkg == nil {
			r.Undec("package "+rel, 0, "not found")
			continue
		}
		info := pkg.TypesInfo
		key := "pending slot not replaced in " + rel
		// the number space: the mask applied to the atomic counter in conn.Transport
		fd, _ := p.DeclOf(rel, "conn.Transport")
		if fd == nil {
			r.Undec(key, 0, "conn.Transport not found")
			continue
		}
		var mask int64 = -1
		ast.Inspect(fd.Body, func(m ast.Node) bool {
			be, ok := m.(*ast.BinaryExpr)
			if !ok || be.Op != token.AND {
				return true
			}
			if c, ok := ast.Unparen(be.X).(*ast.CallExpr); ok && strings.HasPrefix(FullNameOf(info, c), "sync/atomic.Add") {
				if v, ok := intConst(info, be.Y); ok {
					mask = v
				}
			}
			return true
		})
		if mask < 0 {
			r.Undec(key, fd.Pos(), "no atomic counter masked with a constant in conn.Transport")
			continue
		}
		if mask >= 1<<30 {
			r.Ok(key, fd.Pos(), fmt.Sprintf("request numbers have %d values: the number cannot come round while a call is pending", mask+1))
			continue
		}
		// insertions into a map field from int to channel
		found := false
		p.EachFunc(func(fp *packages.Package, f2 *ast.FuncDecl) {
			if fp != pkg {
				return
			}
			parents := parentMap(f2.Body)
			ast.Inspect(f2.Body, func(m ast.Node) bool {
				as, ok := m.(*ast.AssignStmt)
				if !ok || as.Tok != token.ASSIGN || len(as.Lhs) != 1 {
					return true
				}
				ie, ok := ast.Unparen(as.Lhs[0]).(*ast.IndexExpr)
				if !ok {
					return true
				}
				fv := fieldOf(info, ie.X)
				if fv == nil {
					return true
				}
				mt, ok := fv.Type().Underlying().(*types.Map)
				if !ok {
					return true
				}
				if _, isChan := mt.Elem().Underlying().(*types.Chan); !isChan {
					return true
				}
				found = true
				// comma-ok lookups of the same field with the same key: their ok variables
				free := false
				okVars := map[types.Object]bool{}
				ast.Inspect(f2.Body, func(q ast.Node) bool {
					a2, ok := q.(*ast.AssignStmt)
					if !ok || len(a2.Lhs) != 2 || len(a2.Rhs) != 1 {
						return true
					}
					i2, ok := ast.Unparen(a2.Rhs[0]).(*ast.IndexExpr)
					if ok && fieldOf(info, i2.X) == fv && types.ExprString(i2.Index) == types.ExprString(ie.Index) {
						if o := identObj(info, a2.Lhs[1]); o != nil {
							okVars[o] = true
						}
					}
					return true
				})
				for _, fc := range factsWithSwitch(parents, as) {
					if o := identObj(info, fc.e); o != nil && okVars[o] && fc.neg {
						free = true
					}
				}
				r.Check(free, key+" ("+p.DeclName(f2)+")", as.Pos(), "inserted only when the slot is free", fmt.Sprintf("the channel of the new call is stored under its number without a test that no pending call holds that number; the numbers have only %d values and come round while calls are waiting: the waiting call's response is delivered to the new call and the waiting call never returns", mask+1))
				return true
			})
		})
		if !found {
			r.Undec(key, fd.Pos(), "no insertion into a table of pending calls found")
		}
	}
}

// ---------------------------------------------------------------------------------------------------

func init() {
	register("S21", "the configured limit is not pushed over the edge: an addition to a value taken from MaxRequestLength (limit+1 for the LimitReader, limit++) stands under a test that the value is below the maximum of its type - with MaxRequestLength = math.MaxInt (the natural spelling of `no limit`) int64(limit)+1 is negative, the LimitReader reads nothing and EVERY request is refused with 400, although all of them are within the limit", 1, ruleS21)
}

func ruleS21(r *Run) {
	p := r.P
	n := 0
	p.EachFunc(func(pkg *packages.Package, fd *ast.FuncDecl) {
		if !strings.HasPrefix(p.RelPkg(pkg.Types), "rpc") {
			return
		}
		info := pkg.TypesInfo
		parents := parentMap(fd.Body)
		// locals that hold the limit
		holds := map[types.Object]bool{}
		ast.Inspect(fd.Body, func(m ast.Node) bool {
			as, ok := m.(*ast.AssignStmt)
			if !ok || len(as.Lhs) != len(as.Rhs) {
				return true
			}
			for i, rhs := range as.Rhs {
				if isMaxReqLen(info, rhs) {
					if o := identObj(info, as.Lhs[i]); o != nil {
						holds[o] = true
					}
				}
			}
			return true
		})
		isLimit := func(e ast.Expr) bool {
			if isMaxReqLen(info, e) {
				return true
			}
			o := identObj(info, stripConv(info, e))
			return o != nil && holds[o]
		}
		k := 0
		check := func(at ast.Node, operand ast.Expr) {
			n++
			k++
			key := fmt.Sprintf("addition to the request limit in %s #%d", p.DeclName(fd), k)
			good := false
			want := types.ExprString(ast.Unparen(stripConv(info, operand)))
			for _, f := range collectFacts(parents, at) {
				be, ok := f.e.(*ast.BinaryExpr)
				if !ok {
					continue
				}
				x, y := types.ExprString(ast.Unparen(stripConv(info, be.X))), types.ExprString(be.Y)
				if x == want && strings.Contains(y, "Max") && (!f.neg && (be.Op == token.LSS || be.Op == token.NEQ) || f.neg && (be.Op == token.GEQ || be.Op == token.EQL)) {
					good = true
				}
			}
			r.Check(good, key, at.Pos(), "under a test against the maximum of the type", "1 is added to the configured limit `"+want+"` without a test that it is below the maximum of its type: with MaxRequestLength = math.MaxInt the sum is negative, the bounded reader reads nothing and every request is refused")
		}
		ast.Inspect(fd.Body, func(m ast.Node) bool {
			switch x := m.(type) {
			case *ast.BinaryExpr:
				if x.Op == token.ADD {
					if _, isC := intConst(info, x.Y); isC && isLimit(x.X) {
						check(x, x.X)
					}
				}
			case *ast.IncDecStmt:
				if x.Tok == token.INC && isLimit(x.X) {
					check(x, x.X)
				}
			case *ast.AssignStmt:
				if x.Tok == token.ADD_ASSIGN && len(x.Lhs) == 1 && isLimit(x.Lhs[0]) {
					check(x, x.Lhs[0])
				}
			}
			return true
		})
	})
	if n == 0 {
		r.Undec("additions to MaxRequestLength", 0, "none found")
	}
}

// ---------------------------------------------------------------------------------------------------

func init() {
	register("U8", "a question is not asked for nothing: a statement that consists of a call to a function of the repository which has results and no effects (its body only reads: no assignment to anything but its own locals, no send, no go/defer, no call of anything but functions of the same kind, len and cap) drops the only thing the call produces - the function that contains it was meant to return or use that value (Decoder.LastReferenceIndex asked the table for its last index, dropped it and returned -1 always)", 0, ruleU8)
}

func ruleU8(r *Run) {
	p := r.P
	memo := map[*types.Func]int{} // 1 pure, 2 not, 3 in progress
	var pure func(f *types.Func, depth int) bool
	pure = func(f *types.Func, depth int) bool {
		if f == nil || !p.InRepo(f) || depth > 3 {
			return false
		}
		switch memo[f] {
		case 1:
			return true
		case 2, 3:
			return false
		}
		memo[f] = 3
		fd := p.Decl(f)
		ok := fd != nil && fd.Body != nil
		if ok {
			info := p.InfoAt(fd.Pos())
			locals := map[types.Object]bool{}
			ast.Inspect(fd, func(m ast.Node) bool {
				if id, isId := m.(*ast.Ident); isId && info != nil {
					if o := info.Defs[id]; o != nil {
						locals[o] = true
					}
				}
				return true
			})
			// the receiver and the parameters are names of the function, what they point to is not
			ast.Inspect(fd.Body, func(m ast.Node) bool {
				if !ok || info == nil {
					return false
				}
				switch x := m.(type) {
				case *ast.AssignStmt:
					for _, l := range x.Lhs {
						if id, isId := ast.Unparen(l).(*ast.Ident); !isId || id.Name != "_" && !locals[identObj(info, id)] {
							ok = false
						}
					}
				case *ast.IncDecStmt:
					if id, isId := ast.Unparen(x.X).(*ast.Ident); !isId || !locals[identObj(info, id)] {
						ok = false
					}
				case *ast.SendStmt, *ast.GoStmt, *ast.DeferStmt, *ast.FuncLit:
					ok = false
				case *ast.UnaryExpr:
					if x.Op == token.ARROW {
						ok = false
					}
				case *ast.CallExpr:
					if _, conv := isConversion(info, x); conv {
						return true
					}
					if IsBuiltin(info, x, "len") || IsBuiltin(info, x, "cap") {
						return true
					}
					if !pure(Callee(info, x), depth+1) {
						ok = false
					}
				}
				return ok
			})
		}
		if ok {
			memo[f] = 1
		} else {
			memo[f] = 2
		}
		return ok
	}
	n := 0
	p.EachFunc(func(pkg *packages.Package, fd *ast.FuncDecl) {
		info := pkg.TypesInfo
		k := 0
		ast.Inspect(fd.Body, func(m ast.Node) bool {
			es, ok := m.(*ast.ExprStmt)
			if !ok {
				return true
			}
			c, ok := ast.Unparen(es.X).(*ast.CallExpr)
			if !ok {
				return true
			}
			f := Callee(info, c)
			if f == nil || !p.InRepo(f) {
				return true
			}
			if sig, _ := f.Type().(*types.Signature); sig == nil || sig.Results().Len() == 0 {
				return true
			}
			if !pure(f, 0) {
				return true
			}
			n++
			k++
			r.Viol(fmt.Sprintf("result of %s dropped in %s #%d", p.FuncName(f), p.DeclName(fd), k), es.Pos(), "the call only reads and its result is thrown away: the statement does nothing, and the function around it does not do what its name says")
			return true
		})
	})
	if n == 0 {
		r.Ok("statements that drop the result of a function without effects", 0, "none")
	}
}

// ---------------------------------------------------------------------------------------------------

func init() {
	register("G64", "the options of a method may be absent: core.Method.Options() returns nil for the missing-method handlers (the suite asserts it), so nothing is called on what it returns without a nil test - a chained call (m.Options().Get(..)) or a call on the local it was assigned to that is neither under `local != nil` nor behind `if local == nil { local = <non-nil> }`. Under the timeout plugin every call served by a missing-method handler ended in a nil-pointer panic instead of the handler's result", 1, ruleG64)
}

func ruleG64(r *Run) {
	p := r.P
	n := 0
	p.EachFunc(func(pkg *packages.Package, fd *ast.FuncDecl) {
		if !strings.HasPrefix(p.RelPkg(pkg.Types), "rpc") {
			return
		}
		info := pkg.TypesInfo
		isOptions := func(e ast.Expr) bool {
			c, ok := ast.Unparen(e).(*ast.CallExpr)
			if !ok || refName(methodName(c)) != "Options" || len(c.Args) != 0 {
				return false
			}
			// the method of the interface core.Method (no static callee) or of one of its implementations
			var f types.Object
			if se, isSel := ast.Unparen(c.Fun).(*ast.SelectorExpr); isSel {
				if s := info.Selections[se]; s != nil {
					f = s.Obj()
				}
			}
			if f == nil || f.Pkg() == nil || !strings.HasSuffix(f.Pkg().Path(), "rpc/core") {
				return false
			}
			sig, _ := f.Type().(*types.Signature)
			return sig != nil && sig.Results().Len() == 1 && strings.HasSuffix(sig.Results().At(0).Type().String(), "core.Dict")
		}
		parents := parentMap(fd.Body)
		// locals that hold the options
		holds := map[types.Object]bool{}
		ast.Inspect(fd.Body, func(m ast.Node) bool {
			if as, ok := m.(*ast.AssignStmt); ok && len(as.Lhs) == len(as.Rhs) {
				for i, rhs := range as.Rhs {
					if isOptions(rhs) {
						if o := identObj(info, as.Lhs[i]); o != nil {
							holds[o] = true
						}
					}
				}
			}
			return true
		})
		k := 0
		ast.Inspect(fd.Body, func(m ast.Node) bool {
			c, ok := m.(*ast.CallExpr)
			if !ok {
				return true
			}
			sel, ok := ast.Unparen(c.Fun).(*ast.SelectorExpr)
			if !ok {
				return true
			}
			chained := isOptions(sel.X)
			o := identObj(info, sel.X)
			if !chained && (o == nil || !holds[o]) {
				return true
			}
			n++
			k++
			key := fmt.Sprintf("options tested against nil in %s #%d", p.DeclName(fd), k)
			if chained {
				r.Viol(key, c.Pos(), "`"+types.ExprString(c.Fun)+"` is called on what Options() returns without a nil test: for a call served by a missing-method handler that is a nil Dict, and the call ends in a nil-pointer panic instead of the handler's result")
				return true
			}
			good := false
			for _, f := range collectFacts(parents, c) {
				if be, ok := f.e.(*ast.BinaryExpr); ok && identObj(info, be.X) == o {
					if id, ok := ast.Unparen(be.Y).(*ast.Ident); ok && id.Name == "nil" && (!f.neg && be.Op == token.NEQ || f.neg && be.Op == token.EQL) {
						good = true
					}
				}
			}
			// ... or repaired in front of the use: if local == nil { local = <something that is not nil> }
			ast.Inspect(fd.Body, func(q ast.Node) bool {
				ifs, ok := q.(*ast.IfStmt)
				if !ok || ifs.End() > c.Pos() || ifs.Else != nil {
					return true
				}
				be, ok := ast.Unparen(ifs.Cond).(*ast.BinaryExpr)
				if !ok || be.Op != token.EQL || identObj(info, be.X) != o {
					return true
				}
				if id, ok := ast.Unparen(be.Y).(*ast.Ident); !ok || id.Name != "nil" {
					return true
				}
				for _, s := range ifs.Body.List {
					if as, ok := s.(*ast.AssignStmt); ok && len(as.Lhs) == 1 && len(as.Rhs) == 1 && identObj(info, as.Lhs[0]) == o {
						if id, isNil := ast.Unparen(as.Rhs[0]).(*ast.Ident); !isNil || id.Name != "nil" {
							if !isOptions(as.Rhs[0]) {
								good = true
							}
						}
					}
				}
				return true
			})
			r.Check(good, key, c.Pos(), "under "+o.Name()+" != nil (or behind its replacement when nil)", "`"+types.ExprString(c.Fun)+"` is called on the options of the method without a nil test: for a call served by a missing-method handler Options() is nil and the call ends in a nil-pointer panic instead of the handler's result")
			return true
		})
	})
	if n == 0 {
		r.Undec("calls on the options of a method", 0, "none found")
	}
}
